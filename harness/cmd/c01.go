//go:build verif

package main

import (
	"bytes"
	"strings"
	"fmt"
	"github.com/google/pprof/internal/transport"
	"io"
	"net/url"
	"os"
	"path/filepath"
	"regexp"
	"sync"
	"time"

	"github.com/google/pprof/internal/driver"
	"github.com/google/pprof/internal/plugin"
	"github.com/google/pprof/profile"
)

// ---- driver-level round trip: pprof -proto output re-read ----
type c01Fetch struct{ p *profile.Profile }

func (f c01Fetch) Fetch(string, time.Duration, time.Duration) (*profile.Profile, string, error) {
	return f.p, "", nil
}

type c01Writer struct{ bufs []*c01WC }
type c01WC struct{ bytes.Buffer }

func (*c01WC) Close() error { return nil }
func (w *c01Writer) Open(string) (io.WriteCloser, error) {
	b := &c01WC{}
	w.bufs = append(w.bufs, b)
	return b, nil
}

// c01FrameView: per sample its values, labels and expanded frames (leaf first): what a reader of the
// profile sees, independent of ids and of unused table entries.
func c01FrameView(p *profile.Profile) Term {
	var ss []Term
	for _, s := range p.Sample {
		var frames []Term
		for _, l := range s.Location {
			var mfile string
			if l.Mapping != nil {
				mfile = l.Mapping.File
			}
			var lines []Term
			for _, ln := range l.Line {
				if ln.Function == nil {
					lines = append(lines, L(S("<nil>")))
					continue
				}
				lines = append(lines, L(S(ln.Function.Name), S(ln.Function.SystemName), S(ln.Function.Filename), Z(ln.Function.StartLine), Z(ln.Line), Z(ln.Column)))
			}
			frames = append(frames, L(ZU(l.Address), S(mfile), Bool(l.IsFolded), L(lines...)))
		}
		d := DumpSample(s).(tL).l
		ss = append(ss, L(L(frames...), d[1], d[2], d[3], d[4]))
	}
	return L(ss...)
}

// c01DriverProtoFile is c01DriverProto through pprof's own output writer (-output=FILE, no Writer
// plug-in): the file may already exist, longer than what is written now, or hold an earlier report.
func c01DriverProtoFile(p *profile.Profile, path string, stale []byte) (out Term) {
	defer func() {
		if r := recover(); r != nil {
			out = L(S("panic"), S(fmt.Sprint(r)))
		}
	}()
	if stale != nil {
		if err := os.WriteFile(path, stale, 0o644); err != nil {
			return L(S("harness-err"), S(err.Error()))
		}
	} else {
		os.Remove(path)
	}
	defer os.Remove(path)
	o := &plugin.Options{
		Flagset: newC09Flags([]string{"-proto", "-symbolize=none", "-output=" + path, "src"}),
		Fetch:   c01Fetch{p.Copy()}, Sym: c09Sym{}, Obj: &c09Obj{}, UI: &c09UI{},
	}
	if err := driver.PProf(o); err != nil {
		return L(S("err"), S(err.Error()))
	}
	b, err := os.ReadFile(path)
	if err != nil {
		return L(S("no-output"))
	}
	q, err := profile.ParseData(b)
	if err != nil {
		return L(S("reparse-err"), S(err.Error()))
	}
	return L(S("ok"), c01FrameView(q))
}

// c01SessionProto runs the real interactive loop on p with the given lines (option assignments and
// `proto >name` / `raw >name` commands) and re-reads the LAST proto file written: every command of a
// session starts from decode(encode(profile)), so a `proto` issued after the filters were cleared
// must show the whole profile whatever ran before.
func c01SessionProto(p *profile.Profile, lines []string, last string) (out Term) {
	defer func() {
		if r := recover(); r != nil {
			out = L(S("panic"), S(fmt.Sprint(r)))
		}
	}()
	restore := driver.VerifGlobals()
	defer restore()
	driver.VerifSetCurrentConfig(driver.VerifDefaultConfig())
	mw := &c10MemWriter{}
	o := driver.VerifSetDefaults(&plugin.Options{UI: &c10UI{lines: lines}, Writer: mw, Sym: c09Sym{}, Obj: &c09Obj{}, HTTPTransport: transport.New(nil)})
	if err := driver.VerifInteractive(p.Copy(), o); err != nil {
		return L(S("err"), S(err.Error()))
	}
	mw.mu.Lock()
	buf := mw.buf[last]
	mw.mu.Unlock()
	if buf == nil {
		return L(S("no-output"))
	}
	q, err := profile.ParseData(buf.Bytes())
	if err != nil {
		return L(S("reparse-err"), S(err.Error()))
	}
	return L(S("ok"), c01FrameView(q))
}

func c01DriverProto(p *profile.Profile) (out Term) {
	defer func() {
		if r := recover(); r != nil {
			out = L(S("panic"), S(fmt.Sprint(r)))
		}
	}()
	w := &c01Writer{}
	o := &plugin.Options{
		Flagset: newC09Flags([]string{"-proto", "-symbolize=none", "-output=out.pb", "src"}),
		Fetch:   c01Fetch{p.Copy()}, Sym: c09Sym{}, Obj: &c09Obj{}, UI: &c09UI{}, Writer: w,
	}
	if err := driver.PProf(o); err != nil {
		return L(S("err"), S(err.Error()))
	}
	if len(w.bufs) == 0 {
		return L(S("no-output"))
	}
	q, err := profile.ParseData(w.bufs[len(w.bufs)-1].Bytes())
	if err != nil {
		return L(S("reparse-err"), S(err.Error()))
	}
	return L(S("ok"), c01FrameView(q))
}

// c01AbsURLFiles is the oracle for Go's URL parser used by the driver's unsourceMappings: the
// mapping file names that url.Parse accepts as absolute URLs (and that carry no volume name).
// c01GzSame builds a large, highly redundant profile and compares what Parse returns for its
// compressed and its uncompressed serialization.
func c01GzSame(kind string, n int) (out Term) {
	defer func() {
		if r := recover(); r != nil {
			out = L(S("panic"), S(fmt.Sprint(r)))
		}
	}()
	f := &profile.Function{ID: 1, Name: "rec", SystemName: "rec", Filename: "rec.go"}
	m := &profile.Mapping{ID: 1, Start: 0x1000, Limit: 0x900000, File: "/bin/rec", HasFunctions: true}
	l := &profile.Location{ID: 1, Mapping: m, Address: 0x1010, Line: []profile.Line{{Function: f, Line: 7}}}
	p := &profile.Profile{SampleType: []*profile.ValueType{{Type: "samples", Unit: "count"}, {Type: "cpu", Unit: "nanoseconds"}},
		Function: []*profile.Function{f}, Mapping: []*profile.Mapping{m}, Location: []*profile.Location{l}}
	switch kind {
	case "deep-recursion":
		st := make([]*profile.Location, n)
		for i := range st {
			st[i] = l
		}
		p.Sample = []*profile.Sample{{Location: st, Value: []int64{1, 10}}}
	case "identical-samples":
		for i := 0; i < n; i++ {
			p.Sample = append(p.Sample, &profile.Sample{Location: []*profile.Location{l, l}, Value: []int64{1, 10}})
		}
	case "long-comment":
		p.Comments = []string{strings.Repeat("a", n)}
		p.Sample = []*profile.Sample{{Location: []*profile.Location{l}, Value: []int64{1, 10}}}
	case "many-locations":
		for i := 1; i < n; i++ {
			p.Location = append(p.Location, &profile.Location{ID: uint64(i + 1), Mapping: m, Address: 0x1010 + uint64(i)*16, Line: []profile.Line{{Function: f, Line: 7}}})
		}
		p.Sample = []*profile.Sample{{Location: p.Location, Value: []int64{1, 10}}}
	}
	var gz, raw bytes.Buffer
	if err := p.Write(&gz); err != nil {
		return L(S("write-err"), S(err.Error()))
	}
	if err := p.WriteUncompressed(&raw); err != nil {
		return L(S("write-err"), S(err.Error()))
	}
	q1, err1 := profile.Parse(bytes.NewReader(gz.Bytes()))
	q2, err2 := profile.Parse(bytes.NewReader(raw.Bytes()))
	if err1 != nil || err2 != nil {
		return L(S("parse-err"), S(fmt.Sprint(err1)), S(fmt.Sprint(err2)), Z(int64(gz.Len())), Z(int64(raw.Len())))
	}
	if q1.String() != q2.String() {
		return L(S("ok"), S("differ"))
	}
	if len(q1.Sample) != len(p.Sample) || len(q1.Sample[0].Location) != len(p.Sample[0].Location) || len(q1.Location) != len(p.Location) {
		return L(S("ok"), S("truncated"))
	}
	return L(S("ok"), S("same"))
}

func c01AbsURLFiles(p *profile.Profile) Term {
	var out []string
	seen := map[string]bool{}
	for _, m := range p.Mapping {
		if seen[m.File] || filepath.VolumeName(m.File) != "" {
			continue
		}
		seen[m.File] = true
		if u, err := url.Parse(m.File); err == nil && u.IsAbs() {
			out = append(out, m.File)
		}
	}
	return Ss(out)
}

func init() {
	registry["C01"] = runC01
}

func c01ErrClass(err error) string {
	if err == nil {
		return "ok"
	}
	switch err.Error() {
	case "empty input file":
		return "nodata"
	case "concatenated profiles detected":
		return "concat"
	}
	return "err"
}

func c01Serialize(p *profile.Profile) (b []byte, panicked bool) {
	defer func() {
		if r := recover(); r != nil {
			panicked = true
		}
	}()
	var buf bytes.Buffer
	if err := p.WriteUncompressed(&buf); err != nil {
		return nil, true
	}
	return buf.Bytes(), false
}

// parseObs: ParseUncompressed result + what happens when the result is written and parsed again.
func c01ParseObs(data []byte) Term {
	var out Term
	func() {
		defer func() {
			if r := recover(); r != nil {
				out = L(S("panic"), S(fmt.Sprint(r)))
			}
		}()
		q, err := profile.ParseUncompressed(data)
		if err != nil {
			out = L(S(c01ErrClass(err)))
			return
		}
		d1 := DumpProfile(q)
		b2, pan := c01Serialize(q)
		if pan {
			out = L(S("ok"), d1, L(S("reserialize-panic")))
			return
		}
		q2, err := profile.ParseUncompressed(b2)
		if err != nil {
			out = L(S("ok"), d1, L(S("reparse-"+c01ErrClass(err)), S(string(b2))))
			return
		}
		b3, _ := c01Serialize(q2)
		out = L(S("ok"), d1, L(S("ok"), S(string(b2)), DumpProfile(q2), S(string(b3))))
	}()
	return out
}

func c01Knobs(r *Rng) Knobs {
	k := DefaultKnobs()
	k.Meta = r.P(1, 3)
	k.MaxSamples = 1 + r.Intn(5)
	k.MaxLocs = 1 + r.Intn(5)
	k.MaxLines = 1 + r.Intn(3)
	k.Unsymbolized = r.Bool()
	k.MinSampleTypes = 0
	k.MaxSampleTypes = 3
	return k
}

// valueListProfile: a one-sample profile whose location list and value list have chosen lengths
// (the packed/unpacked switch is at length 3) and extreme contents.
func c01ValueListProfile(r *Rng, nloc, nval int) *profile.Profile {
	p := &profile.Profile{}
	ext := []int64{0, 1, -1, 127, 128, 1 << 31, -(1 << 31), 1<<63 - 1, -(1 << 63), 16383, 16384}
	for i := 0; i < nval; i++ {
		p.SampleType = append(p.SampleType, &profile.ValueType{Type: fmt.Sprintf("t%d", i), Unit: "u"})
	}
	f := &profile.Function{ID: 1<<63 + 5, Name: "f"}
	p.Function = []*profile.Function{f}
	s := &profile.Sample{}
	for i := 0; i < nloc; i++ {
		id := uint64(i + 1)
		if r.P(1, 3) {
			id = 1<<63 + uint64(i) + 7
		}
		if r.P(1, 5) {
			id = ^uint64(0) - uint64(i)
		}
		l := &profile.Location{ID: id, Address: r.U64() >> uint(r.Intn(64)), Line: []profile.Line{{Function: f, Line: PickI(r, ext), Column: PickI(r, ext)}}}
		p.Location = append(p.Location, l)
		s.Location = append(s.Location, l)
	}
	for i := 0; i < nval; i++ {
		s.Value = append(s.Value, PickI(r, ext))
	}
	if nval > 0 || nloc > 0 {
		p.Sample = []*profile.Sample{s}
	}
	if nval == 0 {
		p.Sample = nil
	}
	p.Period = PickI(r, ext)
	p.TimeNanos = PickI(r, ext)
	p.DurationNanos = PickI(r, ext)
	return p
}

func c01Mutate(r *Rng, b []byte) []byte {
	c := append([]byte(nil), b...)
	if len(c) == 0 {
		return c
	}
	switch r.Intn(7) {
	case 0: // truncate
		return c[:r.Intn(len(c))]
	case 1: // bit flip
		i := r.Intn(len(c))
		c[i] ^= 1 << uint(r.Intn(8))
	case 2: // byte replace
		c[r.Intn(len(c))] = byte(r.Intn(256))
	case 3: // +-1
		i := r.Intn(len(c))
		if r.Bool() {
			c[i]++
		} else {
			c[i]--
		}
	case 4: // delete a byte
		i := r.Intn(len(c))
		c = append(c[:i], c[i+1:]...)
	case 5: // insert a byte
		i := r.Intn(len(c))
		c = append(c[:i], append([]byte{byte(r.Intn(256))}, c[i:]...)...)
	case 6: // duplicate a slice (concatenation-like)
		i := r.Intn(len(c))
		j := i + r.Intn(len(c)-i)
		c = append(c, c[i:j]...)
	}
	return c
}

func PickU64(r *Rng, l []uint64) uint64 { return l[r.Intn(len(l))] }

func c01FieldSoup(r *Rng) []byte {
	var b []byte
	putv := func(x uint64) {
		for x >= 128 {
			b = append(b, byte(x)|0x80)
			x >>= 7
		}
		b = append(b, byte(x))
	}
	n := r.Intn(8)
	for i := 0; i < n; i++ {
		tag := uint64(r.Intn(18))
		typ := uint64(PickI(r, []int64{0, 0, 2, 2, 2, 1, 5, 3, 7}))
		putv(tag<<3 | typ)
		switch typ {
		case 0:
			putv(r.U64() >> uint(r.Intn(64)))
		case 1:
			for j := 0; j < 8-r.Intn(2); j++ {
				b = append(b, byte(r.Intn(256)))
			}
		case 5:
			for j := 0; j < 4; j++ {
				b = append(b, byte(r.Intn(256)))
			}
		case 2:
			ln := r.Intn(6)
			if r.P(1, 10) { // absurd declared lengths: beyond the data, beyond int64
				putv(PickU64(r, []uint64{1 << 63, 1<<63 + 1, ^uint64(0), 1 << 62, 1<<32 + 5, 1 << 31}))
				for j := 0; j < ln; j++ {
					b = append(b, byte(r.Intn(256)))
				}
				continue
			}
			putv(uint64(ln))
			if tag == 6 && r.P(2, 3) {
				ln = 0
				b[len(b)-1] = 0
			}
			for j := 0; j < ln; j++ {
				b = append(b, byte(r.Intn(256)))
			}
		}
	}
	return b
}

func runC01(c *Ctx) {
	r := c.R
	serCase := func(gen string, p *profile.Profile, nt bool, tags ...string) []byte {
		in := DumpProfile(p)
		b, pan := c01Serialize(p)
		if pan {
			c.Case(gen, L(S("ser"), in), L(S("panic")), nt, append(tags, "ser:panic")...)
			return nil
		}
		c.Case(gen, L(S("ser"), in), L(S("ok"), S(string(b))), nt, append(tags, "op:ser")...)
		return b
	}
	rtCase := func(gen string, p *profile.Profile, nt bool) {
		if p.CheckValid() != nil {
			return
		}
		in := DumpProfile(p)
		var obs Term
		func() {
			defer func() {
				if rec := recover(); rec != nil {
					obs = L(S("panic"), S(fmt.Sprint(rec)))
				}
			}()
			var buf bytes.Buffer
			if err := p.Write(&buf); err != nil {
				obs = L(S("write-err"))
				return
			}
			q, err := profile.Parse(&buf)
			if err != nil {
				obs = L(S("parse-err"), S(err.Error()))
				return
			}
			cp := p.Copy()
			obs = L(S("ok"), DumpProfile(q), DumpProfile(cp))
		}()
		c.Case(gen, L(S("rt"), in), obs, nt, "op:rt")
	}
	nontriv := func(p *profile.Profile) bool {
		for _, s := range p.Sample {
			if len(s.Label)+len(s.NumLabel) > 0 || len(s.Location) >= 2 {
				return true
			}
		}
		return false
	}
	// VERIF_ONLY=history (set when another property reuses this harness for its "however often it
	// has been run in the session" clause) runs the history streams alone
	histories := func() {
		// 1b. histories on ONE profile object: write/copy (or parse) leaves the encoder's scratch fields
		// populated; labels are then removed or replaced and the profile is written again
		for i := 0; i < c.Budget(150, 6000); i++ {
			p := GenProfile(r, c01Knobs(r))
			if p.CheckValid() != nil {
				continue
			}
			b1, pan := c01Serialize(p)
			if pan {
				continue
			}
			if r.Bool() {
				if q, err := profile.ParseUncompressed(b1); err == nil {
					p = q
				}
			} else if r.Bool() {
				_ = p.Copy()
			}
			for _, s := range p.Sample {
				switch r.Intn(4) {
				case 0:
					s.Label, s.NumLabel, s.NumUnit = nil, nil, nil
				case 1:
					s.Label = map[string][]string{"fresh": {"x" + fmt.Sprint(i)}}
				case 2:
					s.NumLabel, s.NumUnit = map[string][]int64{"n": {int64(i) + 1}}, nil
				}
			}
			if b := serCase("history", p, true, "history:labels-edited-after-write"); b != nil {
				rtCase("history", p, true)
			}
		}
		// 1b'. the same, editing the structure instead: detach or swap a location's mapping, point a line
		// at another function, shorten a stack, drop a sample, rename a string -- what is written next
		// must be a function of the profile's content, not of what was written before
		for i := 0; i < c.Budget(150, 6000); i++ {
			k := c01Knobs(r)
			p := GenProfile(r, k)
			if p.CheckValid() != nil || len(p.Location) == 0 {
				continue
			}
			b1, pan := c01Serialize(p)
			if pan {
				continue
			}
			switch r.Intn(3) {
			case 0:
				if q, err := profile.ParseUncompressed(b1); err == nil && len(q.Location) > 0 {
					p = q
				}
			case 1:
				_ = p.Copy()
			}
			tag := ""
			for n := 1 + r.Intn(3); n > 0; n-- {
				switch r.Intn(6) {
				case 0:
					p.Location[r.Intn(len(p.Location))].Mapping = nil
					tag += "+detach-mapping"
				case 1:
					if len(p.Mapping) > 0 {
						p.Location[r.Intn(len(p.Location))].Mapping = p.Mapping[r.Intn(len(p.Mapping))]
						tag += "+swap-mapping"
					}
				case 2:
					l := p.Location[r.Intn(len(p.Location))]
					if len(l.Line) > 0 && len(p.Function) > 0 {
						l.Line[r.Intn(len(l.Line))].Function = p.Function[r.Intn(len(p.Function))]
						tag += "+swap-function"
					}
				case 3:
					if len(p.Sample) > 0 {
						sm := p.Sample[r.Intn(len(p.Sample))]
						if len(sm.Location) > 0 {
							sm.Location = sm.Location[:r.Intn(len(sm.Location))]
							tag += "+shorten-stack"
						}
					}
				case 4:
					if len(p.Sample) > 1 {
						j := r.Intn(len(p.Sample))
						p.Sample = append(p.Sample[:j:j], p.Sample[j+1:]...)
						tag += "+drop-sample"
					}
				case 5:
					if len(p.Function) > 0 {
						f := p.Function[r.Intn(len(p.Function))]
						f.Name, f.Filename = "renamed"+fmt.Sprint(i), ""
						tag += "+rename"
					}
				}
			}
			if p.CheckValid() != nil {
				continue
			}
			if b := serCase("history", p, true, "history:structure-edited-after-write", "edit:"+tag); b != nil {
				rtCase("history", p, true)
			}
		}
	}
	if os.Getenv("VERIF_ONLY") == "history" {
		histories()
		return
	}
	var pool [][]byte
	// 1. generated valid profiles
	n := c.Budget(500, 20000)
	for i := 0; i < n; i++ {
		p := GenProfile(r, c01Knobs(r))
		if b := serCase("gen", p, nontriv(p)); b != nil {
			if len(pool) < 400 {
				pool = append(pool, b)
			}
			c.Case("gen", L(S("parse"), S(string(b))), c01ParseObs(b), nontriv(p), "op:parse", "parse:valid-encoding")
			rtCase("gen", p, nontriv(p))
		}
	}
	histories()
	// 1b''. concurrent Write/Copy of ONE profile object (web handlers copy the loaded profile
	// concurrently): serialization is one critical section, so every goroutine must get exactly the
	// bytes a lone writer gets (the model's bytes for the profile's content)
	for i := 0; i < c.Budget(6, 200); i++ {
		p := GenProfile(r, c01Knobs(r))
		if p.CheckValid() != nil || len(p.Sample) == 0 {
			continue
		}
		for len(p.Sample) < 120 { // make one encoding long enough for writers to overlap
			p.Sample = append(p.Sample, p.Sample[:len(p.Sample):len(p.Sample)]...)
		}
		ref, pan := c01Serialize(p)
		if pan {
			continue
		}
		in := DumpProfile(p)
		pc := p.Copy() // a lone Copy and its bytes: the reference for the concurrent copies
		inC := DumpProfile(pc)
		refC, _ := c01Serialize(pc)
		odd := make(chan Term, 64)
		oddC := make(chan Term, 64)
		var wg sync.WaitGroup
		for g := 0; g < 8; g++ {
			wg.Add(1)
			go func(g int) {
				defer wg.Done()
				defer func() {
					if rec := recover(); rec != nil {
						select {
						case odd <- L(S("panic")):
						default:
						}
					}
				}()
				for k := 0; k < 40; k++ {
					if (g+k)%3 == 0 {
						q := p.Copy()
						if b, _ := c01Serialize(q); !bytes.Equal(b, refC) {
							select {
							case oddC <- L(S("ok"), S(string(b))):
							default:
							}
						}
					} else if b, _ := c01Serialize(p); !bytes.Equal(b, ref) {
						select {
						case odd <- L(S("ok"), S(string(b))):
						default:
						}
					}
				}
			}(g)
		}
		wg.Wait()
		obs := L(S("ok"), S(string(ref)))
		select {
		case obs = <-odd:
		default:
		}
		c.Case("concurrent-ser", L(S("ser"), in), obs, true, "op:ser", "concurrent:8x40")
		obsC := L(S("ok"), S(string(refC)))
		select {
		case obsC = <-oddC:
		default:
		}
		c.Case("concurrent-ser", L(S("ser"), inC), obsC, true, "op:ser", "concurrent:copy")
	}
	// 1b'. compression is transparent whatever the size and redundancy of the profile: Parse(Write(p)) and
	// Parse(WriteUncompressed(p)) give the same profile for serializations that compress extremely well
	// (one deep stack of a single location, many identical samples, a huge run of one character) - the
	// shapes a decompression limit, a buffer-size heuristic or a streaming reader would trip over
	for _, sh := range []struct {
		kind string
		n    int
	}{{"deep-recursion", 200000}, {"identical-samples", 100000}, {"long-comment", 3000000}, {"many-locations", 60000}, {"deep-recursion", 1000}} {
		c.Case("gzip-transparent", L(S("gzsame"), S(sh.kind), Z(int64(sh.n))), c01GzSame(sh.kind, sh.n), true, "op:gzsame", "gz:"+sh.kind)
	}

	// 1b''. locations with MANY inlined lines (1, 15..18, 31..33, 40, 200) followed by other locations: the
	// decoder's scratch space for lines is shared between the locations of one message
	for _, nl := range []int{1, 15, 16, 17, 18, 31, 32, 33, 40, 200} {
		p := &profile.Profile{SampleType: []*profile.ValueType{{Type: "samples", Unit: "count"}}}
		m := &profile.Mapping{ID: 1, Start: 0x1000, Limit: 0x9000, File: "/bin/deep", HasFunctions: true, HasInlineFrames: true}
		p.Mapping = []*profile.Mapping{m}
		mkf := func(name string) *profile.Function {
			f := &profile.Function{ID: uint64(len(p.Function) + 1), Name: name, SystemName: name, Filename: name + ".go", StartLine: int64(len(p.Function) + 1)}
			p.Function = append(p.Function, f)
			return f
		}
		mkl := func(n int, tag string) *profile.Location {
			l := &profile.Location{ID: uint64(len(p.Location) + 1), Mapping: m, Address: 0x1000 + uint64(len(p.Location))*64}
			for k := 0; k < n; k++ {
				l.Line = append(l.Line, profile.Line{Function: mkf(fmt.Sprintf("%s%d", tag, k)), Line: int64(10 + k), Column: int64(k % 3)})
			}
			p.Location = append(p.Location, l)
			return l
		}
		a, b2, d := mkl(2, "pre"), mkl(nl, "deep"), mkl(1, "post")
		e := mkl(3, "tail")
		p.Sample = []*profile.Sample{{Location: []*profile.Location{d, b2, a}, Value: []int64{int64(nl)}}, {Location: []*profile.Location{e, b2}, Value: []int64{7}}}
		rtCase("deep-inline", p, true)
		if bs, pan := c01Serialize(p); !pan {
			c.Case("deep-inline", L(S("parse"), S(string(bs))), c01ParseObs(bs), true, "op:parse", fmt.Sprintf("inline-lines:%d", nl))
		}
	}

	// 1c. pprof -proto through the driver, re-read: every sample keeps its frames (names, files, lines,
	// columns, addresses), values and labels
	for i := 0; i < c.Budget(120, 4000); i++ {
		k := c01Knobs(r)
		k.Header = false
		k.MinSampleTypes = 1
		p := GenProfile(r, k)
		if p.CheckValid() != nil || len(p.Sample) == 0 {
			continue
		}
		for j, st := range p.SampleType { // the driver wants distinct sample type names
			st.Type = fmt.Sprintf("%s%d", st.Type, j)
		}
		if r.P(1, 3) && len(p.Mapping) > 0 { // file names that look like URLs, with and without a build id
			m := p.Mapping[r.Intn(len(p.Mapping))]
			m.File = PickS(r, []string{"file:1", "http://h/x", "c:/srv/app/server.exe", "app://x/lib.so", "file:///usr/bin/x", "x:y", "/tmp/build-100%/bin/server", ":foo", "http://[::1"})
			m.BuildID = PickS(r, []string{"", "", "abc123", "0123456789abcdef"})
		}
		c.Case("driver-proto", L(S("driverproto"), DumpProfile(p), c01AbsURLFiles(p)), c01DriverProto(p), true, "op:driverproto")
		if i%4 == 0 { // the same through pprof's file writer, over a file that already exists
			var stale []byte
			switch r.Intn(3) {
			case 0: // a longer earlier report
				big := GenProfile(r, c01Knobs(r))
				for len(big.Sample) > 0 && len(big.Sample) < 300 {
					big.Sample = append(big.Sample, big.Sample[:len(big.Sample):len(big.Sample)]...)
				}
				var buf bytes.Buffer
				if big.CheckValid() == nil && big.Write(&buf) == nil {
					stale = buf.Bytes()
				}
			case 1: // junk, longer than any report here
				stale = bytes.Repeat([]byte{0xAB, 0x1f, 0x8b, 0}, 20000)
			}
			c.Case("driver-proto-file", L(S("driverproto"), DumpProfile(p), c01AbsURLFiles(p)),
				c01DriverProtoFile(p, fmt.Sprintf("c01out_%d.pb.gz", i), stale), true, "op:driverproto", fmt.Sprintf("stale:%d", len(stale)))
		}
	}
	// 1d. the same observation inside an interactive session: option assignments, filtered and scaled
	// proto/raw/top commands, then the options cleared and a final `proto`
	for i := 0; i < c.Budget(40, 1500); i++ {
		k := c01Knobs(r)
		k.Header = false
		k.MinSampleTypes = 1
		p := GenProfile(r, k)
		if p.CheckValid() != nil || len(p.Sample) == 0 {
			continue
		}
		for j, st := range p.SampleType {
			st.Type = fmt.Sprintf("%s%d", st.Type, j)
		}
		if i%3 == 0 && len(p.Mapping) > 0 { // a URL-looking mapping name without build id: kept as it is inside a session
			m := p.Mapping[r.Intn(len(p.Mapping))]
			m.File, m.BuildID = PickS(r, []string{"file:1", "http://h/x", "x:y"}), ""
		}
		fn := "."
		if len(p.Function) > 0 {
			fn = regexp.QuoteMeta(p.Function[r.Intn(len(p.Function))].Name)
		}
		pre := [][]string{
			{"focus=" + fn, "proto >a.pb", "focus="},
			{"divide_by=4", "proto >a.pb", "divide_by=1"},
			{"hide=" + fn, "raw >a.txt", "hide="},
			{"tagroot=k", "proto >a.pb", "tagroot="},
			{"proto " + fn + " >a.pb"},
			{"ignore=" + fn, "top >a.txt", "proto >a.pb", "ignore="},
			{},
		}[i%7]
		lines := append(append([]string{}, pre...), "proto >b.pb")
		// the session gets the profile as fetchProfiles would hand it over: no mapping is un-sourced on this
		// path (that happens once, during the fetch), so the list of URL-looking files is empty here
		c.Case("session-proto", L(S("driverproto"), DumpProfile(p), Ss(nil)), c01SessionProto(p, lines, "b.pb"), true,
			"op:driverproto", fmt.Sprintf("history:%d", i%7))
	}
	{ // witness of F34, always generated: a build-id-less mapping whose file name looks like a URL
		p := &profile.Profile{SampleType: []*profile.ValueType{{Type: "samples", Unit: "count"}}}
		m := &profile.Mapping{ID: 1, Start: 0x1000, Limit: 0x2000, File: "file:1"}
		l := &profile.Location{ID: 1, Mapping: m, Address: 0x1800}
		p.Mapping, p.Location = []*profile.Mapping{m}, []*profile.Location{l}
		p.Sample = []*profile.Sample{{Location: []*profile.Location{l}, Value: []int64{1}}}
		c.Case("finding-F34", L(S("driverproto"), DumpProfile(p), c01AbsURLFiles(p)), c01DriverProto(p), true, "op:driverproto")
	}
	// 2. list lengths around the packed switch, extreme values, huge ids (exhaustive lengths 0..5)
	for nloc := 0; nloc <= 5; nloc++ {
		for nval := 0; nval <= 5; nval++ {
			for rep := 0; rep < c.Budget(2, 40); rep++ {
				p := c01ValueListProfile(r, nloc, nval)
				if b := serCase("lists", p, true, fmt.Sprintf("lists:%d/%d", nloc, nval)); b != nil {
					c.Case("lists", L(S("parse"), S(string(b))), c01ParseObs(b), true, "op:parse")
					rtCase("lists", p, true)
				}
			}
		}
	}
	// 3. in-memory profiles that violate the NumUnit length contract (documented invalid): panic expected
	for i := 0; i < 6; i++ {
		p := GenProfile(r, c01Knobs(r))
		p.SampleType = []*profile.ValueType{{Type: "a", Unit: "b"}}
		s := &profile.Sample{Value: []int64{1}, NumLabel: map[string][]int64{"k": {1, 2, 3}}, NumUnit: map[string][]string{"k": []string{"x", "y"}[:1+i%2]}}
		p.Sample = append(p.Sample, s)
		for _, o := range p.Sample {
			for len(o.Value) < 1 {
				o.Value = append(o.Value, 0)
			}
			o.Value = o.Value[:1]
		}
		serCase("short-units", p, true)
	}
	// 4. hostile bytes: mutations of valid encodings, field soups, edge inputs
	m := c.Budget(1200, 60000)
	for i := 0; i < m && len(pool) > 0; i++ {
		b := c01Mutate(r, pool[r.Intn(len(pool))])
		if r.P(1, 4) {
			b = c01Mutate(r, b)
		}
		c.Case("mutated", L(S("parse"), S(string(b))), c01ParseObs(b), len(b) > 8, "op:parse", "parse:mutated")
	}
	for i := 0; i < c.Budget(600, 30000); i++ {
		b := c01FieldSoup(r)
		c.Case("soup", L(S("parse"), S(string(b))), c01ParseObs(b), len(b) > 4, "op:parse", "parse:soup")
	}
	for _, b := range [][]byte{{}, {0}, {0x32, 0}, {0x32, 1, 'a'}, {0x48, 1, 0x48, 2}, {0x32, 0, 0x48, 5, 0x48, 0},
		{0x0a, 0x80, 0x80, 0x80, 0x80, 0x80, 0x80, 0x80, 0x80, 0x80, 0x01}, {0x0a, 0xff, 0xff, 0xff, 0xff, 0xff, 0xff, 0xff, 0xff, 0xff, 0x01, 0},
		{0x32, 0, 0x12, 2, 0x1a, 0}, {0x32, 0, 0x12, 4, 0x08, 0x80, 0x80, 0x01}} {
		c.Case("edge", L(S("parse"), S(string(b))), c01ParseObs(b), true, "op:parse")
	}
}
