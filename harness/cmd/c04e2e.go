//go:build verif

package main

// End-to-end layer of C04 / C05: the same generated profiles and option sets are pushed through the
// real entry points -- driver.PProf with a flag set (parseFlags, fetch through a Fetcher plug-in,
// merge, symbolize, report, write through a plugin.Writer), an interactive session (assignments and
// `cmd args >file` lines read by the real command loop) and the web handlers (httptest against the
// handlers serveWebInterface registers) -- and what is printed is parsed back.

import (
	"bytes"
	"encoding/json"
	"fmt"
	"io"
	"net/http/httptest"
	"net/url"
	"regexp"
	"strconv"
	"strings"

	"github.com/google/pprof/internal/driver"
	"github.com/google/pprof/internal/plugin"
	"github.com/google/pprof/internal/report"
	"github.com/google/pprof/profile"
)

type c04UI struct {
	lines []string
	idx   int
	errs  []string
}

func (u *c04UI) ReadLine(string) (string, error) {
	if u.idx >= len(u.lines) {
		return "", io.EOF
	}
	s := u.lines[u.idx]
	u.idx++
	return s, nil
}
func (u *c04UI) Print(...interface{}) {}
func (u *c04UI) PrintErr(args ...interface{}) {
	u.errs = append(u.errs, fmt.Sprint(args...))
}
func (u *c04UI) IsTerminal() bool                    { return false }
func (u *c04UI) WantBrowser() bool                   { return false }
func (u *c04UI) SetAutoComplete(func(string) string) {}

type c04WC struct {
	bytes.Buffer
	name string
	w    *c04Writer
}

func (c *c04WC) Close() error { c.w.files[c.name] = c.String(); return nil }

type c04Writer struct{ files map[string]string }

func (w *c04Writer) Open(name string) (io.WriteCloser, error) {
	return &c04WC{name: name, w: w}, nil
}

type c04E2EError struct{ msg string }

func (e c04E2EError) Error() string { return e.msg }

// c04Flag renders one config assignment as a command-line flag: multi-choice fields (granularity,
// sort) have one boolean flag per choice.
func c04Flag(name, value string) string {
	switch name {
	case "granularity", "sort":
		return "-" + value
	}
	return "-" + name + "=" + value
}

var c04URLParam = map[string]string{
	"drop_negative": "dropneg", "call_tree": "calltree", "nodecount": "n", "nodefraction": "nf", "edgefraction": "ef",
	"trim": "trim", "mean": "mean", "sample_index": "si", "sort": "sort", "granularity": "g", "noinlines": "noinlines",
	"showcolumns": "showcolumns",
}

// c04WebOK: every option of o can be expressed in a URL (tagroot/tagleaf, source_path, trim_path
// and the legacy sample-index flags cannot; they are given on the command line of the web session)
func (o c04Opts) cliOnly() [][2]string {
	var a [][2]string
	if o.TagRoot != "" {
		a = append(a, [2]string{"tagroot", o.TagRoot})
	}
	if o.TagLeaf != "" {
		a = append(a, [2]string{"tagleaf", o.TagLeaf})
	}
	if o.SourcePath != "" {
		a = append(a, [2]string{"source_path", o.SourcePath})
	}
	if o.TrimPath != "" {
		a = append(a, [2]string{"trim_path", o.TrimPath})
	}
	return a
}

var c04TopJSONRx = regexp.MustCompile(`makeTopTable\(\s*(-?\d+)\s*,\s*(.*)\);`)

// c04E2E runs one report through the entry point o.Via names and returns the text it produced.
// The profile reaches the driver through a Fetcher plug-in as serialized bytes.
func c04E2E(p *profile.Profile, o c04Opts) (string, error) {
	driver.VerifC09Reset()
	var buf bytes.Buffer
	if err := p.Write(&buf); err != nil {
		panic("harness: cannot serialize profile: " + err.Error())
	}
	ui := &c04UI{}
	wr := &c04Writer{files: map[string]string{}}
	opt := &plugin.Options{UI: ui, Obj: &c09Obj{}, Sym: c09Sym{}, Writer: wr, Fetch: c09Fetch{buf.Bytes()},
		HTTPTransport: c09NoNet{}, HTTPServer: func(*plugin.HTTPServerArgs) error { return nil }}
	var legacy []string
	for _, l := range o.Legacy {
		legacy = append(legacy, "-"+l)
	}
	switch o.Via {
	case "", "cli":
		args := []string{"-" + o.cmdName()}
		for _, a := range o.assign() {
			args = append(args, c04Flag(a[0], a[1]))
		}
		args = append(args, legacy...)
		args = append(args, "-output=out", "p")
		opt.Flagset = newC09Flags(args)
		if err := driver.PProf(opt); err != nil {
			return "", err
		}
	case "session":
		// persistent assignments, then the command with its own arguments; a second command follows
		// to show that the first one's arguments did not stick (observed by the caller through o2)
		lines := append([]string{}, o.Pre...)
		for _, a := range o.assign() {
			lines = append(lines, a[0]+"="+a[1])
		}
		cmd := o.cmdName()
		if o.HasArg {
			cmd += " " + strconv.Itoa(o.Arg)
		}
		lines = append(lines, cmd+" >out")
		ui.lines = lines
		opt.Flagset = newC09Flags(append(legacy, "p"))
		if err := driver.PProf(opt); err != nil {
			return "", err
		}
		if _, ok := wr.files["out"]; !ok {
			return "", c04E2EError{strings.Join(ui.errs, "\n")}
		}
	case "web":
		q := url.Values{}
		var args []string
		for _, a := range o.assign() {
			if up, ok := c04URLParam[a[0]]; ok {
				q.Set(up, a[1])
			} else {
				args = append(args, c04Flag(a[0], a[1]))
			}
		}
		args = append(args, legacy...)
		var body string
		var code int
		opt.HTTPServer = func(a *plugin.HTTPServerArgs) error {
			h := a.Handlers["/top"]
			// earlier requests of the same web session, one of them failing: nothing may stick
			for _, dq := range []string{"n=1&nf=0.9&sort=cum&g=files", "si=nosuch_zz"} {
				dreq := httptest.NewRequest("GET", "http://localhost/top?"+dq, nil)
				h.ServeHTTP(httptest.NewRecorder(), dreq)
			}
			req := httptest.NewRequest("GET", "http://localhost/top", nil)
			req.URL.RawQuery = q.Encode()
			w := httptest.NewRecorder()
			h.ServeHTTP(w, req)
			code, body = w.Code, w.Body.String()
			return nil
		}
		opt.Flagset = newC09Flags(append(append([]string{"-http=localhost:0"}, args...), "p"))
		if err := driver.PProf(opt); err != nil {
			return "", err
		}
		if code != 200 {
			return "", c04E2EError{body}
		}
		return body, nil
	default:
		panic("unknown entry point " + o.Via)
	}
	return wr.files["out"], nil
}

// c04WebTop parses the /top page: makeTopTable(TOTAL, [rows as JSON]).
func c04WebTop(html string) Term {
	m := c04TopJSONRx.FindStringSubmatch(html)
	if m == nil {
		panic("harness: makeTopTable(...) not found in the /top page")
	}
	var items []report.TextItem
	if err := json.Unmarshal([]byte(m[2]), &items); err != nil {
		panic("harness: /top rows are not JSON: " + err.Error())
	}
	var rows []Term
	var shown int64
	for _, it := range items {
		rows = append(rows, L(S(it.Name), S(it.InlineLabel), Z(it.Flat), Z(it.Cum)))
		shown += it.Flat
	}
	return L(S("ok"), Z(atoi64(m[1])), Z(shown), L(rows...))
}
