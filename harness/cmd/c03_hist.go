//go:build verif

package main

import (
	"io"
	"fmt"
	"reflect"
	"sort"
	"strings"

	"github.com/google/pprof/profile"
)

// Histories: Merge / Compact are not only called on freshly built profiles.  The same objects go
// through an operation, are edited in place (Profile.Aggregate, demangling, trimming, scaling all do
// that) and are merged or compacted again -- as inputs or as the result of the earlier operation.
// The property speaks about what the frames ARE at the time of the call, so every operation of a
// history is an ordinary case: the input is the dump taken immediately before the operation and the
// model (a function of that dump) predicts the result.  State that survives on the objects or in the
// package between operations (memoised keys, caches keyed by pointer or id) makes the implementation
// answer from what the entities WERE.

// ---------------------------------------------------------------------------------------------
// c03DeepSnapshot renders everything reachable from the profiles, unexported fields included
// (pointers as visit numbers, maps sorted).  "The inputs are not modified" is judged on it, so a
// hidden field written by Merge is a modification too.
func c03DeepSnapshot(ps []*profile.Profile) string {
	var sb strings.Builder
	seen := map[uintptr]int{}
	for _, p := range ps {
		c03Deep(reflect.ValueOf(p), &sb, seen)
		sb.WriteByte('\n')
	}
	return sb.String()
}

func c03Deep(v reflect.Value, sb *strings.Builder, seen map[uintptr]int) {
	switch v.Kind() {
	case reflect.Ptr:
		if v.IsNil() {
			sb.WriteString("nil")
			return
		}
		a := v.Pointer()
		if n, ok := seen[a]; ok {
			fmt.Fprintf(sb, "^%d", n)
			return
		}
		seen[a] = len(seen)
		fmt.Fprintf(sb, "&%d", seen[a])
		c03Deep(v.Elem(), sb, seen)
	case reflect.Struct:
		t := v.Type()
		if t.PkgPath() == "sync" {
			return
		}
		sb.WriteByte('{')
		for i := 0; i < v.NumField(); i++ {
			sb.WriteString(t.Field(i).Name)
			sb.WriteByte(':')
			c03Deep(v.Field(i), sb, seen)
			sb.WriteByte(' ')
		}
		sb.WriteByte('}')
	case reflect.Slice:
		if v.IsNil() {
			sb.WriteString("nil[]")
			return
		}
		sb.WriteByte('[')
		for i := 0; i < v.Len(); i++ {
			c03Deep(v.Index(i), sb, seen)
			sb.WriteByte(' ')
		}
		sb.WriteByte(']')
	case reflect.Map:
		if v.IsNil() {
			sb.WriteString("nil{}")
			return
		}
		type kv struct {
			k string
			v reflect.Value
		}
		var es []kv
		it := v.MapRange()
		for it.Next() {
			var kb strings.Builder
			c03Deep(it.Key(), &kb, seen)
			es = append(es, kv{kb.String(), it.Value()})
		}
		sort.Slice(es, func(i, j int) bool { return es[i].k < es[j].k })
		sb.WriteString("map{")
		for _, e := range es {
			sb.WriteString(e.k)
			sb.WriteByte('=')
			c03Deep(e.v, sb, seen)
			sb.WriteByte(' ')
		}
		sb.WriteByte('}')
	case reflect.String:
		fmt.Fprintf(sb, "%q", v.String())
	case reflect.Int, reflect.Int8, reflect.Int16, reflect.Int32, reflect.Int64:
		fmt.Fprintf(sb, "%d", v.Int())
	case reflect.Uint, reflect.Uint8, reflect.Uint16, reflect.Uint32, reflect.Uint64, reflect.Uintptr:
		fmt.Fprintf(sb, "%d", v.Uint())
	case reflect.Bool:
		fmt.Fprintf(sb, "%t", v.Bool())
	case reflect.Float32, reflect.Float64:
		fmt.Fprintf(sb, "%g", v.Float())
	case reflect.Interface:
		if v.IsNil() {
			sb.WriteString("nil")
			return
		}
		c03Deep(v.Elem(), sb, seen)
	case reflect.Array:
		sb.WriteByte('[')
		for i := 0; i < v.Len(); i++ {
			c03Deep(v.Index(i), sb, seen)
			sb.WriteByte(' ')
		}
		sb.WriteByte(']')
	default:
		fmt.Fprintf(sb, "<%s>", v.Kind())
	}
}

// ---------------------------------------------------------------------------------------------
// in-place edits.  All of them keep the profile valid (ids and the pointer structure are untouched).

type c03Edit struct {
	name string
	f    func(r *Rng, p *profile.Profile)
}

// edits that make entities MORE alike (stacks that were distinct become the same stack)
func c03CoarsenEdits() []c03Edit {
	agg := func(inl, fn, file, line, col, addr bool) func(r *Rng, p *profile.Profile) {
		return func(r *Rng, p *profile.Profile) { p.Aggregate(inl, fn, file, line, col, addr) }
	}
	return []c03Edit{
		{"agg-file", agg(true, true, false, true, true, true)},
		{"agg-func", agg(true, false, true, true, true, true)},
		{"agg-line", agg(true, true, true, false, false, true)},
		{"agg-col", agg(true, true, true, true, false, true)},
		{"agg-addr", agg(true, true, true, true, true, false)},
		{"agg-inline", agg(false, true, true, true, true, true)},
		{"fn-all", func(r *Rng, p *profile.Profile) {
			for _, f := range p.Function {
				f.Name, f.SystemName, f.Filename, f.StartLine = p.Function[0].Name, p.Function[0].SystemName, p.Function[0].Filename, p.Function[0].StartLine
			}
		}},
		{"fn-start", func(r *Rng, p *profile.Profile) {
			for _, f := range p.Function {
				f.StartLine = 0
			}
		}},
		{"map-all", func(r *Rng, p *profile.Profile) {
			for _, m := range p.Mapping {
				m0 := p.Mapping[0]
				m.Limit = m.Start + (m0.Limit - m0.Start)
				m.Offset, m.File, m.BuildID = m0.Offset, m0.File, m0.BuildID
				m.HasFunctions, m.HasFilenames, m.HasLineNumbers, m.HasInlineFrames = m0.HasFunctions, m0.HasFilenames, m0.HasLineNumbers, m0.HasInlineFrames
				m.KernelRelocationSymbol = m0.KernelRelocationSymbol
			}
		}},
		{"loc-folded", func(r *Rng, p *profile.Profile) {
			for _, l := range p.Location {
				l.IsFolded = false
			}
		}},
		{"line-fn", func(r *Rng, p *profile.Profile) {
			for _, l := range p.Location {
				for i := range l.Line {
					l.Line[i].Function = p.Function[0]
				}
			}
		}},
		{"lab-none", func(r *Rng, p *profile.Profile) {
			for _, s := range p.Sample {
				s.Label, s.NumLabel, s.NumUnit = nil, nil, nil
			}
		}},
	}
}

// edits that make entities LESS alike (records of one stack become different stacks)
func c03SplitEdits() []c03Edit {
	return []c03Edit{
		{"fn-suffix", func(r *Rng, p *profile.Profile) {
			for i, f := range p.Function {
				f.Name += fmt.Sprintf("#%d", i)
			}
		}},
		{"fn-file", func(r *Rng, p *profile.Profile) {
			for i, f := range p.Function {
				f.Filename = fmt.Sprintf("%d.go", i)
			}
		}},
		{"fn-sys-start", func(r *Rng, p *profile.Profile) {
			for i, f := range p.Function {
				if i%2 == 0 {
					f.SystemName += "'"
				} else {
					f.StartLine += int64(i)
				}
			}
		}},
		{"map-build", func(r *Rng, p *profile.Profile) {
			for i, m := range p.Mapping {
				m.BuildID = fmt.Sprintf("b%d", i)
			}
		}},
		{"loc-addr", func(r *Rng, p *profile.Profile) {
			for i, l := range p.Location {
				l.Address += uint64(i)
			}
		}},
		{"loc-line", func(r *Rng, p *profile.Profile) {
			for i, l := range p.Location {
				for j := range l.Line {
					l.Line[j].Line += int64(i)
				}
			}
		}},
		{"loc-col-folded", func(r *Rng, p *profile.Profile) {
			for i, l := range p.Location {
				if i%2 == 0 {
					l.IsFolded = !l.IsFolded
				}
				for j := range l.Line {
					l.Line[j].Column += int64(i)
				}
			}
		}},
		{"lab-index", func(r *Rng, p *profile.Profile) {
			for i, s := range p.Sample {
				s.Label = map[string][]string{"i": {fmt.Sprint(i)}}
			}
		}},
		{"num-index", func(r *Rng, p *profile.Profile) {
			for i, s := range p.Sample {
				s.NumLabel = map[string][]int64{"i": {int64(i)}}
				s.NumUnit = map[string][]string{"i": {"bytes"}}
			}
		}},
	}
}

// one random point edit
func c03PointEdit(r *Rng, p *profile.Profile) string {
	pickF := func() *profile.Function {
		if len(p.Function) == 0 {
			return nil
		}
		return p.Function[r.Intn(len(p.Function))]
	}
	switch r.Intn(12) {
	case 0: // a function takes over another one's attribute (they may become the same function) ...
		if f, g := pickF(), pickF(); f != nil {
			switch r.Intn(4) {
			case 0:
				f.Name = g.Name
			case 1:
				f.SystemName = g.SystemName
			case 2:
				f.Filename = g.Filename
			default:
				f.StartLine = g.StartLine
			}
			return "edit:fn-copy"
		}
	case 1: // ... or becomes a new one
		if f := pickF(); f != nil {
			switch r.Intn(4) {
			case 0:
				f.Name += "~"
			case 1:
				f.SystemName += "~"
			case 2:
				f.Filename += "~"
			default:
				f.StartLine += 100
			}
			return "edit:fn-new"
		}
	case 2:
		if n := len(p.Mapping); n > 0 {
			m, o := p.Mapping[r.Intn(n)], p.Mapping[r.Intn(n)]
			switch r.Intn(5) {
			case 0:
				m.BuildID = o.BuildID
			case 1:
				m.File = o.File
			case 2:
				m.Offset = o.Offset
			case 3:
				m.Limit = m.Start + (o.Limit - o.Start)
			default:
				m.BuildID += "0"
			}
			return "edit:mapping"
		}
	case 3:
		if n := len(p.Location); n > 0 {
			l, o := p.Location[r.Intn(n)], p.Location[r.Intn(n)]
			switch r.Intn(4) {
			case 0:
				if l.Mapping != nil && o.Mapping != nil {
					l.Address = l.Mapping.Start + (o.Address - o.Mapping.Start)
				} else {
					l.Address++
				}
			case 1:
				l.IsFolded = o.IsFolded
			case 2:
				l.Mapping = o.Mapping
			default:
				l.Address += 0x10
			}
			return "edit:location"
		}
	case 4:
		if n := len(p.Location); n > 0 {
			l, o := p.Location[r.Intn(n)], p.Location[r.Intn(n)]
			switch k := r.Intn(4); {
			case k == 0:
				l.Line = append([]profile.Line(nil), o.Line...)
			case k == 1 && len(l.Line) > 0:
				i := r.Intn(len(l.Line))
				l.Line[i].Line, l.Line[i].Column = int64(r.Intn(3)), int64(r.Intn(3))
			case k == 2 && len(l.Line) > 0 && len(p.Function) > 0:
				l.Line[r.Intn(len(l.Line))].Function = pickF()
			case len(l.Line) > 1:
				l.Line = l.Line[:len(l.Line)-1]
			}
			return "edit:lines"
		}
	case 5:
		if n := len(p.Sample); n > 0 {
			s := p.Sample[r.Intn(n)]
			for j := range s.Value {
				switch r.Intn(4) {
				case 0:
					s.Value[j] = 0
				case 1:
					s.Value[j] = -s.Value[j]
				case 2:
					s.Value[j] += int64(r.Intn(5))
				}
			}
			return "edit:values"
		}
	case 6:
		if n := len(p.Sample); n > 0 {
			s, o := p.Sample[r.Intn(n)], p.Sample[r.Intn(n)]
			switch r.Intn(3) {
			case 0:
				s.Label, s.NumLabel, s.NumUnit = nil, nil, nil
			case 1:
				t := cloneS(c03S{label: o.Label, num: o.NumLabel, numUnit: o.NumUnit})
				s.Label, s.NumLabel, s.NumUnit = t.label, t.num, t.numUnit
			default:
				s.Label = map[string][]string{"k": {PickS(r, []string{"v", "w"})}}
			}
			return "edit:labels"
		}
	case 7:
		if n := len(p.Sample); n > 0 {
			s, o := p.Sample[r.Intn(n)], p.Sample[r.Intn(n)]
			s.Location = append([]*profile.Location(nil), o.Location...)
			return "edit:stack"
		}
	case 8: // a second record of an existing sample
		if n := len(p.Sample); n > 0 {
			o := p.Sample[r.Intn(n)]
			t := cloneS(c03S{label: o.Label, num: o.NumLabel, numUnit: o.NumUnit})
			p.Sample = append(p.Sample, &profile.Sample{Location: append([]*profile.Location(nil), o.Location...),
				Value: append([]int64(nil), o.Value...), Label: t.label, NumLabel: t.num, NumUnit: t.numUnit})
			return "edit:dup-sample"
		}
	case 9:
		p.Period = int64(r.Intn(20))
		p.TimeNanos = int64(r.Intn(3)) * 50
		p.DurationNanos += 3
		p.Comments = append(p.Comments, PickS(r, []string{"c1", "c9"}))
		return "edit:header"
	case 10:
		es := c03CoarsenEdits()
		e := es[r.Intn(len(es))]
		if (e.name == "fn-all" || e.name == "line-fn") && len(p.Function) == 0 || e.name == "map-all" && len(p.Mapping) == 0 {
			return "edit:none"
		}
		e.f(r, p)
		return "edit:" + e.name
	default:
		es := c03SplitEdits()
		e := es[r.Intn(len(es))]
		e.f(r, p)
		return "edit:" + e.name
	}
	return "edit:none"
}

// ---------------------------------------------------------------------------------------------
// systematic histories over the single-attribute worlds

var c03HistPlan = map[string][]string{ // attribute (c03Muts name, @position stripped) -> coarsening edits that remove the difference
	"fn.name": {"agg-func"}, "fn.sysname": {"agg-func"}, "fn.file": {"agg-file"}, "fn.startline": {"fn-start", "fn-all"},
	"line.function": {"line-fn"}, "line.line": {"agg-line"}, "line.column": {"agg-col", "agg-line"},
	"map.build": {"map-all"}, "map.file-no-build": {"map-all"}, "map.offset": {"map-all"}, "map.size-page": {"map-all"},
	"loc.addr": {"agg-addr"}, "loc.below-start-twin": {"agg-addr"}, "loc.below-start-zero": {"agg-addr"}, "loc.folded": {"loc-folded"}, "loc.fewer-lines": {"agg-inline"},
	"sample.label-value": {"lab-none"}, "sample.label-key": {"lab-none"}, "sample.num-value": {"lab-none"},
	"sample.num-unit": {"lab-none"}, "sample.str-vs-num-F2": {"lab-none"},
}

func c03HistSystematic(c *Ctx) {
	r := c.R
	h := c03Header{st: []profile.ValueType{{Type: "samples", Unit: "count"}, {Type: "cpu", Unit: "ns"}},
		pt: &profile.ValueType{Type: "cpu", Unit: "ns"}, period: 10, time: 100, dur: 5}
	both := []c03Use{{0, []int64{1, 100}}, {1, []int64{10, 1000}}}
	other := []c03Use{{1, []int64{20, 2000}}, {0, []int64{2, 200}}}
	coarsen := map[string]c03Edit{}
	for _, e := range c03CoarsenEdits() {
		coarsen[e.name] = e
	}
	k := 0
	for _, mu := range c03Muts() {
		base := mu.name
		if i := strings.IndexByte(base, '@'); i >= 0 {
			base = base[:i]
		}
		for _, en := range c03HistPlan[base] {
			e := coarsen[en]
			w := c03BaseWorld()
			mu.f(w)
			mk := func(u []c03Use) *profile.Profile { return c03Instantiate(r, w, h, u, r.Intn(4), r.Bool(), true) }
			tags := []string{"hist:" + mu.name, "edit:" + e.name}
			k++
			quick := c.Tier != "thorough"
			// (R) an operation's RESULT is edited in place and compacted / merged again
			if !quick || k%2 == 0 {
				if q, res, _ := c03Merge([]*profile.Profile{mk(both)}); res == "ok" {
					e.f(r, q)
					c03EmitCompact(c, "hist-result-compact", q, true, tags...)
				}
			}
			if !quick || k%2 == 1 {
				if q, res, _ := c03Merge([]*profile.Profile{mk(both), mk(other)}); res == "ok" {
					e.f(r, q)
					c03Emit(c, "hist-result-merge", []*profile.Profile{mk(other), q}, true, tags...)
				}
			}
			// (I) an INPUT that has been merged / compacted before is edited in place and merged again
			if !quick || k%2 == 1 {
				p := mk(both)
				c03Merge([]*profile.Profile{p})
				e.f(r, p)
				c03Emit(c, "hist-input-merge", []*profile.Profile{p}, true, tags...)
			}
			if !quick || k%2 == 0 {
				p := mk(both)
				c03Compact(p)
				c03Merge([]*profile.Profile{mk(other), p})
				e.f(r, p)
				c03Emit(c, "hist-input-merge", []*profile.Profile{mk(other), p}, true, tags...)
			}
		}
	}
	// the other direction: records of ONE stack (distinct but identical objects) are merged, then made different
	for _, mn := range []string{"same", "fn.dup@0", "fn.dup@1", "fn.dup@2"} {
		for _, mu := range c03Muts() {
			if mu.name != mn {
				continue
			}
			for si, e := range c03SplitEdits() {
				if c.Tier != "thorough" && (si+len(mn))%2 == 0 {
					continue
				}
				w := c03BaseWorld()
				mu.f(w)
				// two identical mappings / locations as separate objects
				w.ms = append(w.ms, w.ms[0])
				w.ls[1].m = len(w.ms) - 1
				p := c03Instantiate(r, w, h, both, r.Intn(4), false, true)
				c03Merge([]*profile.Profile{p})
				e.f(r, p)
				tags := []string{"hist:" + mn, "edit:" + e.name}
				c03Emit(c, "hist-input-split", []*profile.Profile{p}, true, tags...)
				// and the result of merging the edited input, edited back, must collapse again
				if q, res, _ := c03Merge([]*profile.Profile{p}); res == "ok" {
					for _, ce := range c03CoarsenEdits() {
						if ce.name == "fn-all" || ce.name == "agg-line" || ce.name == "agg-addr" || ce.name == "map-all" || ce.name == "lab-none" || ce.name == "loc-folded" {
							ce.f(r, q)
						}
					}
					c03EmitCompact(c, "hist-split-then-coarsen", q, true, tags...)
				}
			}
		}
	}
}

// ---------------------------------------------------------------------------------------------
// random sessions: a set of live profiles; operations (Merge of a sub-list, Compact) whose results
// join the set, interleaved with in-place edits of live profiles.  Every operation after the first
// edit is emitted as a case.
func c03HistSession(c *Ctx) {
	r := c.R
	pool := c03RandPool(r, false)
	nst := 1 + r.Intn(2)
	h := c03RandHeader(r, nst)
	var live []*profile.Profile
	for i := 2 + r.Intn(2); i > 0; i-- {
		var uses []c03Use
		for k := 1 + r.Intn(4); k > 0; k-- {
			v := c03Vals(r, nst)
			for j := range v { // small values: the histories are about grouping, not about overflow
				v[j] %= 10
			}
			uses = append(uses, c03Use{r.Intn(len(pool.ss)), v})
		}
		g := c03VaryHeader(r, h)
		if g.period < 0 {
			g.period = 0
		}
		live = append(live, c03Instantiate(r, pool, g, uses, r.Intn(4), r.Bool(), r.P(1, 3)))
	}
	pick := func() []*profile.Profile {
		var ps []*profile.Profile
		for n := 1 + r.Intn(3); n > 0; n-- {
			ps = append(ps, live[r.Intn(len(live))]) // the same profile may occur twice in a list
		}
		return ps
	}
	edited := false
	var tags []string
	steps := 3 + r.Intn(4)
	for s := 0; s < steps; s++ {
		last := s == steps-1
		switch {
		case s > 0 && !last && r.P(1, 2), s == 1: // edit
			p := live[r.Intn(len(live))]
			for n := 1 + r.Intn(2); n > 0; n-- {
				tags = append(tags, c03PointEdit(r, p))
			}
			if len(tags) > 6 {
				tags = tags[len(tags)-6:]
			}
			edited = true
		case r.P(1, 3): // compact
			p := live[r.Intn(len(live))]
			if edited {
				c03EmitCompact(c, "hist-session-compact", p, true, tags...)
			}
			if q, res := c03Compact(p); res == "ok" && q != nil {
				live = append(live, q)
			}
		default:
			ps := pick()
			if edited {
				c03Emit(c, "hist-session-merge", ps, true, tags...)
			}
			if q, res, _ := c03Merge(ps); res == "ok" {
				live = append(live, q)
			}
		}
	}
}

// ---------------------------------------------------------------------------------------------
// c03HistPreOps: an input has been SERIALISED or otherwise used before it is merged.  Write /
// WriteUncompressed / Copy leave string-table indices in unexported fields of the receiver (of its
// value types, functions, mappings, samples ...); String, CheckValid, Compact, Aggregate, Scale are
// the other things callers do with a profile first.  Merge must see the same profile as before.
func c03HistPreOps(c *Ctx) {
	r := c.R
	heads := []c03Header{
		{st: []profile.ValueType{{Type: "samples", Unit: "count"}, {Type: "cpu", Unit: "nanoseconds"}}, // period type is a sample type
			pt: &profile.ValueType{Type: "cpu", Unit: "nanoseconds"}, period: 10, time: 100, dur: 5},
		{st: []profile.ValueType{{Type: "alloc_objects", Unit: "count"}, {Type: "alloc_space", Unit: "bytes"}}, // heap-like: it is not
			pt: &profile.ValueType{Type: "space", Unit: "bytes"}, period: 524288, time: 7, dur: 1},
	}
	type preOp struct {
		name string
		f    func(p *profile.Profile) *profile.Profile // returns the profile to merge (p itself unless stated)
	}
	ops := []preOp{
		{"write", func(p *profile.Profile) *profile.Profile { p.Write(io.Discard); return p }},
		{"write-uncompressed", func(p *profile.Profile) *profile.Profile { p.WriteUncompressed(io.Discard); return p }},
		{"copy-original", func(p *profile.Profile) *profile.Profile { p.Copy(); return p }},
		{"copy-result", func(p *profile.Profile) *profile.Profile { return p.Copy() }},
		{"write-twice", func(p *profile.Profile) *profile.Profile { p.Write(io.Discard); p.Comments = append(p.Comments, "later"); p.Write(io.Discard); return p }},
		{"string-checkvalid", func(p *profile.Profile) *profile.Profile { _ = p.String(); p.CheckValid(); return p }},
		{"compact-original", func(p *profile.Profile) *profile.Profile { p.Compact(); return p }},
		{"scale-1", func(p *profile.Profile) *profile.Profile { p.Scale(1); p.RemoveUninteresting(); return p }},
	}
	k := 0
	for hi, h := range heads {
		for _, op := range ops {
			for which := 0; which < 3; which++ { // first, second, both inputs
				k++
				if c.Tier != "thorough" && k%2 == 0 && !(hi == 1 && strings.HasPrefix(op.name, "write") && which == 2) {
					continue
				}
				w := c03BaseWorld()
				w.ls[1].rel = 0x300
				g := h
				g.comm = []string{"a"}
				a := c03Instantiate(r, w, g, []c03Use{{0, []int64{1, 100}}, {1, []int64{3, 300}}}, 0, false, true)
				g.comm = []string{"b", "more strings in this one", "and more"}
				b := c03Instantiate(r, w, g, []c03Use{{0, []int64{7, 700}}}, 1, true, false)
				if which != 1 {
					a = op.f(a)
				}
				if which != 0 {
					b = op.f(b)
				}
				tags := []string{"preop:" + op.name, fmt.Sprintf("preop-on:%d", which), fmt.Sprintf("head:%d", hi)}
				if k%3 == 0 {
					c03Emit(c, "hist-preop", []*profile.Profile{b, a}, true, tags...)
				} else {
					c03Emit(c, "hist-preop", []*profile.Profile{a, b}, true, tags...)
				}
			}
		}
	}
}
