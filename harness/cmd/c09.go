//go:build verif

package main

// C09 -- no profile content, option value or typed command crashes pprof.
// Model-compared operations (decision cores): tagrange, locate, set, url, session.
// Exploration operations (spec-judged, the model predicts what it can): session with real reports,
// web (httptest against the handlers of serveWebInterface, reached through driver.PProf), cli.

import (
	"bytes"
	"flag"
	"fmt"
	"io"
	"net/http"
	"net/http/httptest"
	"net/url"
	"os"
	"path/filepath"
	"regexp"
	"runtime"
	"sort"
	"strconv"
	"strings"
	"time"

	"github.com/google/pprof/internal/driver"
	"github.com/google/pprof/internal/plugin"
	"github.com/google/pprof/profile"
)

func init() {
	registry["C09"] = runC09
	subcmds["gen-c09tables"] = genC09Tables
}

// ------------------------------------------------------------------ translator

func c09CoqStr(s string) string { return Render(S(s))[3:] }

func c09CoqStrList(l []string) string {
	var q []string
	for _, s := range l {
		q = append(q, c09CoqStr(s))
	}
	return "[" + strings.Join(q, "; ") + "]"
}

func c09FieldVal(f driver.VerifC09Field) Term {
	switch f.Kind {
	case "string":
		return S(f.S)
	case "int":
		return Z(f.I)
	case "float":
		return Rat(f.F)
	case "bool":
		return Bool(f.B)
	}
	return L(S("unsupported-kind"), S(f.Kind))
}

var c09DefaultRender []string

// c09Dump renders a configuration as the list of (field index, value) that differ from the default
// configuration (the full value vector is 33 terms; most stay at their default).
func c09Dump(fs []driver.VerifC09Field) Term {
	if c09DefaultRender == nil {
		for _, f := range driver.VerifC09Default() {
			c09DefaultRender = append(c09DefaultRender, Render(c09FieldVal(f)))
		}
	}
	var l []Term
	for i, f := range fs {
		v := c09FieldVal(f)
		if i >= len(c09DefaultRender) || Render(v) != c09DefaultRender[i] {
			l = append(l, L(ZI(i), v))
		}
	}
	return L(l...)
}

// genC09Tables dumps the configuration field table, the command table and the help keys of the
// driver package (as compiled from /repo's current source) as Gallina data.
func genC09Tables(args []string) {
	var sb strings.Builder
	sb.WriteString("(* GENERATED from /repo/internal/driver (configFields, pprofCommands, configHelp) on every run; do not edit. *)\n")
	sb.WriteString("From PV Require Import M_Crash.\nOpen Scope string_scope.\nOpen Scope Z_scope.\n\n")
	sb.WriteString("Definition config_fields : list cfield := [\n")
	for i, f := range driver.VerifC09Default() {
		if i > 0 {
			sb.WriteString(";\n")
		}
		kind := map[string]string{"string": "KString", "int": "KInt", "float": "KFloat", "bool": "KBool"}[f.Kind]
		if kind == "" {
			kind = "KUnsupported"
		}
		fmt.Fprintf(&sb, "  {| cf_name := %s; cf_url := %s; cf_kind := %s; cf_choices := %s; cf_default := %s |}",
			c09CoqStr(f.Name), c09CoqStr(f.URLParam), kind, c09CoqStrList(f.Choices), "("+Render(c09FieldVal(f))+")")
	}
	sb.WriteString("].\n\nDefinition commands : list (string * bool) := [\n")
	names, hp := driver.VerifC09Commands()
	for i, n := range names {
		if i > 0 {
			sb.WriteString(";\n")
		}
		fmt.Fprintf(&sb, "  (%s, %v)", c09CoqStr(n), hp[i])
	}
	sb.WriteString("].\n\nDefinition help_keys : list string :=\n  " + c09CoqStrList(driver.VerifC09HelpKeys()) + ".\n")
	if len(args) > 0 {
		os.WriteFile(args[0], []byte(sb.String()), 0o644)
	} else {
		fmt.Print(sb.String())
	}
}

// ------------------------------------------------------------------ plugins

type c09Event struct {
	kind string
	t    Term
}

type c09UI struct {
	lines    []string
	idx      int
	events   []Term
	inReport bool
	lastFail bool
	prints   int
}

func (u *c09UI) ReadLine(string) (string, error) {
	u.lastFail = false
	if u.idx == 0 {
		u.events = nil // what greetings() printed is not part of the command loop
	}
	if u.idx >= len(u.lines) {
		return "", io.EOF
	}
	u.events = append(u.events, L(S("line")))
	s := u.lines[u.idx]
	u.idx++
	return s, nil
}
func (u *c09UI) Print(args ...interface{}) { u.prints++; _ = fmt.Sprint(args...) }
func (u *c09UI) PrintErr(args ...interface{}) {
	_ = fmt.Sprint(args...)
	if u.inReport || u.lastFail {
		u.lastFail = false
		u.events = append(u.events, L(S("rerr")))
		return
	}
	u.events = append(u.events, L(S("err")))
}
func (u *c09UI) IsTerminal() bool                  { return false }
func (u *c09UI) WantBrowser() bool                 { return false }
func (u *c09UI) SetAutoComplete(func(string) string) {}

type c09Flags struct {
	fs      *flag.FlagSet
	args    []string
	err     error
	extra   []string
	strlist map[string]*[]*string
}

func newC09Flags(args []string) *c09Flags {
	fs := flag.NewFlagSet("pprof", flag.ContinueOnError)
	fs.SetOutput(io.Discard)
	return &c09Flags{fs: fs, args: args}
}
func (f *c09Flags) Bool(o string, d bool, c string) *bool          { return f.fs.Bool(o, d, c) }
func (f *c09Flags) Int(o string, d int, c string) *int             { return f.fs.Int(o, d, c) }
func (f *c09Flags) Float64(o string, d float64, c string) *float64 { return f.fs.Float64(o, d, c) }
func (f *c09Flags) String(o, d, c string) *string                  { return f.fs.String(o, d, c) }
func (f *c09Flags) StringList(o, d, c string) *[]*string {
	return &[]*string{f.fs.String(o, d, c)}
}
func (f *c09Flags) ExtraUsage() string     { return strings.Join(f.extra, "\n") }
func (f *c09Flags) AddExtraUsage(s string) { f.extra = append(f.extra, s) }
func (f *c09Flags) Parse(usage func()) []string {
	f.fs.Usage = func() {}
	if err := f.fs.Parse(f.args); err != nil {
		f.err = err
		return nil
	}
	if len(f.fs.Args()) == 0 {
		usage()
	}
	return f.fs.Args()
}

type c09Fetch struct{ data []byte }

func (f c09Fetch) Fetch(src string, _, _ time.Duration) (*profile.Profile, string, error) {
	if src != "p" {
		return nil, "", fmt.Errorf("no such profile %q", src)
	}
	p, err := profile.ParseData(f.data)
	return p, "", err
}

type c09Sym struct{}

func (c09Sym) Symbolize(string, plugin.MappingSources, *profile.Profile) error { return nil }

// c09NoNet is an http.RoundTripper that refuses every request.
type c09NoNet struct{}

func (c09NoNet) RoundTrip(*http.Request) (*http.Response, error) {
	return nil, fmt.Errorf("no network here")
}

type c09Obj struct{ opened []string }

func (o *c09Obj) Open(file string, _, _, _ uint64, _ string) (plugin.ObjFile, error) {
	o.opened = append(o.opened, file)
	return nil, fmt.Errorf("no object files here")
}
func (o *c09Obj) Disasm(string, uint64, uint64, bool) ([]plugin.Inst, error) {
	return nil, fmt.Errorf("no disassembler here")
}

// c09Writer is the plugin.Writer: everything a report writes with `>file` / -output is kept in memory,
// filed under the number of the report that was running (cur) so that it can be parsed back.
type c09Writer struct {
	n    int
	cur  int
	bufs map[int]*c09WC
}
type c09WC struct{ bytes.Buffer }

func (*c09WC) Close() error { return nil }
func (w *c09Writer) Open(name string) (io.WriteCloser, error) {
	w.n++
	if name == "fail" {
		return nil, fmt.Errorf("cannot open %s", name)
	}
	b := &c09WC{}
	if w.bufs == nil {
		w.bufs = map[int]*c09WC{}
	}
	w.bufs[w.cur] = b
	return b, nil
}

// c09LegendBlock parses the "Active filters" block back out of a printed text/top/tree/peek report:
// the line "Active filters:" and the indented lines after it, up to "Showing nodes accounting for".
// ok=false when the output has no legend header at all (not such a report).
func c09LegendBlock(out string) ([]string, bool) {
	lines := strings.Split(out, "\n")
	end := -1
	for i, l := range lines {
		if strings.HasPrefix(l, "Showing nodes accounting for") {
			end = i
			break
		}
	}
	if end < 0 {
		return nil, false
	}
	for i := 0; i < end; i++ {
		if lines[i] == "Active filters:" {
			return lines[i:end], true
		}
	}
	return nil, true
}

var c09LegendCmds = map[string]bool{"text": true, "top": true, "tree": true, "peek": true}

// c09Guarded runs f under recover and a deadline.
func c09Guarded(d time.Duration, f func() string) Term {
	ch := make(chan Term, 1)
	go func() {
		defer func() {
			if r := recover(); r != nil {
				ch <- L(S("panic"), S(fmt.Sprint(r)))
			}
		}()
		ch <- S(f())
	}()
	select {
	case t := <-ch:
		return t
	case <-time.After(d):
		if os.Getenv("C09_DEBUG") != "" {
			buf := make([]byte, 1<<20)
			fmt.Fprintf(os.Stderr, "HANG\n%s\n", buf[:runtime.Stack(buf, true)])
		}
		c09Poisoned = true
		return L(S("hang"))
	}
}

// c09Poisoned is set once a guarded call did not return: the goroutine left behind may hold a lock
// of the driver package (or spin), so nothing more can be run in this process.  The stream that
// observed it emits its case and stops (c09Stop).
var c09Poisoned bool

// c09Reset puts the driver's package state back, under the watchdog (a leaked lock would block it).
func c09Reset() bool {
	if c09Poisoned {
		return false
	}
	r := c09Guarded(5*time.Second, func() string { driver.VerifC09Reset(); return "ok" })
	_, ok := r.(tS)
	return ok
}

// c09Current dumps the current configuration under the watchdog.
func c09Current() Term {
	var d Term = L(S("hang"))
	c09Guarded(5*time.Second, func() string { d = c09Dump(driver.VerifC09Current()); return "ok" })
	return d
}

func c09ErrClass(err error) string {
	if err == nil {
		return "ok"
	}
	return "error"
}

var c09Scratch string

func c09Cleanup() {
	ms, _ := filepath.Glob("profile*")
	for _, m := range ms {
		os.Remove(m)
	}
}

// ------------------------------------------------------------------ pools

var c09Regexps = []string{"", "main", "foo|bar", ".*", "(", "[", "a{2,1}", "\\", "(?i)MAIN", "a{1001}", "\\d+", "^$", "x*?", "(?P<n>a)", "[[:alpha:]]+", ")", "+", "a b", "\xff", "runtime\\..*"}
var c09TagRanges = []string{"1kb", ":64kb", "4mb:", "12kb:64mb", "99999999999999999999", "1:99999999999999999999",
	"99999999999999999999:1", "key=1:2", "k=v", "1zz", "1kb:2s", "+5", "-5:", "1:2:3", "9223372036854775807",
	"9223372036854775808", "-9223372036854775808", "-9223372036854775809", "99999999999999999999kb", ":99999999999999999999",
	"99999999999999999999:", "bytes=99999999999999999999", "1s:2s", "1ms:1s", "0", "-0", "+", "1:", ":1", ":", "1::2", "a1b",
	"1kb,2kb", "request=5", "bytes=:100", "k=", "=1", "1 : 2", "１", "1e3", "1.5kb", "0x10", "1_000", "1kb:1mb:", "x1:2"}
var c09Bools = []string{"true", "false", "t", "f", "yes", "no", "y", "n", "1", "0", "", "TRUE", "False", "maybe", "2", "T", " true", "tr\xffue"}
var c09Ints = []string{"0", "-1", "10", "99999999999999999999", "1e3", "0x10", "+5", " 7", "", "2147483647", "2147483648", "-2147483649",
	"9223372036854775807", "9223372036854775808", "-9223372036854775808", "-9223372036854775809", "1_0", "--1", "+", "-", "007", "5x", "١"}
var c09Floats = []string{"0.5", "1e400", "nan", "inf", "-inf", "-0", "0x1p-2", "", "1_0", "0", "1", "1e-400", ".5", "5.", "+1.5e3", "1e", "Infinity", "0x", "1,5", "1 ", "4.9e-324"}
var c09Units = []string{"minimum", "auto", "ms", "kb", "zz", "", "GB", "seconds", "B ", "\xff"}
var c09Noise = []string{"", " ", "\t", "=", "==", "=x", "x=", "a=b=c", "//:", "focus=//:x", "focus=a//:b//:c", "  top  ", "top\t5", "\x00", "\xff\xfe",
	"日本", ">", "> ", ">>", "top >", "top > ", "top >f", "top > f", "top -", "top --", "top --cum", "top -cum", "top - cum", "top10", "top010", "top-5", "10", "top99999999999",
	"top 99999999999", "top -99999999999", "top 2147483647", "top 2147483648", "list", "list .", "peek", "peek (", "weblist", "disasm", "disasm 0x400000", "tags", "tags k", "tags k -v",
	"tags 1kb", "tags 99999999999999999999", "help", "help top", "help zzz", "help focus", "help top 5", "o", "options", "o x", ":", " : ", "q x", "quitx", "focus", "trim", "cum", "flat", "lines",
	"nodecount", "sample_index", "sample_index=", "sample_index=0", "sample_index=-1", "sample_index=99", "sample_index=99999999999999999999", "sample_index=inuse_space", "sample_index=inuse_", "cum=1", "cum=0", "cum=true", "cum=yes",
	"lines=T", "flat=", "granularity=lines", "granularity=zz", "granularity=", "sort=cum", "sort=", "sort=zz", "output=x", "output=", "source_path=/x", "trim_path=/x", "divide_by=0", "divide_by=2", "divide_by=nan",
	"nodefraction=2", "edgefraction=-1", "nodecount=0", "nodecount=-5", "mean", "mean=", "mean=1", "call_tree", "call_tree=0", "noinlines=maybe", "unit=zz", "unit=", "tagroot=k,key", "tagleaf=a,,b", "tagroot=,", "tagshow=(", "taghide=[",
	"show_from=(", "prune_from=)", "hide=*", "show=+", "relative_percentages", "drop_negative=1", "compact_labels=false", "showcolumns", "intel_syntax=t", "normalize", "normalize=true",
	"focus = main", " focus=main ", "focus=main //: comment", "focus= ", "FOCUS=x", "top10 main -foo >out", "top 5 5 5", "text", "tree", "dot", "raw", "traces", "comments", "callgrind", "proto", "topproto",
	"svg", "png", "gif", "pdf", "ps", "web", "eog", "evince", "gv", "kcachegrind", "dot >out", "svg >out", "proto >out", "callgrind >out", "raw >fail", "top >fail", "peek main", "list main", "weblist main", "disasm main",
	"peek .", "peek [", "list [", "top (", "top -(", "top [ ]", "tags (", "tags -(", "samples", "total_samples", "mean_samples", "cpu", "total_cpu", "mean_cpu", "alloc_space", "inuse_space", "total_", "mean_"}

func c09ConfigNames() (names []string, kinds map[string]string, choices []string) {
	kinds = map[string]string{}
	for _, f := range driver.VerifC09Default() {
		names = append(names, f.Name)
		kinds[f.Name] = f.Kind
		for _, c := range f.Choices {
			choices = append(choices, c)
			kinds[c] = "choice"
		}
	}
	return
}

func c09Value(r *Rng, kind, name string) string {
	if r.P(1, 14) {
		return c09OddString(r, 4)
	}
	if r.P(1, 10) {
		return PickS(r, [][]string{c09Regexps, c09TagRanges, c09Bools, c09Ints, c09Floats, c09Units}[r.Intn(6)])
	}
	switch kind {
	case "bool", "choice":
		return PickS(r, c09Bools)
	case "int":
		return PickS(r, c09Ints)
	case "float":
		return PickS(r, c09Floats)
	}
	switch name {
	case "tagfocus", "tagignore":
		if r.P(1, 4) {
			return PickS(r, c09Regexps)
		}
		return PickS(r, c09TagRanges)
	case "unit":
		return PickS(r, c09Units)
	case "granularity":
		return PickS(r, []string{"functions", "filefunctions", "files", "lines", "addresses", "", "zz", "Lines"})
	case "sort":
		return PickS(r, []string{"cum", "flat", "", "zz", "CUM"})
	case "sample_index":
		return PickS(r, []string{"0", "1", "2", "-1", "99", "samples", "cpu", "inuse_space", "inuse_cpu", "", "zz", "99999999999999999999", "alloc_space", "inuse_objects", "+1", "01"})
	case "output":
		return PickS(r, []string{"out", "", "fail", "a b", "x.svg"})
	case "tagroot", "tagleaf":
		return PickS(r, []string{"k", "key", "a,b", ",", "", "k,,key", "bytes", "request,zz"})
	}
	return PickS(r, c09Regexps)
}

func c09Noisy(r *Rng) string {
	n := r.Intn(12)
	b := make([]byte, n)
	al := " \t=->|()[]\\/:.*+?{}0123456789abctopfocus\x00\xff\"',%"
	for i := range b {
		b[i] = al[r.Intn(len(al))]
	}
	return string(b)
}

// c09Line draws one interactive line from the command grammar plus noise.
func c09Line(r *Rng, names []string, kinds map[string]string, choices, cmds, stypes []string) string {
	switch r.Intn(10) {
	case 0, 1:
		return PickS(r, c09Noise)
	case 2:
		return c09Noisy(r)
	case 3, 4, 5: // assignment
		n := PickS(r, names)
		if r.P(1, 6) {
			n = PickS(r, choices)
		}
		v := c09Value(r, kinds[n], n)
		line := n
		if r.P(1, 10) {
			line = " " + n + " "
		}
		if !r.P(1, 12) {
			line += "=" + v
		}
		if r.P(1, 10) {
			line += " //: " + PickS(r, []string{"x", "[a | b]", "", "//:"})
		}
		return line
	case 6: // shortcut / bare names / control
		l := []string{":", "o", "options", "help", "help " + PickS(r, cmds), "help " + PickS(r, names)}
		for _, t := range stypes {
			l = append(l, t, "total_"+t, "mean_"+t)
		}
		if r.P(1, 12) {
			return PickS(r, []string{"q", "quit", "exit"})
		}
		return PickS(r, l)
	default: // command with arguments
		c := PickS(r, cmds)
		if r.P(1, 8) {
			c += PickS(r, []string{"5", "10", "0", "007", "99999999999"})
		}
		toks := []string{c}
		for k := r.Intn(4); k > 0; k-- {
			switch r.Intn(7) {
			case 0:
				toks = append(toks, PickS(r, c09Ints))
			case 1:
				toks = append(toks, "-"+PickS(r, c09Regexps))
			case 2:
				toks = append(toks, PickS(r, []string{"-cum", "--cum", "-", "--"}))
			case 3:
				toks = append(toks, PickS(r, []string{">out", ">", "> out", ">fail", ">>x"}))
			case 4:
				toks = append(toks, PickS(r, c09TagRanges))
			default:
				toks = append(toks, PickS(r, c09Regexps))
			}
		}
		return strings.Join(toks, PickS(r, []string{" ", " ", "  ", "\t"}))
	}
}

var c09BuildIDs = []string{"", "a", "ab", "abc", "abcd", "..", "../..", "*", "[", "a/b", "/", "/x", ".", "\xff", "a\x00b", "0123456789abcdef", "ab/", "//", "é", " "}
var c09Files = []string{"", "main", "/bin/main", "dir/bar", "/", "//", ".", "..", "../x", "a/../b", "/a/b/", "a//b", "[", "*", "\xff", "http://host/x", "c:\\x", " ", "a\nb", "/usr/lib/libc.so.6 (deleted)"}

// c09Profile generates a valid profile with odd strings, ids, addresses, build ids, labels, units.
func c09Profile(r *Rng, allowNoTypes bool) *profile.Profile {
	k := DefaultKnobs()
	k.Meta = r.Bool()
	if allowNoTypes && r.P(1, 12) {
		k.MinSampleTypes, k.MaxSampleTypes, k.MaxSamples = 0, 0, 0
	}
	p := GenProfile(r, k)
	for _, m := range p.Mapping {
		if r.Bool() {
			m.BuildID = PickS(r, c09BuildIDs)
		}
		if r.P(1, 3) {
			m.File = PickS(r, c09Files)
		}
		if r.P(1, 4) {
			m.BuildID = c09OddString(r, 5)
		}
		if r.P(1, 8) {
			m.File = c09OddString(r, 5)
		}
		if r.P(1, 6) {
			m.Start, m.Limit, m.Offset = r.U64(), r.U64(), r.U64()
		}
	}
	for _, l := range p.Location {
		if r.P(1, 10) {
			l.Address = c09PickU(r, []uint64{0, 1, 1<<64 - 1, 1 << 63, 1<<63 - 1})
		}
		for i := range l.Line {
			if r.P(1, 10) {
				// not MinInt64: two lines of one function 2^63 or more apart are finding F25 (witness below)
				l.Line[i].Line = PickI(r, []int64{0, -1, 1<<63 - 1, 1 << 31, 1 << 62})
			}
		}
	}
	for _, sm := range p.Sample {
		if r.P(1, 10) {
			if sm.Label == nil {
				sm.Label = map[string][]string{}
			}
			sm.Label[c09OddString(r, 3)] = []string{c09OddString(r, 3), c09OddString(r, 2)}
		}
		if r.P(1, 14) {
			if sm.NumLabel == nil {
				sm.NumLabel = map[string][]int64{}
			}
			k := c09OddString(r, 3)
			sm.NumLabel[k] = []int64{1, 2}
			if r.Bool() {
				if sm.NumUnit == nil {
					sm.NumUnit = map[string][]string{}
				}
				sm.NumUnit[k] = []string{c09OddString(r, 3), c09OddString(r, 3)}
			}
		}
	}
	if r.P(1, 8) {
		p.Comments = append(p.Comments, c09OddString(r, 5))
	}
	for _, st := range p.SampleType {
		if r.P(1, 10) {
			st.Unit = c09OddString(r, 3)
		}
		if r.P(1, 6) {
			st.Unit = PickS(r, []string{"", "zz", "\xff", "B ", "kb", "GCU", "s", "%"})
		}
		if r.P(1, 8) {
			st.Type = PickS(r, []string{"", "a b", "x=y", "top", "focus", ":", "\xff", "o", "q"})
		}
	}
	for _, f := range p.Function {
		if r.P(1, 10) {
			f.Name = c09OddString(r, 4)
		}
		if r.P(1, 10) {
			f.SystemName = c09OddString(r, 4)
		}
		if r.P(1, 10) {
			f.Filename = c09OddString(r, 4)
		}
		if r.P(1, 12) {
			f.StartLine = PickI(r, []int64{-1, 1<<63 - 1, -(1 << 63)})
		}
	}
	c09FixUnits(p)
	if p.CheckValid() != nil {
		return c09Profile(r, allowNoTypes)
	}
	return p
}

// c09FixUnits drops numeric-label unit lists whose length differs from the value list (the shared
// generator can leave a stale one behind; such a profile cannot come out of the parser).
func c09FixUnits(p *profile.Profile) {
	for _, s := range p.Sample {
		for k, u := range s.NumUnit {
			if len(u) != len(s.NumLabel[k]) {
				delete(s.NumUnit, k)
			}
		}
	}
}

func c09PickU(r *Rng, l []uint64) uint64 { return l[r.Intn(len(l))] }

func c09Bytes(p *profile.Profile) []byte {
	var buf bytes.Buffer
	p.Write(&buf)
	return buf.Bytes()
}

// c09Lines lists the distinct line numbers of the profile, sorted (class predicate of F25).
func c09Lines(p *profile.Profile) Term {
	seen := map[int64]bool{}
	var ls []int64
	for _, l := range p.Location {
		for _, ln := range l.Line {
			if !seen[ln.Line] {
				seen[ln.Line] = true
				ls = append(ls, ln.Line)
			}
		}
	}
	sort.Slice(ls, func(i, j int) bool { return ls[i] < ls[j] })
	return Zs(ls)
}

func c09STypes(p *profile.Profile) []string {
	var s []string
	for _, t := range p.SampleType {
		s = append(s, t.Type)
	}
	return s
}

// c09PFTable is the ParseFloat answer table of a case: every candidate value string -> (ok, value).
func c09PFTable(vals []string) Term {
	seen := map[string]bool{}
	var l []Term
	sort.Strings(vals)
	for _, v := range vals {
		if seen[v] {
			continue
		}
		seen[v] = true
		f, err := strconv.ParseFloat(v, 64)
		if err == nil {
			l = append(l, L(S(v), Rat(f)))
		}
	}
	return L(l...)
}

// candidate right-hand sides of an interactive line (every suffix after an '=')
func c09LineValues(line string) []string {
	var out []string
	for _, in := range []string{line, strings.TrimSpace(line)} {
		if i := strings.Index(in, "="); i >= 0 {
			v := in[i+1:]
			if c := strings.LastIndex(v, "//:"); c != -1 {
				v = v[:c]
			}
			out = append(out, strings.TrimSpace(v))
		}
	}
	return out
}

func c09HasHighByte(s string) bool {
	for i := 0; i < len(s); i++ {
		if s[i] >= 0x80 {
			return true
		}
	}
	return false
}

// ------------------------------------------------------------------ operations

func c09TagRange(c *Ctx, gen, filter string) {
	obs := c09Guarded(5*time.Second, func() string {
		if driver.VerifC09ParseTagFilterRange(filter) == nil {
			return "nil"
		}
		return "fn"
	})
	c09Emit(c, gen, L(S("tagrange"), S(filter)), obs, regexp.MustCompile("[0-9]").MatchString(filter), "op:tagrange")
}

// c09StripPaths ships a candidate name relative to the first search-path entry it lies under
// ([index; rest]; index -1 = under none): keeps the cases small.
func c09StripPaths(paths []string, name string) Term {
	for i, p := range paths {
		if name == p {
			return L(ZI(i), S(""))
		}
		if strings.HasPrefix(name, p+"/") {
			return L(ZI(i), S(name[len(p)+1:]))
		}
	}
	return L(Z(-1), S(name))
}

func c09Locate(c *Ctx, gen string, ms []*profile.Mapping) {
	var in []Term
	p := &profile.Profile{}
	for i, m := range ms {
		mm := *m
		mm.ID = uint64(i + 1)
		p.Mapping = append(p.Mapping, &mm)
		in = append(in, L(S(m.File), S(m.BuildID)))
	}
	obj := &c09Obj{}
	ui := &c09UI{}
	var names []Term
	paths := filepath.SplitList(os.Getenv("PPROF_BINARY_PATH"))
	input := L(S("locate"), Ss(paths), L(in...))
	c09Announce(gen, input)
	obs := c09Guarded(5*time.Second, func() string {
		for _, m := range p.Mapping {
			q := &profile.Profile{Mapping: []*profile.Mapping{m}}
			n0 := len(obj.opened)
			driver.VerifC09LocateBinaries(q, obj, ui)
			var rel []Term
			for _, nm := range obj.opened[n0:] {
				rel = append(rel, c09StripPaths(paths, nm))
			}
			names = append(names, L(rel...))
		}
		return "ok"
	})
	if _, isS := obs.(tS); isS {
		obs = L(S("ok"), L(names...))
	}
	c09Emit(c, gen, input, obs, len(ms) > 0, "op:locate")
}

func c09Set(c *Ctx, gen, name, value string) {
	if !c09Reset() {
		return
	}
	in := L(S("set"), S(name), S(value), c09PFTable([]string{value}))
	c09Announce(gen, in)
	var res string
	var dump Term
	obs := c09Guarded(5*time.Second, func() string {
		res = c09ErrClass(driver.VerifC09Configure(name, value))
		dump = c09Dump(driver.VerifC09Current()) // also a liveness probe: blocks if configure leaked its lock
		return res
	})
	if _, isS := obs.(tS); isS {
		obs = L(S(res), dump)
	}
	c09Emit(c, gen, in, obs, value != "", "op:set")
}

func c09URL(c *Ctx, gen, rawq string) {
	if !c09Reset() {
		return
	}
	vals, _ := url.ParseQuery(rawq)
	var keys []string
	for k := range vals {
		keys = append(keys, k)
	}
	sort.Strings(keys)
	var ps []Term
	var vs []string
	for _, k := range keys {
		ps = append(ps, L(S(k), S(vals.Get(k))))
		vs = append(vs, vals.Get(k))
	}
	in := L(S("url"), S(rawq), L(ps...), c09PFTable(vs))
	c09Announce(gen, in)
	var res string
	var dump []driver.VerifC09Field
	obs := c09Guarded(5*time.Second, func() string {
		d, err := driver.VerifC09ApplyURL(vals)
		dump, res = d, c09ErrClass(err)
		return res
	})
	if _, isS := obs.(tS); isS {
		if res == "ok" {
			obs = L(S(res), c09Dump(dump))
		} else {
			obs = L(S(res))
		}
	}
	c09Emit(c, gen, in, obs, len(keys) > 0, "op:url")
}

// c09Session runs the interactive loop over lines (a trivial "top 3" is always appended to see that
// the session still answers). real=false: report requests are only recorded; real=true: they run.
func c09Session(c *Ctx, gen string, p *profile.Profile, lines []string, real bool) {
	if !c09Reset() {
		return
	}
	all := append(append([]string{}, lines...), "top 3")
	ui := &c09UI{lines: all}
	obj := &c09Obj{}
	wr := &c09Writer{}
	o := &plugin.Options{UI: ui, Obj: obj, Sym: c09Sym{}, Writer: wr, Flagset: newC09Flags(nil), Fetch: c09Fetch{}}
	var results []Term
	var reportCmds []string
	hook := func(cmd []string, cfg []driver.VerifC09Field, next func() error) error {
		ui.events = append(ui.events, L(S("report"), Ss(cmd), c09Dump(cfg)))
		wr.cur = len(reportCmds)
		reportCmds = append(reportCmds, cmd[0])
		if !real {
			return nil
		}
		ui.inReport = true
		var err error
		r := c09Guarded(10*time.Second, func() string { err = next(); return c09ErrClass(err) })
		ui.inReport = false
		results = append(results, r)
		if _, isS := r.(tS); !isS {
			ui.lastFail = true
			return fmt.Errorf("report did not complete")
		}
		ui.lastFail = err != nil
		return err
	}
	// the profile goes through the same serialisation as a fetched one
	q, err := profile.ParseData(c09Bytes(p))
	if err != nil {
		return
	}
	var vals []string
	var ls []Term
	skipCmp := false
	for _, l := range all {
		ls = append(ls, S(l))
		vals = append(vals, c09LineValues(l)...)
		if c09HasHighByte(l) {
			skipCmp = true
		}
	}
	mode := "hook"
	if real {
		mode = "real"
	}
	in := L(S("session"), S(mode), Ss(c09STypes(q)), S(q.DefaultSampleType), L(ls...), c09PFTable(vals), c09Lines(q))
	c09Announce(gen, in)
	// watchdog: a line that never returns (a leaked lock, an endless loop) is the observable "hang"
	out := c09Guarded(15*time.Second, func() string { return c09ErrClass(driver.VerifC09Interactive(q, o, hook)) })
	evs := append([]Term{}, ui.events...)
	final := Term(L())
	if _, isS := out.(tS); isS {
		final = c09Current()
	}
	// parse the printed reports back: the "Active filters" legend of every captured text-like report
	var legends []Term
	for k, cmd := range reportCmds {
		if b, ok := wr.bufs[k]; ok && c09LegendCmds[cmd] {
			if blk, ok := c09LegendBlock(b.String()); ok {
				legends = append(legends, L(ZI(k), Ss(blk)))
			}
		}
	}
	obs := L(out, L(evs...), final, L(results...), L(legends...))
	tags := []string{"op:session-" + mode}
	if skipCmp {
		tags = append(tags, "non-ascii-line")
	}
	c09Emit(c, gen, in, obs, len(lines) > 0, tags...)
	c09Cleanup()
}

type c09Req struct{ path, rawq string }

// c09Web drives driver.PProf with -http and a plugin HTTPServer that fires the requests at the
// registered handlers (httptest); a final plain /top request checks that the session still answers.
func c09Web(c *Ctx, gen string, p *profile.Profile, cliArgs []string, reqs []c09Req) {
	c09WebD(c, gen, p, cliArgs, reqs, 20*time.Second)
}

func c09WebD(c *Ctx, gen string, p *profile.Profile, cliArgs []string, reqs []c09Req, deadline time.Duration) {
	if !c09Reset() {
		return
	}
	ui := &c09UI{}
	var statuses []Term
	reqs = append(append([]c09Req{}, reqs...), c09Req{"/top", ""})
	server := func(a *plugin.HTTPServerArgs) error {
		for _, rq := range reqs {
			h := a.Handlers[rq.path]
			if h == nil {
				statuses = append(statuses, L(S("nohandler")))
				continue
			}
			st := c09Guarded(deadline, func() string {
				req := httptest.NewRequest("GET", "http://localhost"+rq.path, nil)
				req.URL.RawQuery = rq.rawq
				w := httptest.NewRecorder()
				h.ServeHTTP(w, req)
				return strconv.Itoa(w.Code)
			})
			statuses = append(statuses, st)
		}
		return nil
	}
	args := append(append([]string{"-http=localhost:8080"}, cliArgs...), "p")
	fl := newC09Flags(args)
	o := &plugin.Options{UI: ui, Obj: &c09Obj{}, Sym: c09Sym{}, Writer: &c09Writer{}, Flagset: fl, Fetch: c09Fetch{c09Bytes(p)}, HTTPServer: server}
	var rs []Term
	for _, rq := range reqs {
		vals, perr := url.ParseQuery(rq.rawq)
		_ = perr
		var keys []string
		for k := range vals {
			keys = append(keys, k)
		}
		sort.Strings(keys)
		var ps []Term
		var vs []string
		for _, k := range keys {
			ps = append(ps, L(S(k), S(vals.Get(k))))
			vs = append(vs, vals.Get(k))
		}
		rs = append(rs, L(S(rq.path), S(rq.rawq), L(ps...), c09PFTable(vs)))
	}
	var flagVals []string
	for _, a := range cliArgs {
		if k := strings.Index(a, "="); k >= 0 {
			flagVals = append(flagVals, a[k+1:])
		}
	}
	in := L(S("web"), Ss(cliArgs), L(rs...), ZI(len(p.SampleType)), c09Lines(p), c09PFTable(flagVals))
	c09Announce(gen, in)
	out := c09Guarded(60*time.Second, func() string { return c09ErrClass(driver.PProf(o)) })
	c09Emit(c, gen, in, L(out, L(statuses...)), len(reqs) > 1, "op:web")
	c09Cleanup()
}

func c09CLI(c *Ctx, gen string, p *profile.Profile, args []string, lines []string) {
	c09CLISym(c, gen, p, args, lines, false)
}

// c09CLISym: realSym leaves Options.Sym nil, so the driver installs the real symbolizer (with the
// fake ObjTool and a transport that refuses every request).
func c09CLISym(c *Ctx, gen string, p *profile.Profile, args []string, lines []string, realSym bool) {
	if !c09Reset() {
		return
	}
	ui := &c09UI{lines: append(append([]string{}, lines...), "top 3")}
	fl := newC09Flags(args)
	wr := &c09Writer{}
	o := &plugin.Options{UI: ui, Obj: &c09Obj{}, Sym: c09Sym{}, Writer: wr, Flagset: fl, Fetch: c09Fetch{c09Bytes(p)},
		HTTPServer: func(*plugin.HTTPServerArgs) error { return nil }, HTTPTransport: c09NoNet{}}
	if realSym {
		o.Sym = nil
	}
	in := L(S("cli"), Ss(args), Ss(ui.lines), ZI(len(p.SampleType)), c09Lines(p))
	c09Announce(gen, in)
	out := c09Guarded(30*time.Second, func() string {
		err := driver.PProf(o)
		if err != nil && os.Getenv("C09_DEBUG") != "" {
			fmt.Fprintln(os.Stderr, args, err)
		}
		return c09ErrClass(err)
	})
	obs := L(out)
	// parse the printed report back: the "Active filters" legend of -text/-top/-tree/-peek written with -output
	if len(args) > 0 && len(wr.bufs) == 1 {
		cmd := strings.TrimLeft(args[0], "-")
		if k := strings.Index(cmd, "="); k >= 0 {
			cmd = cmd[:k]
		}
		clean := true
		for _, a := range args {
			if strings.Contains(a, "\n") {
				clean = false
			}
		}
		if b, ok := wr.bufs[0]; ok && clean && c09LegendCmds[cmd] {
			if blk, ok := c09LegendBlock(b.String()); ok {
				obs = L(out, Ss(blk))
			}
		}
	}
	c09Emit(c, gen, in, obs, len(args) > 1, "op:cli")
	c09Cleanup()
}

// ------------------------------------------------------------------ driver

// c09Env confines everything a run can touch to the scratch directory (cwd) and makes sure no
// external program can be started.
func c09Env() {
	cwd, _ := os.Getwd()
	c09Scratch = cwd
	// nothing generated here may leave the scratch directory or start a program
	for _, d := range []string{"home", "tmp", "emptybin", "bin1/x/y", "bin2"} {
		os.MkdirAll(filepath.Join(cwd, d), 0o755)
	}
	os.Setenv("HOME", filepath.Join(cwd, "home"))
	os.Setenv("XDG_CONFIG_HOME", filepath.Join(cwd, "home", ".config"))
	os.Setenv("TMPDIR", filepath.Join(cwd, "tmp"))
	os.Setenv("PPROF_TMPDIR", filepath.Join(cwd, "tmp"))
	os.Setenv("PATH", filepath.Join(cwd, "emptybin"))
	os.Setenv("PPROF_BINARY_PATH", filepath.Join(cwd, "bin1/x/y")+":"+filepath.Join(cwd, "bin2"))
	os.Unsetenv("BROWSER")
	os.Unsetenv("DISPLAY")
	os.Unsetenv("PPROF_TOOLS")
	if dn, err := os.OpenFile(os.DevNull, os.O_WRONLY, 0); err == nil {
		os.Stdout = dn
	}

}

// c09QueryGen returns a generator of URL query strings over the URL parameters of the config fields.
func c09QueryGen(r *Rng) func() string {
	var urlparams []string
	urlkind := map[string]string{}
	for _, f := range driver.VerifC09Default() {
		if f.URLParam != "" {
			urlparams = append(urlparams, f.URLParam)
			urlkind[f.URLParam] = f.Kind
		}
	}
	urlparams = append(urlparams, "zz", "f", "config", "output", "source_path")
	return func() string {
		var parts []string
		for k := r.Intn(4); k >= 0; k-- {
			pn := PickS(r, urlparams)
			v := c09Value(r, urlkind[pn], pn)
			switch r.Intn(8) {
			case 0:
				parts = append(parts, pn) // no '='
			case 1:
				parts = append(parts, pn+"="+v) // unescaped
			default:
				parts = append(parts, url.QueryEscape(pn)+"="+url.QueryEscape(v))
			}
		}
		sep := "&"
		if r.P(1, 12) {
			sep = ";"
		}
		return strings.Join(parts, sep)
	}
}

func runC09(c *Ctx) {
	c09Env()
	c.Extra["field_kinds_supported"] = driver.VerifC09FieldKindsSupported()
	// Every stream runs in a child process of this harness, in parallel, under watchdogs:
	//  * pprof fetches profiles in goroutines of its own; a panic there kills the process (no
	//    recover() can catch it) -- the child announces each input first, so the death is reported
	//    with the input that caused it;
	//  * a call that never returns (leaked lock, endless loop) is the observable "hang"; the
	//    goroutine left behind poisons the process, so the child stops after reporting it.
	c09RunChildren(c, []string{"core", "config", "session-hook", "session-real", "web", "cli", "symbolize",
		"matrix-session-0", "matrix-session-1", "matrix-session-2", "matrix-cli", "matrix-web",
		"e2e-session", "e2e-cli", "e2e-web", "e2e-lines", "e2e-numeric", "e2e-paths"})
}

// c09Core runs the model-compared streams of the decision cores.
func c09Core(c *Ctx, stream string) {
	names, kinds, choices := c09ConfigNames()
	cmds, _ := driver.VerifC09Commands()
	r := c.R
	switch stream {
	case "core":
	// --- tag ranges: the pool, then grammar-generated strings
	for _, f := range c09TagRanges {
		c09TagRange(c, "tagrange-pool", f)
	}
	digits := []string{"0", "1", "12", "9223372036854775807", "9223372036854775808", "99999999999999999999", "18446744073709551616", "000000000000000000001", "00000000000000000000099999999999999999999"}
	unitsuf := []string{"", "kb", "mb", "s", "ms", "zz", "B", "kB", "é"}
	piece := func() string {
		return PickS(r, []string{"", "", "+", "-", "x", " "}) + PickS(r, digits) + PickS(r, unitsuf)
	}
	for k := 0; k < c.Budget(300, 10000); k++ {
		var f string
		switch r.Intn(6) {
		case 0:
			f = piece()
		case 1:
			f = piece() + ":"
		case 2:
			f = ":" + piece()
		case 3:
			f = piece() + ":" + piece()
		case 4:
			f = piece() + PickS(r, []string{":", ",", " ", "::", "-"}) + piece() + PickS(r, []string{"", ":", ":" + piece()})
		default:
			f = c09Noisy(r)
		}
		c09TagRange(c, "tagrange-grammar", f)
	}

	// --- locateBinaries path construction
	for _, b := range c09BuildIDs {
		for _, f := range []string{"", "main", "/bin/main"} {
			c09Locate(c, "locate-matrix", []*profile.Mapping{{BuildID: b, File: f}})
		}
	}
	for k := 0; k < c.Budget(120, 5000); k++ {
		var ms []*profile.Mapping
		for j := r.Intn(4); j >= 0; j-- {
			ms = append(ms, &profile.Mapping{BuildID: PickS(r, c09BuildIDs), File: PickS(r, c09Files)})
		}
		c09Locate(c, "locate-random", ms)
	}
	// build ids and file names whose length or shape changes under normalisation, at lengths around
	// the guard of the slice: every single atom, every pair (quick: a sixth, rotating with the seed),
	// random strings of 3..5 atoms
	for _, a := range c09Atoms {
		c09Locate(c, "locate-odd-1", []*profile.Mapping{{BuildID: a, File: ""}, {BuildID: a, File: "/bin/main"}, {BuildID: "abc", File: a}})
	}
	for k, ab := range c09OddPairs() {
		if c.Tier == "thorough" || k%6 == int(c.Seed%6) {
			c09Locate(c, "locate-odd-2", []*profile.Mapping{{BuildID: ab, File: ""}, {BuildID: "0123abcd", File: ab}})
		}
	}
	for k := 0; k < c.Budget(200, 8000); k++ {
		id := c09OddString(r, 2) + c09OddString(r, 3)
		for len(id) < 3 {
			id += PickS(r, c09Atoms)
		}
		c09Locate(c, "locate-odd-n", []*profile.Mapping{{BuildID: id, File: c09OddString(r, 4)}})
	}

	case "config":
	// --- configure(name, value): full matrix of names x kind pools (thorough) / sampled (quick)
	allNames := append(append([]string{}, names...), choices...)
	allNames = append(allNames, "zz", "", "Focus", "cum ", "top")
	pools := [][]string{c09Bools, c09Ints, c09Floats, c09Regexps, c09Units, c09TagRanges}
	for _, n := range allNames {
		for _, pool := range pools {
			for _, v := range pool {
				if c.Tier == "thorough" || r.P(1, 8) {
					c09Set(c, "set-matrix", n, v)
				}
			}
		}
	}
	// --- applyURL
	genQuery := c09QueryGen(r)
	for k := 0; k < c.Budget(400, 10000); k++ {
		c09URL(c, "url-random", genQuery())
	}
	for _, q := range []string{"", "%", "a=%zz", "n=5&n=x", "n=x&n=5", "tf=99999999999999999999", "ti=1:99999999999999999999", "=", "&&", "n", "n=", "trim=maybe", "nf=nan", "sort=zz", "g=lines", "g=zz"} {
		c09URL(c, "url-pool", q)
	}

	case "session-hook":
	// --- interactive sessions, report requests recorded only (model-compared in full)
	for _, l := range c09Noise {
		p := GenProfile(r, Knobs{MaxSampleTypes: 2, MinSampleTypes: 1, MaxSamples: 1, MaxLocs: 1, MaxFuncs: 1, MaxDepth: 1})
		c09FixUnits(p)
		p.SampleType[0].Type = "samples"
		if len(p.SampleType) > 1 {
			p.SampleType[1].Type = "cpu"
		}
		c09Session(c, "session-pool", p, []string{l}, false)
	}
	for k := 0; k < c.Budget(400, 20000); k++ {
		p := c09Profile(r, false)
		var lines []string
		for j := 1 + r.Intn(4); j > 0; j-- {
			lines = append(lines, c09Line(r, names, kinds, choices, cmds, c09STypes(p)))
		}
		c09Session(c, "session-hook", p, lines, false)
	}

	}
}


