//go:build verif

package main

import (
	"fmt"
	"sort"
	"strings"

	"github.com/google/pprof/internal/graph"
	"github.com/google/pprof/internal/report"
	"github.com/google/pprof/profile"
)

func init() {
	registry["C05"] = runC05
}

func abs64h(v int64) int64 {
	if v < 0 {
		return -v
	}
	return v
}

// c05Cutoffs evaluates the implementation's own float expressions (report.go:137-139) on the
// untrimmed graph of the report: totalValue is the (wrapping) sum of the nodes' flat values.
func c05Cutoffs(p *profile.Profile, o *c04Opts) (g *graph.Graph, total int64, err error) {
	rpt, err := o.newReport(p)
	if err != nil {
		return nil, 0, err
	}
	g = report.VerifC04NewGraph(rpt)
	total, _ = g.Nodes.Sum()
	o.NodeCutoff = abs64h(int64(float64(total) * o.NodeFrac))
	o.EdgeCutoff = abs64h(int64(float64(total) * o.EdgeFrac))
	return g, total, nil
}

func legendExtrasTerm(txt string) []Term {
	dn, de, topn, outof := parseLegendExtras(txt)
	return []Term{Z(dn), Z(de), Z(topn), Z(outof)}
}

func dumpTrimmed(g *graph.Graph, orig, dn, de int) Term {
	var nodes []Term
	for _, n := range g.Nodes {
		nodes = append(nodes, c04DumpNode(n))
	}
	_, es := dumpGraph(g)
	return L(S("ok"), ZI(orig), ZI(dn), ZI(de), L(nodes...), SetOf(es))
}

// withLegend splices the legend extras between (shown,total) and the body of a parsed form.
func withLegend(parsed Term, txt string) Term {
	l := parsed.(tL).l
	out := append([]Term{}, l[:3]...)
	out = append(out, legendExtrasTerm(txt)...)
	out = append(out, l[3:]...)
	return L(out...)
}

func c05Observe(p *profile.Profile, o c04Opts, form string) (obs Term, order Term) {
	order = L()
	obs = c04Guarded(func() Term {
		rpt, err := o.newReport(p)
		if err != nil {
			return c04ErrClass(err)
		}
		switch form {
		case "tgraph":
			g, orig, dn, de := report.VerifC04Trimmed(rpt)
			return dumpTrimmed(g, orig, dn, de)
		case "top":
			txt, e := c04Text(p, o)
			if e != nil {
				return e
			}
			return withLegend(parseTop(txt), txt)
		case "webtop":
			txt, e := c04Text(p, o)
			if e != nil {
				return e
			}
			return c04WebTop(txt)
		case "tree":
			txt, e := c04Text(p, o)
			if e != nil {
				return e
			}
			return withLegend(parseTree(txt), txt)
		case "dotgraph":
			g, orig, dn, de := report.VerifC04Trimmed(rpt)
			var ord []Term
			for _, n := range g.Nodes {
				ord = append(ord, c04DumpInfo(n.Info))
			}
			order = L(ord...)
			return dumpTrimmed(g, orig, dn, de)
		case "dot":
			// the survivors and their order, from a second identical report
			rpt2, err := o.newReport(p)
			if err != nil {
				return c04ErrClass(err)
			}
			g, _ := report.GetDOT(rpt2)
			var ord []Term
			for _, n := range g.Nodes {
				ord = append(ord, c04DumpInfo(n.Info))
			}
			order = L(ord...)
			txt, e := c04Text(p, o)
			if e != nil {
				return e
			}
			return withLegend(parseDot(txt), txt)
		}
		panic("unknown form " + form)
	})
	return
}

// c05Settings enumerates trimming settings around the thresholds of this profile's untrimmed graph.
func c05Settings(r *Rng, g *graph.Graph, total int64) (counts []int, nodeFracs, edgeFracs []float64) {
	n := len(g.Nodes)
	counts = []int{0, 1, 2, 3, n - 1, n, n + 1}
	cums := map[int64]bool{}
	ws := map[int64]bool{}
	for _, nd := range g.Nodes {
		cums[abs64h(nd.Cum)] = true
		for _, e := range nd.Out {
			ws[abs64h(e.Weight)] = true
		}
	}
	frac := func(c int64) float64 {
		if total == 0 {
			return 0.5
		}
		f := float64(c) / float64(abs64h(total))
		if f < 0 {
			f = -f
		}
		return f
	}
	keys := func(m map[int64]bool) []int64 {
		var ks []int64
		for k := range m {
			ks = append(ks, k)
		}
		sort.Slice(ks, func(i, j int) bool { return ks[i] < ks[j] })
		return ks
	}
	nodeFracs = []float64{0, 0.005}
	for _, c := range keys(cums) {
		nodeFracs = append(nodeFracs, frac(c-1), frac(c), frac(c+1))
	}
	nodeFracs = append(nodeFracs, 1, 1.5)
	edgeFracs = []float64{0, 0.001}
	for _, c := range keys(ws) {
		edgeFracs = append(edgeFracs, frac(c), frac(c+1))
	}
	return
}

func runC05(c *Ctx) {
	r := c.R
	forms := []struct {
		form, format string
		text         bool
	}{
		{"tgraph", "text", false}, {"tgraph", "tree", false}, {"top", "text", true}, {"tree", "tree", true},
		{"dotgraph", "dot", false}, {"dot", "dot", true},
	}
	emit := func(gen string, p *profile.Profile, o c04Opts, form string) {
		g, total, err := c05Cutoffs(p, &o)
		_ = g
		_ = total
		if err != nil {
			return
		}
		via := o.Via
		if via == "" {
			via = "cli"
		}
		obs, order := c05Observe(p, o, form)
		in := L(DumpProfile(p), o.term(), S(form), fmtTable(p, o), order)
		trims := o.NodeCount > 0 || o.NodeCutoff > 0 || o.EdgeCutoff > 0
		c.Case(gen, in, obs, trims && len(p.Sample) > 1, "form:"+form, fmt.Sprintf("nodecount>0:%v", o.NodeCount > 0),
			fmt.Sprintf("nodecutoff>0:%v", o.NodeCutoff > 0), fmt.Sprintf("edgecutoff>0:%v", o.EdgeCutoff > 0),
			fmt.Sprintf("cumsort:%v", o.CumSort), "via:"+via, fmt.Sprintf("calltree:%v", o.CallTree), "gran:"+o.Gran)
	}
	forceGran := "*"
	var forceOpts func(o *c04Opts) // applied to the base options of a sweep
	allFracs := false              // sweep every node fraction instead of a random one
	sweep := func(gen string, p *profile.Profile, textable bool, per int) {
		base := c04Opts{Format: "text"}
		base.Gran = PickS(r, c04Grans)
		if forceGran != "*" {
			base.Gran = forceGran
		}
		base.NoInlines = r.P(1, 4)
		base.Mean = r.P(1, 5)
		base.DropNeg = r.P(1, 6)
		if n := len(p.SampleType); n > 0 && r.P(1, 2) {
			base.SampleIndex = fmt.Sprint(r.Intn(n))
		}
		if forceOpts != nil {
			forceOpts(&base)
		}
		g, total, err := c05Cutoffs(p, &base)
		if err != nil {
			return
		}
		counts, nfs, efs := c05Settings(r, g, total)
		counts = append(counts, -1) // not given: the command's default (none for top, 80 for tree/dot)
		if allFracs {
			per = len(nfs)
		}
		for k := 0; k < per; k++ {
			f := forms[r.Intn(len(forms))]
			if f.text && !textable {
				f = forms[r.Intn(2)]
			}
			o := base
			o.Format = f.format
			o.CumSort = r.P(1, 2)
			o.NodeCount = counts[r.Intn(len(counts))]
			if o.NodeCount < -1 {
				o.NodeCount = 0
			}
			o.NodeFrac = nfs[r.Intn(len(nfs))]
			o.EdgeFrac = efs[r.Intn(len(efs))]
			if r.P(1, 3) {
				o.NodeFrac = 0
			}
			if r.P(1, 2) {
				o.EdgeFrac = 0
			}
			if allFracs {
				f = forms[[]int{1, 2, 3}[k%3]] // tgraph(tree), top, tree
				o.Format, o.NodeFrac, o.EdgeFrac, o.NodeCount = f.format, nfs[k], 0, 0
			}
			form := f.form
			// call_tree is honoured by dot and callgrind only: text and tree reports must ignore it
			// (call trees with dot are trimmed in place by TrimTree, which is not modelled)
			if f.format != "dot" {
				o.CallTree = base.CallTree || r.P(1, 3)
				if r.P(1, 12) { // trim=false switches every limit off
					o.NoTrim = true
				}
			} else {
				o.CallTree = false
			}
			// the text forms travel through a real entry point: command line, session, web page
			if f.text && f.format != "dot" {
				o.Via = PickS(r, []string{"cli", "cli", "session", "web"})
				switch o.Via {
				case "session":
					o.Pre = []string{"nodefraction=0.9", "sample_index=nosuch_zz", "tree ((", "top 1 >decoy"}
					if r.Bool() && o.NodeCount >= 0 { // the count as the command's own argument
						o.HasArg, o.Arg, o.NodeCount = true, o.NodeCount, 1+r.Intn(3)
					}
				case "web":
					if f.format == "text" {
						form = "webtop" // the /top page always asks for 500 entries
					} else {
						o.Via = "cli"
					}
				}
			}
			emit(gen, p, o, form)
		}
	}
	// chains that lose a leaf, a root, the middle, everything
	for _, p := range c05Chains() {
		sweep("chain", p.Copy(), true, c.Budget(24, 300))
	}
	for _, p := range c04Shapes() {
		sweep("shape", p.Copy(), true, c.Budget(10, 200))
	}
	// a function with a lined location AND a location whose line is 0: at lines granularity (or
	// addresses with address 0) the line-less entry's NodeInfo IS the whole-function node that
	// FindOrInsertNode creates as a side effect for the lined one; trimming must still remove it
	for _, p := range c05LineLess() {
		for _, gr := range []string{"lines", "addresses", "lines"} {
			forceGran = gr
			sweep("lineless", p.Copy(), true, c.Budget(12, 200))
		}
	}
	forceGran = "*"
	// text and tree reports with call_tree set, every cutoff of every chain: a removed leaf must not
	// hand its flat to its caller (deterministic)
	allFracs = true
	forceOpts = func(o *c04Opts) { o.CallTree = true; o.NoInlines, o.Mean, o.DropNeg = false, false, false }
	for i, p := range c05Chains() {
		if i < 4 || c.Tier == "thorough" {
			forceGran = []string{"", "lines", "functions", "files"}[i%4]
			sweep("calltree-text", p.Copy(), true, 0)
		}
	}
	allFracs, forceOpts, forceGran = false, nil, "*"
	// source_path / trim_path: the report cleans file names when it builds the full graph; the kept set
	// of that build must still match in the rebuilds (deterministic part + random settings)
	for ci, cfg := range c05PathConfigs {
		forceOpts = func(o *c04Opts) { o.SourcePath, o.TrimPath = cfg[0], cfg[1]; o.NoInlines = false }
		for gi, gr := range []string{"lines", "files", "filefunctions", "addresses"} {
			forceGran = gr
			allFracs = gi == ci%4
			sweep("paths", c05PathProfile(false).Copy(), true, c.Budget(4, 60))
		}
	}
	allFracs = false
	// F42 (repaired in /repo 84fd0b7; regression case): the clean-up is not idempotent when the checkout's
	// base name occurs twice in a path, so it must run once per report and not again on a rebuild
	forceOpts = func(o *c04Opts) { o.SourcePath, o.TrimPath = "/home/me/proj", ""; o.NoInlines, o.Mean, o.DropNeg = false, false, false }
	forceGran = "lines"
	{
		p := c05PathProfile(true).Copy()
		o := c04Opts{Format: "text", Gran: "lines", SourcePath: "/home/me/proj", NodeFrac: 0.05}
		emit("finding-F42", p, o, "tgraph")
		emit("finding-F42", p, o, "top")
	}
	forceOpts, forceGran = nil, "*"
	// an interactive top/text whose count was not given shows 10 entries (13-entry profile; deterministic)
	{
		p := c04Big(6).Copy()
		emit("session-top10", p, c04Opts{Format: "text", NodeCount: -1, Via: "session"}, "top")
		emit("session-top10", p, c04Opts{Format: "text", NodeCount: -1, Via: "session", CmdText: true, CumSort: true}, "top")
		emit("session-top10", p, c04Opts{Format: "text", NodeCount: 3, Via: "session", HasArg: true, Arg: -1}, "top")
		emit("session-top10", p, c04Opts{Format: "tree", NodeCount: -1, Via: "session"}, "tree")
		emit("session-top10", p, c04Opts{Format: "text", NodeCount: -1}, "top")
	}
	nprof := c.Budget(60, 1500)
	for k := 0; k < nprof; k++ {
		kn := c04Knobs(r)
		kn.MaxSamples = 6
		textable := r.P(2, 3)
		if textable {
			kn.Extreme = false
		}
		p := GenProfile(r, kn)
		c04FixUnits(p)
		if textable {
			c04MakeTextable(r, p)
		}
		sweep("random", p.Copy(), textable, c.Budget(8, 16))
	}
}

// c05LineLess: function F has a location with line 10 and one with line 0 (address non-zero or
// zero), in both Profile.Location orders; F:10 is heavy, the line-less entry is light.
func c05LineLess() []*profile.Profile {
	var out []*profile.Profile
	for _, linedFirst := range []bool{true, false} {
		for _, addr0 := range []bool{false, true} {
			p := &profile.Profile{SampleType: []*profile.ValueType{{Type: "cpu", Unit: "count"}}}
			m := &profile.Mapping{ID: 1, Start: 0x1000, Limit: 0x9000, File: "bin/prog", HasFunctions: true}
			p.Mapping = []*profile.Mapping{m}
			fn := func(id uint64, name string) *profile.Function {
				f := &profile.Function{ID: id, Name: name, SystemName: name, Filename: name + ".go"}
				p.Function = append(p.Function, f)
				return f
			}
			fm, ff, fg, fh := fn(1, "main"), fn(2, "F"), fn(3, "G"), fn(4, "H")
			lessAddr := uint64(0x1020)
			if addr0 {
				lessAddr = 0
			}
			lmain := &profile.Location{ID: 1, Mapping: m, Address: 0x1001, Line: []profile.Line{{Function: fm, Line: 1}}}
			lined := &profile.Location{ID: 2, Mapping: m, Address: 0x1010, Line: []profile.Line{{Function: ff, Line: 10}}}
			less := &profile.Location{ID: 3, Mapping: m, Address: lessAddr, Line: []profile.Line{{Function: ff, Line: 0}}}
			lg := &profile.Location{ID: 4, Mapping: m, Address: 0x1030, Line: []profile.Line{{Function: fg, Line: 30}}}
			lh := &profile.Location{ID: 5, Mapping: m, Address: 0x1040, Line: []profile.Line{{Function: fh, Line: 40}}}
			gless := &profile.Location{ID: 6, Mapping: m, Address: lessAddr, Line: []profile.Line{{Function: fg, Line: 0}}}
			if linedFirst {
				p.Location = []*profile.Location{lmain, lined, less, lg, lh, gless}
			} else {
				p.Location = []*profile.Location{lmain, less, lined, gless, lg, lh}
			}
			add := func(v int64, st ...*profile.Location) {
				p.Sample = append(p.Sample, &profile.Sample{Value: []int64{v}, Location: st})
			}
			// leaf first
			add(100, lined, lmain)
			add(3, less, lmain)
			add(50, lg, lined, lmain)
			add(2, lh, less, lmain)
			add(20, lh, lmain)
			add(1, gless, lg, lmain)
			out = append(out, p)
		}
	}
	return out
}

// c05PathConfigs: (source_path, trim_path)
var c05PathConfigs = [][2]string{
	{"/home/me/proj", "/build"},
	{"/home/me/proj", ""},
	{"", "/build:/proc/self/cwd/w"},
	{"/x/none:/home/me/proj", "/nowhere"},
}

// c05PathProfile: file names under a build root, a Bazel-style /proc/self/cwd name, a relative one;
// with double: one file whose path contains the checkout's base name twice.
func c05PathProfile(double bool) *profile.Profile {
	p := &profile.Profile{SampleType: []*profile.ValueType{{Type: "cpu", Unit: "count"}}}
	m := &profile.Mapping{ID: 1, Start: 0x1000, Limit: 0x9000, File: "bin/prog", HasFunctions: true}
	p.Mapping = []*profile.Mapping{m}
	loc := func(name, file string) *profile.Location {
		id := uint64(len(p.Function) + 1)
		f := &profile.Function{ID: id, Name: name, SystemName: name, Filename: file}
		p.Function = append(p.Function, f)
		l := &profile.Location{ID: id, Mapping: m, Address: 0x1000 + 16*id, Line: []profile.Line{{Function: f, Line: int64(10 * id)}}}
		p.Location = append(p.Location, l)
		return l
	}
	lmain := loc("main", "/build/w/proj/main.go")
	la := loc("a", "/build/w/proj/a/a.go")
	ltiny := loc("tiny", "/build/w/proj/t/tiny.go")
	lb := loc("b", "/proc/self/cwd/w/proj/b/b.go")
	lc := loc("c", "other/c.go")
	add := func(v int64, st ...*profile.Location) {
		p.Sample = append(p.Sample, &profile.Sample{Value: []int64{v}, Location: st})
	}
	add(100, la, lmain)
	add(1, ltiny, lmain)
	add(50, lmain)
	add(30, lb, la, lmain)
	add(4, lc, lb, lmain)
	if double {
		ld := loc("d", "/build/proj/w/proj/d/d.go")
		add(70, ld, lmain)
	}
	return p
}

// c05Chains: linear chains and diamonds whose weights put every cutoff between distinct cums
func c05Chains() []*profile.Profile {
	var out []*profile.Profile
	mk := func(stacks [][]int, vals []int64) {
		names := []string{"r", "a", "b", "c", "d", "e"}
		p := &profile.Profile{SampleType: []*profile.ValueType{{Type: "cpu", Unit: "count"}}}
		m := &profile.Mapping{ID: 1, Start: 0x1000, Limit: 0x9000, File: "bin/prog", HasFunctions: true}
		p.Mapping = []*profile.Mapping{m}
		for i, nm := range names {
			f := &profile.Function{ID: uint64(i + 1), Name: nm, SystemName: nm, Filename: nm + ".go"}
			p.Function = append(p.Function, f)
			p.Location = append(p.Location, &profile.Location{ID: uint64(i + 1), Mapping: m, Address: uint64(0x1000 + 16*i),
				Line: []profile.Line{{Function: f, Line: int64(i + 1)}}})
		}
		for i, st := range stacks {
			s := &profile.Sample{Value: []int64{vals[i]}}
			for _, li := range st {
				s.Location = append(s.Location, p.Location[li])
			}
			p.Sample = append(p.Sample, s)
		}
		out = append(out, p)
	}
	// leaf first
	mk([][]int{{3, 2, 1, 0}, {2, 1, 0}, {1, 0}, {0}}, []int64{1, 10, 100, 1000})                     // chain, leaves are light
	mk([][]int{{3, 2, 1, 0}, {3, 2, 1}, {3, 2}, {3}}, []int64{1, 10, 100, 1000})                     // chain, roots are light
	mk([][]int{{3, 1, 0}, {3, 2, 0}, {3, 0}, {3, 2, 1, 0}}, []int64{50, 5, 7, 1})                     // middle removed, direct edge too
	mk([][]int{{4, 3, 2, 1, 0}, {4, 2, 0}, {4, 0}, {1, 4, 1, 0}}, []int64{3, 30, 300, 2})             // two removed in a row, recursion around a removed node
	mk([][]int{{2, 1, 0}, {2, 1, 0}, {5, 0}}, []int64{40, -40, 9})                                    // a node netting to zero in the middle (F21 shape)
	mk([][]int{{1, 0}, {2, 0}, {3, 0}, {4, 0}, {5, 0}}, []int64{5, 5, 5, 5, 5})                       // ties under both orders
	mk([][]int{{3, 2, 1, 0}, {2, 3, 1, 0}, {1, 2, 3, 0}}, []int64{-8, 8, 3})                          // negative values
	return out
}

var _ = strings.Join
