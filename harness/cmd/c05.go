//go:build verif

package main

import (
	"fmt"
	"sort"
	"strings"

	"github.com/google/pprof/internal/graph"
	"github.com/google/pprof/internal/report"
	"github.com/google/pprof/profile"
)

func init() {
	registry["C05"] = runC05
}

func abs64h(v int64) int64 {
	if v < 0 {
		return -v
	}
	return v
}

// c05Cutoffs evaluates the implementation's own float expressions (report.go:137-139) on the
// untrimmed graph of the report: totalValue is the (wrapping) sum of the nodes' flat values.
func c05Cutoffs(p *profile.Profile, o *c04Opts) (g *graph.Graph, total int64, err error) {
	rpt, err := o.newReport(p)
	if err != nil {
		return nil, 0, err
	}
	g = report.VerifC04NewGraph(rpt)
	total, _ = g.Nodes.Sum()
	o.NodeCutoff = abs64h(int64(float64(total) * o.NodeFrac))
	o.EdgeCutoff = abs64h(int64(float64(total) * o.EdgeFrac))
	return g, total, nil
}

func legendExtrasTerm(txt string) []Term {
	dn, de, topn, outof := parseLegendExtras(txt)
	return []Term{Z(dn), Z(de), Z(topn), Z(outof)}
}

func dumpTrimmed(g *graph.Graph, orig, dn, de int) Term {
	var nodes []Term
	for _, n := range g.Nodes {
		nodes = append(nodes, c04DumpNode(n))
	}
	_, es := dumpGraph(g)
	return L(S("ok"), ZI(orig), ZI(dn), ZI(de), L(nodes...), SetOf(es))
}

// withLegend splices the legend extras between (shown,total) and the body of a parsed form.
func withLegend(parsed Term, txt string) Term {
	l := parsed.(tL).l
	out := append([]Term{}, l[:3]...)
	out = append(out, legendExtrasTerm(txt)...)
	out = append(out, l[3:]...)
	return L(out...)
}

func c05Observe(p *profile.Profile, o c04Opts, form string) (obs Term, order Term) {
	order = L()
	obs = c04Guarded(func() Term {
		rpt, err := o.newReport(p)
		if err != nil {
			return c04ErrClass(err)
		}
		switch form {
		case "tgraph":
			g, orig, dn, de := report.VerifC04Trimmed(rpt)
			return dumpTrimmed(g, orig, dn, de)
		case "top":
			txt := c04Generate(rpt)
			return withLegend(parseTop(txt), txt)
		case "tree":
			txt := c04Generate(rpt)
			return withLegend(parseTree(txt), txt)
		case "dotgraph":
			g, orig, dn, de := report.VerifC04Trimmed(rpt)
			var ord []Term
			for _, n := range g.Nodes {
				ord = append(ord, c04DumpInfo(n.Info))
			}
			order = L(ord...)
			return dumpTrimmed(g, orig, dn, de)
		case "dot":
			// the survivors and their order, from a second identical report
			rpt2, err := o.newReport(p)
			if err != nil {
				return c04ErrClass(err)
			}
			g, _ := report.GetDOT(rpt2)
			var ord []Term
			for _, n := range g.Nodes {
				ord = append(ord, c04DumpInfo(n.Info))
			}
			order = L(ord...)
			txt := c04Generate(rpt)
			return withLegend(parseDot(txt), txt)
		}
		panic("unknown form " + form)
	})
	return
}

// c05Settings enumerates trimming settings around the thresholds of this profile's untrimmed graph.
func c05Settings(r *Rng, g *graph.Graph, total int64) (counts []int, nodeFracs, edgeFracs []float64) {
	n := len(g.Nodes)
	counts = []int{0, 1, 2, 3, n - 1, n, n + 1}
	cums := map[int64]bool{}
	ws := map[int64]bool{}
	for _, nd := range g.Nodes {
		cums[abs64h(nd.Cum)] = true
		for _, e := range nd.Out {
			ws[abs64h(e.Weight)] = true
		}
	}
	frac := func(c int64) float64 {
		if total == 0 {
			return 0.5
		}
		f := float64(c) / float64(abs64h(total))
		if f < 0 {
			f = -f
		}
		return f
	}
	keys := func(m map[int64]bool) []int64 {
		var ks []int64
		for k := range m {
			ks = append(ks, k)
		}
		sort.Slice(ks, func(i, j int) bool { return ks[i] < ks[j] })
		return ks
	}
	nodeFracs = []float64{0, 0.005}
	for _, c := range keys(cums) {
		nodeFracs = append(nodeFracs, frac(c-1), frac(c), frac(c+1))
	}
	nodeFracs = append(nodeFracs, 1, 1.5)
	edgeFracs = []float64{0, 0.001}
	for _, c := range keys(ws) {
		edgeFracs = append(edgeFracs, frac(c), frac(c+1))
	}
	return
}

func runC05(c *Ctx) {
	r := c.R
	forms := []struct {
		form, format string
		text         bool
	}{
		{"tgraph", "text", false}, {"tgraph", "tree", false}, {"top", "text", true}, {"tree", "tree", true},
		{"dotgraph", "dot", false}, {"dot", "dot", true},
	}
	emit := func(gen string, p *profile.Profile, o c04Opts, form string) {
		g, total, err := c05Cutoffs(p, &o)
		_ = g
		_ = total
		if err != nil {
			return
		}
		obs, order := c05Observe(p, o, form)
		in := L(DumpProfile(p), o.term(), S(form), fmtTable(p, o), order)
		trims := o.NodeCount > 0 || o.NodeCutoff > 0 || o.EdgeCutoff > 0
		c.Case(gen, in, obs, trims && len(p.Sample) > 1, "form:"+form, fmt.Sprintf("nodecount>0:%v", o.NodeCount > 0),
			fmt.Sprintf("nodecutoff>0:%v", o.NodeCutoff > 0), fmt.Sprintf("edgecutoff>0:%v", o.EdgeCutoff > 0),
			fmt.Sprintf("cumsort:%v", o.CumSort), "gran:"+o.Gran)
	}
	forceGran := "*"
	sweep := func(gen string, p *profile.Profile, textable bool, per int) {
		base := c04Opts{Format: "text"}
		base.Gran = PickS(r, c04Grans)
		if forceGran != "*" {
			base.Gran = forceGran
		}
		base.NoInlines = r.P(1, 4)
		base.Mean = r.P(1, 5)
		base.DropNeg = r.P(1, 6)
		if n := len(p.SampleType); n > 0 && r.P(1, 2) {
			base.SampleIndex = fmt.Sprint(r.Intn(n))
		}
		g, total, err := c05Cutoffs(p, &base)
		if err != nil {
			return
		}
		counts, nfs, efs := c05Settings(r, g, total)
		for k := 0; k < per; k++ {
			f := forms[r.Intn(len(forms))]
			if f.text && !textable {
				f = forms[r.Intn(2)]
			}
			o := base
			o.Format = f.format
			o.CumSort = r.P(1, 2)
			o.NodeCount = counts[r.Intn(len(counts))]
			if o.NodeCount < 0 {
				o.NodeCount = 0
			}
			o.NodeFrac = nfs[r.Intn(len(nfs))]
			o.EdgeFrac = efs[r.Intn(len(efs))]
			if r.P(1, 3) {
				o.NodeFrac = 0
			}
			if r.P(1, 2) {
				o.EdgeFrac = 0
			}
			emit(gen, p, o, f.form)
		}
	}
	// chains that lose a leaf, a root, the middle, everything
	for _, p := range c05Chains() {
		sweep("chain", p.Copy(), true, c.Budget(24, 300))
	}
	for _, p := range c04Shapes() {
		sweep("shape", p.Copy(), true, c.Budget(10, 200))
	}
	// a function with a lined location AND a location whose line is 0: at lines granularity (or
	// addresses with address 0) the line-less entry's NodeInfo IS the whole-function node that
	// FindOrInsertNode creates as a side effect for the lined one; trimming must still remove it
	for _, p := range c05LineLess() {
		for _, gr := range []string{"lines", "addresses", "lines"} {
			forceGran = gr
			sweep("lineless", p.Copy(), true, c.Budget(12, 200))
		}
	}
	forceGran = "*"
	nprof := c.Budget(80, 1500)
	for k := 0; k < nprof; k++ {
		kn := c04Knobs(r)
		kn.MaxSamples = 6
		textable := r.P(2, 3)
		if textable {
			kn.Extreme = false
		}
		p := GenProfile(r, kn)
		c04FixUnits(p)
		if textable {
			c04MakeTextable(r, p)
		}
		sweep("random", p.Copy(), textable, c.Budget(8, 16))
	}
}

// c05LineLess: function F has a location with line 10 and one with line 0 (address non-zero or
// zero), in both Profile.Location orders; F:10 is heavy, the line-less entry is light.
func c05LineLess() []*profile.Profile {
	var out []*profile.Profile
	for _, linedFirst := range []bool{true, false} {
		for _, addr0 := range []bool{false, true} {
			p := &profile.Profile{SampleType: []*profile.ValueType{{Type: "cpu", Unit: "count"}}}
			m := &profile.Mapping{ID: 1, Start: 0x1000, Limit: 0x9000, File: "bin/prog", HasFunctions: true}
			p.Mapping = []*profile.Mapping{m}
			fn := func(id uint64, name string) *profile.Function {
				f := &profile.Function{ID: id, Name: name, SystemName: name, Filename: name + ".go"}
				p.Function = append(p.Function, f)
				return f
			}
			fm, ff, fg, fh := fn(1, "main"), fn(2, "F"), fn(3, "G"), fn(4, "H")
			lessAddr := uint64(0x1020)
			if addr0 {
				lessAddr = 0
			}
			lmain := &profile.Location{ID: 1, Mapping: m, Address: 0x1001, Line: []profile.Line{{Function: fm, Line: 1}}}
			lined := &profile.Location{ID: 2, Mapping: m, Address: 0x1010, Line: []profile.Line{{Function: ff, Line: 10}}}
			less := &profile.Location{ID: 3, Mapping: m, Address: lessAddr, Line: []profile.Line{{Function: ff, Line: 0}}}
			lg := &profile.Location{ID: 4, Mapping: m, Address: 0x1030, Line: []profile.Line{{Function: fg, Line: 30}}}
			lh := &profile.Location{ID: 5, Mapping: m, Address: 0x1040, Line: []profile.Line{{Function: fh, Line: 40}}}
			gless := &profile.Location{ID: 6, Mapping: m, Address: lessAddr, Line: []profile.Line{{Function: fg, Line: 0}}}
			if linedFirst {
				p.Location = []*profile.Location{lmain, lined, less, lg, lh, gless}
			} else {
				p.Location = []*profile.Location{lmain, less, lined, gless, lg, lh}
			}
			add := func(v int64, st ...*profile.Location) {
				p.Sample = append(p.Sample, &profile.Sample{Value: []int64{v}, Location: st})
			}
			// leaf first
			add(100, lined, lmain)
			add(3, less, lmain)
			add(50, lg, lined, lmain)
			add(2, lh, less, lmain)
			add(20, lh, lmain)
			add(1, gless, lg, lmain)
			out = append(out, p)
		}
	}
	return out
}

// c05Chains: linear chains and diamonds whose weights put every cutoff between distinct cums
func c05Chains() []*profile.Profile {
	var out []*profile.Profile
	mk := func(stacks [][]int, vals []int64) {
		names := []string{"r", "a", "b", "c", "d", "e"}
		p := &profile.Profile{SampleType: []*profile.ValueType{{Type: "cpu", Unit: "count"}}}
		m := &profile.Mapping{ID: 1, Start: 0x1000, Limit: 0x9000, File: "bin/prog", HasFunctions: true}
		p.Mapping = []*profile.Mapping{m}
		for i, nm := range names {
			f := &profile.Function{ID: uint64(i + 1), Name: nm, SystemName: nm, Filename: nm + ".go"}
			p.Function = append(p.Function, f)
			p.Location = append(p.Location, &profile.Location{ID: uint64(i + 1), Mapping: m, Address: uint64(0x1000 + 16*i),
				Line: []profile.Line{{Function: f, Line: int64(i + 1)}}})
		}
		for i, st := range stacks {
			s := &profile.Sample{Value: []int64{vals[i]}}
			for _, li := range st {
				s.Location = append(s.Location, p.Location[li])
			}
			p.Sample = append(p.Sample, s)
		}
		out = append(out, p)
	}
	// leaf first
	mk([][]int{{3, 2, 1, 0}, {2, 1, 0}, {1, 0}, {0}}, []int64{1, 10, 100, 1000})                     // chain, leaves are light
	mk([][]int{{3, 2, 1, 0}, {3, 2, 1}, {3, 2}, {3}}, []int64{1, 10, 100, 1000})                     // chain, roots are light
	mk([][]int{{3, 1, 0}, {3, 2, 0}, {3, 0}, {3, 2, 1, 0}}, []int64{50, 5, 7, 1})                     // middle removed, direct edge too
	mk([][]int{{4, 3, 2, 1, 0}, {4, 2, 0}, {4, 0}, {1, 4, 1, 0}}, []int64{3, 30, 300, 2})             // two removed in a row, recursion around a removed node
	mk([][]int{{2, 1, 0}, {2, 1, 0}, {5, 0}}, []int64{40, -40, 9})                                    // a node netting to zero in the middle (F21 shape)
	mk([][]int{{1, 0}, {2, 0}, {3, 0}, {4, 0}, {5, 0}}, []int64{5, 5, 5, 5, 5})                       // ties under both orders
	mk([][]int{{3, 2, 1, 0}, {2, 3, 1, 0}, {1, 2, 3, 0}}, []int64{-8, 8, 3})                          // negative values
	return out
}

var _ = strings.Join
