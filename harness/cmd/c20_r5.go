//go:build verif

package main

// C20 round 5: shared helpers behind the anchored mechanisms, on the shapes they are rarely given.
//  - the DEFAULT UI (stdUI, installed by setDefaults) is the one object every parallel fetch goroutine
//    and every web handler prints to: messages printed at the same moment must come out as whole lines;
//  - the settings file read lock-free by every page (configMenu -> readSettings) while saves run, with
//    the file being a regular file, a symbolic link, or reached through a symlinked directory.

import (
	"fmt"
	"os"
	"path/filepath"
	"regexp"
	"sort"
	"strconv"
	"strings"
	"sync/atomic"
	"time"

	"github.com/google/pprof/internal/driver"
	"github.com/google/pprof/internal/plugin"
)

var c20Digits = regexp.MustCompile(`[0-9]+`)

// c20WithStderr runs fn with os.Stderr redirected to an O_APPEND file and returns what was written.
func c20WithStderr(path string, fn func()) string {
	f, err := os.OpenFile(path, os.O_CREATE|os.O_WRONLY|os.O_APPEND|os.O_TRUNC, 0o644)
	if err != nil {
		return "cannot redirect"
	}
	old := os.Stderr
	os.Stderr = f
	func() {
		defer func() { os.Stderr = old; f.Close() }()
		fn()
	}()
	b, _ := os.ReadFile(path)
	return string(b)
}

func c20R5(c *Ctx) {
	cwd, _ := os.Getwd()
	base := filepath.Join(cwd, "c20-r5")
	os.MkdirAll(base, 0o755)
	defer os.RemoveAll(base)
	seq := 0

	// ---- default UI, directly: k goroutines print m messages each (with and without trailing newline,
	// empty, long, multi-argument); every message must be a line of its own
	uiCase := func(gen string, k, m, shape int) {
		seq++
		ui := driver.VerifC20DefaultUI()
		msg := func(i, j int) string {
			switch shape {
			case 1: // long messages (lists of unsymbolized binaries, server responses)
				return fmt.Sprintf("g%d-m%d-", i, j) + strings.Repeat("x", 300+j%7)
			case 2: // already newline-terminated
				return fmt.Sprintf("g%d-m%d\n", i, j)
			}
			return fmt.Sprintf("g%d-m%d", i, j)
		}
		out := c20WithStderr(filepath.Join(base, fmt.Sprintf("ui%d.txt", seq)), func() {
			c20RunPar(k, func(i int) {
				for j := 0; j < m; j++ {
					if j%2 == 0 {
						ui.PrintErr(msg(i, j))
					} else {
						ui.PrintErr(fmt.Sprintf("g%d-", i), strings.TrimPrefix(msg(i, j), fmt.Sprintf("g%d-", i)))
					}
				}
			})
		})
		want := map[string]int{}
		for i := 0; i < k; i++ {
			for j := 0; j < m; j++ {
				want[strings.TrimSuffix(msg(i, j), "\n")]++
			}
		}
		empty, torn, lines := 0, 0, 0
		for _, l := range strings.Split(strings.TrimSuffix(out, "\n"), "\n") {
			lines++
			switch {
			case l == "":
				empty++
			case want[l] > 0:
				want[l]--
			default:
				torn++
			}
		}
		c.Case(gen, L(S("ui-lines"), ZI(k), ZI(m), ZI(shape)), L(ZI(lines), ZI(empty), ZI(torn)), k >= 2, "op:ui-lines")
	}
	uiCase("ui-lines-16x300", 16, 300, 0)
	uiCase("ui-lines-long", 8, 200, 1)
	uiCase("ui-lines-newline-terminated", 8, 200, 2)
	uiCase("ui-lines-single", 1, 50, 0)
	for n := 0; n < c.Budget(4, 60); n++ {
		uiCase("ui-lines-random", 2+c.R.Intn(14), 50+c.R.Intn(300), c.R.Intn(3))
	}

	// ---- default UI, end to end: one invocation fetching many remote sources (every fetch goroutine
	// reports "Fetching profile over HTTP from ..." and failures through the UI), Options.UI left nil;
	// the stderr of the parallel run must consist of the lines the same sources give one at a time
	srv := c20StartServers()
	defer srv.plain.Close()
	defer srv.tls.Close()
	os.Setenv("PPROF_TMPDIR", filepath.Join(base, "saved"))
	norm := func(l string) string { return c20Digits.ReplaceAllString(l, "#") }
	fetchUI := func(gen string, good, bad int) {
		seq++
		d := filepath.Join(base, fmt.Sprintf("fu%d", seq))
		os.MkdirAll(d, 0o755)
		defer os.RemoveAll(d)
		var srcs []string
		for i := 0; i < good; i++ {
			srcs = append(srcs, srv.plain.URL+"/p?v="+strconv.Itoa(i+1))
		}
		for i := 0; i < bad; i++ {
			srcs = append(srcs, srv.tls.URL+"/p?v="+strconv.Itoa(i+1)) // untrusted certificate: reported and skipped
		}
		run := func(list []string, tag string) (string, int64) {
			out := filepath.Join(d, tag+".pb")
			args := append([]string{"-proto", "-symbolize=none", "-output=" + out}, list...)
			var total int64
			text := c20WithStderr(filepath.Join(d, tag+".err"), func() {
				o := &plugin.Options{Flagset: newC09Flags(args), Sym: c09Sym{}, Obj: &c09Obj{}} // UI: default
				total, _, _ = c20RunPProf(o, out, 60*time.Second)
			})
			return text, total
		}
		known := map[string]bool{norm("Fetched 1 source profiles out of 2"): true}
		for i, s := range srcs { // one at a time: the vocabulary of whole lines
			t, _ := run([]string{s}, "o"+strconv.Itoa(i))
			for _, l := range strings.Split(t, "\n") {
				known[norm(l)] = true
			}
		}
		text, total := run(srcs, "o999")
		empty, torn := 0, 0
		for _, l := range strings.Split(strings.TrimSuffix(text, "\n"), "\n") {
			switch {
			case l == "":
				empty++
			case !known[norm(l)]:
				torn++
				c.dist["ui-fetch:unknown-line:"+norm(l)]++
			}
		}
		c.Case(gen, L(S("ui-fetch"), ZI(good), ZI(bad)), L(Z(total), ZI(empty), ZI(torn)), good+bad >= 2, "op:ui-fetch")
	}
	fetchUI("ui-fetch-24-remote", 24, 0)
	fetchUI("ui-fetch-with-failures", 12, 12)
	for n := 0; n < c.Budget(1, 20); n++ {
		fetchUI("ui-fetch-random", 2+c.R.Intn(30), c.R.Intn(10))
	}

	// ---- pages read the settings file lock-free (configMenu) while saves and deletes run; the file may
	// be a regular file (shape 0), a symbolic link to a file elsewhere (1), a dangling symlink at first (2),
	// or live in a directory reached through a symlink (3); every read must list all configs saved before
	settingsCase := func(gen string, shape, nsaved, writers, readers int) {
		seq++
		d := filepath.Join(base, fmt.Sprintf("st%d", seq))
		os.MkdirAll(filepath.Join(d, "real"), 0o755)
		defer os.RemoveAll(d)
		fname := filepath.Join(d, "settings.json")
		switch shape {
		case 1:
			os.WriteFile(filepath.Join(d, "real", "dotfiles.json"), []byte("{}"), 0o644)
			os.Symlink(filepath.Join(d, "real", "dotfiles.json"), fname)
		case 2:
			os.Symlink(filepath.Join(d, "real", "not-yet.json"), fname)
		case 3:
			os.Symlink(filepath.Join(d, "real"), filepath.Join(d, "cfg"))
			fname = filepath.Join(d, "cfg", "settings.json")
		}
		var names []string
		ok := true
		for i := 0; i < nsaved; i++ {
			names = append(names, fmt.Sprintf("saved%03d", i))
			if err := driver.VerifC20SaveConfig(fname, names[i]); err != nil {
				ok = false
			}
		}
		p := c20OneSample(7)
		serve, err := driver.VerifC20Web(p, &plugin.Options{UI: &c20UI{}, Obj: &c09Obj{}}, fname)
		if err != nil {
			return
		}
		var running int32 = int32(writers)
		var badReads, badPages, reads int32
		c20RunPar(writers+readers, func(i int) {
			if i < writers {
				for j := 0; j < 60; j++ { // re-save existing configs, add and delete an extra one
					serve("saveconfig", "config="+names[(i*7+j)%nsaved])
					if j%10 == 9 {
						serve("saveconfig", "config=extra"+strconv.Itoa(i))
						serve("deleteconfig", "config=extra"+strconv.Itoa(i))
					}
				}
				atomic.AddInt32(&running, -1)
				return
			}
			for j := 0; j < 3000 && (atomic.LoadInt32(&running) > 0 || j < 3); j++ {
				atomic.AddInt32(&reads, 1)
				if j%8 == 7 { // a whole page: its config menu must list every saved config
					_, body := serve("top", "")
					for _, n := range names {
						if !strings.Contains(body, n) {
							atomic.AddInt32(&badPages, 1)
							break
						}
					}
					continue
				}
				got, err := driver.VerifC20ConfigNames(fname)
				have := map[string]bool{}
				for _, g := range got {
					have[g] = true
				}
				miss := err != nil
				for _, n := range names {
					if !have[n] {
						miss = true
					}
				}
				if miss {
					atomic.AddInt32(&badReads, 1)
				}
			}
		})
		final, _ := driver.VerifC20ConfigNames(fname)
		sort.Strings(final)
		c.dist["settings-readers:reads"] += int(reads)
		c.Case(gen, L(S("settings-read"), ZI(shape), Ss(names), ZI(writers), ZI(readers)),
			L(Bool(ok), Z(int64(badReads)), Z(int64(badPages)), Ss(final), Ss(driver.VerifC20LeakedLocks())), true, "op:settings-read")
	}
	for shape := 0; shape < 4; shape++ {
		settingsCase("settings-read-shape"+strconv.Itoa(shape), shape, 30, 2, 6)
	}
	for n := 0; n < c.Budget(2, 60); n++ {
		settingsCase("settings-read-random", c.R.Intn(4), 5+c.R.Intn(40), 1+c.R.Intn(3), 1+c.R.Intn(6))
	}
}
