//go:build verif

package main

// C08, round 5: helpers on the way INTO the reports.
//
//	parse   : a legacy binary CPU profile (profile/legacy_profile.go cpuProfile and its signal-handler
//	          frame heuristic, which ranges over a map of second-frame counts) is parsed 48 times from
//	          the same bytes (profile.ParseData) and rendered (-raw, -traces, -top -addresses) through
//	          driver.PProf; observable = numbers of distinct results.  Shapes are fixed.
//	e2e-sym : driver.PProf -proto -symbolize=local with the REAL symbolizer over a scripted object tool
//	          whose per-binary delay rotates from run to run; profiles with 1, 2, 3 mappings, a location
//	          without mapping, a mapping without locations, inlined frames; observable = distinct outputs.

import (
	"bytes"
	"encoding/binary"
	"fmt"
	"path/filepath"
	"regexp"
	"strings"
	"time"

	"github.com/google/pprof/internal/plugin"
	"github.com/google/pprof/profile"
)

type c08LegacyRec struct {
	count uint64
	stack []uint64
}

// c08LegacyCPU renders records in the binary "profilez" CPU format (little endian 64-bit words).
func c08LegacyCPU(period uint64, recs []c08LegacyRec) []byte {
	var b bytes.Buffer
	w := func(v uint64) { binary.Write(&b, binary.LittleEndian, v) }
	for _, v := range []uint64{0, 3, 0, period, 0} {
		w(v)
	}
	for _, r := range recs {
		w(r.count)
		w(uint64(len(r.stack)))
		for _, a := range r.stack {
			w(a)
		}
	}
	w(0)
	w(1)
	w(0)
	b.WriteString("00400000-00500000 r-xp 00000000 00:00 0 /bin/legacy\n")
	return b.Bytes()
}

type c08LegacyShape struct {
	name string
	recs []c08LegacyRec
}

func c08LegacyShapes() []c08LegacyShape {
	leaf := func(n int, base uint64) []c08LegacyRec {
		var rs []c08LegacyRec
		for i := 0; i < n; i++ {
			rs = append(rs, c08LegacyRec{uint64(1 + i%3), []uint64{base + uint64(i)*8}})
		}
		return rs
	}
	deep := func(n int, leafBase, second uint64, rest ...uint64) []c08LegacyRec {
		var rs []c08LegacyRec
		for i := 0; i < n; i++ {
			rs = append(rs, c08LegacyRec{uint64(1 + i%2), append([]uint64{leafBase + uint64(i)*8, second}, rest...)})
		}
		return rs
	}
	cat := func(l ...[]c08LegacyRec) []c08LegacyRec {
		var rs []c08LegacyRec
		for _, x := range l {
			rs = append(rs, x...)
		}
		return rs
	}
	const A, B, C, M = 0x401001, 0x402001, 0x403001, 0x404001
	return []c08LegacyShape{
		{"leafonly60+deep2x2", cat(leaf(60, 0x410000), deep(2, 0x420000, A, M), deep(2, 0x421000, B, M))},
		{"leafonly62+deep1x2", cat(leaf(62, 0x410000), deep(1, 0x420000, A, M), deep(1, 0x421000, B, M))},
		{"leafonly90+deep2x3", cat(leaf(90, 0x410000), deep(2, 0x420000, A), deep(2, 0x421000, B), deep(2, 0x422000, C))},
		{"alldeep-common-second", deep(40, 0x420000, A, M)},
		{"alldeep-two-levels", deep(40, 0x420000, A, B, M)},
		{"threshold-33of34", cat(deep(33, 0x420000, A, M), deep(1, 0x421000, B, M))},
		{"threshold-32of34", cat(deep(32, 0x420000, A, M), deep(2, 0x421000, B, M))},
		{"threshold-31of32", cat(deep(31, 0x420000, A, M), deep(1, 0x421000, B, M))},
		{"half-half", cat(deep(20, 0x420000, A, M), deep(20, 0x421000, B, M))},
		{"one-leaf-sample", leaf(1, 0x410000)},
		{"one-deep-sample", deep(1, 0x420000, A, M)},
		{"two-deep-two-callers", cat(deep(1, 0x420000, A, M), deep(1, 0x421000, B, M))},
		{"no-samples", nil},
	}
}

func c08LegacyTerm(recs []c08LegacyRec) Term {
	var ts []Term
	for _, r := range recs {
		var st []Term
		for _, a := range r.stack {
			st = append(st, ZU(a))
		}
		ts = append(ts, L(ZU(r.count), L(st...)))
	}
	return L(ts...)
}

// called from c08E2E (inside its environment: stdout capture, scratch config dir)
func c08E2ELegacy(c *Ctx) {
	unstable := 0
	for _, sh := range c08LegacyShapes() {
		data := c08LegacyCPU(10000, sh.recs)
		n1, first, _ := distinct(48, func() string {
			p, err := profile.ParseData(data)
			if err != nil {
				return "error"
			}
			return p.String()
		})
		obs := []Term{ZI(n1)}
		for _, args := range [][]string{{"-raw", "-output=rep"}, {"-traces", "-output=rep"}, {"-top", "-addresses", "-output=rep"}} {
			n, _, _ := distinct(12, func() string { return c08E2ERunCLI(data, args) })
			obs = append(obs, ZI(n))
		}
		if n1 > 1 {
			unstable++
		}
		c.Case("parse-legacy-cpu", L(S("parse"), S("legacy-cpu:"+sh.name), c08LegacyTerm(sh.recs)), L(obs...), first != "error" && len(sh.recs) >= 2, "parse")
	}
	c.Extra["parse_legacy_unstable"] = unstable
}

// ------------------------------------------------------------------------------------------- e2e-sym

type c08SymTool struct {
	slow  string // base name of the binary that answers slowly in this run
	delay time.Duration
}
type c08SymFile struct {
	t    *c08SymTool
	name string
}

func (t *c08SymTool) Open(file string, start, limit, offset uint64, reloc string) (plugin.ObjFile, error) {
	if strings.Contains(file, "missing") {
		return nil, fmt.Errorf("no such file")
	}
	return &c08SymFile{t, file}, nil
}
func (t *c08SymTool) Disasm(string, uint64, uint64, bool) ([]plugin.Inst, error) {
	return nil, fmt.Errorf("no disassembler")
}
func (f *c08SymFile) Name() string                        { return f.name }
func (f *c08SymFile) ObjAddr(addr uint64) (uint64, error) { return addr, nil }
func (f *c08SymFile) BuildID() string                     { return "" }
func (f *c08SymFile) Close() error                        { return nil }
func (f *c08SymFile) Symbols(*regexp.Regexp, uint64) ([]*plugin.Sym, error) {
	return nil, fmt.Errorf("no symbols")
}
func (f *c08SymFile) SourceLine(addr uint64) ([]plugin.Frame, error) {
	base := filepath.Base(f.name)
	if base == f.t.slow {
		time.Sleep(f.t.delay)
	}
	fr := []plugin.Frame{{Func: fmt.Sprintf("%s_f%d", base, (addr/16)%3), File: base + ".c", Line: int(addr % 97)}}
	if addr%32 == 16 { // an inlined callee in front
		fr = append([]plugin.Frame{{Func: base + "_inl", File: base + ".h", Line: 7}}, fr...)
	}
	return fr, nil
}

// unsymbolized profile over the given binaries; noMap adds a location without mapping, idle a mapping without locations
func c08SymProfile(bins []string, noMap, idle bool) *profile.Profile {
	p := &profile.Profile{SampleType: []*profile.ValueType{{Type: "samples", Unit: "count"}}}
	for i, b := range bins {
		p.Mapping = append(p.Mapping, &profile.Mapping{ID: uint64(i + 1), Start: uint64(i+1) << 20, Limit: uint64(i+1)<<20 + 0x10000, File: b})
	}
	if idle {
		p.Mapping = append(p.Mapping, &profile.Mapping{ID: uint64(len(bins) + 1), Start: 0x7000000, Limit: 0x7010000, File: "/lib/libidle.so"})
	}
	for i := range bins {
		for k := 0; k < 3; k++ {
			p.Location = append(p.Location, &profile.Location{ID: uint64(len(p.Location) + 1), Mapping: p.Mapping[i], Address: p.Mapping[i].Start + uint64(0x100+16*k)})
		}
	}
	if noMap {
		p.Location = append(p.Location, &profile.Location{ID: uint64(len(p.Location) + 1), Address: 0x99})
	}
	for i, l := range p.Location {
		st := []*profile.Location{l}
		if i+1 < len(p.Location) {
			st = append(st, p.Location[i+1])
		}
		st = append(st, p.Location[0])
		p.Sample = append(p.Sample, &profile.Sample{Location: st, Value: []int64{int64(1 + i%4)}})
	}
	return p
}

func c08E2ESym(c *Ctx) {
	type shape struct {
		name        string
		bins        []string
		noMap, idle bool
	}
	shapes := []shape{
		{"three-binaries", []string{"/bin/app", "/lib/libfoo.so", "/lib/libbar.so"}, false, false},
		{"two-binaries", []string{"/bin/app", "/lib/libfoo.so"}, false, false},
		{"one-binary", []string{"/bin/app"}, false, false},
		{"three-binaries+unmapped+idle", []string{"/bin/app", "/lib/libfoo.so", "/lib/libbar.so"}, true, true},
		{"two-binaries-one-missing", []string{"/bin/app", "/lib/missing.so", "/lib/libbar.so"}, false, false},
	}
	unstable := 0
	for _, sh := range shapes {
		p := c08SymProfile(sh.bins, sh.noMap, sh.idle)
		data := c08E2EBytes(p)
		for _, args := range [][]string{{"-proto", "-symbolize=local", "-output=rep"}, {"-raw", "-symbolize=local", "-output=rep"}} {
			run := 0
			n, first, _ := distinct(6, func() string {
				tool := &c08SymTool{slow: filepath.Base(sh.bins[run%len(sh.bins)]), delay: 3 * time.Millisecond}
				run++
				return c08E2ERunCLIWith(data, args, tool, nil)
			})
			kind := first
			if strings.HasPrefix(first, "ok:") {
				kind = "ok"
			}
			if n > 1 {
				unstable++
			}
			c.Case("e2e-sym", L(S("e2e-cli"), Ss(args), DumpProfile(p), S(sh.name)), L(ZI(n), S(kind)), len(sh.bins) >= 2, "e2e-cli", "e2e-sym")
		}
	}
	c.Extra["e2e_sym_unstable"] = unstable
}
