//go:build verif

package main

import (
	"bytes"
	"fmt"
	"io"
	"math"
	"net/http/httptest"
	"os"
	"regexp"
	"strings"
	"time"

	"github.com/google/pprof/internal/driver"
	"github.com/google/pprof/internal/plugin"
	"github.com/google/pprof/internal/symbolizer"
	"github.com/google/pprof/internal/symbolz"
	"github.com/google/pprof/profile"
	"github.com/ianlancetaylor/demangle"
)

// ---------------------------------------------------------------------------------------------
// op "e2e": the END-TO-END layer.  The same kind of generated inputs as op "fetch" are pushed
// through the real entry point driver.PProf: real parseFlags over a FlagSet built from the options
// (-symbolize, -buildid, -add_comment, executable named as first positional argument), the profile
// fetched through a Fetcher plug-in (remote URL) or from a file, the real Symbolizer with the scripted
// object tool / symbolz endpoint, report generation, and the output parsed back:
//   run 1  pprof ... -proto -output=F            -> the profile re-read
//   run 2  pprof ... -traces -addresses -output=F -> the blocks of rows
//   run 3  pprof ...  (interactive)  granularity=addresses ; traces >a ; proto >b ; traces >c
//   run 4  pprof ... -http=...  with a plugin HTTPServer that requests /download from the real handlers
// Every run starts the answer script afresh (the runs are independent processes' worth of work).

type c12E2ECase struct {
	mode, src, exec, buildid, comment string
	data                             []byte // the serialized profile
	script                           []c12Answer
}

// the object tool of an end-to-end run: parseFlags' probe of the named executable succeeds, nothing
// else is found until the Symbolizer runs
type c12E2ETool struct {
	inner *c12Tool
	live  *bool
	exec  string
}

type c12NoFile struct{}

func (c12NoFile) Name() string                                        { return "named" }
func (c12NoFile) ObjAddr(uint64) (uint64, error)                      { return 0, errC12 }
func (c12NoFile) BuildID() string                                     { return "" }
func (c12NoFile) SourceLine(uint64) ([]plugin.Frame, error)           { return nil, errC12 }
func (c12NoFile) Symbols(*regexp.Regexp, uint64) ([]*plugin.Sym, error)     { return nil, errC12 }
func (c12NoFile) Close() error                                        { return nil }

func (t *c12E2ETool) Open(file string, start, limit, offset uint64, reloc string) (plugin.ObjFile, error) {
	if *t.live {
		return t.inner.Open(file, start, limit, offset, reloc)
	}
	if t.exec != "" && file == t.exec && start == 0 && limit == math.MaxUint64 && offset == 0 {
		return c12NoFile{}, nil
	}
	return nil, errC12
}
func (t *c12E2ETool) Disasm(string, uint64, uint64, bool) ([]plugin.Inst, error) { return nil, errC12 }

type c12E2EFetcher struct {
	data []byte
	src  string
}

func (f *c12E2EFetcher) Fetch(s string, _, _ time.Duration) (*profile.Profile, string, error) {
	if f.src == "" {
		return nil, "", nil // a local file: the driver reads it itself
	}
	p, err := profile.ParseData(f.data)
	return p, f.src, err
}

type c12E2EWriter struct{ files map[string]*bytes.Buffer }
type c12E2EWC struct{ *bytes.Buffer }

func (c12E2EWC) Close() error { return nil }
func (w *c12E2EWriter) Open(name string) (io.WriteCloser, error) {
	b := &bytes.Buffer{}
	w.files[name] = b
	return c12E2EWC{b}, nil
}

type c12E2EUI struct {
	lines []string
	k     int
}

func (u *c12E2EUI) ReadLine(string) (string, error) {
	if u.k >= len(u.lines) {
		return "", io.EOF
	}
	u.k++
	return u.lines[u.k-1], nil
}
func (*c12E2EUI) Print(...interface{})                {}
func (*c12E2EUI) PrintErr(...interface{})             {}
func (*c12E2EUI) IsTerminal() bool                    { return false }
func (*c12E2EUI) WantBrowser() bool                   { return false }
func (*c12E2EUI) SetAutoComplete(func(string) string) {}

// c12RunPProf runs driver.PProf once; returns the files written through the Writer plug-in, what the
// web handlers served, the plug-in calls, the error / panic.
func c12RunPProf(ec *c12E2ECase, cmdArgs []string, lines []string, webPaths []string) (files map[string]*bytes.Buffer, web map[string][]byte, calls []Term, err error, panicked string) {
	c09Reset()
	live := false
	sc := &c12Script{ans: ec.script}
	w := &c12E2EWriter{files: map[string]*bytes.Buffer{}}
	web = map[string][]byte{}
	args := []string{"-symbolize=" + ec.mode}
	if ec.buildid != "" {
		args = append(args, "-buildid="+ec.buildid)
	}
	if ec.comment != "" {
		args = append(args, "-add_comment="+ec.comment)
	}
	args = append(args, cmdArgs...)
	if ec.exec != "" {
		args = append(args, ec.exec)
	}
	source := "the-source"
	if ec.src == "" {
		source = "c12in.pb.gz"
		os.WriteFile(source, ec.data, 0o644)
		defer os.Remove(source)
	}
	args = append(args, source)
	o := &plugin.Options{
		Flagset:       newC09Flags(args),
		Fetch:         &c12E2EFetcher{ec.data, ec.src},
		Obj:           &c12E2ETool{&c12Tool{sc}, &live, ec.exec},
		UI:            &c12E2EUI{lines: lines},
		Writer:        w,
		HTTPTransport: &c12RT{sc},
		Sym:           &c12GateSym{&symbolizer.Symbolizer{Obj: &c12Tool{sc}, UI: c12UI{}, Transport: &c12RT{sc}}, &live},
		HTTPServer: func(a *plugin.HTTPServerArgs) error {
			for _, path := range webPaths {
				h := a.Handlers[path]
				if h == nil {
					continue
				}
				rec := httptest.NewRecorder()
				h.ServeHTTP(rec, httptest.NewRequest("GET", "http://localhost"+path, nil))
				web[path] = rec.Body.Bytes()
			}
			return nil
		},
	}
	c12CleanSaved()
	func() {
		defer func() {
			if e := recover(); e != nil {
				panicked = fmt.Sprint(e)
			}
		}()
		err = driver.PProf(o)
	}()
	c12CleanSaved()
	c09Cleanup()
	return w.files, web, sc.log, err, panicked
}

// c12ParseTraces: the blocks of -traces output as rows (text after the value column, inline mark).
func c12ParseTraces(text string) Term {
	const sep = "-----------+-------------------------------------------------------"
	var blocks []Term
	var rows []Term
	started := false
	for _, line := range strings.Split(text, "\n") {
		if line == sep {
			if started && len(rows) > 0 {
				blocks = append(blocks, L(rows...))
			}
			started, rows = true, nil
			continue
		}
		if !started || line == "" {
			continue
		}
		rest := line
		if strings.HasPrefix(line, "             ") {
			rest = line[13:]
		} else {
			t := strings.TrimLeft(line, " ")
			if k := strings.Index(t, "   "); k >= 0 {
				rest = t[k+3:]
			}
		}
		inl := strings.HasSuffix(rest, " (inline)")
		rest = strings.TrimSuffix(rest, " (inline)")
		rows = append(rows, L(S(rest), Bool(inl)))
	}
	return L(blocks...)
}

func c12E2E(c *Ctx, gen string, ec *c12E2ECase) {
	before, err := profile.ParseData(ec.data)
	if err != nil || before.CheckValid() != nil {
		return
	}
	beforeT := DumpProfile(before)
	names := map[string]bool{}
	files := map[string]bool{ec.src: true, ec.exec: true}
	for _, f := range before.Function {
		names[f.SystemName] = true
	}
	for _, m := range before.Mapping {
		files[m.File] = true
	}
	for _, a := range ec.script {
		for _, f := range a.Frames {
			names[f.Func] = true
		}
	}
	var obs Term
	// run 1: -proto
	f1, _, calls, err1, pan1 := c12RunPProf(ec, []string{"-proto", "-output=c12out"}, nil, nil)
	var after *profile.Profile
	switch {
	case pan1 != "":
		obs = L(S("panic"), S(pan1))
	case err1 != nil:
		obs = L(S("err"), L(calls...))
	default:
		if b := f1["c12out"]; b != nil {
			after, _ = profile.ParseData(b.Bytes())
		}
		if after == nil {
			obs = L(S("no-proto-output"))
		}
	}
	if after != nil {
		afterT := Render(DumpProfile(after))
		// run 2: -traces
		f2, _, calls2, err2, pan2 := c12RunPProf(ec, []string{"-traces", "-addresses", "-output=c12out"}, nil, nil)
		traces := ""
		if b := f2["c12out"]; b != nil && err2 == nil && pan2 == "" {
			traces = b.String()
		}
		// run 3: one interactive session
		f3, _, calls3, err3, pan3 := c12RunPProf(ec, nil, []string{"granularity=addresses", "traces >c12a", "proto >c12b", "traces >c12c", "quit"}, nil)
		sessionOK := err3 == nil && pan3 == "" && f3["c12a"] != nil && f3["c12b"] != nil && f3["c12c"] != nil &&
			f3["c12a"].String() == traces && f3["c12c"].String() == traces && Render(L(calls3...)) == Render(L(calls...))
		if sessionOK {
			q, perr := profile.ParseData(f3["c12b"].Bytes())
			sessionOK = perr == nil && Render(DumpProfile(q)) == afterT
		}
		// run 4: the web interface
		_, web, calls4, err4, pan4 := c12RunPProf(ec, []string{"-http=localhost:8080"}, nil, []string{"/download", "/top"})
		webOK := err4 == nil && pan4 == "" && web["/download"] != nil && Render(L(calls4...)) == Render(L(calls...))
		if webOK {
			q, perr := profile.ParseData(web["/download"])
			webOK = perr == nil && Render(DumpProfile(q)) == afterT
		}
		if err2 != nil || pan2 != "" || Render(L(calls2...)) != Render(L(calls...)) {
			traces = "-----------+-------------------------------------------------------\n   -traces-run-differs\n"
		}
		obs = L(S("ok"), DumpProfile(after), c12ParseTraces(traces), Bool(sessionOK), Bool(webOK), L(calls...))
		for _, f := range after.Function {
			names[f.SystemName] = true
		}
		for _, m := range after.Mapping {
			files[m.File] = true
		}
	}
	var symzT, httpT, absT, filtT []Term
	if z := symbolz.VerifC12Symbolz(ec.src); z != "" {
		symzT = append(symzT, L(S(ec.src), S(z)))
	}
	for _, f := range c12SortedKeys(files) {
		if c12IsHTTP(f) {
			httpT = append(httpT, L(S(f), Bool(true)))
		}
		if c12AbsURL(f) {
			absT = append(absT, L(S(f), Bool(true)))
		}
	}
	for _, dm := range []string{"", "templates", "full"} {
		var tab []Term
		for _, n := range c12SortedKeys(names) {
			cands := []string{n}
			if strings.HasPrefix(n, "_") {
				cands = append(cands, n[1:])
			}
			for _, s := range cands {
				if d := demangle.Filter(s, symbolizer.VerifC12Options(dm)...); d != s {
					tab = append(tab, L(S(s), S(d)))
				}
			}
		}
		filtT = append(filtT, L(S(dm), L(tab...)))
	}
	in := L(S("e2e"), S(ec.mode), beforeT, c12DumpScript(ec.script), L(), L(symzT...), L(httpT...), L(filtT...), S(ec.src), L(absT...),
		S(ec.exec), S(ec.buildid), S(ec.comment))
	tags := []string{"e2e-mode:" + strings.ToLower(ec.mode)}
	if ec.exec != "" {
		tags = append(tags, "e2e-exec")
	}
	if ec.buildid != "" {
		tags = append(tags, "e2e-buildid")
	}
	if ec.comment != "" {
		tags = append(tags, "e2e-comment")
	}
	if ec.src == "" {
		tags = append(tags, "e2e-file")
	} else {
		tags = append(tags, "e2e-fetcher")
	}
	if after == nil {
		tags = append(tags, "e2e-error")
	}
	c.Case(gen, in, obs, true, tags...)
}

func c12Serialize(p *profile.Profile) []byte {
	var b bytes.Buffer
	if p.Write(&b) != nil {
		return nil
	}
	return b.Bytes()
}

// ---------------------------------------------------------------------------------------------
// deterministic shapes (no PRNG): the decisive inputs of the end-to-end layer

type c12Shape struct {
	p          *profile.Profile
	main, lib  *profile.Mapping
	fMain, fWk *profile.Function
}

// a two-mapping profile: the main binary symbolized (orig_main, size of vec.h inlined into
// orig_work), the library not; mainSym=false leaves the main binary unsymbolized too
func c12ShapeProfile(mainSym bool, mainFile string) *c12Shape {
	s := &c12Shape{}
	p := &profile.Profile{SampleType: []*profile.ValueType{{Type: "samples", Unit: "count"}, {Type: "cpu", Unit: "nanoseconds"}},
		PeriodType: &profile.ValueType{Type: "cpu", Unit: "nanoseconds"}, Period: 10}
	s.main = &profile.Mapping{ID: 1, Start: 0x1000, Limit: 0x2000, File: mainFile, HasFunctions: mainSym, HasFilenames: mainSym, HasLineNumbers: mainSym}
	s.lib = &profile.Mapping{ID: 2, Start: 0x10000, Limit: 0x20000, File: "/usr/lib/libzz.so"}
	p.Mapping = []*profile.Mapping{s.main, s.lib}
	s.fMain = &profile.Function{ID: 1, Name: "orig_main", SystemName: "orig_main", Filename: "main.c", StartLine: 5}
	s.fWk = &profile.Function{ID: 2, Name: "orig_work", SystemName: "orig_work", Filename: "work.c", StartLine: 20}
	size := &profile.Function{ID: 3, Name: "size", SystemName: "size", Filename: "vec.h", StartLine: 7}
	l1 := &profile.Location{ID: 1, Mapping: s.main, Address: 0x1100}
	l2 := &profile.Location{ID: 2, Mapping: s.main, Address: 0x1200}
	if mainSym {
		p.Function = []*profile.Function{s.fMain, s.fWk, size}
		l1.Line = []profile.Line{{Function: s.fMain, Line: 11}}
		l2.Line = []profile.Line{{Function: size, Line: 8}, {Function: s.fWk, Line: 22}}
	}
	l3 := &profile.Location{ID: 3, Mapping: s.lib, Address: 0x10300}
	l4 := &profile.Location{ID: 4, Mapping: s.lib, Address: 0x10400}
	p.Location = []*profile.Location{l1, l2, l3, l4}
	p.Sample = []*profile.Sample{
		{Location: []*profile.Location{l2, l1}, Value: []int64{3, 30}},
		{Location: []*profile.Location{l3, l2, l1}, Value: []int64{-2, 20}},
		{Location: []*profile.Location{l4, l3, l1}, Value: []int64{5, 0}},
		{Value: []int64{1, 1}},
	}
	s.p = p
	return s
}

func c12ToolFrames(names ...string) []plugin.Frame {
	var fs []plugin.Frame
	for i, n := range names {
		fs = append(fs, plugin.Frame{Func: n, File: "tool.c", Line: i + 1})
	}
	return fs
}

func runC12E2EShapes(c *Ctx) {
	ok := func(frames ...[]plugin.Frame) []c12Answer { // Open ok, BuildID "", then one SourceLine answer per location
		a := []c12Answer{{}, {}}
		for _, f := range frames {
			a = append(a, c12Answer{Frames: f})
		}
		return a
	}
	tool2 := [][]plugin.Frame{c12ToolFrames("tool_inl_a", "tool_fn_a"), c12ToolFrames("tool_inl_b", "tool_fn_b")}
	modes := []string{"local", "none", "", "fastlocal", "local:force", "remote", "demangle=default", "force"}
	// 1. the executable is named on the command line (differs from / equals the recorded file / none
	//    recorded), the main binary being symbolized already: naming it must not force
	for _, mode := range modes {
		for _, mainFile := range []string{"/srv/prod/zzapp", "/bin/zzapp", ""} {
			for _, exec := range []string{"/bin/zzapp", ""} {
				for _, bid := range []string{"", "cafe01"} {
					if bid != "" && mode != "local" && mode != "none" {
						continue
					}
					s := c12ShapeProfile(true, mainFile)
					// answers for both mappings, should they be symbolized: main (2 locations), then the library (2)
					script := append(ok(tool2...), ok(tool2...)...)
					c12E2E(c, "e2e-named-binary", &c12E2ECase{mode: mode, exec: exec, buildid: bid, data: c12Serialize(s.p), script: script})
				}
			}
		}
	}
	// 2. the symbol sources answer a function identical to another one
	//    local: the tool answers `size` of vec.h (already listed) inlined into lib_sum for the library
	for _, mode := range []string{"local", "", "local:force", "fastlocal"} {
		s := c12ShapeProfile(true, "/bin/zzapp")
		same := []plugin.Frame{{Func: "size", File: "vec.h", Line: 8, StartLine: 7}, {Func: "lib_sum", File: "lib.c", Line: 3, StartLine: 1}}
		script := ok(same, same)
		if strings.Contains(mode, "force") {
			script = append(ok(same, same), ok(same, same)...)
		}
		c12E2E(c, "e2e-same-function", &c12E2ECase{mode: mode, comment: "run 7", data: c12Serialize(s.p), script: script})
	}
	//    remote: the symbolz endpoint answers the same name for addresses of two mappings
	for _, mode := range []string{"remote", "", "remote:force", "force"} {
		for _, mainSym := range []bool{false, true} {
			s := c12ShapeProfile(mainSym, "/bin/zzapp")
			body1 := "0x1100 plt_stub\n0x1200 other\n"
			body2 := "0x10300 plt_stub\n0x10400 plt_stub\n"
			script := []c12Answer{{Err: true}, {Err: true}, {Body: body1}, {Body: body2}, {Body: body2}}
			if mode == "remote" || mode == "remote:force" {
				script = script[2:]
			}
			c12E2E(c, "e2e-same-function", &c12E2ECase{mode: mode, src: "http://pproftest.local/pprof/profile", data: c12Serialize(s.p), script: script})
		}
	}
	// 3. a legacy-style profile (no file, no build id) from a remote source, and one without mappings
	for _, mode := range []string{"none", "no", "remote", "local", ""} {
		s := c12ShapeProfile(false, "")
		s.lib.File = ""
		c12E2E(c, "e2e-fileless", &c12E2ECase{mode: mode, src: "http://pproftest.local/debug/pprof/profile", exec: "", data: c12Serialize(s.p),
			script: []c12Answer{{Body: "0x1100 main.main\n0x1200 main.work\n"}, {Body: "0x10300 lib.f\n"}}})
		s2 := c12ShapeProfile(false, "")
		s2.p.Mapping = nil
		for _, l := range s2.p.Location {
			l.Mapping = nil
		}
		c12E2E(c, "e2e-fileless", &c12E2ECase{mode: mode, exec: "/bin/zzapp", comment: "no mappings", data: c12Serialize(s2.p), script: ok(tool2[0], tool2[1], tool2[0], tool2[1])})
	}
}

func runC12E2E(c *Ctx) {
	r := c.R
	c09Env()
	os.Setenv("PPROF_BINARY_PATH", "/nonexistent-c12")
	runC12E2EShapes(c)
	runC12DropE2E(c)
	runC12RareShapes(c)
	for k := 0; k < c.Budget(70, 700); k++ {
		p := c12FetchProfile(r, false)
		for _, s := range p.Sample {
			s.Label, s.NumLabel, s.NumUnit = nil, nil, nil // label round trips are C01's
		}
		ec := &c12E2ECase{mode: PickS(r, c12FetchModes), src: PickS(r, c12FetchSources), data: c12Serialize(p)}
		if r.P(1, 3) {
			ec.mode = PickS(r, []string{"none", "local", "", "remote"})
		}
		if r.P(1, 3) {
			ec.exec = PickS(r, []string{"/bin/named", "/bin/app", "rel/app"})
		}
		if r.P(1, 5) {
			ec.buildid = PickS(r, []string{"abc123", "0011"})
		}
		if r.P(1, 5) {
			ec.comment = PickS(r, []string{"hello", "a b", "x=1"})
		}
		rate := 1000
		if r.P(1, 4) {
			rate = 8
		}
		ec.script = c12ScriptGen(r, p, plugin.MappingSources{}, rate)
		c12E2E(c, "e2e", ec)
	}
}
