//go:build verif

package main

import (
	"bytes"
	"fmt"
	"io"
	"net/http/httptest"
	"net/url"
	"sort"
	"strings"
	"time"

	"github.com/google/pprof/internal/driver"
	"github.com/google/pprof/internal/graph"
	"github.com/google/pprof/internal/plugin"
	"github.com/google/pprof/internal/report"
	"github.com/google/pprof/profile"
)

// End-to-end layer of C18: the same kind of profiles as the other streams, pushed through the real
// entry points -- driver.PProf with a FlagSet (real flag parsing, fetch through a Fetcher plug-in,
// -base/-diff_base, tagroot/tagleaf, aggregation, filters, trimming, report, print through a Writer
// plug-in), an interactive session (option assignments and `cmd >file` on one session) and the
// web handlers registered by -http -- and judged by the same checkers: the DOT recogniser with
// declared edge endpoints, the callgrind reader, the payload-marker count.

type c18WC struct {
	bytes.Buffer
	name string
}

func (*c18WC) Close() error { return nil }

type c18Writer struct{ outs []*c18WC }

func (w *c18Writer) Open(name string) (io.WriteCloser, error) {
	f := &c18WC{name: name}
	w.outs = append(w.outs, f)
	return f, nil
}

type c18Fetch struct{ m map[string]*profile.Profile }

func (f c18Fetch) Fetch(src string, _, _ time.Duration) (*profile.Profile, string, error) {
	p := f.m[src]
	if p == nil {
		return nil, "", fmt.Errorf("no such profile %q", src)
	}
	return p.Copy(), "", nil
}

// c18Run drives driver.PProf once. lines != nil makes it an interactive session.
func c18Run(args, lines []string, srcs map[string]*profile.Profile, server func(*plugin.HTTPServerArgs) error) (outs []*c18WC, status string) {
	if !c09Reset() {
		return nil, "poisoned"
	}
	w := &c18Writer{}
	ui := &c09UI{lines: lines}
	o := &plugin.Options{UI: ui, Obj: &c09Obj{}, Sym: c09Sym{}, Writer: w, Flagset: newC09Flags(args), Fetch: c18Fetch{srcs},
		HTTPServer: server, HTTPTransport: c09NoNet{}}
	if server == nil {
		o.HTTPServer = func(*plugin.HTTPServerArgs) error { return nil }
	}
	r := c09Guarded(60*time.Second, func() string {
		if err := driver.PProf(o); err != nil {
			return "error: " + err.Error()
		}
		return "ok"
	})
	c09Cleanup()
	if s, ok := r.(tS); ok {
		return w.outs, s.s
	}
	return w.outs, Render(r)
}

// c18TreeProfile: a call tree with hostile names in which some nodes are far below any cut-off:
//
//	main -> a -> b, main -> a -> c, main -> a -> tiny1, main -> d -> e, main -> d -> tiny2, main -> f
//
// k scales the number of extra medium leaves under main (more survivors than small node counts).
func c18TreeProfile(hostile bool, extra int, sign int64) *profile.Profile {
	nm := func(s, h string) string {
		if hostile {
			return s + h
		}
		return s
	}
	names := []string{"main", nm("alpha", "\"q"), nm("beta", "<b>"), nm("gamma", "\\g"), nm("tiny", ".m\\"), "delta", nm("eps", "\"\\"), nm("tiny2", "::x\""), "phi"}
	m := &profile.Mapping{ID: 1, Start: 0x400000, Limit: 0x500000, File: nm("/bin/prog", " \"x\"")}
	p := &profile.Profile{SampleType: []*profile.ValueType{{Type: "cpu", Unit: "milliseconds"}}, Mapping: []*profile.Mapping{m},
		PeriodType: &profile.ValueType{Type: "cpu", Unit: "milliseconds"}, Period: 1}
	loc := func(i int, name string) *profile.Location {
		f := &profile.Function{ID: uint64(len(p.Function) + 1), Name: name, SystemName: name, Filename: nm("/src/dir", " \"x\"") + "/" + fmt.Sprintf("f%d.go", i)}
		p.Function = append(p.Function, f)
		l := &profile.Location{ID: uint64(len(p.Location) + 1), Mapping: m, Address: 0x401000 + uint64(len(p.Location))*0x40,
			Line: []profile.Line{{Function: f, Line: int64(10 + i)}}}
		p.Location = append(p.Location, l)
		return l
	}
	var ls []*profile.Location
	for i, n := range names {
		ls = append(ls, loc(i, n))
	}
	st := func(v int64, idx ...int) {
		s := &profile.Sample{Value: []int64{sign * v}}
		for _, i := range idx { // leaf first
			s.Location = append(s.Location, ls[i])
		}
		p.Sample = append(p.Sample, s)
	}
	st(300, 2, 1, 0) // main -> alpha -> beta
	st(200, 3, 1, 0) // main -> alpha -> gamma
	st(8, 4, 1, 0)   // main -> alpha -> tiny
	st(100, 1, 0)    // alpha flat
	st(150, 6, 5, 0) // main -> delta -> eps
	st(6, 7, 5, 0)   // main -> delta -> tiny2
	st(120, 8, 0)    // main -> phi
	st(60, 0)
	for k := 0; k < extra; k++ {
		l := loc(20+k, fmt.Sprintf("leaf%d", k))
		s := &profile.Sample{Value: []int64{sign * int64(70+3*k)}, Location: []*profile.Location{l, ls[0]}}
		p.Sample = append(p.Sample, s)
	}
	return p
}

// c18Solid: end-to-end callgrind texts are judged without the graph, so there is no way to put a
// case into the F20 class (a name made only of blanks reads as a bare back-reference); the strings
// of these profiles are therefore never blank-only.  F20 itself stays exercised by the cg-* streams.
func c18Solid(s string) string {
	if strings.Trim(s, " \t\r") == "" {
		return s + "z"
	}
	return s
}

// c18BigProfile: 8..20 functions, skewed values, deep stacks with shared prefixes -- profiles on
// which trimming (cut-off and node count) really removes and re-attaches nodes.
func c18BigProfile(r *Rng, meta bool) *profile.Profile {
	p := &profile.Profile{SampleType: []*profile.ValueType{{Type: "cpu", Unit: PickS(r, []string{"ms", "count", "bytes", "nanoseconds"})}}}
	m := &profile.Mapping{ID: 1, Start: 0x400000, Limit: 0x900000, File: "/bin/" + c18Solid(c18Name(r, meta))}
	p.Mapping = []*profile.Mapping{m}
	nf := 8 + r.Intn(13)
	for i := 0; i < nf; i++ {
		name := c18Name(r, meta) + fmt.Sprint(i)
		p.Function = append(p.Function, &profile.Function{ID: uint64(i + 1), Name: name, SystemName: name, Filename: c18Solid(c18File(r, meta && r.P(1, 3)))})
		p.Location = append(p.Location, &profile.Location{ID: uint64(i + 1), Mapping: m, Address: 0x401000 + uint64(i)*0x20,
			Line: []profile.Line{{Function: p.Function[i], Line: int64(1 + r.Intn(90))}}})
	}
	ns := 10 + r.Intn(16)
	for i := 0; i < ns; i++ {
		v := int64(1 + r.Intn(20))
		switch r.Intn(4) {
		case 0:
			v = int64(200 + r.Intn(800))
		case 1:
			v = int64(30 + r.Intn(100))
		}
		if r.P(1, 10) {
			v = -v
		}
		s := &profile.Sample{Value: []int64{v}}
		d := 1 + r.Intn(6)
		// stacks share the root (function 0) and tend to go up the index order: tree-like
		cur := 0
		var st []*profile.Location
		for j := 0; j < d; j++ {
			st = append(st, p.Location[cur])
			cur = cur + 1 + r.Intn(3)
			if cur >= nf {
				break
			}
		}
		for j := len(st) - 1; j >= 0; j-- {
			s.Location = append(s.Location, st[j])
		}
		if r.P(1, 3) {
			s.Label = map[string][]string{PickS(r, []string{"k", "req"}): {c18Solid(c18Name(r, meta))}}
		}
		p.Sample = append(p.Sample, s)
	}
	return p
}

// c18E2EOut records one printed output of an end-to-end run.
func c18E2EOut(c *Ctx, gen, kind string, args, lines []string, idx int, text, status string, must bool, tags ...string) {
	var obs Term
	if status == "ok" || text != "" {
		obs = PS(text)
	} else {
		obs = L(S("error"), PS(status))
	}
	c.Case(gen, L(S(kind), Ss(args), Ss(lines), ZI(idx), Bool(must)), obs, text != "", append(tags, "op:"+kind)...)
}

func c18E2ECases(c *Ctx, dotCase func(gen string, g *graph.Graph, a *graph.DotAttributes, cfg *graph.DotConfig, tags ...string)) {
	r := c.R

	// ---- deterministic trimming grid, through report.GetDOT (model + failing graph) and through driver.PProf
	for _, hostile := range []bool{true, false} {
		for _, extra := range []int{0, 4} {
			for _, sign := range []int64{1, -1} {
				if !hostile && (extra != 0 || sign < 0) {
					continue
				}
				p := c18TreeProfile(hostile, extra, sign)
				for _, ct := range []bool{true, false} {
					for _, nc := range []int{1, 3, 4, 5, 6, 80} {
						for _, gran := range []string{"functions", "lines"} {
							if gran == "lines" && (nc == 1 || nc == 6 || !hostile) {
								continue
							}
							// (1) report level: the graph ComposeDot is given
							q := p.Copy()
							ro := c18ROpts{callTree: ct, gran: gran, trim: true, nodeCount: nc}
							g, cfg := report.GetDOT(c18Report(q, report.Dot, ro))
							dotCase("dot-trim-grid", g, &graph.DotAttributes{}, cfg, "grid")
							// (2) the command line
							args := []string{"-dot", "-symbolize=none", "-output=out.dot", fmt.Sprintf("-nodecount=%d", nc), "-nodefraction=0.05", "-edgefraction=0.01"}
							if ct {
								args = append(args, "-call_tree")
							}
							if gran == "lines" {
								args = append(args, "-lines")
							}
							args = append(args, "src")
							outs, st := c18Run(args, nil, map[string]*profile.Profile{"src": p}, nil)
							text := ""
							if len(outs) > 0 {
								text = outs[len(outs)-1].String()
							}
							c18E2EOut(c, "e2e-cli-grid", "e2edot", args, nil, 0, text, st, true, "grid")
						}
					}
				}
			}
		}
	}
	// comparisons: -diff_base / -base with a bigger base (all values negative, cum < flat), both outputs
	{
		small, big := c18TreeProfile(true, 0, 1), c18TreeProfile(true, 2, 1)
		for _, s := range big.Sample {
			s.Value[0] *= 3
		}
		for _, flag := range []string{"-diff_base=base", "-base=base"} {
			for _, f := range []string{"-dot", "-callgrind"} {
				for _, extra := range [][]string{{}, {"-call_tree"}, {"-drop_negative"}, {"-call_tree", "-nodecount=3"}, {"-normalize"}, {"-mean"}} {
					args := append(append([]string{f, "-symbolize=none", "-output=o", flag}, extra...), "src")
					outs, st := c18Run(args, nil, map[string]*profile.Profile{"src": small, "base": big}, nil)
					text := ""
					if len(outs) > 0 {
						text = outs[len(outs)-1].String()
					}
					kind := "e2edot"
					if f == "-callgrind" {
						kind = "e2ecg"
					}
					c18E2EOut(c, "e2e-cli-diff", kind, args, nil, 0, text, st, true, "diff")
				}
			}
		}
		// the same difference at report level (model comparison: the cumulative line of nodes with cum < flat)
		d := small.Copy()
		nb := big.Copy()
		nb.Scale(-1)
		if m, err := profile.Merge([]*profile.Profile{d, nb}); err == nil {
			for _, ct := range []bool{false, true} {
				g, cfg := report.GetDOT(c18Report(m.Copy(), report.Dot, c18ROpts{callTree: ct, gran: "functions"}))
				dotCase("dot-diff-grid", g, &graph.DotAttributes{}, cfg, "diff")
			}
		}
	}

	// ---- random option combinations on profiles big enough for trimming to bite
	optPool := [][]string{{"-call_tree"}, {"-nodecount=1"}, {"-nodecount=3"}, {"-nodecount=6"}, {"-nodefraction=0.1"}, {"-nodefraction=0"}, {"-edgefraction=0.2"},
		{"-edgefraction=0"}, {"-trim=false"}, {"-lines"}, {"-files"}, {"-addresses"}, {"-filefunctions"}, {"-drop_negative"}, {"-tagroot=k"}, {"-tagleaf=req"},
		{"-tagroot=k,req"}, {"-focus=1"}, {"-ignore=2"}, {"-hide=3"}, {"-show=[0-9]"}, {"-show_from=1"}, {"-tagfocus=a"}, {"-tagshow=k"}, {"-mean"}, {"-unit=s"},
		{"-relative_percentages"}, {"-compact_labels"}, {"-cum"}, {"-noinlines"}, {"-divide_by=3"}}
	for i := 0; i < c.Budget(50, 600); i++ {
		c18NoNL = true
		p := c18BigProfile(r, r.P(2, 3))
		c18NoNL = false
		// report level with trimming (model + failing graph)
		nLoc := len(p.Location)
		ro := c18ROpts{callTree: r.P(1, 2), dropNeg: r.P(1, 6), trim: true, gran: PickS(r, []string{"functions", "functions", "lines", "files"}), nodeCount: 1 + r.Intn(nLoc)}
		g, cfg := report.GetDOT(c18Report(p.Copy(), report.Dot, ro))
		dotCase("dot-trim", g, &graph.DotAttributes{}, cfg, "trim")
		// command line
		f := PickS(r, []string{"-dot", "-dot", "-callgrind"})
		args := []string{f, "-symbolize=none", "-output=o"}
		for k := 1 + r.Intn(4); k > 0; k-- {
			args = append(args, c18PickOpts(r, optPool)...)
		}
		args = append(args, "src")
		outs, st := c18Run(args, nil, map[string]*profile.Profile{"src": p}, nil)
		text := ""
		if len(outs) > 0 {
			text = outs[len(outs)-1].String()
		}
		kind := "e2edot"
		if f == "-callgrind" {
			kind = "e2ecg"
		}
		c18E2EOut(c, "e2e-cli", kind, args, nil, 0, text, st, false)
	}

	// ---- interactive sessions: option assignments accumulate, several outputs on one session
	sessPool := []string{"call_tree", "call_tree=false", "nodecount=2", "nodecount=5", "nodecount=80", "nodefraction=0.1", "nodefraction=0.005", "edgefraction=0",
		"granularity=lines", "granularity=files", "granularity=functions", "tagroot=k", "tagroot=", "tagleaf=req", "focus=1", "focus=", "drop_negative", "drop_negative=false",
		"trim=false", "trim=true", "mean", "mean=false", "unit=s", "unit=minimum", "sample_index=0", "bogus=1", "nodecount=x"}
	// a fixed history first: the trimming options set one after the other, a graph printed after each
	fixed := [][]string{
		{"call_tree", "nodefraction=0.05", "dot >a", "nodecount=5", "dot >b", "nodecount=3", "dot >c", "call_tree=false", "dot >d", "callgrind >e", "granularity=lines", "nodecount=4", "call_tree", "dot >f"},
		{"nodecount=4", "nodefraction=0.05", "dot >a", "call_tree", "dot >b", "tagleaf=k", "dot >c", "trim=false", "dot >d", "callgrind >e"},
	}
	sess := func(gen string, p *profile.Profile, lines []string, must bool) {
		args := []string{"-symbolize=none", "src"}
		outs, st := c18Run(args, lines, map[string]*profile.Profile{"src": p}, nil)
		// which command printed which output: `cmd >name` in order of appearance
		k := 0
		for li, ln := range lines {
			if !strings.Contains(ln, ">") {
				continue
			}
			kind := "e2edot"
			if strings.HasPrefix(ln, "callgrind") {
				kind = "e2ecg"
			}
			text := ""
			if k < len(outs) {
				text = outs[k].String()
			}
			k++
			c18E2EOut(c, gen, kind, args, lines[:li+1], li, text, st, must, "session")
		}
	}
	for _, ln := range fixed {
		sess("e2e-session-grid", c18TreeProfile(true, 0, 1), ln, true)
		sess("e2e-session-grid", c18TreeProfile(true, 4, 1), ln, true)
	}
	for i := 0; i < c.Budget(12, 150); i++ {
		c18NoNL = true
		p := c18BigProfile(r, r.P(1, 2))
		c18NoNL = false
		var lines []string
		for k := 3 + r.Intn(8); k > 0; k-- {
			if r.P(1, 3) {
				lines = append(lines, PickS(r, []string{"dot >o", "dot >o", "callgrind >o"}))
			} else {
				lines = append(lines, PickS(r, sessPool))
			}
		}
		lines = append(lines, "dot >last")
		sess("e2e-session", p, lines, false)
	}

	// ---- web handlers registered by -http, with option parameters in the URL
	for i := 0; i < c.Budget(6, 40); i++ {
		p := c18HTMLProfile(r)
		reqs := []string{"/top?call_tree=true&nodecount=3", "/flamegraph?tagroot=k&nodefraction=0.1", "/peek?f=.&granularity=lines&call_tree=true",
			"/source?f=zq&nodecount=2", "/top?focus=zq&hide=%3Czq", "/flamegraph?tagleaf=bytes&mean=true", "/peek?f=%2B&tagfocus=zq", "/top?si=0&relative_percentages=true"}
		var obs []Term
		server := func(a *plugin.HTTPServerArgs) error {
			for _, rq := range reqs {
				u, _ := url.Parse("http://localhost" + rq)
				h := a.Handlers[u.Path]
				if h == nil {
					obs = append(obs, L(S("nohandler")))
					continue
				}
				func() {
					defer func() {
						if e := recover(); e != nil {
							obs = append(obs, L(S("panic"), S(fmt.Sprint(e))))
						}
					}()
					rec := httptest.NewRecorder()
					h.ServeHTTP(rec, httptest.NewRequest("GET", u.String(), nil))
					body := rec.Body.String()
					if !strings.HasPrefix(rec.Header().Get("Content-Type"), "text/html") {
						obs = append(obs, L(Z(0), Z(0), Bool(false)))
						return
					}
					obs = append(obs, L(ZI(strings.Count(body, "<zq")), ZI(strings.Count(body, "'\"zq")), Bool(strings.Contains(body, "zq"))))
				}()
			}
			return nil
		}
		_, st := c18Run([]string{"-http=localhost:8080", "-symbolize=none", "src"}, nil, map[string]*profile.Profile{"src": p}, server)
		for k, rq := range reqs {
			var o Term = L(S("error"), S(st))
			nt := false
			if k < len(obs) {
				if l, ok := obs[k].(tL); ok && len(l.l) == 3 {
					o = L(l.l[0], l.l[1])
					nt = Render(l.l[2]) == "TZ 1"
				} else {
					o = obs[k]
				}
			}
			c.Case("e2e-web", L(S("html"), S(rq), ZI(i), S("pprof-http")), o, nt, "op:html", "e2e")
		}
	}
}

func c18PickOpts(r *Rng, l [][]string) []string { return l[r.Intn(len(l))] }

var _ = sort.Strings

// ---------------------------------------------------------------------------------------------
// graph.TrimTree on forests (the primitive behind the call-tree trimming of newTrimmedGraph),
// compared with coq/M_Trim.v.  pm = (id, parent id) in id order; listed = g.Nodes order.

func c18TrimCase(c *Ctx, gen string, parents []int, listed []int, kept map[int]bool) {
	n := len(parents) // ids 1..n, parents[i-1] = parent of i (0 = root)
	nodes := make([]*graph.Node, n+1)
	for i := 1; i <= n; i++ {
		nodes[i] = &graph.Node{In: graph.EdgeMap{}, Out: graph.EdgeMap{}, LabelTags: graph.TagMap{}, NumericTags: map[string]graph.TagMap{}}
		nodes[i].Info.Name = fmt.Sprintf("n%d", i)
		nodes[i].Cum = int64(100 - i)
	}
	id := map[*graph.Node]int{}
	for i := 1; i <= n; i++ {
		id[nodes[i]] = i
		if p := parents[i-1]; p != 0 {
			e := &graph.Edge{Src: nodes[p], Dest: nodes[i], Weight: int64(10 + i), Inline: i%3 == 0}
			nodes[p].Out[nodes[i]] = e
			nodes[i].In[nodes[p]] = e
		}
	}
	g := &graph.Graph{}
	for _, i := range listed {
		g.Nodes = append(g.Nodes, nodes[i])
	}
	ks := graph.NodePtrSet{}
	var keptIDs []int64
	for i := 1; i <= n; i++ {
		if kept[i] {
			ks[nodes[i]] = true
			keptIDs = append(keptIDs, int64(i))
		}
	}
	var pm []Term
	for i := 1; i <= n; i++ {
		pm = append(pm, L(ZI(i), ZI(parents[i-1])))
	}
	var ls []int64
	for _, i := range listed {
		ls = append(ls, int64(i))
	}
	in := L(S("trim"), L(pm...), Zs(ls), Zs(keptIDs))
	obs := func() (o Term) {
		defer func() {
			if e := recover(); e != nil {
				o = L(S("panic"), S(fmt.Sprint(e)))
			}
		}()
		g.TrimTree(ks)
		var out []Term
		for _, nd := range g.Nodes {
			var cs []int64
			for d := range nd.Out {
				cs = append(cs, int64(id[d]))
			}
			sort.Slice(cs, func(a, b int) bool { return cs[a] < cs[b] })
			out = append(out, L(ZI(id[nd]), Zs(cs)))
		}
		return L(out...)
	}()
	c.Case(gen, in, obs, len(keptIDs) < len(listed), "op:trim")
}

func c18TrimCases(c *Ctx) {
	r := c.R
	// the 8-node tree of the grid, every subset size of "kept", listed in two orders
	par := []int{0, 1, 2, 2, 2, 1, 6, 6, 1}
	all := []int{1, 2, 3, 4, 5, 6, 7, 8, 9}
	rev := []int{9, 8, 7, 6, 5, 4, 3, 2, 1}
	for _, kept := range []map[int]bool{{1: true, 2: true, 3: true, 4: true, 6: true, 7: true, 9: true}, {1: true, 3: true, 7: true}, {3: true, 4: true, 8: true}, {}, {2: true, 6: true}} {
		c18TrimCase(c, "trim-grid", par, all, kept)
		c18TrimCase(c, "trim-grid", par, rev, kept)
	}
	// the shape of a deferred cut-off: nodes 5 and 8 were only taken off the list
	c18TrimCase(c, "trim-unlisted", par, []int{1, 2, 3, 4, 6, 7, 9}, map[int]bool{1: true, 2: true, 3: true, 6: true})
	for i := 0; i < c.Budget(150, 1500); i++ {
		n := 2 + r.Intn(11)
		parents := make([]int, n)
		for k := 1; k < n; k++ {
			if !r.P(1, 6) {
				parents[k] = 1 + r.Intn(k)
			}
		}
		var listed []int
		for k := 1; k <= n; k++ {
			if !(r.P(1, 8) && r.P(1, 2)) {
				listed = append(listed, k)
			}
		}
		for k := len(listed) - 1; k > 0; k-- {
			j := r.Intn(k + 1)
			listed[k], listed[j] = listed[j], listed[k]
		}
		kept := map[int]bool{}
		for _, k := range listed {
			if r.P(2, 3) {
				kept[k] = true
			}
		}
		c18TrimCase(c, "trim", parents, listed, kept)
	}
}
