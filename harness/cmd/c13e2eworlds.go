//go:build verif

package main

import (
	"debug/elf"
	"fmt"
	"os"
	"path/filepath"
)

// Worlds for the C13 end-to-end layer. The decisive shapes are deterministic parts of the quick
// tier (c13EFixedWorlds); c13ERandomWorld adds seeded variety.

func c13ENames(prefix string, n int) []string {
	var l []string
	for i := 0; i < n; i++ {
		l = append(l, fmt.Sprintf("%s_fn%d", prefix, i))
	}
	return l
}

var c13ESizes = []uint64{0x40, 0x100, 0x20, 0x230, 0x80}

func c13EExecLayout(etype elf.Type, v uint64) c13Layout {
	// GNU ld without -z separate-code: text and data share file page 0
	return c13Layout{etype: etype, progs: []elf.ProgHeader{
		{Type: elf.PT_LOAD, Flags: elf.PF_R | elf.PF_X, Off: 0, Vaddr: v, Paddr: v, Filesz: 0xc80, Memsz: 0xc80, Align: 0x200000},
		{Type: elf.PT_LOAD, Flags: elf.PF_R | elf.PF_W, Off: 0xc80, Vaddr: v + 0x200c80, Paddr: v + 0x200c80, Filesz: 0x1f0, Memsz: 0x2f0, Align: 0x200000},
	}, secs: nil}
}

func c13ESepLayout(etype elf.Type, v uint64) c13Layout {
	// -z separate-code: R, RX, R, RW
	return c13Layout{etype: etype, progs: []elf.ProgHeader{
		{Type: elf.PT_LOAD, Flags: elf.PF_R, Off: 0, Vaddr: v, Paddr: v, Filesz: 0x618, Memsz: 0x618, Align: 0x1000},
		{Type: elf.PT_LOAD, Flags: elf.PF_R | elf.PF_X, Off: 0x1000, Vaddr: v + 0x1000, Paddr: v + 0x1000, Filesz: 0x16fc, Memsz: 0x16fc, Align: 0x1000},
		{Type: elf.PT_LOAD, Flags: elf.PF_R, Off: 0x3000, Vaddr: v + 0x3000, Paddr: v + 0x3000, Filesz: 0x10c, Memsz: 0x10c, Align: 0x1000},
		{Type: elf.PT_LOAD, Flags: elf.PF_R | elf.PF_W, Off: 0x3dd0, Vaddr: v + 0x4dd0, Paddr: v + 0x4dd0, Filesz: 0x24c, Memsz: 0x3150, Align: 0x1000},
	}}
}

// a process: the executable mapping of file fi loaded at bias, `exact` = the collector reports the
// exact extent of the segment instead of page-aligned limits
func (w *c13EWorld) textMapping(fi int, bias uint64, exact bool, recordedFile, recordedID string) c13EMapping {
	f := w.files[fi]
	fn := f.funcs()[0]
	start, limit, offset, seg := f.mappingOf(fn.addr, bias)
	if exact {
		limit = bias + seg.Vaddr + seg.Filesz
	}
	m := c13EMapping{start: start, limit: limit, offset: offset, file: recordedFile, buildID: recordedID, rec: -1, truth: fi, bias: bias}
	for i, g := range w.files {
		if g.path == recordedFile {
			m.rec = i
		}
	}
	return m
}

// samples over the functions of file fi in mapping mi: fn k gets value vals[k] at an address inside it
func (w *c13EWorld) samplesOver(fi, mi int, bias uint64, vals []int64, deep bool) []c13ESample {
	fs := w.files[fi].funcs()
	var out []c13ESample
	for k, v := range vals {
		if k >= len(fs) {
			break
		}
		fn := fs[k]
		st := []c13EFrame{{mi, bias + fn.addr + fn.size/2}}
		if deep && k+1 < len(fs) {
			st = append(st, c13EFrame{mi, bias + fs[k+1].addr + 1})
		}
		out = append(out, c13ESample{st, v})
	}
	return out
}

func (w *c13EWorld) addFile(rel string, lay c13Layout, prefix string, n int, buildID string) int {
	f, ok := c13EMakeFile(filepath.Join(w.dir, rel), lay, c13ENames(prefix, n), c13ESizes, buildID)
	if !ok {
		return -1
	}
	w.files = append(w.files, f)
	return len(w.files) - 1
}

const (
	c13EIDa = "910b52ea6a8ad2a1c3cf1e0f4b7d5a6c9e8f7a6b"
	c13EIDb = "0123456789abcdef0123456789abcdef01234567"
)

type c13ENamedWorld struct {
	name string
	w    *c13EWorld
}

// c13EFixedWorlds: the shapes on which glue decides whether the right binary, the right mapping and
// the right bias reach the verified core.
func c13EFixedWorlds(base string) []c13ENamedWorld {
	var out []c13ENamedWorld
	mk := func(name string) *c13EWorld {
		w := &c13EWorld{dir: filepath.Join(base, name)}
		os.MkdirAll(w.dir, 0o755)
		out = append(out, c13ENamedWorld{name, w})
		return w
	}
	// 1. two different non-PIE programs linked at the same address, profiled at the SAME runtime
	//    addresses, combined in one invocation (both orders; as source + diff base)
	for _, v := range []string{"ab", "ba", "diff"} {
		w := mk("same-addr-exec-" + v)
		a := w.addFile("alpha/prog", c13EExecLayout(elf.ET_EXEC, 0x400000), "alpha", 6, "")
		b := w.addFile("beta/prog", c13EExecLayout(elf.ET_EXEC, 0x400000), "beta", 6, "")
		pa := c13EProfile{scale: 1, mappings: []c13EMapping{w.textMapping(a, 0, false, w.files[a].path, "")}, samples: w.samplesOver(a, 0, 0, []int64{3, 1, 4}, true)}
		pb := c13EProfile{scale: 1, mappings: []c13EMapping{w.textMapping(b, 0, false, w.files[b].path, "")}, samples: w.samplesOver(b, 0, 0, []int64{5, 9, 2}, true)}
		switch v {
		case "ab":
			w.profiles = []c13EProfile{pa, pb}
		case "ba":
			w.profiles = []c13EProfile{pb, pa}
		default:
			pb.scale = -1
			w.profiles = []c13EProfile{pa, pb}
		}
	}
	// 2. two processes map different libraries (with build ids) at the same address
	{
		w := mk("same-addr-libs")
		a := w.addFile("p1/liba.so", c13ESepLayout(elf.ET_DYN, 0), "liba", 8, c13EIDa)
		b := w.addFile("p2/libb.so", c13ESepLayout(elf.ET_DYN, 0), "libb", 8, c13EIDb)
		bias := uint64(0x7f3a5c200000)
		w.profiles = []c13EProfile{
			{scale: 1, mappings: []c13EMapping{w.textMapping(a, bias, false, w.files[a].path, c13EIDa)}, samples: w.samplesOver(a, 0, bias, []int64{2, 7, 1, 8}, false)},
			{scale: 1, mappings: []c13EMapping{w.textMapping(b, bias, false, w.files[b].path, c13EIDb)}, samples: w.samplesOver(b, 0, bias, []int64{6, 5, 3, 5}, false)},
		}
	}
	// 3. two runs of one PIE at different biases; one collector reports the exact segment extent,
	//    the other page-aligned limits (all four orders)
	for _, v := range []struct {
		name           string
		b1, b2         uint64
		exact1, exact2 bool
	}{
		{"pie-lower-second-larger", 0x7f3a5c200000, 0x55d0c4e00000, true, false},
		{"pie-higher-second-larger", 0x55d0c4e00000, 0x7f3a5c200000, true, false},
		{"pie-lower-second-smaller", 0x7f3a5c200000, 0x55d0c4e00000, false, true},
		{"pie-higher-second-smaller", 0x55d0c4e00000, 0x7f3a5c200000, false, true},
	} {
		for _, id := range []string{"", c13EIDa} {
			w := mk(v.name + map[string]string{"": "-noid", c13EIDa: "-id"}[id])
			a := w.addFile("bin/pie", c13ESepLayout(elf.ET_DYN, 0), "pie", 8, id)
			w.profiles = []c13EProfile{
				{scale: 1, mappings: []c13EMapping{w.textMapping(a, v.b1, v.exact1, w.files[a].path, id)}, samples: w.samplesOver(a, 0, v.b1, []int64{3, 1}, true)},
				{scale: 1, mappings: []c13EMapping{w.textMapping(a, v.b2, v.exact2, w.files[a].path, id)}, samples: w.samplesOver(a, 0, v.b2, []int64{4, 2, 6}, true)},
			}
		}
	}
	// 4. the binary search path holds another build under the profiled binary's name
	for _, v := range []string{"stale-noid", "stale-otherid", "same-build", "stale-noid-missing-orig"} {
		w := mk("binpath-" + v)
		a := w.addFile("orig/app", c13ESepLayout(elf.ET_DYN, 0), "app", 8, c13EIDa)
		rec := w.files[a].path
		var cand int
		switch v {
		case "stale-noid", "stale-noid-missing-orig":
			cand = w.addFile("search/app", c13ESepLayout(elf.ET_DYN, 0), "old", 8, "")
		case "stale-otherid":
			cand = w.addFile("search/app", c13ESepLayout(elf.ET_DYN, 0), "old", 8, c13EIDb)
		default:
			cand = w.addFile("search/app", c13ESepLayout(elf.ET_DYN, 0), "app", 8, c13EIDa)
		}
		if v == "stale-noid-missing-orig" {
			rec = "/nonexistent-c13/build/app"
		}
		w.binpath = []string{filepath.Join(w.dir, "empty"), filepath.Join(w.dir, "search")}
		os.MkdirAll(w.binpath[0], 0o755)
		bias := uint64(0x55d0c4e00000)
		m := w.textMapping(a, bias, false, rec, c13EIDa)
		m.cands = []int{cand}
		w.profiles = []c13EProfile{{scale: 1, mappings: []c13EMapping{m}, samples: w.samplesOver(a, 0, bias, []int64{7, 2, 5}, true)}}
	}
	// 4b. PT_LOAD entries in ascending vaddr order whose file offsets do not ascend (round 6)
	for li, lay := range c13ReorderedLayouts() {
		if lay.etype != elf.ET_DYN {
			continue
		}
		lay.secs = nil
		for _, firstPage := range []bool{false, true} {
			w := mk(fmt.Sprintf("reordered-%d-%v", li, firstPage))
			a := w.addFile("bin/reord", lay, "reord", 8, c13EIDa)
			if a < 0 {
				continue
			}
			bias := uint64(0x55d0c4e00000)
			m := w.textMapping(a, bias, false, w.files[a].path, c13EIDa)
			if firstPage {
				m.limit = m.start + c13Page
			}
			w.profiles = []c13EProfile{{scale: 1, mappings: []c13EMapping{m}, samples: w.samplesOver(a, 0, bias, []int64{3, 1, 4}, true)}}
		}
	}
	// 5. a tiny object whose text and data share file page 0: all mappings of the process listed,
	//    the data mapping first; samples in text and one in data
	{
		w := mk("tiny-data-first")
		a := w.addFile("lib/libtiny.so", c13EExecLayout(elf.ET_DYN, 0), "tiny", 6, "")
		bias := uint64(0x7f3a00000000)
		f := w.files[a]
		tm := w.textMapping(a, bias, false, f.path, "")
		dm := tm
		var dsym c13ESym
		for _, s := range f.syms {
			if s.data {
				dsym = s
			}
		}
		dm.start, dm.limit, dm.offset, _ = f.mappingOf(dsym.addr, bias)
		ss := w.samplesOver(a, 1, bias, []int64{3, 4, 5}, true)
		w.profiles = []c13EProfile{{scale: 1, mappings: []c13EMapping{dm, tm}, samples: ss}}
	}
	return out
}

// c13ERandomWorld: 1..3 files from the layout generators, 1..3 profiles, each of 1..2 processes'
// executable mappings, stacks of depth 1..3 across the mappings of the profile.
func c13ERandomWorld(r *Rng, dir string) *c13EWorld {
	w := &c13EWorld{dir: dir}
	os.MkdirAll(dir, 0o755)
	nf := 1 + r.Intn(3)
	for i := 0; i < nf; i++ {
		var lay c13Layout
		switch r.Intn(4) {
		case 0:
			lay = c13ESepLayout(elf.ET_DYN, 0)
		case 1:
			lay = c13EExecLayout([]elf.Type{elf.ET_DYN, elf.ET_EXEC}[r.Intn(2)], 0)
		case 2:
			lay = c13TinyLayout(r)
		default:
			lay = c13GenLayout(r)
		}
		if lay.etype == elf.ET_EXEC {
			for _, p := range lay.progs {
				if p.Type == elf.PT_LOAD && p.Vaddr == 0 {
					lay = c13EExecLayout(elf.ET_EXEC, 0x400000)
					break
				}
			}
		}
		id := ""
		if r.P(1, 2) {
			id = fmt.Sprintf("%040x", r.U64())
		}
		w.addFile(fmt.Sprintf("d%d/bin%d", i, i), lay, fmt.Sprintf("w%d", i), 4+r.Intn(8), id)
	}
	if len(w.files) == 0 {
		return nil
	}
	np := 1 + r.Intn(3)
	for pi := 0; pi < np; pi++ {
		var p c13EProfile
		p.scale = 1
		nm := 1 + r.Intn(2)
		for mi := 0; mi < nm; mi++ {
			fi := r.Intn(len(w.files))
			f := w.files[fi]
			bias := uint64(0)
			if f.lay.etype == elf.ET_DYN {
				bias = []uint64{0x55d0c4e00000, 0x7f3a5c200000, 0x7f0000000000 + uint64(r.Intn(1<<16))*0x1000}[r.Intn(3)] + uint64(mi)*0x40000000
			} else if mi > 0 {
				continue
			}
			dup := false
			for _, m := range p.mappings {
				if m.truth == fi {
					dup = true
				}
			}
			if dup {
				continue
			}
			p.mappings = append(p.mappings, w.textMapping(fi, bias, r.P(1, 4), f.path, f.buildID))
		}
		if len(p.mappings) == 0 {
			continue
		}
		ns := 1 + r.Intn(5)
		for s := 0; s < ns; s++ {
			var st []c13EFrame
			for d := 1 + r.Intn(3); d > 0; d-- {
				mi := r.Intn(len(p.mappings))
				m := p.mappings[mi]
				fs := w.files[m.truth].funcs()
				fn := fs[r.Intn(len(fs))]
				a := m.bias + fn.addr + uint64(r.Intn(int(fn.size)))
				if a >= m.limit || a < m.start {
					continue
				}
				st = append(st, c13EFrame{mi, a})
			}
			if len(st) > 0 {
				p.samples = append(p.samples, c13ESample{st, int64(1 + r.Intn(20))})
			}
		}
		if len(p.samples) > 0 {
			w.profiles = append(w.profiles, p)
		}
	}
	if len(w.profiles) == 0 {
		return nil
	}
	return w
}

// option combinations that must not change which function a sample is attributed to
var c13EExtras = [][]string{nil, nil, {"-cum"}, {"-functions"}, {"-compact_labels"}, {"-unit=count"}, {"-cum", "-functions", "-trim=false"},
	{"-nodecount=5000", "-call_tree"}}

func c13EEmit(c *Ctx, gen string, w *c13EWorld, mode, format string, tags ...string) {
	var extra []string
	if gen == "e2e-random" {
		extra = c13EExtras[c.R.Intn(len(c13EExtras))]
	}
	in := w.term(mode, format, extra)
	obs := w.run(mode, format, extra)
	c.Case(gen, in, obs, len(w.profiles) > 0, append([]string{"op:e2e", "e2e:" + format, "e2e-mode:" + mode}, tags...)...)
}

func c13EndToEnd(c *Ctx) {
	base, err := os.Getwd()
	if err != nil {
		c.Extra["e2e"] = "getwd: " + err.Error()
		return
	}
	base = filepath.Join(base, "c13e2e")
	defer os.RemoveAll(base)
	for _, nw := range c13EFixedWorlds(base) {
		if len(nw.w.files) == 0 || len(nw.w.profiles) == 0 {
			continue
		}
		for _, f := range []string{"proto", "top", "traces"} {
			c13EEmit(c, "e2e-"+nw.name, nw.w, "fastlocal", f, "e2e-fixed")
		}
		c13EEmit(c, "e2e-"+nw.name, nw.w, "local", "proto", "e2e-fixed")
	}
	for _, nw := range c13ELegacyWorlds(base) {
		if len(nw.w.files) == 0 || len(nw.w.profiles) == 0 {
			continue
		}
		for _, f := range []string{"proto", "top"} {
			c13EEmit(c, "e2e-"+nw.name, nw.w, "fastlocal", f, "e2e-fixed", "e2e-legacy")
		}
	}
	// sessions and web requests on the decisive shapes
	for _, nw := range c13EFixedWorlds(base) {
		if len(nw.w.files) == 0 || len(nw.w.profiles) == 0 {
			continue
		}
		switch nw.name {
		case "same-addr-exec-ab", "pie-lower-second-larger-noid", "binpath-stale-noid", "tiny-data-first":
			c13EEmit(c, "e2e-"+nw.name, nw.w, "fastlocal", "interactive", "e2e-fixed")
			c13EEmit(c, "e2e-"+nw.name, nw.w, "fastlocal", "web", "e2e-fixed")
		}
	}
	n := c.Budget(20, 600)
	for k := 0; k < n; k++ {
		w := c13ERandomWorld(c.R, filepath.Join(base, fmt.Sprintf("r%d", k)))
		if w == nil {
			continue
		}
		mode := "fastlocal"
		if c.R.P(1, 5) {
			mode = "local"
		}
		format := []string{"proto", "proto", "top", "traces", "interactive", "web"}[c.R.Intn(6)]
		c13EEmit(c, "e2e-random", w, mode, format)
		os.RemoveAll(w.dir)
	}
}

// ---------------------------------------------------------------- legacy profiles (round 5)
// The memory map of a legacy profile goes through ParseMemoryMap -> massageMappings (adjacent
// entries of one file merged, main binary moved first) -> remapMappingIDs (anon_hugepage entry
// dropped, 0x400000 normalisation, locations attached by address, "first part missing"
// work-around). These worlds list the text of a binary the way /proc/self/maps shows it after the
// VMA was split, partly remapped on huge pages, or partly omitted.

func c13ELegacyLayout(etype elf.Type, v uint64) c13Layout {
	// text from file offset 0, three pages; data behind it
	return c13Layout{etype: etype, progs: []elf.ProgHeader{
		{Type: elf.PT_LOAD, Flags: elf.PF_R | elf.PF_X, Off: 0, Vaddr: v, Paddr: v, Filesz: 0x2c80, Memsz: 0x2c80, Align: 0x1000},
		{Type: elf.PT_LOAD, Flags: elf.PF_R | elf.PF_W, Off: 0x2c80, Vaddr: v + 0x3c80, Paddr: v + 0x3c80, Filesz: 0x1f0, Memsz: 0x2f0, Align: 0x1000},
	}}
}

type c13ELegacyEntry struct {
	lo, hi, off uint64 // link-relative start / limit, file offset
	fkind       int
}

// one process of file fi at bias, its text listed as `entries`; one sample (depth 2 where possible)
// per link address in `at` (each must lie inside a function), values 1, 2, 3 ...
func (w *c13EWorld) legacyProfile(fi int, bias uint64, entries []c13ELegacyEntry, at []uint64) c13EProfile {
	f := w.files[fi]
	p := c13EProfile{legacy: true, scale: 1}
	for _, e := range entries {
		m := c13EMapping{start: bias + e.lo, limit: bias + e.hi, offset: e.off, file: f.path, rec: fi, truth: fi, bias: bias, fkind: e.fkind}
		if e.fkind >= 2 {
			m.rec = -1
		}
		p.mappings = append(p.mappings, m)
	}
	fnAt := func(x uint64) (c13ESym, bool) {
		for _, s := range f.funcs() {
			if x >= s.addr && x < s.addr+s.size {
				return s, true
			}
		}
		return c13ESym{}, false
	}
	entryOf := func(x uint64) int {
		for i, e := range entries {
			if x >= e.lo && x < e.hi && e.fkind < 2 {
				return i
			}
		}
		// not listed: the statement is about the file and bias, carried by any entry of the file
		for i, e := range entries {
			if e.fkind < 2 {
				return i
			}
		}
		return 0
	}
	var prev *c13EFrame
	for k, x := range at {
		fn, ok := fnAt(x)
		if !ok {
			continue
		}
		fr := c13EFrame{entryOf(x), bias + fn.addr + fn.size/2}
		st := []c13EFrame{fr}
		if prev != nil {
			st = append(st, *prev)
		}
		p.samples = append(p.samples, c13ESample{st, int64(k + 1)})
		prev = &fr
	}
	return p
}

func c13ELegacyWorlds(base string) []c13ENamedWorld {
	var out []c13ENamedWorld
	mk := func(name string) *c13EWorld {
		w := &c13EWorld{dir: filepath.Join(base, name)}
		os.MkdirAll(w.dir, 0o755)
		out = append(out, c13ENamedWorld{name, w})
		return w
	}
	const B = uint64(0x7f3a5c200000)
	at := []uint64{0x1400, 0x300, 0x2300, 0x900, 0x1a00} // a later part first, then the first part, ...
	for _, v := range []struct {
		name    string
		entries []c13ELegacyEntry
	}{
		{"legacy-one-entry", []c13ELegacyEntry{{0, 0x3000, 0, 0}}},
		{"legacy-split2", []c13ELegacyEntry{{0, 0x1000, 0, 0}, {0x1000, 0x3000, 0x1000, 0}}},
		{"legacy-split3", []c13ELegacyEntry{{0, 0x1000, 0, 0}, {0x1000, 0x2000, 0x1000, 0}, {0x2000, 0x3000, 0x2000, 0}}},
		{"legacy-hugepage-noname", []c13ELegacyEntry{{0, 0x1000, 0, 2}, {0x1000, 0x3000, 0x1000, 0}}},
		{"legacy-anon-hugepage", []c13ELegacyEntry{{0, 0x1000, 0, 3}, {0x1000, 0x3000, 0x1000, 0}}},
		{"legacy-gap", []c13ELegacyEntry{{0, 0x1000, 0, 0}, {0x2000, 0x3000, 0x2000, 0}}},
		{"legacy-first-part-missing", []c13ELegacyEntry{{0x1000, 0x3000, 0x1000, 0}}},
	} {
		w := mk(v.name)
		a := w.addFile("bin/app", c13ELegacyLayout(elf.ET_DYN, 0), "app", 40, "")
		if a < 0 {
			continue
		}
		use := at
		if v.name == "legacy-gap" {
			use = []uint64{0x2300, 0x300, 0x900, 0x2500}
		}
		w.profiles = []c13EProfile{w.legacyProfile(a, B, v.entries, use)}
	}
	{ // -z separate-code: the executable part starts at file offset 0x1000, split in two
		w := mk("legacy-split2-sepcode")
		if a := w.addFile("bin/sep", c13ESepLayout(elf.ET_DYN, 0), "sep", 30, ""); a >= 0 {
			w.profiles = []c13EProfile{w.legacyProfile(a, B, []c13ELegacyEntry{{0x1000, 0x2000, 0x1000, 0}, {0x2000, 0x3000, 0x2000, 0}},
				[]uint64{0x2100, 0x1300, 0x2400, 0x1500})}
		}
	}
	{ // a non-PIE program at 0x400000 whose first page is not listed (start - offset = 0x400000)
		w := mk("legacy-exec-400000")
		if a := w.addFile("bin/prog", c13ELegacyLayout(elf.ET_EXEC, 0x400000), "prog", 40, ""); a >= 0 {
			w.profiles = []c13EProfile{w.legacyProfile(a, 0, []c13ELegacyEntry{{0x401000, 0x403000, 0x1000, 0}},
				[]uint64{0x401400, 0x400300, 0x402300, 0x400900})}
		}
	}
	{ // a library listed before the main binary, both split
		w := mk("legacy-lib-before-main")
		l := w.addFile("lib/libx.so", c13ELegacyLayout(elf.ET_DYN, 0), "libx", 40, "")
		a := w.addFile("bin/app", c13ELegacyLayout(elf.ET_DYN, 0), "app", 40, "")
		if l >= 0 && a >= 0 {
			pl := w.legacyProfile(l, B, []c13ELegacyEntry{{0, 0x1000, 0, 1}, {0x1000, 0x3000, 0x1000, 1}}, []uint64{0x1400, 0x300})
			pa := w.legacyProfile(a, 0x55d0c4e00000, []c13ELegacyEntry{{0, 0x2000, 0, 0}, {0x2000, 0x3000, 0x2000, 0}}, []uint64{0x2300, 0x900})
			// one process: both binaries in one profile, the library's entries first
			for i := range pa.samples {
				for j := range pa.samples[i].stack {
					pa.samples[i].stack[j].m += len(pl.mappings)
				}
			}
			pl.mappings = append(pl.mappings, pa.mappings...)
			pl.samples = append(pl.samples, pa.samples...)
			w.profiles = []c13EProfile{pl}
		}
	}
	return out
}
