//go:build verif

package main

// C11, clause "built-in expressions attached to legacy profiles": profile.ParseData on EVERY legacy
// format (the repository's own samples plus hand-made Java heapz / contentionz / C++ heap / contention /
// thread / Go count texts, with and without the optional header attributes) must attach the drop / keep
// expressions addLegacyFrameInfo's table prescribes for the profile's sample types (model
// M_Prune.legacy_frame_info); the parsed profile then goes through RemoveUninteresting (op removeun).

import (
	"os"
	"path/filepath"
	"regexp"

	"github.com/google/pprof/profile"
)

const c11JavaSyms = `
 0x00000001 malloc (/usr/lib/libc.so.6)
 0x00000002 operator new (/usr/lib/libstdc++.so.6)
 0x00000003 tc_malloc (/usr/lib/libtcmalloc.so)
 0x00000004 com.example.Native.alloc (Native.java:12)
 0x00000005 com.example.Main.run (Main.java:30)
 0x00000006 java.lang.Thread.run (Thread.java:745)
 0x00000007 pthread_mutex_lock (/usr/lib/libpthread.so)
 0x00000008 com.example.Lock.acquire (Lock.java:7)
`

var c11LegacyTexts = map[string]string{
	"java-heapz": "--- heapz 1 ---\nformat = java\nresolution = bytes\n      4096     2 @ 0x00000001 0x00000002 0x00000004 0x00000005 0x00000006\n       512     1 @ 0x00000003 0x00000004 0x00000005 0x00000006\n\n" + c11JavaSyms,
	"java-heapz-noresolution": "--- heapz 1 ---\nformat = java\n      100     1 @ 0x00000001 0x00000004 0x00000006\n\n" + c11JavaSyms,
	"java-contentionz-period": "--- contentionz 1 ---\nformat = java\nresolution = microseconds\nsampling period = 100\nms since reset = 6000\n      14     1 @ 0x00000007 0x00000008 0x00000005 0x00000006\n\n" + c11JavaSyms,
	"java-contentionz-noperiod": "--- contentionz 1 ---\nformat = java\nresolution = microseconds\n      14     1 @ 0x00000007 0x00000008 0x00000005 0x00000006\n       2     3 @ 0x00000008 0x00000006\n\n" + c11JavaSyms,
	"cpp-heap": "heap profile: 1: 1024 [ 2: 2048 ] @ heapprofile\n 1: 1024 [ 2: 2048 ] @ 0x1000 0x2000 0x3000\n\nMAPPED_LIBRARIES:\n00400000-00500000 r-xp 00000000 00:00 0 /bin/app\n",
	"cpp-heap-v2": "heap profile: 1: 1024 [ 2: 2048 ] @ heap_v2/524288\n 1: 1024 [ 2: 2048 ] @ 0x1000 0x2000\n\nMAPPED_LIBRARIES:\n00400000-00500000 r-xp 00000000 00:00 0 /bin/app\n",
	"cpp-growth": "heap profile: 1: 1024 [ 2: 2048 ] @ growthz\n 1: 1024 [ 2: 2048 ] @ 0x1000 0x2000\n\nMAPPED_LIBRARIES:\n00400000-00500000 r-xp 00000000 00:00 0 /bin/app\n",
	"cpp-contention": "--- contentionz 1 ---\ncycles/second = 1000000000\nsampling period = 100\nms since reset = 1000\ndiscarded samples = 0\n  19490304       27 @ 0x1000 0x2000 0x3000\n",
	"cpp-contention-noperiod": "--- contentionz 1 ---\ncycles/second = 1000000000\n  19490304       27 @ 0x1000 0x2000\n",
	"cpp-thread": "--- threadz 1 ---\n\n--- Thread 7f0001 (name: main/1) stack: ---\n  PC: 0x1000 0x2000 0x3000\n--- Memory map: ---\n00400000-00500000: /bin/app\n",
	"go-goroutine": "goroutine profile: total 2\n1 @ 0x1000 0x2000 0x3000\n1 @ 0x1000 0x4000\n",
	"go-threadcreate": "threadcreate profile: total 3\n2 @ 0x1000 0x2000\n1 @ 0x3000\n",
}

func c11LegacyStreams(c *Ctx, removeUn func(gen string, p *profile.Profile)) {
	rx := profile.VerifC11LegacyRx()
	tbl := L(S(rx[0]), S(rx[1]), S(rx[2]), S(rx[3]))
	c.Extra["legacy_expressions_compile"] = func() bool {
		for _, e := range rx {
			if _, err := regexp.Compile("^(" + e + ")$"); err != nil {
				return false
			}
		}
		return true
	}()
	one := func(tag string, data []byte) {
		p, err := profile.ParseData(data)
		if err != nil {
			c.dist["legacy-unparsed:"+tag]++
			return
		}
		var st []string
		for _, t := range p.SampleType {
			st = append(st, t.Type)
		}
		pt := "period-type:set"
		if p.PeriodType == nil || p.PeriodType.Type == "" {
			pt = "period-type:empty"
		}
		c.Case("legacy-frame-info", L(S("legacy"), S(tag), Ss(st), tbl), L(S("ok"), S(p.DropFrames), S(p.KeepFrames)), true, "op:legacy", pt)
		// the parsed profile through RemoveUninteresting, judged by the frame rule (symbolized texts only)
		if len(p.Function) > 0 {
			removeUn("legacy-removeun", p)
		}
	}
	var names []string
	for k := range c11LegacyTexts {
		names = append(names, k)
	}
	c11SortStrings(names)
	for _, k := range names {
		one(k, []byte(c11LegacyTexts[k]))
	}
	repo := os.Getenv("VERIF_REPO")
	if repo == "" {
		repo = "/repo"
	}
	for _, f := range []string{"cppbench.contention", "cppbench.cpu", "cppbench.growth", "cppbench.heap", "cppbench.thread", "cppbench.thread.all",
		"cppbench.thread.none", "go.crc32.cpu", "go.godoc.thread", "gobench.cpu", "gobench.heap", "java.contention", "java.cpu", "java.heap"} {
		if b, err := os.ReadFile(filepath.Join(repo, "profile", "testdata", f)); err == nil {
			one("testdata:"+f, b)
		}
	}
}

func c11SortStrings(l []string) {
	for i := 1; i < len(l); i++ {
		for j := i; j > 0 && l[j] < l[j-1]; j-- {
			l[j], l[j-1] = l[j-1], l[j]
		}
	}
}
