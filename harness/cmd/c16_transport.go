//go:build verif

package main

// C16, stream "transport": the fetches of one run share ONE internal/transport object (as in
// driver.PProf: HTTPTransport = transport.New(flagset)).  What a source gets from it must depend on
// that source alone -- its scheme (http / https / https+insecure), the server's certificate and the
// server's answer -- not on which other sources are fetched in the same run or in which order
// their requests reach the transport.  Three local servers (plain HTTP; TLS with a certificate listed
// in -tls_ca; TLS with a certificate nobody trusts), the REAL transport (a fresh one per case, i.e.
// per run) behind a RoundTripper that only sequences the requests in the scripted completion order.

import (
	"crypto/ecdsa"
	"crypto/elliptic"
	"crypto/rand"
	"crypto/tls"
	"crypto/x509"
	"crypto/x509/pkix"
	"encoding/pem"
	"fmt"
	"io"
	"log"
	"math/big"
	"net"
	"net/http"
	"net/http/httptest"
	"os"
	"strings"
	"sync"
	"time"

	"github.com/google/pprof/internal/transport"
)

type c16Servers struct {
	plain, trusted, untrusted *httptest.Server
	caFile                    string
	mu                        sync.Mutex
	cur                       *c16Env // the case being run
}

var c16Srv *c16Servers

func (sv *c16Servers) ServeHTTP(w http.ResponseWriter, r *http.Request) {
	sv.mu.Lock()
	env := sv.cur
	sv.mu.Unlock()
	if env == nil {
		http.Error(w, "no case", 404)
		return
	}
	s, ok := env.srcOf[env.byPath[r.URL.Path]]
	if !ok {
		http.Error(w, "unknown source", 404)
		return
	}
	if s.delayMs > 0 {
		time.Sleep(time.Duration(s.delayMs) * time.Millisecond)
	}
	switch s.kind {
	case c16KTrHTTP500, c16KTrInsecure500:
		http.Error(w, "scripted", 500)
	case c16KTrInsecureBad:
		w.Write([]byte("this is not a profile\n"))
	default: // also for c16KTrUntrusted: if verification is (wrongly) skipped the fetch succeeds
		w.Write(c16Bytes(c16Profile(s, false)))
	}
}

// c16StartServers starts the three servers once per harness process.
func c16StartServers() *c16Servers {
	if c16Srv != nil {
		return c16Srv
	}
	sv := &c16Servers{}
	quiet := log.New(io.Discard, "", 0) // TLS handshake failures are expected
	sv.plain = httptest.NewUnstartedServer(sv)
	sv.plain.Config.ErrorLog = quiet
	sv.plain.Config.SetKeepAlivesEnabled(false) // the transport makes a new http.Transport per request: do not pile up idle connections
	sv.plain.Start()
	sv.trusted = httptest.NewUnstartedServer(sv)
	sv.trusted.Config.ErrorLog = quiet
	sv.trusted.Config.SetKeepAlivesEnabled(false) // the transport makes a new http.Transport per request: do not pile up idle connections
	sv.trusted.StartTLS()
	// its certificate becomes the -tls_ca file of every run
	sv.caFile = "c16_tls_ca.pem"
	os.WriteFile(sv.caFile, pem.EncodeToMemory(&pem.Block{Type: "CERTIFICATE", Bytes: sv.trusted.Certificate().Raw}), 0o644)
	// a second TLS server with a freshly made self-signed certificate that is in no pool
	key, _ := ecdsa.GenerateKey(elliptic.P256(), rand.Reader)
	tmpl := &x509.Certificate{SerialNumber: big.NewInt(16), Subject: pkix.Name{CommonName: "c16 untrusted"},
		NotBefore: time.Now().Add(-time.Hour), NotAfter: time.Now().Add(24 * time.Hour),
		KeyUsage: x509.KeyUsageDigitalSignature, ExtKeyUsage: []x509.ExtKeyUsage{x509.ExtKeyUsageServerAuth},
		IPAddresses: []net.IP{net.IPv4(127, 0, 0, 1)}, DNSNames: []string{"localhost"}, BasicConstraintsValid: true}
	der, err := x509.CreateCertificate(rand.Reader, tmpl, tmpl, &key.PublicKey, key)
	if err != nil {
		panic(err)
	}
	sv.untrusted = httptest.NewUnstartedServer(sv)
	sv.untrusted.Config.ErrorLog = quiet
	sv.untrusted.Config.SetKeepAlivesEnabled(false) // the transport makes a new http.Transport per request: do not pile up idle connections
	sv.untrusted.TLS = &tls.Config{Certificates: []tls.Certificate{{Certificate: [][]byte{der}, PrivateKey: key}}}
	sv.untrusted.StartTLS()
	c16Srv = sv
	return sv
}

func c16TrAddr(kind int, path string) string {
	sv := c16StartServers()
	host := func(s *httptest.Server) string { return s.URL[strings.Index(s.URL, "://")+3:] }
	switch kind {
	case c16KTrHTTPOK, c16KTrHTTP500:
		return "http://" + host(sv.plain) + path
	case c16KTrInsecureOK, c16KTrInsecureBad:
		return "https+insecure://" + host(sv.untrusted) + path
	case c16KTrUntrusted:
		return "https://" + host(sv.untrusted) + path
	case c16KTrTrustedOK:
		return "https://" + host(sv.trusted) + path
	case c16KTrInsecure500:
		return "https+insecure://" + host(sv.trusted) + path
	}
	return "http://c16host" + path
}

// c16Flags is the plugin.FlagSet handed to transport.New: only -tls_ca is set.
type c16Flags struct{ ca string }

func (f *c16Flags) Bool(name string, def bool, usage string) *bool          { return &def }
func (f *c16Flags) Int(name string, def int, usage string) *int             { return &def }
func (f *c16Flags) Float64(name string, def float64, usage string) *float64 { return &def }
func (f *c16Flags) String(name string, def string, usage string) *string {
	if name == "tls_ca" {
		return &f.ca
	}
	return &def
}
func (f *c16Flags) StringList(name string, def string, usage string) *[]*string { return &[]*string{} }
func (f *c16Flags) ExtraUsage() string                                        { return "" }
func (f *c16Flags) AddExtraUsage(eu string)                                   {}
func (f *c16Flags) Parse(usage func()) []string                               { return nil }

// c16RT is the http.RoundTripper of one case: requests for c16host get the scripted answers of
// c16Env.RoundTrip; everything else goes, unchanged, to the run's real transport.  The only thing
// added is the signal that lets the controller release the next fetch after this one was answered.
type c16RT struct {
	env  *c16Env
	real http.RoundTripper
}

func c16NewRT(env *c16Env, cs c16Case) http.RoundTripper {
	uses := false
	for _, l := range [][]c16Src{cs.srcs, cs.bases} {
		for _, s := range l {
			uses = uses || c16KindTransport(s.kind)
		}
	}
	if !uses {
		return env
	}
	sv := c16StartServers()
	sv.mu.Lock()
	sv.cur = env
	sv.mu.Unlock()
	return &c16RT{env: env, real: transport.New(&c16Flags{ca: sv.caFile})}
}

func (rt *c16RT) RoundTrip(req *http.Request) (*http.Response, error) {
	if req.URL.Host == "c16host" {
		return rt.env.RoundTrip(req)
	}
	g := rt.env.gates[req.URL.String()]
	addr := req.URL.String()
	if g == nil { // adjustURL rewrote the query (-seconds): find the source by its path
		addr = rt.env.byPath[req.URL.Path]
		g = rt.env.gates[addr]
	}
	if dl, ok := req.Context().Deadline(); ok {
		rt.env.mu.Lock()
		if rt.env.allow == nil {
			rt.env.allow = map[string]time.Duration{}
		}
		rt.env.allow[addr] = time.Until(dl)
		rt.env.mu.Unlock()
	}
	resp, err := rt.real.RoundTrip(req)
	if g != nil {
		g.onceT.Do(func() { close(g.returned) })
	}
	return resp, err
}

var c16TrKinds = []int{c16KTrHTTPOK, c16KTrHTTP500, c16KTrInsecureOK, c16KTrUntrusted, c16KTrTrustedOK, c16KTrInsecureBad, c16KTrInsecure500}

// c16TransportStreams queues the cases of the "transport" streams.
func (c *Ctx) c16TransportStreams() {
	thorough := c.Tier == "thorough"
	mk := func(i, grp, kind int) c16Src {
		s := c16Plain(i, grp, true)
		s.kind = kind
		return s
	}
	// T1: exhaustive small scope: m = 2 (thorough also 3) requests, every split into sources and
	// bases, every tuple of the 7 transport kinds, every order in which they reach the transport.
	exh := func(m int, sample int) {
		nk := len(c16TrKinds)
		total := 1
		for i := 0; i < m; i++ {
			total *= nk
		}
		for nb := 0; nb < m; nb++ {
			ns := m - nb
			for code := 0; code < total; code++ {
				for _, perm := range c16Perms(m) {
					if sample > 0 && !c.R.P(1, sample) {
						continue
					}
					var cs c16Case
					x := code
					for i := 0; i < m; i++ {
						k := c16TrKinds[x%nk]
						x /= nk
						if i < ns {
							cs.srcs = append(cs.srcs, mk(i, 0, k))
						} else {
							cs.bases = append(cs.bases, mk(i-ns, 1, k))
						}
					}
					for _, g := range perm {
						if g < ns {
							cs.order = append(cs.order, c16Ev{0, g})
						} else {
							cs.order = append(cs.order, c16Ev{1, g - ns})
						}
					}
					c.c16Emit("transport-exhaustive", cs, "gen-transport")
				}
			}
		}
	}
	exh(2, 0)
	if thorough {
		exh(3, 0)
	} else {
		exh(3, 30)
	}
	// T2: transport kinds mixed with every other kind, 2-8 sources, random orders, some through
	// fetchProfiles' own path (no remote kinds there, see G5: they would be saved under $HOME/pprof)
	for k := 0; k < c.Budget(100, 6000); k++ {
		var cs c16Case
		ns, nb := 2+c.R.Intn(5), c.R.Intn(3)
		pick := func(i, grp int) c16Src {
			if c.R.P(3, 5) {
				return mk(i, grp, c16TrKinds[c.R.Intn(len(c16TrKinds))])
			}
			return mk(i, grp, c.R.Intn(c16NumKinds))
		}
		for i := 0; i < ns; i++ {
			cs.srcs = append(cs.srcs, pick(i, 0))
		}
		for i := 0; i < nb; i++ {
			cs.bases = append(cs.bases, pick(i, 1))
		}
		cs.order = c16Order(c.R, ns, nb, 0)
		c.c16Emit("transport-mixed", cs, "gen-transport")
	}
	c.Extra["transport_servers"] = fmt.Sprintf("plain http, TLS in -tls_ca, TLS untrusted; one transport.New per case")
}
