//go:build verif

package main

// C09: strings whose LENGTH or SHAPE changes under a normalisation (white-space trimming, case folding,
// UTF-8 decoding, path cleaning), at lengths around the guards of the code that slices them.
// A guard measured on one form of a string and a slice taken from another form is the classic way to an
// out-of-range panic; the pools of ordinary ids never get near it.  Atoms:
//   * ASCII and Unicode white space (what strings.TrimSpace / Fields remove),
//   * runes whose lower/upper case has a different UTF-8 length (KELVIN SIGN 3->1 bytes, OHM and
//     ANGSTROM 3->2, capital sharp s 3->2, dotted capital I 2->1+, dotless i, long s, a title-case digraph),
//   * a combining mark, truncated and invalid UTF-8, NUL,
//   * path and pattern metacharacters, a few plain hex letters and digits of both cases.

var c09Atoms = []string{" ", "\t", "\n", "\r", "\v", "\f", "\u00a0", "\u0085", "\u2003", "\u3000",
	"\u212a", "\u2126", "\u212b", "\u1e9e", "\u0130", "\u0131", "\u017f", "\u01c5", "\u0301",
	"\xff", "\xc3", "\xe2\x84", "\x00",
	"/", "\\", ".", "%", "*", "[", "=", ":",
	"a", "A", "f", "F", "0", "9", "\u00e9", "\u00c9"}

const c09NSpaceAtoms = 10 // the first ten atoms are white space

// c09OddString concatenates 0..max atoms, half of them white space (so "   ", " a ", "\t\tf" are likely).
func c09OddString(r *Rng, max int) string {
	n := r.Intn(max + 1)
	s := ""
	for i := 0; i < n; i++ {
		if r.Bool() {
			s += c09Atoms[r.Intn(c09NSpaceAtoms)]
		} else {
			s += PickS(r, c09Atoms)
		}
	}
	return s
}

// c09OddPairs enumerates every concatenation of two atoms.
func c09OddPairs() []string {
	var out []string
	for _, a := range c09Atoms {
		for _, b := range c09Atoms {
			out = append(out, a+b)
		}
	}
	return out
}
