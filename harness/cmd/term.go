//go:build verif

package main

import (
	"fmt"
	"math/big"
	"strings"
)

// Term is the generic case tree shared with coq/Base/Term.v. String() renders Coq syntax.
type Term interface{ coq(sb *strings.Builder) }

type tZ struct{ v *big.Int }
type tS struct{ s string }
type tL struct{ l []Term }

func Z(v int64) Term    { return tZ{big.NewInt(v)} }
func ZU(v uint64) Term  { return tZ{new(big.Int).SetUint64(v)} }
func ZB(v *big.Int) Term { return tZ{v} }
func ZI(v int) Term     { return tZ{big.NewInt(int64(v))} }
func S(s string) Term   { return tS{s} }
func L(l ...Term) Term  { return tL{l} }
func Bool(b bool) Term {
	if b {
		return Z(1)
	}
	return Z(0)
}
func Ss(l []string) Term {
	r := make([]Term, len(l))
	for i, s := range l {
		r[i] = S(s)
	}
	return tL{r}
}
func Zs(l []int64) Term {
	r := make([]Term, len(l))
	for i, s := range l {
		r[i] = Z(s)
	}
	return tL{r}
}

func (t tZ) coq(sb *strings.Builder) {
	if t.v.Sign() < 0 {
		fmt.Fprintf(sb, "TZ (%s)", t.v.String())
	} else {
		fmt.Fprintf(sb, "TZ %s", t.v.String())
	}
}

func (t tS) coq(sb *strings.Builder) {
	plain := true
	for i := 0; i < len(t.s); i++ {
		c := t.s[i]
		if c < 0x20 || c > 0x7e {
			plain = false
			break
		}
	}
	if plain {
		sb.WriteString("TS \"")
		sb.WriteString(strings.ReplaceAll(t.s, "\"", "\"\""))
		sb.WriteString("\"")
		return
	}
	sb.WriteString("TS (B [")
	for i := 0; i < len(t.s); i++ {
		if i > 0 {
			sb.WriteByte(';')
		}
		fmt.Fprintf(sb, "%d", t.s[i])
	}
	sb.WriteString("])")
}

func (t tL) coq(sb *strings.Builder) {
	sb.WriteString("TL [")
	for i, x := range t.l {
		if i > 0 {
			sb.WriteString("; ")
		}
		x.coq(sb)
	}
	sb.WriteString("]")
}

func Render(t Term) string {
	var sb strings.Builder
	t.coq(&sb)
	return sb.String()
}

// Rat renders a float64 as the exact rational it denotes: TL [TZ num; TZ den].
func Rat(f float64) Term {
	r := new(big.Rat)
	if r.SetFloat64(f) == nil { // Inf/NaN
		return L(S("nonfinite"))
	}
	return L(ZB(r.Num()), ZB(r.Denom()))
}
