//go:build verif

package main

import (
	"bytes"
	"debug/elf"
	"encoding/binary"
	"fmt"
	"os"
	"path/filepath"

	"github.com/google/pprof/internal/binutils"
	"github.com/google/pprof/internal/plugin"
)

// C13 op session: a HISTORY of operations on ONE binutils.Binutils object through the public API
// (the way the symbolizer and the report commands use it): real minimal ELF64 files on disk,
// several Open calls (several mappings of the same file, several processes = biases, several
// files), ObjAddr calls interleaved across the open objects, configuration changes
// (SetFastSymbolization -> a new binrep) and Close in between.
//   session files events ↦ one observable per event
//     files  = [elf ...]                       (headers/sections as debug/elf reads them back)
//     events = ["open" file start limit offset bias(-1 = none)] ↦ ["ok"] | ["err" code]
//              ["addr" handle address]                           ↦ res
//              ["nop" what]                                      ↦ []
//   handle = index of the open event among the open events.
// The model (coq/M_Elf.v session_*) keeps one independent file object per handle; the theorem
// session_handle_independent says a handle answers as a stand-alone file object whatever else the
// session does, and the specification (address - bias per handle) is evaluated per handle.
// Whatever state a Binutils keeps between operations (caches keyed by file / offset / size /
// build id, results or errors remembered across objects) becomes visible here.

type c13SessFile struct {
	lay  c13Layout // as read back by debug/elf
	path string
}

// c13WriteELF writes a minimal little-endian ELF64 file: header, program headers, and (when the
// layout has sections) a section header table with a .shstrtab.
func c13WriteELF(path string, lay c13Layout) error {
	var ident [16]uint8
	copy(ident[:], elf.ELFMAG)
	ident[elf.EI_CLASS] = uint8(elf.ELFCLASS64)
	ident[elf.EI_DATA] = uint8(elf.ELFDATA2LSB)
	ident[elf.EI_VERSION] = uint8(elf.EV_CURRENT)
	hsz := uint64(binary.Size(elf.Header64{}))
	psz := uint64(binary.Size(elf.Prog64{}))
	ssz := uint64(binary.Size(elf.Section64{}))
	var progs []elf.Prog64
	for _, p := range lay.progs {
		progs = append(progs, elf.Prog64{Type: uint32(p.Type), Flags: uint32(p.Flags), Off: p.Off, Vaddr: p.Vaddr, Paddr: p.Paddr,
			Filesz: p.Filesz, Memsz: p.Memsz, Align: p.Align})
	}
	hdr := elf.Header64{Ident: ident, Type: uint16(lay.etype), Machine: uint16(elf.EM_X86_64), Version: uint32(elf.EV_CURRENT),
		Phoff: hsz, Ehsize: uint16(hsz), Phentsize: uint16(psz), Phnum: uint16(len(progs)), Shentsize: uint16(ssz)}
	var strtab bytes.Buffer
	var secs []elf.Section64
	if len(lay.secs) > 0 {
		strtab.WriteByte(0)
		secs = append(secs, elf.Section64{})
		for _, s := range lay.secs {
			secs = append(secs, elf.Section64{Name: uint32(strtab.Len()), Type: uint32(elf.SHT_PROGBITS), Flags: uint64(elf.SHF_ALLOC), Addr: s.addr})
			strtab.WriteString(s.name)
			strtab.WriteByte(0)
		}
		stroff := hsz + psz*uint64(len(progs))
		nameIdx := uint32(strtab.Len())
		strtab.WriteString(".shstrtab")
		strtab.WriteByte(0)
		secs = append(secs, elf.Section64{Name: nameIdx, Type: uint32(elf.SHT_STRTAB), Off: stroff, Size: uint64(strtab.Len())})
		hdr.Shoff = stroff + uint64(strtab.Len())
		hdr.Shnum = uint16(len(secs))
		hdr.Shstrndx = uint16(len(secs) - 1)
	}
	var data bytes.Buffer
	binary.Write(&data, binary.LittleEndian, hdr)
	if len(progs) > 0 {
		binary.Write(&data, binary.LittleEndian, progs)
	}
	if len(secs) > 0 {
		data.Write(strtab.Bytes())
		binary.Write(&data, binary.LittleEndian, secs)
	}
	return os.WriteFile(path, data.Bytes(), 0o755)
}

// c13ReadBack returns the layout exactly as debug/elf (and hence the code under test) sees the file.
func c13ReadBack(path string) (c13Layout, error) {
	ef, err := elf.Open(path)
	if err != nil {
		return c13Layout{}, err
	}
	defer ef.Close()
	lay := c13Layout{etype: ef.Type}
	for _, p := range ef.Progs {
		lay.progs = append(lay.progs, p.ProgHeader)
	}
	for _, s := range ef.Sections {
		lay.secs = append(lay.secs, c13Sec{s.Name, s.Addr})
	}
	return lay, nil
}

// c13TinyLayout: objects whose loadable segments all start inside the first one or two file pages
// (tiny libraries linked without -z separate-code, the lld R / RX / RW(relro) / RW layout): the
// loader maps the shared file page once per segment, at different addresses, with the SAME file
// offset and often the same size.
func c13TinyLayout(r *Rng) c13Layout {
	var lay c13Layout
	if r.P(3, 4) {
		lay.etype = elf.ET_DYN
	} else {
		lay.etype = elf.ET_EXEC
	}
	align := []uint64{0x1000, 0x1000, 0x10000, 0x200000}[r.Intn(4)]
	v := uint64(0)
	if lay.etype == elf.ET_EXEC {
		v = []uint64{0x400000, 0x200000, 0x10000}[r.Intn(3)] / align * align
		if v == 0 {
			v = align
		}
	}
	nseg := 2 + r.Intn(3)
	flagSets := [][]elf.ProgFlag{
		{elf.PF_R | elf.PF_X, elf.PF_R | elf.PF_W, elf.PF_R | elf.PF_W, elf.PF_R},
		{elf.PF_R, elf.PF_R | elf.PF_X, elf.PF_R | elf.PF_W, elf.PF_R | elf.PF_W},
		{elf.PF_R | elf.PF_W, elf.PF_R | elf.PF_X, elf.PF_R, elf.PF_R | elf.PF_W},
	}
	flags := flagSets[r.Intn(len(flagSets))]
	off := uint64(0)
	haveText := false
	var textAddr uint64
	for i := 0; i < nseg; i++ {
		filesz := uint64(0x30 + r.Intn(0x7d0))
		if r.P(1, 5) {
			filesz += 0x1000
		}
		memsz := filesz
		if i == nseg-1 && r.P(1, 2) {
			memsz += uint64(8 + r.Intn(0x900))
		}
		p := elf.ProgHeader{Type: elf.PT_LOAD, Flags: flags[i], Off: off, Vaddr: v, Paddr: v, Filesz: filesz, Memsz: memsz, Align: align}
		lay.progs = append(lay.progs, p)
		if p.Flags&elf.PF_X != 0 && !haveText {
			haveText, textAddr = true, p.Vaddr+filesz/2
		}
		off += filesz
		v = c13AlignUp(v+memsz, align) + off%align
	}
	if haveText && r.P(2, 3) {
		lay.secs = append(lay.secs, c13Sec{".text", textAddr})
	}
	if r.P(1, 5) {
		c13ReorderFile(r, &lay)
	}
	return lay
}

type c13SessOpen struct {
	file                 int
	start, limit, offset uint64
	bias                 int64
	own                  []uint64 // addresses among the owning segment's own bytes inside the mapping
	edge                 []uint64
}

func c13SessionCases(c *Ctx, n int) {
	r := c.R
	dir, err := os.Getwd()
	if err != nil {
		c.Extra["session"] = "getwd: " + err.Error()
		return
	}
	for k := 0; k < n; k++ {
		// ---- files
		nfiles := 1 + r.Intn(2)
		var files []c13SessFile
		ok := true
		for i := 0; i < nfiles; i++ {
			var lay c13Layout
			if r.P(3, 5) {
				lay = c13TinyLayout(r)
			} else {
				lay = c13GenLayout(r)
			}
			path := filepath.Join(dir, fmt.Sprintf("c13s_%d_%d.so", k, i))
			if err := c13WriteELF(path, lay); err != nil {
				ok = false
				break
			}
			back, err := c13ReadBack(path)
			if err != nil {
				c.Extra["session_readback_error"] = err.Error()
				os.Remove(path)
				ok = false
				break
			}
			files = append(files, c13SessFile{back, path})
		}
		if !ok {
			for _, f := range files {
				os.Remove(f.path)
			}
			continue
		}
		// ---- the mappings the loader creates: every file in 1..2 processes (biases)
		var opens []c13SessOpen
		for fi, f := range files {
			nproc := 1
			if r.P(1, 3) {
				nproc = 2
			}
			for pr := 0; pr < nproc; pr++ {
				var first elf.ProgHeader
				for _, p := range f.lay.progs {
					if p.Type == elf.PT_LOAD {
						first = p
						break
					}
				}
				bias := c13Biases(r, f.lay, first)
				if bias == 0 && f.lay.etype == elf.ET_DYN {
					bias = 0x7f3a00000000 + uint64(r.Intn(1<<16))*c13Page // keep sessions out of class F23
				}
				for _, p := range f.lay.progs {
					if p.Type != elf.PT_LOAD || p.Filesz == 0 || !r.P(5, 6) {
						continue
					}
					lo := bias + c13Down(p.Vaddr)
					hi := bias + c13Up(p.Vaddr+p.Filesz)
					o := c13SessOpen{file: fi, start: lo, limit: hi, offset: c13Down(p.Off), bias: int64(bias)}
					if np := int((hi - lo) / c13Page); np > 1 && r.P(1, 4) { // a piece
						i := r.Intn(np)
						j := i + 1 + r.Intn(np-i)
						o.start, o.limit, o.offset = lo+uint64(i)*c13Page, lo+uint64(j)*c13Page, o.offset+uint64(i)*c13Page
					}
					lo2, hi2 := bias+p.Vaddr, bias+p.Vaddr+p.Filesz
					if lo2 < o.start {
						lo2 = o.start
					}
					if hi2 > o.limit {
						hi2 = o.limit
					}
					if lo2 < hi2 {
						o.own = []uint64{lo2, hi2 - 1, lo2 + uint64(r.Intn(int(hi2-lo2)))}
					}
					o.edge = []uint64{o.start, o.limit - 1, o.limit, o.start + uint64(r.Intn(int(o.limit-o.start)))}
					opens = append(opens, o)
				}
			}
		}
		if r.P(1, 10) { // an exotic mapping in the middle of the history (error paths followed by more work)
			opens = append(opens, c13SessOpen{file: r.Intn(len(files)), start: c13U64(r), limit: c13U64(r), offset: c13U64(r), bias: -1,
				edge: []uint64{c13U64(r)}})
		}
		if len(opens) > 0 && r.P(1, 4) { // the same mapping opened again (a report re-opening the object file)
			opens = append(opens, opens[r.Intn(len(opens))])
		}
		// the order in which a profile lists mappings / a report touches them is arbitrary
		for i := len(opens) - 1; i > 0; i-- {
			j := r.Intn(i + 1)
			opens[i], opens[j] = opens[j], opens[i]
		}
		if len(opens) > 9 {
			opens = opens[:9]
		}
		// ---- run the history on ONE Binutils
		bu := &binutils.Binutils{}
		var evs, obs []Term
		var handles []plugin.ObjFile // nil = Open failed
		var pending [][]uint64        // addresses still to ask per handle
		nOK, nAddr := 0, 0
		ask := func(h int, a uint64) {
			evs = append(evs, L(S("addr"), ZI(h), ZU(a)))
			obs = append(obs, c13Guard(func() Term { return c13Res(handles[h].ObjAddr(a)) }))
			nAddr++
		}
		pick := func(o c13SessOpen) []uint64 {
			var as []uint64
			for x := 1 + r.Intn(3); x > 0; x-- {
				if len(o.own) > 0 && r.P(5, 6) {
					as = append(as, o.own[r.Intn(len(o.own))])
				} else {
					as = append(as, o.edge[r.Intn(len(o.edge))])
				}
			}
			return as
		}
		lazy := r.P(1, 3) // open everything first, ask later in handle-interleaved order
		for _, o := range opens {
			if r.P(1, 8) {
				fast := r.Bool()
				bu.SetFastSymbolization(fast)
				evs = append(evs, L(S("nop"), S(fmt.Sprintf("fast=%v", fast))))
				obs = append(obs, L())
			}
			evs = append(evs, L(S("open"), ZI(o.file), ZU(o.start), ZU(o.limit), ZU(o.offset), Z(o.bias)))
			var of plugin.ObjFile
			obs = append(obs, c13Guard(func() Term {
				f, err := bu.Open(files[o.file].path, o.start, o.limit, o.offset, "")
				if err != nil {
					return L(S("err"), Z(c13ErrCode(err)))
				}
				of = f
				return L(S("ok"))
			}))
			handles = append(handles, of)
			h := len(handles) - 1
			if of == nil {
				pending = append(pending, nil)
				continue
			}
			nOK++
			as := pick(o)
			if lazy {
				pending = append(pending, as)
				continue
			}
			pending = append(pending, nil)
			for _, a := range as {
				ask(h, a)
			}
			if r.P(1, 4) && h > 0 { // go back to an earlier object
				if g := r.Intn(h); handles[g] != nil {
					ask(g, pick(opens[g])[0])
				}
			}
			if r.P(1, 6) {
				handles[h].Close()
				handles[h] = nil
				evs = append(evs, L(S("nop"), S("close")))
				obs = append(obs, L())
			}
		}
		for more := true; more; {
			more = false
			for h := range pending {
				if len(pending[h]) > 0 && handles[h] != nil {
					ask(h, pending[h][0])
					pending[h] = pending[h][1:]
					more = more || len(pending[h]) > 0
				}
			}
		}
		var fts []Term
		for _, f := range files {
			fts = append(fts, f.lay.term())
			os.Remove(f.path)
		}
		c.Case("session", L(S("session"), L(fts...), L(evs...)), L(obs...), nOK >= 2 && nAddr >= 2,
			"op:session", fmt.Sprintf("sess-opens:%d", len(opens)), fmt.Sprintf("sess-files:%d", len(files)))
	}
}
