//go:build verif

package main

// lockscan: translator for C20. Parses /repo's CURRENT source (go/parser + go/ast only) and emits
// coq/Gen/Gen_LockEvents.v: for every function that touches a guarded variable (directly or through
// same-package callees) the list of lock/unlock/access/once/spawn/wait/create events in syntactic
// order. Shapes it cannot linearise soundly become GBad (fail closed).
//
// Linearisation rule (what makes "syntactic order" sound for the lock discipline): a region is
// Lock ... Unlock in ONE statement list with no return in between, or Lock followed by a deferred
// Unlock at the top level of the function body. Then every access that is lexically inside the
// region is dominated by the Lock and the Unlock post-dominates it; accesses lexically outside are
// reported outside. Branches and loops are flattened (their statements are emitted once, in order).

import (
	"fmt"
	"go/ast"
	"go/parser"
	"go/token"
	"os"
	"path/filepath"
	"sort"
	"strings"
)

func init() { subcmds["lockscan"] = c20LockscanMain }

type c20lsSpec struct {
	pkg        string
	dir        string
	guardField map[string]string // "Type.field" or package var -> mutex canonical / "once:..."
	autoX      bool              // profile: every unexported struct field ending in X is guarded by Profile.encodeMu
	exempt     map[string]string // function -> reason (object under construction / end of life)
	callWrites map[string]string // callee -> pseudo variable written by calling it
	immutable  map[string][]string // struct type -> functions allowed to write its fields (fresh objects only)
	freshArg   map[string]string // function -> callee whose first argument must be a fresh local object
	exclFuncs  []string          // functions whose file creations must all be exclusive
	barrier    []string          // struct types whose fields are handed to goroutines (distinct index + barrier)
	webRoots   []string          // receiver type whose methods are web handlers
	webAll     bool              // every exported function is reachable from the web handlers (report, graph)
	onceStructs map[string]string // struct -> its sync.Once field: every other field is written only inside that Once
	reserve    []string          // name-reserving functions: their callers must not release or reopen the name
	rmwExempt  map[string]string // function -> why its snapshot/publish of a guarded variable need not be one region
}

var c20lsSpecs = []c20lsSpec{
	{
		pkg: "profile", dir: "profile", autoX: true,
		guardField: map[string]string{"Profile.stringTable": "Profile.encodeMu"},
		exempt: map[string]string{
			"Profile.postDecode": "decode side: runs on a Profile that is still private to Parse/Copy (fresh object, checked by freshArg on unmarshal)",
			"Sample.decoder": "decode side", "Profile.decoder": "decode side",
		},
		freshArg: map[string]string{"Profile.Copy": "unmarshal", "ParseUncompressed": "unmarshal"},
	},
	{
		pkg: "driver", dir: "internal/driver",
		guardField: map[string]string{
			"currentCfg": "currentMu", "tempFiles": "tempFilesMu", "settingsFile": "settingsMu",
			"htmlTemplates": "once:htmlTemplateInit",
		},
		callWrites: map[string]string{"writeSettings": "settingsFile"},
		exclFuncs:  []string{"newTempFile", "writeSettings"},
		reserve:    []string{"newTempFile"},
		rmwExempt: map[string]string{
			"parseFlags": "start-up: called once from PProf before any fetch goroutine, web server or interactive loop exists",
		},
		barrier:    []string{"profileSource"},
		webRoots:   []string{"webInterface"},
	},
	{
		pkg: "binutils", dir: "internal/binutils",
		guardField: map[string]string{
			"Binutils.rep": "Binutils.mu",
			"file.base":    "once:file.baseOnce", "file.baseErr": "once:file.baseOnce", "file.isData": "once:file.baseOnce",
			"fileAddr2Line.llvmSymbolizer": "once:fileAddr2Line.once", "fileAddr2Line.addr2liner": "once:fileAddr2Line.once",
			"addr2Liner.rw": "addr2Liner.mu", "llvmSymbolizer.rw": "llvmSymbolizer.Mutex",
		},
		exempt: map[string]string{
			"newAddr2Liner": "constructor: the object is not yet published", "newLLVMSymbolizer": "constructor: the object is not yet published",
			"fileAddr2Line.Close": "end of life: Close concurrent with SourceLine is outside the ObjFile contract",
		},
		immutable: map[string][]string{"binrep": {"initTools", "Binutils.SetFastSymbolization", "Binutils.SetTools", "Binutils.update"}},
		freshArg:  map[string]string{"Binutils.update": "fn"},
	},
	{
		// the default HTTPTransport plug-in: one object serves every parallel fetch of an invocation
		pkg: "transport", dir: "internal/transport",
		onceStructs: map[string]string{"transport": "initOnce"},
		exempt:      map[string]string{"New": "constructor: the object is not yet published"},
	},
	{
		// consumers of the profile behind the web handlers: per-request state only
		pkg: "report", dir: "internal/report", webAll: true,
	},
	{
		pkg: "graph", dir: "internal/graph", webAll: true,
	},
}

type c20lsPkg struct {
	spec      *c20lsSpec
	fset      *token.FileSet
	files     []*ast.File
	structs   map[string]*ast.StructType
	ifaces    map[string]bool
	funcs     map[string]*ast.FuncDecl
	byName    map[string][]string // method name -> keys
	pkgVars   map[string]ast.Expr // package var -> type expr (may be nil)
	pkgVarVal map[string]ast.Expr
	events    map[string][]string
	order     []string
	calls     map[string]int
	asValue   map[string]bool
	positions map[string]string
	guards    map[string]string
	globalsW  map[string]bool
	getters   map[string]string    // function -> guarded variable whose value it returns
	reserveUsers map[string]bool
	autoG     map[string]string    // package variable -> package mutex under which it was seen (inferred guard)
	setters   map[string]c20lsSetter // function -> guarded variable it overwrites with a parameter
}

type c20lsSetter struct {
	v   string
	idx int
}

// c20lsSnap: a local holds (something derived from) the value of guarded variable v, read while the
// function's lock epoch was epoch (-1: read inside another function's own region, i.e. a getter call)
type c20lsSnap struct {
	v     string
	epoch int
	alias bool // the local is a pointer/map/slice copied from the guarded variable: writes through it hit shared state
}

type c20lsFn struct {
	p        *c20lsPkg
	key      string
	env      map[string]ast.Expr
	imports  map[string]bool
	ev       *[]string
	deferred []string
	explicit map[string]int // mutex -> block depth where it was locked without defer
	depth    int
	nsub     int
	captured map[string]bool // outer locals written by go closures of this function
	outer    map[string]bool // locals of the enclosing function (when walking a go closure)
	inGo     bool
	loopVars map[string]bool
	fresh    map[string]bool
	epoch    int // number of Lock/Unlock events emitted so far: two points share a region iff equal
	snap     map[string]c20lsSnap
	held     map[string]bool // mutexes held at this point of the walk
	rheld    map[string]bool // ... of which only read-locked
	readEp   map[string]map[int]bool // guarded variable -> lock epochs of this function in which it was read
	ngetter  int
	params   []string
}

func c20CoqStr(s string) string { return "\"" + strings.ReplaceAll(s, "\"", "\"\"") + "\"" }

func (f *c20lsFn) emit(s string) {
	if strings.HasPrefix(s, "GAcq ") || strings.HasPrefix(s, "GRel ") {
		f.epoch++
	}
	*f.ev = append(*f.ev, s)
}

// guardedVar: canonical name of e if it denotes a mutex-/once-guarded variable
func (f *c20lsFn) guardedVar(e ast.Expr) string {
	for {
		switch t := e.(type) {
		case *ast.ParenExpr:
			e = t.X
			continue
		case *ast.StarExpr:
			e = t.X
			continue
		case *ast.UnaryExpr:
			e = t.X
			continue
		}
		break
	}
	c := f.canon(e)
	if g, ok := f.p.guards[c]; ok && c != "" && g != "barrier" {
		return c
	}
	return ""
}

func (f *c20lsFn) calleeKey(c *ast.CallExpr) string {
	switch fn := c.Fun.(type) {
	case *ast.Ident:
		if _, local := f.env[fn.Name]; !local {
			if _, ok := f.p.funcs[fn.Name]; ok {
				return fn.Name
			}
		}
	case *ast.SelectorExpr:
		if te := f.typeOf(fn.X); te != nil {
			if k, ok := f.p.method(c20RecvTypeName(te), fn.Sel.Name, 0); ok {
				return k
			}
		}
	}
	return ""
}

// snapOf: does the value of e derive from a guarded variable, and in which region was that read?
func (f *c20lsFn) snapOf(e ast.Expr) *c20lsSnap {
	var res *c20lsSnap
	ast.Inspect(e, func(n ast.Node) bool {
		if res != nil || n == nil {
			return false
		}
		switch t := n.(type) {
		case *ast.FuncLit:
			return false
		case *ast.CallExpr:
			if k := f.calleeKey(t); k != "" {
				if v, ok := f.p.getters[k]; ok {
					res = &c20lsSnap{v, -1, false}
					return false
				}
			}
		case *ast.SelectorExpr:
			if v := f.guardedVar(t); v != "" {
				res = &c20lsSnap{v, f.epoch, false}
				return false
			}
		case *ast.Ident:
			if sn, ok := f.snap[t.Name]; ok {
				if _, local := f.env[t.Name]; local {
					res = &c20lsSnap{sn.v, sn.epoch, sn.alias}
					return false
				}
			}
			if v := f.guardedVar(t); v != "" {
				res = &c20lsSnap{v, f.epoch, false}
				return false
			}
		}
		return true
	})
	return res
}

func (f *c20lsFn) rmw(v string, atomic bool) {
	if atomic {
		f.emit("GRmw " + c20CoqStr(v) + " true")
	} else {
		f.emit("GRmw " + c20CoqStr(v) + " false")
	}
}
func (f *c20lsFn) bad(why string) { f.emit("GBad " + c20CoqStr(why)) }

func c20RecvTypeName(e ast.Expr) string {
	switch t := e.(type) {
	case *ast.StarExpr:
		return c20RecvTypeName(t.X)
	case *ast.ParenExpr:
		return c20RecvTypeName(t.X)
	case *ast.Ident:
		return t.Name
	case *ast.IndexExpr:
		return c20RecvTypeName(t.X)
	case *ast.SelectorExpr:
		if x, ok := t.X.(*ast.Ident); ok {
			return x.Name + "." + t.Sel.Name
		}
	}
	return ""
}

func c20ElemType(e ast.Expr) ast.Expr {
	switch t := e.(type) {
	case *ast.ArrayType:
		return t.Elt
	case *ast.StarExpr:
		return c20ElemType(t.X)
	case *ast.MapType:
		return t.Value
	case *ast.Ellipsis:
		return t.Elt
	}
	return nil
}

func c20LoadPkg(root string, spec *c20lsSpec) (*c20lsPkg, error) {
	p := &c20lsPkg{spec: spec, fset: token.NewFileSet(), ifaces: map[string]bool{}, structs: map[string]*ast.StructType{}, funcs: map[string]*ast.FuncDecl{},
		byName: map[string][]string{}, pkgVars: map[string]ast.Expr{}, pkgVarVal: map[string]ast.Expr{}, events: map[string][]string{},
		calls: map[string]int{}, asValue: map[string]bool{}, positions: map[string]string{}, guards: map[string]string{}, globalsW: map[string]bool{},
		getters: map[string]string{}, setters: map[string]c20lsSetter{}, autoG: map[string]string{}, reserveUsers: map[string]bool{}}
	ents, err := os.ReadDir(filepath.Join(root, spec.dir))
	if err != nil {
		return nil, err
	}
	for _, e := range ents {
		n := e.Name()
		if e.IsDir() || !strings.HasSuffix(n, ".go") || strings.HasSuffix(n, "_test.go") || strings.HasPrefix(n, "zz_verif") {
			continue
		}
		af, err := parser.ParseFile(p.fset, filepath.Join(root, spec.dir, n), nil, 0)
		if err != nil {
			return nil, err
		}
		p.files = append(p.files, af)
	}
	for _, af := range p.files {
		for _, d := range af.Decls {
			switch d := d.(type) {
			case *ast.GenDecl:
				for _, s := range d.Specs {
					switch s := s.(type) {
					case *ast.TypeSpec:
						if st, ok := s.Type.(*ast.StructType); ok {
							p.structs[s.Name.Name] = st
						}
						if _, ok := s.Type.(*ast.InterfaceType); ok {
							p.ifaces[s.Name.Name] = true
						}
					case *ast.ValueSpec:
						if d.Tok == token.VAR {
							for i, n := range s.Names {
								p.pkgVars[n.Name] = s.Type
								if i < len(s.Values) {
									p.pkgVarVal[n.Name] = s.Values[i]
								}
							}
						}
					}
				}
			case *ast.FuncDecl:
				key := d.Name.Name
				if d.Recv != nil && len(d.Recv.List) == 1 {
					key = c20RecvTypeName(d.Recv.List[0].Type) + "." + d.Name.Name
					p.byName[d.Name.Name] = append(p.byName[d.Name.Name], key)
				}
				p.funcs[key] = d
				p.order = append(p.order, key)
				pos := p.fset.Position(d.Pos())
				p.positions[key] = fmt.Sprintf("%s:%d", filepath.Join(spec.dir, filepath.Base(pos.Filename)), pos.Line)
			}
		}
	}
	for k, v := range spec.guardField {
		p.guards[k] = v
	}
	for tn, once := range spec.onceStructs {
		if st, ok := p.structs[tn]; ok {
			for _, fl := range st.Fields.List {
				if strings.HasPrefix(c20RecvTypeName(fl.Type), "sync.") {
					continue
				}
				for _, n := range fl.Names {
					p.guards[tn+"."+n.Name] = "once:" + tn + "." + once
				}
			}
		}
	}
	if spec.autoX {
		for tn, st := range p.structs {
			for _, fl := range st.Fields.List {
				for _, n := range fl.Names {
					if strings.HasSuffix(n.Name, "X") && !ast.IsExported(n.Name) {
						p.guards[tn+"."+n.Name] = "Profile.encodeMu"
					}
				}
			}
		}
	}
	return p, nil
}

// field looks up a (possibly promoted) field of struct type tn: returns owner type and field type.
func (p *c20lsPkg) field(tn, name string, depth int) (string, ast.Expr, bool) {
	st, ok := p.structs[tn]
	if !ok || depth > 4 {
		return "", nil, false
	}
	for _, fl := range st.Fields.List {
		for _, n := range fl.Names {
			if n.Name == name {
				return tn, fl.Type, true
			}
		}
	}
	for _, fl := range st.Fields.List {
		if len(fl.Names) == 0 {
			en := c20RecvTypeName(fl.Type)
			if i := strings.LastIndex(en, "."); i >= 0 {
				if en[i+1:] == name {
					return tn, fl.Type, true
				}
				continue
			}
			if en == name {
				return tn, fl.Type, true
			}
			if o, t, ok := p.field(en, name, depth+1); ok {
				return o, t, true
			}
		}
	}
	return "", nil, false
}

func (p *c20lsPkg) method(tn, name string, depth int) (string, bool) {
	if _, ok := p.funcs[tn+"."+name]; ok {
		return tn + "." + name, true
	}
	st, ok := p.structs[tn]
	if !ok || depth > 4 {
		return "", false
	}
	for _, fl := range st.Fields.List {
		if len(fl.Names) == 0 {
			if k, ok := p.method(c20RecvTypeName(fl.Type), name, depth+1); ok {
				return k, true
			}
		}
	}
	return "", false
}

// embedsMutex reports whether struct tn embeds sync.Mutex (so that x.Lock() locks "tn.Mutex").
func (p *c20lsPkg) embedsMutex(tn string) bool {
	st, ok := p.structs[tn]
	if !ok {
		return false
	}
	for _, fl := range st.Fields.List {
		if len(fl.Names) == 0 && c20RecvTypeName(fl.Type) == "sync.Mutex" {
			return true
		}
	}
	return false
}

func (f *c20lsFn) typeOf(e ast.Expr) ast.Expr {
	switch t := e.(type) {
	case *ast.Ident:
		if te, ok := f.env[t.Name]; ok {
			return te
		}
		if te, ok := f.p.pkgVars[t.Name]; ok {
			if te != nil {
				return te
			}
			if v, ok := f.p.pkgVarVal[t.Name]; ok {
				switch v.(type) {
				case *ast.CompositeLit, *ast.CallExpr, *ast.UnaryExpr:
					return f.typeOf(v)
				}
			}
		}
	case *ast.ParenExpr:
		return f.typeOf(t.X)
	case *ast.StarExpr:
		if te := f.typeOf(t.X); te != nil {
			if s, ok := te.(*ast.StarExpr); ok {
				return s.X
			}
			return te
		}
	case *ast.UnaryExpr:
		if t.Op == token.AND {
			if te := f.typeOf(t.X); te != nil {
				return &ast.StarExpr{X: te}
			}
		}
	case *ast.CompositeLit:
		return t.Type
	case *ast.IndexExpr:
		if te := f.typeOf(t.X); te != nil {
			return c20ElemType(te)
		}
	case *ast.SelectorExpr:
		if te := f.typeOf(t.X); te != nil {
			if _, ft, ok := f.p.field(c20RecvTypeName(te), t.Sel.Name, 0); ok {
				return ft
			}
		}
	case *ast.CallExpr:
		var fd *ast.FuncDecl
		switch fn := t.Fun.(type) {
		case *ast.Ident:
			fd = f.p.funcs[fn.Name]
		case *ast.SelectorExpr:
			if te := f.typeOf(fn.X); te != nil {
				if k, ok := f.p.method(c20RecvTypeName(te), fn.Sel.Name, 0); ok {
					fd = f.p.funcs[k]
				}
			}
		}
		if fd != nil && fd.Type.Results != nil && len(fd.Type.Results.List) >= 1 {
			return fd.Type.Results.List[0].Type
		}
	}
	return nil
}

// canon returns the canonical name of a variable expression if it denotes a struct field of a
// package type ("Type.field") or a package-level variable; "" otherwise.
func (f *c20lsFn) canon(e ast.Expr) string {
	switch t := e.(type) {
	case *ast.Ident:
		if _, local := f.env[t.Name]; local {
			if f.captured[t.Name] {
				return "local:" + f.rootKey() + "." + t.Name
			}
			return ""
		}
		if _, ok := f.p.pkgVars[t.Name]; ok {
			return t.Name
		}
	case *ast.SelectorExpr:
		if te := f.typeOf(t.X); te != nil {
			if owner, _, ok := f.p.field(c20RecvTypeName(te), t.Sel.Name, 0); ok {
				return owner + "." + t.Sel.Name
			}
		}
	}
	return ""
}

func (f *c20lsFn) rootKey() string {
	if i := strings.Index(f.key, "$"); i >= 0 {
		return f.key[:i]
	}
	return f.key
}

func (f *c20lsFn) access(e ast.Expr, write bool) {
	c := f.canon(e)
	if c == "" {
		return
	}
	if _, isVar := f.p.pkgVars[c]; isVar {
		if _, ok := f.p.guards[c]; !ok {
			// only a variable that is WRITTEN under a package mutex (outside init) gets that mutex as its
			// inferred guard; tables that are merely read inside somebody's critical section do not
			if write && f.rootKey() != "init" {
				for m := range f.held {
					if _, pkgMu := f.p.pkgVars[m]; pkgMu {
						f.p.autoG[c] = m
					}
				}
			}
			if m, ok := f.p.autoG[c]; ok {
				f.p.guards[c] = m
			}
		}
	}
	if m, ok := f.p.guards[c]; ok && write && f.rheld[m] {
		f.bad("write of " + c + " while " + m + " is only read-locked in " + f.key)
	}
	isBarrier := strings.HasPrefix(c, "local:")
	for _, b := range f.p.spec.barrier {
		if strings.HasPrefix(c, b+".") {
			isBarrier = true
		}
	}
	if _, ok := f.p.guards[c]; !ok && !isBarrier {
		// immutable-after-publication structs
		if i := strings.Index(c, "."); i > 0 && write {
			if allowed, ok := f.p.spec.immutable[c[:i]]; ok {
				okf := false
				for _, a := range allowed {
					if a == f.rootKey() {
						okf = true
					}
				}
				if !okf {
					f.bad("write to " + c + " (immutable after publication) in " + f.key)
				}
			}
		}
		if _, isVar := f.p.pkgVars[c]; isVar && write {
			f.p.globalsW[c] = true
			f.emit("GWr " + c20CoqStr("global:"+c))
		}
		return
	}
	if isBarrier {
		f.p.guards[c] = "barrier"
	}
	if write {
		f.emit("GWr " + c20CoqStr(c))
		// check-then-act / snapshot-then-reset: the function looked at c in an EARLIER critical section
		// (or through a getter) and overwrites it in this one -- whatever other threads did to c in
		// between is lost, whether or not the written value is computed from the one read
		if !isBarrier {
			for e := range f.readEp[c] {
				if e != f.epoch {
					f.rmw(c, false)
					break
				}
			}
		}
	} else {
		f.emit("GRd " + c20CoqStr(c))
		f.noteRead(c, f.epoch)
	}
}

func (f *c20lsFn) noteRead(c string, epoch int) {
	if f.readEp[c] == nil {
		f.readEp[c] = map[int]bool{}
	}
	f.readEp[c][epoch] = true
}

// base of an lvalue: p.stringTable[i] = .. and *x = .. write the underlying variable
func c20LvalueBase(e ast.Expr) ast.Expr {
	for {
		switch t := e.(type) {
		case *ast.IndexExpr:
			e = t.X
		case *ast.ParenExpr:
			e = t.X
		case *ast.StarExpr:
			e = t.X
		case *ast.SliceExpr:
			e = t.X
		default:
			return e
		}
	}
}

func (f *c20lsFn) expr(e ast.Expr) {
	switch t := e.(type) {
	case nil:
	case *ast.Ident:
		f.access(t, false)
		if _, ok := f.p.funcs[t.Name]; ok {
			if _, local := f.env[t.Name]; !local {
				f.p.asValue[t.Name] = true
			}
		}
	case *ast.SelectorExpr:
		f.access(t, false)
		if x, ok := t.X.(*ast.Ident); ok && f.imports[x.Name] {
			if _, local := f.env[x.Name]; !local {
				return
			}
		}
		if te := f.typeOf(t.X); te != nil {
			if k, ok := f.p.method(c20RecvTypeName(te), t.Sel.Name, 0); ok {
				f.p.asValue[k] = true // method value
			}
		}
		f.expr(t.X)
	case *ast.CallExpr:
		f.call(t)
	case *ast.FuncLit:
		f.closure(t, false)
	case *ast.UnaryExpr:
		if _, lit := t.X.(*ast.CompositeLit); lit && t.Op == token.AND {
			f.expr(t.X)
			return
		}
		if t.Op == token.AND {
			f.access(c20LvalueBase(t.X), true) // address taken: treat as a write
			f.subexprs(t.X)
			return
		}
		f.expr(t.X)
	case *ast.BinaryExpr:
		f.expr(t.X)
		f.expr(t.Y)
	case *ast.ParenExpr:
		f.expr(t.X)
	case *ast.StarExpr:
		f.expr(t.X)
	case *ast.IndexExpr:
		f.expr(t.X)
		f.expr(t.Index)
	case *ast.SliceExpr:
		f.expr(t.X)
		f.expr(t.Low)
		f.expr(t.High)
		f.expr(t.Max)
	case *ast.TypeAssertExpr:
		f.expr(t.X)
	case *ast.KeyValueExpr:
		f.expr(t.Value)
	case *ast.CompositeLit:
		for _, el := range t.Elts {
			f.expr(el)
		}
	}
}

// subexprs walks the index/base sub-expressions of an lvalue without counting the lvalue itself as a read
func (f *c20lsFn) subexprs(e ast.Expr) {
	switch t := e.(type) {
	case *ast.IndexExpr:
		f.subexprs(t.X)
		f.expr(t.Index)
	case *ast.SelectorExpr:
		f.expr(t.X)
	case *ast.StarExpr:
		f.expr(t.X)
	case *ast.ParenExpr:
		f.subexprs(t.X)
	}
}

func (f *c20lsFn) closure(fl *ast.FuncLit, sep bool) {
	saved := map[string]ast.Expr{}
	var names []string
	_ = sep
	if fl.Type.Params != nil {
		for _, p := range fl.Type.Params.List {
			for _, n := range p.Names {
				if old, ok := f.env[n.Name]; ok {
					saved[n.Name] = old
				}
				names = append(names, n.Name)
				f.env[n.Name] = p.Type
			}
		}
	}
	d := f.depth
	f.depth = 100 // a Lock inside a closure never pairs with a defer of the enclosing function
	f.stmts(fl.Body.List)
	f.depth = d
	for _, n := range names {
		if old, ok := saved[n]; ok {
			f.env[n] = old
		} else {
			delete(f.env, n)
		}
	}
}

// sub runs a closure body as a function of its own (go statement, Once body) and returns its key
func (f *c20lsFn) sub(kind string, fl *ast.FuncLit, isGo bool) string {
	f.nsub++
	key := fmt.Sprintf("%s$%s%d", f.rootKey(), kind, f.nsub)
	var ev []string
	env := map[string]ast.Expr{}
	outer := map[string]bool{}
	for k, v := range f.env {
		env[k] = v
		if isGo {
			outer[k] = true
		}
	}
	if !isGo {
		for k := range f.outer {
			outer[k] = true
		}
	}
	g := &c20lsFn{p: f.p, key: key, env: env, imports: f.imports, ev: &ev, explicit: map[string]int{}, captured: map[string]bool{},
		outer: outer, inGo: isGo || f.inGo, loopVars: map[string]bool{}, fresh: map[string]bool{}, snap: map[string]c20lsSnap{}, readEp: map[string]map[int]bool{}, held: map[string]bool{}, rheld: map[string]bool{}}
	if fl.Type.Params != nil {
		for _, p := range fl.Type.Params.List {
			for _, n := range p.Names {
				g.env[n.Name] = p.Type
				delete(g.outer, n.Name)
			}
		}
	}
	g.stmts(fl.Body.List)
	g.finish()
	f.p.events[key] = ev
	f.p.order = append(f.p.order, key)
	f.p.positions[key] = f.p.positions[f.rootKey()]
	return key
}

func (f *c20lsFn) mutexOf(x ast.Expr) string {
	switch t := x.(type) {
	case *ast.Ident:
		te := f.typeOf(t)
		if te != nil {
			tn := c20RecvTypeName(te)
			if tn == "sync.Mutex" || tn == "sync.RWMutex" {
				if _, local := f.env[t.Name]; local {
					return "local:" + f.rootKey() + "." + t.Name
				}
				return t.Name
			}
			if f.p.embedsMutex(tn) {
				return tn + ".Mutex"
			}
		}
	case *ast.SelectorExpr:
		if te := f.typeOf(t.X); te != nil {
			if owner, ft, ok := f.p.field(c20RecvTypeName(te), t.Sel.Name, 0); ok {
				tn := c20RecvTypeName(ft)
				if tn == "sync.Mutex" || tn == "sync.RWMutex" {
					return owner + "." + t.Sel.Name
				}
				if f.p.embedsMutex(tn) {
					return tn + ".Mutex"
				}
			}
		}
	case *ast.UnaryExpr:
		return f.mutexOf(t.X)
	case *ast.ParenExpr:
		return f.mutexOf(t.X)
	}
	return ""
}

func (f *c20lsFn) onceOf(x ast.Expr) string {
	var te ast.Expr
	name := ""
	switch t := x.(type) {
	case *ast.Ident:
		te = f.typeOf(t)
		name = t.Name
	case *ast.SelectorExpr:
		if xt := f.typeOf(t.X); xt != nil {
			if owner, ft, ok := f.p.field(c20RecvTypeName(xt), t.Sel.Name, 0); ok {
				te = ft
				name = owner + "." + t.Sel.Name
			}
		}
	}
	if te != nil && c20RecvTypeName(te) == "sync.Once" {
		return "once:" + name
	}
	return ""
}

func c20HasFlag(e ast.Expr, flag string) bool {
	found := false
	ast.Inspect(e, func(n ast.Node) bool {
		if s, ok := n.(*ast.SelectorExpr); ok {
			if x, ok := s.X.(*ast.Ident); ok && x.Name == "os" && s.Sel.Name == flag {
				found = true
			}
		}
		return true
	})
	return found
}

func (f *c20lsFn) call(c *ast.CallExpr) {
	// Lock / Unlock / Do / Wait / file creation
	if sel, ok := c.Fun.(*ast.SelectorExpr); ok {
		switch sel.Sel.Name {
		case "Lock", "Unlock", "RLock", "RUnlock":
			if m := f.mutexOf(sel.X); m != "" && len(c.Args) == 0 {
				switch sel.Sel.Name {
				case "Lock", "RLock":
					// a read lock is modelled as the (exclusive) lock for the discipline of READS; a write
					// of a variable it guards while only read-locked is refused in access()
					f.emit("GAcq " + c20CoqStr(m))
					f.explicit[m] = f.depth
					f.held[m] = true
					f.rheld[m] = sel.Sel.Name == "RLock"
				case "Unlock", "RUnlock":
					if d, ok := f.explicit[m]; ok && d != f.depth {
						f.bad("Unlock of " + m + " in a different block than its Lock in " + f.key)
					}
					delete(f.explicit, m)
					delete(f.held, m)
					delete(f.rheld, m)
					f.emit("GRel " + c20CoqStr(m))
				}
				return
			}
		case "Do":
			if o := f.onceOf(sel.X); o != "" && len(c.Args) == 1 {
				switch a := c.Args[0].(type) {
				case *ast.FuncLit:
					f.emit("GOnce " + c20CoqStr(o) + " " + c20CoqStr(f.p.spec.pkg+":"+f.sub("once", a, false)))
				default:
					k := ""
					if s2, ok := a.(*ast.SelectorExpr); ok {
						if te := f.typeOf(s2.X); te != nil {
							k, _ = f.p.method(c20RecvTypeName(te), s2.Sel.Name, 0)
						}
					} else if id, ok := a.(*ast.Ident); ok {
						if _, ok := f.p.funcs[id.Name]; ok {
							k = id.Name
						}
					}
					if k == "" {
						f.bad("Once.Do with an argument that is not a closure or a method of this package in " + f.key)
					} else {
						f.p.calls[k]++
						f.emit("GOnce " + c20CoqStr(o) + " " + c20CoqStr(f.p.spec.pkg+":"+k))
					}
				}
				return
			}
		case "Wait":
			if te := f.typeOf(sel.X); te != nil && c20RecvTypeName(te) == "sync.WaitGroup" {
				f.emit("GWait")
				return
			}
		}
		if x, ok := sel.X.(*ast.Ident); ok && x.Name == "os" && f.imports["os"] {
			switch sel.Sel.Name {
			case "OpenFile":
				// every open that can create or modify a file counts; it is exclusive only as
				// O_CREATE|O_EXCL. Opening an EXISTING name for writing (O_TRUNC, O_WRONLY, O_RDWR,
				// O_APPEND without O_CREATE|O_EXCL: "take over a leftover") or flags the scanner cannot
				// read are non-exclusive.
				if len(c.Args) >= 2 {
					a := c.Args[1]
					known := false
					for _, fl := range []string{"O_RDONLY", "O_WRONLY", "O_RDWR", "O_APPEND", "O_CREATE", "O_EXCL", "O_TRUNC", "O_SYNC"} {
						if c20HasFlag(a, fl) {
							known = true
						}
					}
					writes := c20HasFlag(a, "O_WRONLY") || c20HasFlag(a, "O_RDWR") || c20HasFlag(a, "O_APPEND") || c20HasFlag(a, "O_TRUNC") || c20HasFlag(a, "O_CREATE")
					switch {
					case !known:
						f.emit("GCreate false")
					case c20HasFlag(a, "O_CREATE") && c20HasFlag(a, "O_EXCL"):
						f.emit("GCreate true")
					case writes:
						f.emit("GCreate false")
					}
				}
			case "Remove", "RemoveAll", "Rename":
				f.emit("GRelease")
			case "CreateTemp":
				f.emit("GCreate true")
			case "Create", "WriteFile":
				f.emit("GCreate false")
			}
		}
	}
	// arguments (closures passed as arguments are inlined at the call site)
	for _, a := range c.Args {
		f.expr(a)
	}
	// the callee
	switch fn := c.Fun.(type) {
	case *ast.Ident:
		if _, local := f.env[fn.Name]; local || (f.inGo && f.outer[fn.Name]) {
			if want, ok := f.p.spec.freshArg[f.rootKey()]; ok && want == fn.Name {
				f.checkFresh(c)
			}
			return
		}
		if _, ok := f.p.funcs[fn.Name]; ok {
			if want, ok := f.p.spec.freshArg[f.rootKey()]; ok && want == fn.Name {
				f.checkFresh(c)
			}
			if v, ok := f.p.spec.callWrites[fn.Name]; ok {
				f.emit("GWr " + c20CoqStr(v))
			}
			for _, rv := range f.p.spec.reserve {
				if rv == fn.Name {
					f.p.reserveUsers[f.rootKey()] = true
				}
			}
			f.setterCall(fn.Name, c)
			f.getterCall(fn.Name)
			f.p.calls[fn.Name]++
			f.emit("GCall " + c20CoqStr(f.p.spec.pkg+":"+fn.Name))
		}
	case *ast.SelectorExpr:
		if x, ok := fn.X.(*ast.Ident); ok && f.imports[x.Name] {
			if _, local := f.env[x.Name]; !local {
				return
			}
		}
		te := f.typeOf(fn.X)
		tn := ""
		if te != nil {
			tn = c20RecvTypeName(te)
		}
		mkey, mok := "", false
		if tn != "" {
			mkey, mok = f.p.method(tn, fn.Sel.Name, 0)
		}
		// the receiver: a method with a pointer receiver (or an unknown one) may write through it
		c0 := f.canon(fn.X)
		_, isPtrVal := te.(*ast.StarExpr)
		if _, guarded := f.p.guards[c0]; c0 != "" && guarded && !isPtrVal {
			// a guarded VALUE (struct, interface): the method may write it through its receiver
			ptr := true
			if mok {
				if fd := f.p.funcs[mkey]; fd != nil && fd.Recv != nil && len(fd.Recv.List) == 1 {
					_, ptr = fd.Recv.List[0].Type.(*ast.StarExpr)
				}
			}
			f.access(fn.X, ptr)
			if ptr && mok {
				f.rmw(c0, true) // updated in place through the receiver: read and write in one region
			}
			f.subexprs(fn.X)
		} else {
			f.expr(fn.X)
		}
		if mok {
			f.setterCall(mkey, c)
			f.getterCall(mkey)
			f.p.calls[mkey]++
			f.emit("GCall " + c20CoqStr(f.p.spec.pkg+":"+mkey))
			return
		}
		if tn != "" && !f.p.ifaces[tn] {
			return // a type of another package, or a package type without such a method
		}
		if tn == "" && ast.IsExported(fn.Sel.Name) {
			return // unknown receiver and an exported name: assumed to be a method of another package
		}
		if ks := f.p.byName[fn.Sel.Name]; len(ks) > 0 {
			for _, k := range ks {
				f.p.calls[k]++
			}
			f.emit("GCall " + c20CoqStr(f.p.spec.pkg+":*."+fn.Sel.Name))
		}
	case *ast.FuncLit:
		f.closure(fn, false)
	default:
		f.expr(c.Fun)
	}
}

func (f *c20lsFn) checkFresh(c *ast.CallExpr) {
	idx := 0
	if id, ok := c.Fun.(*ast.Ident); ok && id.Name == "unmarshal" {
		idx = 1
	}
	if idx >= len(c.Args) {
		f.bad("freshness check: missing argument in " + f.key)
		return
	}
	if id, ok := c.Args[idx].(*ast.Ident); ok && f.fresh[id.Name] {
		return
	}
	f.bad("argument of " + c20RecvTypeName(c.Fun) + " in " + f.key + " is not a freshly allocated local object")
}

// setterCall: publishing a value derived from a snapshot of v through a function that assigns v
// under its own lock is a read-modify-write split over two regions
func (f *c20lsFn) getterCall(k string) {
	if v, ok := f.p.getters[k]; ok {
		f.ngetter++
		f.noteRead(v, -f.ngetter) // a region of the callee: never equal to an epoch of this function
	}
}

func (f *c20lsFn) setterCall(k string, c *ast.CallExpr) {
	st, ok := f.p.setters[k]
	if !ok || st.idx >= len(c.Args) {
		return
	}
	if sn := f.snapOf(c.Args[st.idx]); sn != nil && sn.v == st.v {
		f.rmw(st.v, false)
	} else if len(f.readEp[st.v]) > 0 {
		f.rmw(st.v, false) // the setter's region is never the region of an earlier read in this function
	}
}

func (f *c20lsFn) assign(lhs []ast.Expr, rhs []ast.Expr, define bool) {
	for _, r := range rhs {
		f.expr(r)
	}
	// dependence of written values on snapshots of guarded variables
	for i, l := range lhs {
		var r ast.Expr
		if len(rhs) == len(lhs) {
			r = rhs[i]
		} else if len(rhs) == 1 {
			r = rhs[0]
		}
		if r == nil {
			continue
		}
		sn := f.snapOf(r)
		if v := f.guardedVar(c20LvalueBase(l)); v != "" {
			if sn != nil && sn.v == v {
				f.rmw(v, sn.epoch == f.epoch)
			}
			if id, ok := r.(*ast.Ident); ok {
				for pi, pn := range f.params {
					if pn == id.Name && !strings.Contains(f.key, "$") {
						f.p.setters[f.key] = c20lsSetter{v, pi}
					}
				}
			}
			continue
		}
		if id, ok := c20LvalueBase(l).(*ast.Ident); ok && id.Name != "_" {
			if sn != nil {
				_, isIdent := l.(*ast.Ident)
				al := false
				if isIdent {
					switch te := f.typeOf(r).(type) {
					case *ast.StarExpr, *ast.MapType:
						al = true
					case *ast.ArrayType:
						al = te.Len == nil
					}
					if al {
						if rid, ok := r.(*ast.Ident); ok {
							al = f.snap[rid.Name].alias
						} else {
							al = f.guardedVar(r) != "" && sn.epoch != -1
							if _, isCall := r.(*ast.CallExpr); isCall {
								al = false
							}
						}
					}
				}
				f.snap[id.Name] = c20lsSnap{sn.v, sn.epoch, al}
			} else if _, isIdent := l.(*ast.Ident); isIdent {
				delete(f.snap, id.Name)
			}
		}
	}
	for i, l := range lhs {
		if id, ok := l.(*ast.Ident); ok && define {
			if id.Name == "_" {
				continue
			}
			var te ast.Expr
			if len(rhs) == len(lhs) {
				te = f.typeOf(rhs[i])
				f.fresh[id.Name] = false
				if u, ok := rhs[i].(*ast.UnaryExpr); ok && u.Op == token.AND {
					if _, ok := u.X.(*ast.CompositeLit); ok {
						f.fresh[id.Name] = true
					}
				}
			} else if len(rhs) == 1 && i == 0 {
				te = f.typeOf(rhs[0])
			}
			if _, exists := f.env[id.Name]; !exists || te != nil {
				f.env[id.Name] = te
			}
			delete(f.outer, id.Name)
			continue
		}
		b := c20LvalueBase(l)
		if id, ok := l.(*ast.Ident); ok {
			f.fresh[id.Name] = false
		}
		root := b // through field selections too: x.f.g = .. writes the object x points to
		for {
			if se, ok := root.(*ast.SelectorExpr); ok {
				root = c20LvalueBase(se.X)
				continue
			}
			break
		}
		if id, ok := root.(*ast.Ident); ok && root != l {
			if _, local := f.env[id.Name]; local {
				if sn, ok := f.snap[id.Name]; ok && sn.alias {
					// x := guarded pointer/map/slice; x.f = .. / x[i] = .. / *x = .. writes the SHARED object
					f.emit("GWr " + c20CoqStr(sn.v))
				}
			}
		}
		if id, ok := b.(*ast.Ident); ok && f.inGo && f.outer[id.Name] {
			f.capturedWrite(id.Name)
			c := "local:" + f.rootKey() + "." + id.Name
			f.p.guards[c] = "barrier"
			f.emit("GWr " + c20CoqStr(c))
		}
		f.access(b, true)
		f.subexprs(l)
	}
}

var c20lsCaptured = map[string]map[string][]string{} // root function -> go closure -> outer locals written

func (f *c20lsFn) capturedWrite(name string) {
	r := f.rootKey()
	if c20lsCaptured[r] == nil {
		c20lsCaptured[r] = map[string][]string{}
	}
	c20lsCaptured[r][f.key] = append(c20lsCaptured[r][f.key], name)
}

func (f *c20lsFn) stmts(l []ast.Stmt) {
	f.depth++
	for _, s := range l {
		f.stmt(s)
	}
	f.depth--
}

func (f *c20lsFn) stmt(s ast.Stmt) {
	switch t := s.(type) {
	case nil:
	case *ast.ExprStmt:
		f.expr(t.X)
	case *ast.AssignStmt:
		f.assign(t.Lhs, t.Rhs, t.Tok == token.DEFINE)
	case *ast.IncDecStmt:
		f.access(c20LvalueBase(t.X), true)
		f.subexprs(t.X)
	case *ast.DeclStmt:
		if gd, ok := t.Decl.(*ast.GenDecl); ok {
			for _, sp := range gd.Specs {
				if vs, ok := sp.(*ast.ValueSpec); ok {
					for _, v := range vs.Values {
						f.expr(v)
					}
					for i, n := range vs.Names {
						te := vs.Type
						if te == nil && i < len(vs.Values) {
							te = f.typeOf(vs.Values[i])
						}
						f.env[n.Name] = te
					}
				}
			}
		}
	case *ast.DeferStmt:
		if sel, ok := t.Call.Fun.(*ast.SelectorExpr); ok && (sel.Sel.Name == "Unlock" || sel.Sel.Name == "RUnlock") {
			if m := f.mutexOf(sel.X); m != "" {
				if f.depth != 1 {
					f.bad("deferred Unlock of " + m + " below the top level of " + f.key)
				}
				delete(f.explicit, m)
				f.deferred = append(f.deferred, m)
				return
			}
		}
		if sel, ok := t.Call.Fun.(*ast.SelectorExpr); ok && sel.Sel.Name == "Done" {
			return
		}
		f.call(t.Call) // other deferred calls: emitted where they are registered (approximation)
	case *ast.GoStmt:
		for _, a := range t.Call.Args {
			f.expr(a)
		}
		if fl, ok := t.Call.Fun.(*ast.FuncLit); ok {
			// goroutines started in a loop must each get their own element: &X[i] with i the loop variable
			for _, a := range t.Call.Args {
				if u, ok := a.(*ast.UnaryExpr); ok && u.Op == token.AND {
					if ix, ok := u.X.(*ast.IndexExpr); ok {
						if id, ok := ix.Index.(*ast.Ident); !ok || !f.loopVars[id.Name] {
							f.bad("goroutine argument " + "&..[..]" + " is not indexed by the loop variable in " + f.key)
						}
					}
				}
			}
			k := f.sub("go", fl, true)
			if len(f.loopVars) > 0 && len(c20lsCaptured[f.rootKey()][k]) > 0 {
				f.bad("goroutines started in a loop write the shared local " + c20lsCaptured[f.rootKey()][k][0] + " in " + f.key)
			}
			for _, n := range c20lsCaptured[f.rootKey()][k] {
				f.captured[n] = true
			}
			f.emit("GSpawn " + c20CoqStr(f.p.spec.pkg+":"+k))
		} else if id, ok := t.Call.Fun.(*ast.Ident); ok && f.p.funcs[id.Name] != nil {
			f.p.asValue[id.Name] = true // the started function is a thread of its own: checked as a root
			f.emit("GSpawn " + c20CoqStr(f.p.spec.pkg+":"+id.Name))
		} else {
			f.bad("go statement with a function that is neither a literal nor a function of this package in " + f.key)
		}
	case *ast.ReturnStmt:
		for _, r := range t.Results {
			f.expr(r)
			if !strings.Contains(f.key, "$") {
				if v := f.guardedVar(r); v != "" {
					f.p.getters[f.key] = v
				} else if id, ok := r.(*ast.Ident); ok {
					if sn, ok := f.snap[id.Name]; ok {
						f.p.getters[f.key] = sn.v
					}
				}
			}
		}
		for m := range f.explicit {
			f.bad("return between Lock and explicit Unlock of " + m + " in " + f.key)
		}
	case *ast.BlockStmt:
		f.stmts(t.List)
	case *ast.IfStmt:
		f.stmt(t.Init)
		f.expr(t.Cond)
		f.stmts(t.Body.List)
		f.stmt(t.Else)
	case *ast.ForStmt:
		var lv []string
		if as, ok := t.Init.(*ast.AssignStmt); ok && as.Tok == token.DEFINE {
			for _, l := range as.Lhs {
				if id, ok := l.(*ast.Ident); ok {
					lv = append(lv, id.Name)
				}
			}
		}
		f.stmt(t.Init)
		f.expr(t.Cond)
		f.loop(lv, func() { f.stmts(t.Body.List); f.stmt(t.Post) })
	case *ast.RangeStmt:
		f.expr(t.X)
		var lv []string
		xt := f.typeOf(t.X)
		if id, ok := t.Key.(*ast.Ident); ok && t.Tok == token.DEFINE {
			f.env[id.Name] = nil
			lv = append(lv, id.Name)
		}
		if id, ok := t.Value.(*ast.Ident); ok && t.Tok == token.DEFINE {
			var et ast.Expr
			if xt != nil {
				et = c20ElemType(xt)
			}
			f.env[id.Name] = et
		}
		f.loop(lv, func() { f.stmts(t.Body.List) })
	case *ast.SwitchStmt:
		f.stmt(t.Init)
		f.expr(t.Tag)
		f.stmts(t.Body.List)
	case *ast.TypeSwitchStmt:
		f.stmt(t.Init)
		f.stmt(t.Assign)
		f.stmts(t.Body.List)
	case *ast.CaseClause:
		for _, e := range t.List {
			f.expr(e)
		}
		f.stmts(t.Body)
	case *ast.SelectStmt:
		f.stmts(t.Body.List)
	case *ast.CommClause:
		f.stmt(t.Comm)
		f.stmts(t.Body)
	case *ast.LabeledStmt:
		f.stmt(t.Stmt)
	case *ast.SendStmt:
		f.expr(t.Chan)
		f.expr(t.Value)
	case *ast.BranchStmt:
		if t.Tok == token.BREAK || t.Tok == token.CONTINUE || t.Tok == token.GOTO {
			for m, d := range f.explicit {
				if d >= f.depth || t.Tok == token.GOTO {
					f.bad("branch out of the lock region of " + m + " in " + f.key)
				}
			}
		}
	}
}

func (f *c20lsFn) loop(lv []string, body func()) {
	for _, v := range lv {
		f.loopVars[v] = true
	}
	f.loopVars["#"] = true
	body()
	for _, v := range lv {
		delete(f.loopVars, v)
	}
	if len(lv) >= 0 {
		delete(f.loopVars, "#")
	}
}

func (f *c20lsFn) finish() {
	for i := len(f.deferred) - 1; i >= 0; i-- {
		f.emit("GRel " + c20CoqStr(f.deferred[i]))
	}
}

func (p *c20lsPkg) scan() {
	for _, af := range p.files {
		imports := map[string]bool{}
		for _, im := range af.Imports {
			path := strings.Trim(im.Path.Value, "\"")
			name := path[strings.LastIndex(path, "/")+1:]
			if im.Name != nil {
				name = im.Name.Name
			}
			imports[name] = true
		}
		for _, d := range af.Decls {
			fd, ok := d.(*ast.FuncDecl)
			if !ok || fd.Body == nil {
				continue
			}
			key := fd.Name.Name
			env := map[string]ast.Expr{}
			if fd.Recv != nil && len(fd.Recv.List) == 1 {
				key = c20RecvTypeName(fd.Recv.List[0].Type) + "." + fd.Name.Name
				for _, n := range fd.Recv.List[0].Names {
					env[n.Name] = fd.Recv.List[0].Type
				}
			}
			var params []string
			if fd.Type.Params != nil {
				for _, pr := range fd.Type.Params.List {
					for _, n := range pr.Names {
						params = append(params, n.Name)
					}
				}
			}
			for _, fl := range [](*ast.FieldList){fd.Type.Params, fd.Type.Results} {
				if fl == nil {
					continue
				}
				for _, pr := range fl.List {
					for _, n := range pr.Names {
						env[n.Name] = pr.Type
					}
				}
			}
			var ev []string
			f := &c20lsFn{p: p, key: key, env: env, imports: imports, ev: &ev, explicit: map[string]int{}, captured: map[string]bool{},
				outer: map[string]bool{}, loopVars: map[string]bool{}, fresh: map[string]bool{}, snap: map[string]c20lsSnap{}, readEp: map[string]map[int]bool{}, held: map[string]bool{}, rheld: map[string]bool{}, params: params}
			f.stmts(fd.Body.List)
			f.finish()
			p.events[key] = ev
		}
	}
	// the closures of one function must write disjoint sets of captured locals
	for root, m := range c20lsCaptured {
		seen := map[string]string{}
		for k, names := range m {
			for _, n := range names {
				if other, ok := seen[n]; ok && other != k {
					p.events[root] = append(p.events[root], "GBad "+c20CoqStr("two goroutines of "+root+" write the local "+n))
				}
				seen[n] = k
			}
		}
	}
	// dynamic dispatch over-approximation: "*.name" = every method of that name in the package
	for name, ks := range p.byName {
		var ev []string
		sort.Strings(ks)
		for _, k := range ks {
			ev = append(ev, "GCall "+c20CoqStr(p.spec.pkg+":"+k))
		}
		p.events["*."+name] = ev
		p.order = append(p.order, "*."+name)
	}
}

func c20LockscanMain(args []string) {
	root := os.Getenv("VERIF_REPO")
	if root == "" {
		root = "/repo"
	}
	var sb strings.Builder
	sb.WriteString("(* GENERATED by `harness lockscan` from /repo's current source on every run; do not edit. *)\n")
	sb.WriteString("From PV Require Import M_Conc.\nOpen Scope string_scope.\n\n")
	var funcs, roots, webroots, guards, exempt, excl, barrierFns, info, rmwExempt, reserveUsers []string
	for si := range c20lsSpecs {
		spec := &c20lsSpecs[si]
		c20lsCaptured = map[string]map[string][]string{}
		var p *c20lsPkg
		getters, setters, autoG := map[string]string{}, map[string]c20lsSetter{}, map[string]string{}
		for pass := 0; pass < 3; pass++ { // getters/setters found in one pass are used by the next
			c20lsCaptured = map[string]map[string][]string{}
			var err error
			p, err = c20LoadPkg(root, spec)
			if err != nil {
				fmt.Fprintln(os.Stderr, "lockscan:", err)
				os.Exit(1)
			}
			p.getters, p.setters, p.autoG = getters, setters, autoG
			p.scan()
		}
		for k := range spec.exempt {
			// exempt functions are listed, but contribute nothing to their callers
			if _, ok := p.events[k]; ok {
				p.events[k+"#exempt"] = p.events[k]
				p.events[k] = nil
			}
		}
		calleeOf := func(e string) (string, bool) {
			if strings.HasPrefix(e, "GCall ") {
				return strings.TrimPrefix(strings.Trim(strings.TrimPrefix(e, "GCall "), "\""), spec.pkg+":"), true
			}
			return "", false
		}
		isAccess := func(e string) bool { return strings.HasPrefix(e, "GRd ") || strings.HasPrefix(e, "GWr ") }
		// pure functions (accesses and calls of pure functions only, possibly recursive) are replaced at
		// their call sites by the SET of accesses they can perform: under a constant held-set the
		// order and multiplicity of accesses is irrelevant for the lock discipline.
		pure := map[string]bool{}
		for k, ev := range p.events {
			ok := true
			for _, e := range ev {
				if _, c := calleeOf(e); !c && !isAccess(e) {
					ok = false
				}
			}
			pure[k] = ok
		}
		for changed := true; changed; {
			changed = false
			for k, ev := range p.events {
				if !pure[k] {
					continue
				}
				for _, e := range ev {
					if c, ok := calleeOf(e); ok {
						if _, known := p.events[c]; known && !pure[c] {
							pure[k] = false
							changed = true
							break
						}
					}
				}
			}
		}
		sum := map[string]map[string]bool{}
		for k := range p.events {
			if pure[k] {
				sum[k] = map[string]bool{}
			}
		}
		for changed := true; changed; {
			changed = false
			for k, ev := range p.events {
				if !pure[k] {
					continue
				}
				for _, e := range ev {
					if c, ok := calleeOf(e); ok {
						for a := range sum[c] {
							if !sum[k][a] {
								sum[k][a] = true
								changed = true
							}
						}
					} else if !sum[k][e] {
						sum[k][e] = true
						changed = true
					}
				}
			}
		}
		rendered := map[string][]string{}
		for k, ev := range p.events {
			var out []string
			seen := map[string]bool{}
			if pure[k] {
				var ks []string
				for a := range sum[k] {
					ks = append(ks, a)
				}
				sort.Strings(ks)
				rendered[k] = ks
				continue
			}
			for _, e := range ev {
				if c, ok := calleeOf(e); ok {
					if _, known := p.events[c]; !known {
						continue
					}
					if pure[c] {
						var ks []string
						for a := range sum[c] {
							ks = append(ks, a)
						}
						sort.Strings(ks)
						out = append(out, ks...)
						continue
					}
				}
				if isAccess(e) && len(out) > 0 && out[len(out)-1] == e {
					continue
				}
				_ = seen
				out = append(out, e)
			}
			rendered[k] = out
		}
		p.events = rendered
		// relevance: has a non-call event, or calls something relevant
		rel := map[string]bool{}
		for changed := true; changed; {
			changed = false
			for k, ev := range p.events {
				if rel[k] {
					continue
				}
				for _, e := range ev {
					r := true
					if strings.HasPrefix(e, "GCall ") {
						r = rel[strings.TrimPrefix(strings.Trim(strings.TrimPrefix(e, "GCall "), "\""), spec.pkg+":")]
					} else if strings.HasPrefix(e, "GOnce ") || strings.HasPrefix(e, "GSpawn ") {
						r = true
					}
					if r {
						rel[k] = true
						changed = true
						break
					}
				}
			}
		}
		keys := append([]string{}, p.order...)
		seenK := map[string]bool{}
		for _, k := range keys {
			if !rel[k] || seenK[k] {
				continue
			}
			seenK[k] = true
			var ev []string
			for _, e := range p.events[k] {
				if strings.HasPrefix(e, "GCall ") {
					callee := strings.TrimPrefix(strings.Trim(strings.TrimPrefix(e, "GCall "), "\""), spec.pkg+":")
					if !rel[callee] {
						continue
					}
				}
				ev = append(ev, e)
			}
			funcs = append(funcs, fmt.Sprintf("  (%s, (* %s *) [%s])", c20CoqStr(spec.pkg+":"+k), p.positions[k], strings.Join(ev, "; ")))
			if strings.Contains(k, "$go") {
				roots = append(roots, c20CoqStr(spec.pkg+":"+k)) // a goroutine body is a thread
				continue
			}
			if strings.Contains(k, "$") || strings.HasPrefix(k, "*.") || strings.HasSuffix(k, "#exempt") {
				continue
			}
			name := k[strings.LastIndex(k, ".")+1:]
			helper := !ast.IsExported(name) && p.calls[k] > 0 && !p.asValue[k]
			isWeb := false
			for _, w := range spec.webRoots {
				if strings.HasPrefix(k, w+".") {
					isWeb = true
				}
			}
			if spec.webAll && ast.IsExported(name) && (!strings.Contains(k, ".") || ast.IsExported(k[:strings.Index(k, ".")]) || true) {
				isWeb = true
			}
			if isWeb {
				webroots = append(webroots, c20CoqStr(spec.pkg+":"+k))
			}
			if !helper || isWeb {
				roots = append(roots, c20CoqStr(spec.pkg+":"+k))
			}
		}
		var ek []string
		for k := range spec.exempt {
			ek = append(ek, k)
		}
		sort.Strings(ek)
		for _, k := range ek {
			if _, ok := p.funcs[k]; ok {
				exempt = append(exempt, fmt.Sprintf("  (%s, %s)", c20CoqStr(spec.pkg+":"+k), c20CoqStr(spec.exempt[k])))
			}
		}
		var gk []string
		for k := range p.guards {
			gk = append(gk, k)
		}
		sort.Strings(gk)
		for _, k := range gk {
			m := p.guards[k]
			switch {
			case m == "barrier":
				guards = append(guards, fmt.Sprintf("  (%s, GBarrier)", c20CoqStr(k)))
			case strings.HasPrefix(m, "once:"):
				guards = append(guards, fmt.Sprintf("  (%s, GG (GOnceG %s))", c20CoqStr(k), c20CoqStr(m)))
			default:
				guards = append(guards, fmt.Sprintf("  (%s, GG (GMu %s))", c20CoqStr(k), c20CoqStr(m)))
			}
		}
		var gw []string
		for k := range p.globalsW {
			gw = append(gw, k)
		}
		sort.Strings(gw)
		for _, k := range gw {
			guards = append(guards, fmt.Sprintf("  (%s, GGlobal)", c20CoqStr("global:"+k)))
		}
		var rk []string
		for k := range spec.rmwExempt {
			rk = append(rk, k)
		}
		sort.Strings(rk)
		for _, k := range rk {
			if _, ok := p.funcs[k]; ok {
				rmwExempt = append(rmwExempt, fmt.Sprintf("  (%s, %s)", c20CoqStr(spec.pkg+":"+k), c20CoqStr(spec.rmwExempt[k])))
			}
		}
		var gs []string
		for k, v := range p.getters {
			gs = append(gs, k+" reads "+v)
		}
		for k, v := range p.setters {
			gs = append(gs, k+" publishes "+v.v)
		}
		sort.Strings(gs)
		info = append(info, spec.pkg+" accessors: "+strings.Join(gs, ", "))
		var ru []string
		for k := range p.reserveUsers {
			ru = append(ru, k)
		}
		sort.Strings(ru)
		for _, k := range ru {
			reserveUsers = append(reserveUsers, c20CoqStr(spec.pkg+":"+k))
		}
		for _, e := range spec.exclFuncs {
			excl = append(excl, c20CoqStr(spec.pkg+":"+e))
		}
		for k, ev := range p.events {
			for _, e := range ev {
				if strings.HasPrefix(e, "GSpawn ") && !strings.Contains(k, "$") {
					barrierFns = append(barrierFns, c20CoqStr(spec.pkg+":"+k))
					break
				}
			}
		}
		info = append(info, fmt.Sprintf("%s: %d files, %d functions, %d relevant", spec.pkg, len(p.files), len(p.funcs), len(seenK)))
	}
	sort.Strings(barrierFns)
	sb.WriteString("(* " + strings.Join(info, "; ") + " *)\n")
	sb.WriteString("Definition gen_funcs : list (string * list gev) := [\n" + strings.Join(funcs, ";\n") + "\n].\n\n")
	sb.WriteString("Definition gen_guards : list (string * gkind) := [\n" + strings.Join(guards, ";\n") + "\n].\n\n")
	sb.WriteString("Definition gen_roots : list string := [" + strings.Join(roots, "; ") + "].\n\n")
	sb.WriteString("Definition gen_web_roots : list string := [" + strings.Join(webroots, "; ") + "].\n\n")
	sb.WriteString("Definition gen_exempt : list (string * string) := [\n" + strings.Join(exempt, ";\n") + "\n].\n\n")
	sb.WriteString("Definition gen_excl_funcs : list string := [" + strings.Join(excl, "; ") + "].\n\n")
	sb.WriteString("Definition gen_rmw_exempt : list (string * string) := [\n" + strings.Join(rmwExempt, ";\n") + "\n].\n\n")
	sb.WriteString("Definition gen_reserve_users : list string := [" + strings.Join(reserveUsers, "; ") + "].\n\n")
	sb.WriteString("Definition gen_barrier_funcs : list string := [" + strings.Join(barrierFns, "; ") + "].\n")
	if len(args) > 0 {
		os.WriteFile(args[0], []byte(sb.String()), 0o644)
	} else {
		fmt.Print(sb.String())
	}
}
