//go:build verif

package main

// C20 round 6: what a page shows must come from ITS OWN request. Every web handler goes through
// makeReport; messages printed through the UI while the report of a request is generated ("Focus
// expression matched no samples", ...) belong in the errors box of that page and of no other.
// Overlapping requests with different no-match filters (and some with none) are compared, page by
// page, with the model of the message list (M_Conc Part I) -- the same as the requests one at a time.

import (
	"fmt"
	"os"
	"path/filepath"
	"strings"

	"github.com/google/pprof/internal/driver"
	"github.com/google/pprof/internal/plugin"
	"github.com/google/pprof/profile"
)

var (
	// URL parameters of the sample filters, in the order in which the driver reports "matched no samples"
	c20FilterParams = []string{"f", "i", "h", "s", "sf", "tf", "ti", "ts"}
)

// c20PageErrors extracts the messages of the errors box of a page ("?" if the page has no such box).
func c20PageErrors(body string) []string {
	i := strings.Index(body, `<div id="errors">`)
	if i < 0 {
		return []string{"?no-errors-box"}
	}
	rest := body[i+len(`<div id="errors">`):]
	var out []string
	for strings.HasPrefix(rest, "<div>") {
		j := strings.Index(rest, "</div>")
		if j < 0 {
			break
		}
		out = append(out, rest[len("<div>"):j])
		rest = rest[j+len("</div>"):]
	}
	return out
}

func c20ManyFuncs(nf int) *profile.Profile {
	p := &profile.Profile{
		SampleType: []*profile.ValueType{{Type: "samples", Unit: "count"}},
		PeriodType: &profile.ValueType{Type: "cpu", Unit: "nanoseconds"}, Period: 1,
	}
	for i := 0; i < nf; i++ {
		name := fmt.Sprintf("example.com/pkg%d.(*T%d).M%d", i%17, i%5, i)
		fn := &profile.Function{ID: uint64(i + 1), Name: name, SystemName: name, Filename: fmt.Sprintf("/src/d%d/f%d.go", i%7, i)}
		p.Function = append(p.Function, fn)
		p.Location = append(p.Location, &profile.Location{ID: uint64(i + 1), Address: uint64(0x1000 + i), Line: []profile.Line{{Function: fn, Line: int64(i%50 + 1)}}})
	}
	for i := 0; i+2 < nf; i += 2 {
		p.Sample = append(p.Sample, &profile.Sample{Location: []*profile.Location{p.Location[i], p.Location[i+1], p.Location[i+2]}, Value: []int64{int64(1 + i%7)}})
	}
	return p
}

func c20R6(c *Ctx) {
	cwd, _ := os.Getwd()
	base := filepath.Join(cwd, "c20-r6")
	os.MkdirAll(base, 0o755)
	defer os.RemoveAll(base)
	p := c20ManyFuncs(400)
	type req struct {
		handler string
		mask    int
	}
	errCase := func(gen string, rounds int, reqs []req) {
		serve, err := driver.VerifC20Web(p, &plugin.Options{UI: &c20UI{}, Obj: &c09Obj{}}, filepath.Join(base, "settings.json"))
		if err != nil {
			return
		}
		query := func(r req) string {
			var q []string
			for b, prm := range c20FilterParams {
				if r.mask&(1<<b) != 0 {
					q = append(q, prm+"=zzNoSuchName"+prm)
				}
			}
			return strings.Join(q, "&")
		}
		var in []Term
		for _, r := range reqs {
			in = append(in, L(S(r.handler), ZI(r.mask)))
		}
		var all []Term
		for rd := 0; rd < rounds; rd++ {
			got := make([]Term, len(reqs))
			c20RunPar(len(reqs), func(i int) {
				code, body := serve(reqs[i].handler, query(reqs[i]))
				if code != 200 {
					got[i] = Ss([]string{fmt.Sprintf("?status %d", code)})
					return
				}
				got[i] = Ss(c20PageErrors(body))
			})
			all = append(all, L(got...))
		}
		c.Case(gen, L(S("web-errors"), ZI(rounds), L(in...)), L(all...), len(reqs) >= 2, "op:web-errors")
	}
	// deterministic shapes: one request with a message among requests without; every request its own
	// message; several messages per page; different handlers; a single request (control)
	errCase("web-errors-one-noisy", 15, []req{{"top", 1}, {"top", 0}, {"top", 0}, {"top", 0}, {"flamegraph", 0}, {"peek", 0}})
	errCase("web-errors-all-different", 15, []req{{"top", 1}, {"top", 2}, {"top", 4}, {"top", 8}, {"top", 16}, {"top", 32}, {"top", 64}, {"top", 128}})
	errCase("web-errors-several-each", 10, []req{{"top", 1 | 32}, {"flamegraph", 2 | 4}, {"peek", 0}, {"top", 8 | 16 | 64}, {"flamegraph", 128}, {"top", 0}})
	errCase("web-errors-single", 3, []req{{"top", 1 | 2}})
	handlers := []string{"top", "flamegraph", "peek", "top"}
	for n := 0; n < c.Budget(3, 80); n++ {
		var rs []req
		for i := 0; i < 2+c.R.Intn(8); i++ {
			m := 0
			if c.R.P(2, 3) {
				m = 1 << c.R.Intn(8)
				if c.R.P(1, 3) {
					m |= 1 << c.R.Intn(8)
				}
			}
			h := PickS(c.R, handlers)
			if h == "peek" {
				m = 0 // /peek answers 400 when a filter leaves nothing to show: outside the model of the errors box
			}
			rs = append(rs, req{h, m})
		}
		errCase("web-errors-random", 5+c.R.Intn(10), rs)
	}
}
