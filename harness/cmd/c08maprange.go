//go:build verif

package main

// maprange: lists every `range` statement of the output-path packages whose operand is a map or
// cannot be shown not to be one.  No go/types: a small syntactic type resolver over the scanned
// packages (type declarations, struct fields, function results, local definitions).  Whatever it
// cannot resolve is emitted with kind "unknown" and has to be classified by hand in the committed
// table (coq/S_MapRange.v) -- fail closed.

import (
	"fmt"
	"go/ast"
	"go/token"
	"path/filepath"
	"sort"
	"strings"
)

type mrScan struct {
	types   map[string][]ast.Expr            // type name -> underlying type expression(s) (all packages)
	fields  map[string]map[string][]ast.Expr // struct type name -> field -> type
	anyFld  map[string][]ast.Expr            // field name -> types over all structs
	funcs   map[string][][]ast.Expr          // function or method name -> result type lists
	globals map[string][]ast.Expr            // package-level vars
}

var mrBasic = map[string]bool{"string": true, "int": true, "int64": true, "uint64": true, "bool": true, "float64": true,
	"byte": true, "error": true, "int32": true, "uint32": true, "uint": true, "rune": true, "uintptr": true, "uint8": true, "uint16": true, "float32": true, "int8": true, "int16": true, "any": true}

func lastName(e ast.Expr) string {
	switch x := e.(type) {
	case *ast.Ident:
		return x.Name
	case *ast.SelectorExpr:
		return x.Sel.Name
	case *ast.StarExpr:
		return lastName(x.X)
	case *ast.ParenExpr:
		return lastName(x.X)
	case *ast.IndexExpr: // generic instantiation
		return lastName(x.X)
	}
	return ""
}

// underlying resolves named types to a structural type expression; nil if unknown/ambiguous.
func (m *mrScan) underlying(t ast.Expr, depth int) ast.Expr {
	if t == nil || depth > 10 {
		return nil
	}
	switch x := t.(type) {
	case *ast.MapType, *ast.ArrayType, *ast.StructType, *ast.ChanType, *ast.FuncType, *ast.InterfaceType:
		return t
	case *ast.StarExpr:
		return m.underlying(x.X, depth+1)
	case *ast.ParenExpr:
		return m.underlying(x.X, depth+1)
	case *ast.Ident, *ast.SelectorExpr:
		n := lastName(t)
		if mrBasic[n] {
			return t
		}
		if sel, ok := t.(*ast.SelectorExpr); ok {
			// types of packages that are not scanned: known non-map standard types
			q := exprText(sel)
			switch q {
			case "regexp.Regexp", "time.Time", "time.Duration", "bytes.Buffer", "strings.Builder", "url.URL", "sync.Mutex", "io.Writer", "io.Reader", "template.Template", "http.Request", "os.File", "bufio.Reader", "bufio.Writer", "big.Int", "token.Pos":
				return sel
			case "url.Values", "http.Header":
				return &ast.MapType{Key: ast.NewIdent("string"), Value: &ast.ArrayType{Elt: ast.NewIdent("string")}}
			}
		}
		ds := m.types[n]
		if len(ds) == 0 {
			return nil
		}
		u := m.underlying(ds[0], depth+1)
		for _, d := range ds[1:] {
			if v := m.underlying(d, depth+1); v == nil || u == nil || exprText(v) != exprText(u) {
				return nil
			}
		}
		return u
	}
	return nil
}

func (m *mrScan) structName(t ast.Expr) string {
	// name of the (possibly pointer to) named struct type, "" otherwise
	n := lastName(t)
	if n == "" {
		return ""
	}
	if _, ok := m.fields[n]; ok {
		return n
	}
	return ""
}

func sameTypes(ts []ast.Expr) ast.Expr {
	if len(ts) == 0 {
		return nil
	}
	for _, t := range ts[1:] {
		if exprText(t) != exprText(ts[0]) {
			return nil
		}
	}
	return ts[0]
}

type mrEnv struct {
	m    *mrScan
	vars map[string][]ast.Expr
}

func (e *mrEnv) bind(name string, t ast.Expr) {
	if name == "_" || name == "" {
		return
	}
	if t == nil {
		t = ast.NewIdent("?unknown")
	}
	e.vars[name] = append(e.vars[name], t)
}

func (e *mrEnv) elem(t ast.Expr) (key, val ast.Expr) {
	switch u := e.m.underlying(t, 0).(type) {
	case *ast.MapType:
		return u.Key, u.Value
	case *ast.ArrayType:
		return ast.NewIdent("int"), u.Elt
	case *ast.Ident:
		if u.Name == "string" {
			return ast.NewIdent("int"), ast.NewIdent("rune")
		}
	case *ast.ChanType:
		return u.Value, nil
	}
	return nil, nil
}

func (e *mrEnv) typeOf(x ast.Expr) ast.Expr {
	switch v := x.(type) {
	case *ast.Ident:
		if ts, ok := e.vars[v.Name]; ok {
			t := sameTypes(ts)
			if t != nil && exprText(t) == "?unknown" {
				return nil
			}
			return t
		}
		if ts, ok := e.m.globals[v.Name]; ok {
			return sameTypes(ts)
		}
		return nil
	case *ast.ParenExpr:
		return e.typeOf(v.X)
	case *ast.StarExpr:
		return e.typeOf(v.X)
	case *ast.UnaryExpr:
		if v.Op == token.AND {
			return e.typeOf(v.X)
		}
		if v.Op == token.ARROW {
			_, _ = e.elem(e.typeOf(v.X))
			k, _ := e.elem(e.typeOf(v.X))
			return k
		}
		return nil
	case *ast.CompositeLit:
		return v.Type
	case *ast.SliceExpr:
		return e.typeOf(v.X)
	case *ast.TypeAssertExpr:
		return v.Type
	case *ast.BasicLit:
		switch v.Kind {
		case token.STRING:
			return ast.NewIdent("string")
		case token.INT:
			return ast.NewIdent("int")
		}
		return nil
	case *ast.IndexExpr:
		_, val := e.elem(e.typeOf(v.X))
		return val
	case *ast.SelectorExpr:
		if xt := e.typeOf(v.X); xt != nil {
			if sn := e.m.structName(xt); sn != "" {
				if t := sameTypes(e.m.fields[sn][v.Sel.Name]); t != nil {
					return t
				}
			}
		}
		// fall back on the field name over all scanned structs (must agree)
		return sameTypes(e.m.anyFld[v.Sel.Name])
	case *ast.CallExpr:
		if id, ok := v.Fun.(*ast.Ident); ok {
			switch id.Name {
			case "make", "new":
				if len(v.Args) > 0 {
					return v.Args[0]
				}
			case "append":
				if len(v.Args) > 0 {
					return e.typeOf(v.Args[0])
				}
			case "len", "cap", "copy":
				return ast.NewIdent("int")
			case "string":
				return ast.NewIdent("string")
			}
			if _, isType := e.m.types[id.Name]; isType && len(v.Args) == 1 {
				return id // conversion
			}
		}
		if at, ok := v.Fun.(*ast.ArrayType); ok {
			return at
		}
		if rs := e.results(v); len(rs) >= 1 {
			return rs[0]
		}
		return nil
	}
	return nil
}

// results of a call, by the name of the called function or method (all declarations with that
// name in the scanned packages must agree), plus a few standard-library functions
func (e *mrEnv) results(c *ast.CallExpr) []ast.Expr {
	q := exprText(c.Fun)
	strs := &ast.ArrayType{Elt: ast.NewIdent("string")}
	switch q {
	case "strings.Split", "strings.Fields", "strings.SplitN", "filepath.SplitList", "strings.FieldsFunc":
		return []ast.Expr{strs}
	case "filepath.Glob":
		return []ast.Expr{strs, ast.NewIdent("error")}
	case "strings.Join", "fmt.Sprintf", "fmt.Sprint", "strings.TrimSpace", "filepath.Base", "strings.ToLower", "strings.Repeat", "filepath.Join":
		return []ast.Expr{ast.NewIdent("string")}
	case "os.ReadDir":
		return []ast.Expr{&ast.ArrayType{Elt: ast.NewIdent("os.DirEntry")}, ast.NewIdent("error")}
	}
	n := lastName(c.Fun)
	if fl, ok := c.Fun.(*ast.FuncLit); ok {
		var rs []ast.Expr
		if fl.Type.Results != nil {
			for _, r := range fl.Type.Results.List {
				k := len(r.Names)
				if k == 0 {
					k = 1
				}
				for i := 0; i < k; i++ {
					rs = append(rs, r.Type)
				}
			}
		}
		return rs
	}
	// a local variable of function type
	if id, ok := c.Fun.(*ast.Ident); ok {
		if t := e.typeOf(id); t != nil {
			if ft, ok := e.m.underlying(t, 0).(*ast.FuncType); ok && ft.Results != nil {
				var rs []ast.Expr
				for _, r := range ft.Results.List {
					rs = append(rs, r.Type)
				}
				return rs
			}
		}
	}
	ds := e.m.funcs[n]
	if sel, ok := c.Fun.(*ast.SelectorExpr); ok {
		// method call: prefer the declaration on the receiver's named type
		if xt := e.typeOf(sel.X); xt != nil {
			if md, ok := e.m.funcs[lastName(xt)+"."+sel.Sel.Name]; ok {
				ds = md
			}
		}
	}
	if len(ds) == 0 {
		return nil
	}
	for _, d := range ds[1:] {
		if len(d) != len(ds[0]) {
			return nil
		}
		for i := range d {
			if exprText(d[i]) != exprText(ds[0][i]) {
				return nil
			}
		}
	}
	return ds[0]
}

func fieldList(fl *ast.FieldList) (names []string, types []ast.Expr) {
	if fl == nil {
		return
	}
	for _, f := range fl.List {
		t := f.Type
		if el, ok := t.(*ast.Ellipsis); ok {
			t = &ast.ArrayType{Elt: el.Elt}
		}
		if len(f.Names) == 0 {
			names = append(names, "")
			types = append(types, t)
		}
		for _, n := range f.Names {
			names = append(names, n.Name)
			types = append(types, t)
		}
	}
	return
}

type mrSite struct {
	file, fn, expr, kind string
	ord                  int
}

// mrFollowers maps every range statement of a function body to the statements that follow it in its
// enclosing statement list.
func mrFollowers(body *ast.BlockStmt) map[*ast.RangeStmt][]ast.Stmt {
	out := map[*ast.RangeStmt][]ast.Stmt{}
	note := func(list []ast.Stmt) {
		for i, st := range list {
			if r, ok := st.(*ast.RangeStmt); ok {
				out[r] = list[i+1:]
			}
		}
	}
	ast.Inspect(body, func(n ast.Node) bool {
		switch b := n.(type) {
		case *ast.BlockStmt:
			note(b.List)
		case *ast.CaseClause:
			note(b.Body)
		case *ast.CommClause:
			note(b.Body)
		}
		return true
	})
	return out
}

func mrMentions(n ast.Node, name string) bool {
	found := false
	ast.Inspect(n, func(n ast.Node) bool {
		if id, ok := n.(*ast.Ident); ok && id.Name == name {
			found = true
		}
		return !found
	})
	return found
}

// mrKeysSorted recognises, purely structurally, the order-insensitive idiom
//     for k := range M { X = append(X, k) }
//     ... statements that do not mention X ...
//     sort.Strings(X)            (or sort.Ints(X))
// The keys of a map are distinct and sort.Strings / sort.Ints use the total order of the element
// type, so X is the same whatever order the keys were visited in (L_Order: sorted_unique,
// sort_strings_deterministic, sort_ints_deterministic).  Such a site needs no entry in the
// hand-written table, so moving the idiom to another function does not break the classification.
func mrKeysSorted(r *ast.RangeStmt, after []ast.Stmt) bool {
	k, ok := r.Key.(*ast.Ident)
	if !ok || k.Name == "_" || r.Tok != token.DEFINE {
		return false
	}
	if v, ok := r.Value.(*ast.Ident); r.Value != nil && (!ok || v.Name != "_") {
		return false
	}
	if len(r.Body.List) != 1 {
		return false
	}
	as, ok := r.Body.List[0].(*ast.AssignStmt)
	if !ok || as.Tok != token.ASSIGN || len(as.Lhs) != 1 || len(as.Rhs) != 1 {
		return false
	}
	x, ok := as.Lhs[0].(*ast.Ident)
	if !ok || x.Name == k.Name {
		return false
	}
	call, ok := as.Rhs[0].(*ast.CallExpr)
	if !ok || len(call.Args) != 2 || call.Ellipsis != token.NoPos {
		return false
	}
	if f, ok := call.Fun.(*ast.Ident); !ok || f.Name != "append" {
		return false
	}
	if a0, ok := call.Args[0].(*ast.Ident); !ok || a0.Name != x.Name {
		return false
	}
	if a1, ok := call.Args[1].(*ast.Ident); !ok || a1.Name != k.Name {
		return false
	}
	for _, st := range after {
		if !mrMentions(st, x.Name) {
			continue
		}
		es, ok := st.(*ast.ExprStmt)
		if !ok {
			return false
		}
		c, ok := es.X.(*ast.CallExpr)
		if !ok || len(c.Args) != 1 {
			return false
		}
		sel, ok := c.Fun.(*ast.SelectorExpr)
		if !ok {
			return false
		}
		pkg, ok := sel.X.(*ast.Ident)
		if !ok || pkg.Name != "sort" || (sel.Sel.Name != "Strings" && sel.Sel.Name != "Ints") {
			return false
		}
		a, ok := c.Args[0].(*ast.Ident)
		return ok && a.Name == x.Name
	}
	return false
}

func (e *mrEnv) walk(n ast.Node, visit func(r *ast.RangeStmt)) {
	ast.Inspect(n, func(n ast.Node) bool {
		switch s := n.(type) {
		case *ast.FuncLit:
			ns, ts := fieldList(s.Type.Params)
			for i := range ns {
				e.bind(ns[i], ts[i])
			}
			ns, ts = fieldList(s.Type.Results)
			for i := range ns {
				e.bind(ns[i], ts[i])
			}
		case *ast.AssignStmt:
			if s.Tok == token.DEFINE {
				if len(s.Lhs) == len(s.Rhs) {
					for i := range s.Lhs {
						if id, ok := s.Lhs[i].(*ast.Ident); ok {
							if fl, ok := s.Rhs[i].(*ast.FuncLit); ok {
								e.bind(id.Name, fl.Type)
							} else {
								e.bind(id.Name, e.typeOf(s.Rhs[i]))
							}
						}
					}
				} else if len(s.Rhs) == 1 {
					var rs []ast.Expr
					switch r := s.Rhs[0].(type) {
					case *ast.CallExpr:
						rs = e.results(r)
					case *ast.IndexExpr: // v, ok := m[k]
						_, v := e.elem(e.typeOf(r.X))
						rs = []ast.Expr{v, ast.NewIdent("bool")}
					case *ast.TypeAssertExpr:
						rs = []ast.Expr{r.Type, ast.NewIdent("bool")}
					}
					for i := range s.Lhs {
						if id, ok := s.Lhs[i].(*ast.Ident); ok {
							if i < len(rs) {
								e.bind(id.Name, rs[i])
							} else {
								e.bind(id.Name, nil)
							}
						}
					}
				}
			}
		case *ast.DeclStmt:
			if gd, ok := s.Decl.(*ast.GenDecl); ok && gd.Tok == token.VAR {
				for _, sp := range gd.Specs {
					vs := sp.(*ast.ValueSpec)
					for i, nm := range vs.Names {
						t := vs.Type
						if t == nil && i < len(vs.Values) {
							t = e.typeOf(vs.Values[i])
						}
						e.bind(nm.Name, t)
					}
				}
			}
		case *ast.RangeStmt:
			if s.Tok == token.DEFINE {
				k, v := e.elem(e.typeOf(s.X))
				if id, ok := s.Key.(*ast.Ident); ok {
					e.bind(id.Name, k)
				}
				if id, ok := s.Value.(*ast.Ident); ok {
					e.bind(id.Name, v)
				}
			}
			visit(s)
		case *ast.TypeSwitchStmt:
			// x := y.(type): x has a different type in every clause
			if as, ok := s.Assign.(*ast.AssignStmt); ok {
				if id, ok := as.Lhs[0].(*ast.Ident); ok {
					e.bind(id.Name, nil)
				}
			}
		}
		return true
	})
}

func maprangeMain(args []string) {
	root := repoRoot()
	fset := token.NewFileSet()
	m := &mrScan{types: map[string][]ast.Expr{}, fields: map[string]map[string][]ast.Expr{}, anyFld: map[string][]ast.Expr{},
		funcs: map[string][][]ast.Expr{}, globals: map[string][]ast.Expr{}}
	type pf struct {
		name string
		f    *ast.File
	}
	var files []pf
	// declarations of the scanned packages and of the packages whose types they range over
	declPkgs := append([]string{}, c08Pkgs...)
	declPkgs = append(declPkgs, "internal/plugin", "internal/binutils", "internal/elfexec", "internal/symbolizer", "internal/symbolz", "internal/transport", "driver")
	scan := map[string]bool{}
	for _, p := range c08Pkgs {
		scan[p] = true
	}
	for _, pkg := range declPkgs {
		for _, f := range parseDir(fset, filepath.Join(root, pkg)) {
			name := filepath.Join(pkg, filepath.Base(fset.Position(f.Pos()).Filename))
			if scan[pkg] {
				files = append(files, pf{name, f})
			}
			for _, d := range f.Decls {
				switch x := d.(type) {
				case *ast.GenDecl:
					for _, sp := range x.Specs {
						switch s := sp.(type) {
						case *ast.TypeSpec:
							m.types[s.Name.Name] = append(m.types[s.Name.Name], s.Type)
							if st, ok := s.Type.(*ast.StructType); ok {
								fm := m.fields[s.Name.Name]
								if fm == nil {
									fm = map[string][]ast.Expr{}
									m.fields[s.Name.Name] = fm
								}
								ns, ts := fieldList(st.Fields)
								for i := range ns {
									n := ns[i]
									if n == "" {
										n = lastName(ts[i])
									}
									fm[n] = append(fm[n], ts[i])
									m.anyFld[n] = append(m.anyFld[n], ts[i])
								}
							}
						case *ast.ValueSpec:
							if x.Tok == token.VAR {
								for i, nm := range s.Names {
									t := s.Type
									if t == nil && i < len(s.Values) {
										if cl, ok := s.Values[i].(*ast.CompositeLit); ok {
											t = cl.Type
										}
									}
									if t == nil {
										t = ast.NewIdent("?unknown")
									}
									m.globals[nm.Name] = append(m.globals[nm.Name], t)
								}
							}
						}
					}
				case *ast.FuncDecl:
					_, ts := fieldList(x.Type.Results)
					m.funcs[x.Name.Name] = append(m.funcs[x.Name.Name], ts)
					if x.Recv != nil && len(x.Recv.List) == 1 {
						k := lastName(x.Recv.List[0].Type) + "." + x.Name.Name
						m.funcs[k] = append(m.funcs[k], ts)
					}
				}
			}
		}
	}
	var sites []mrSite
	total, notmap := 0, 0
	for _, f := range files {
		for _, d := range f.f.Decls {
			fd, ok := d.(*ast.FuncDecl)
			if !ok || fd.Body == nil {
				continue
			}
			fn := fd.Name.Name
			if fd.Recv != nil && len(fd.Recv.List) == 1 {
				fn = strings.TrimPrefix(exprText(fd.Recv.List[0].Type), "*") + "." + fn
			}
			e := &mrEnv{m: m, vars: map[string][]ast.Expr{}}
			for _, fl := range []*ast.FieldList{fd.Recv, fd.Type.Params, fd.Type.Results} {
				ns, ts := fieldList(fl)
				for i := range ns {
					e.bind(ns[i], ts[i])
				}
			}
			ords := map[string]int{}
			followers := mrFollowers(fd.Body)
			e.walk(fd.Body, func(r *ast.RangeStmt) {
				total++
				kind := "unknown"
				if t := e.typeOf(r.X); t != nil {
					switch u := m.underlying(t, 0).(type) {
					case *ast.MapType:
						kind = "map"
					case *ast.ArrayType, *ast.ChanType:
						kind = "no"
					case *ast.Ident:
						if u.Name == "string" || u.Name == "int" {
							kind = "no"
						}
					}
				}
				if kind == "unknown" {
					// a name bound several times in the function (the environment is flow-insensitive):
					// not a map if NONE of its bindings can be one
					if id, ok := r.X.(*ast.Ident); ok && len(e.vars[id.Name]) > 1 {
						all := true
						for _, t := range e.vars[id.Name] {
							switch u := m.underlying(t, 0).(type) {
							case *ast.ArrayType, *ast.ChanType:
							case *ast.Ident:
								if u.Name != "string" && u.Name != "int" {
									all = false
								}
							default:
								all = false
							}
						}
						if all {
							kind = "no"
						}
					}
				}
				if kind == "no" {
					notmap++
					return
				}
				x := exprText(r.X)
				ords[x]++
				if mrKeysSorted(r, followers[r]) {
					kind = "keys-sorted" // classified structurally, see mrKeysSorted
				}
				sites = append(sites, mrSite{f.name, fn, x, kind, ords[x]})
			})
		}
	}
	sort.SliceStable(sites, func(i, j int) bool {
		a, b := sites[i], sites[j]
		if a.file != b.file {
			return a.file < b.file
		}
		if a.fn != b.fn {
			return a.fn < b.fn
		}
		if a.expr != b.expr {
			return a.expr < b.expr
		}
		return a.ord < b.ord
	})
	var sb strings.Builder
	sb.WriteString("(* GENERATED by `harness maprange` from the Go source of profile, internal/{graph,report,driver,measurement}\n   on every run; do not edit.  One entry per `range` whose operand is a map (\"map\") or could not be\n   resolved syntactically (\"unknown\"), \"keys-sorted\" when the loop only collects the keys into a slice that is\n   sorted by sort.Strings/sort.Ints before any other use: (file, function, operand, occurrence, kind). *)\n")
	sb.WriteString("From Coq Require Import List String ZArith.\nImport ListNotations.\nOpen Scope string_scope.\n\n")
	fmt.Fprintf(&sb, "Definition range_statements_total : Z := %d%%Z.\nDefinition range_statements_not_map : Z := %d%%Z.\n\n", total, notmap)
	sb.WriteString("Definition map_range_sites : list (string * string * string * Z * string) := [\n")
	for i, s := range sites {
		if i > 0 {
			sb.WriteString(";\n")
		}
		fmt.Fprintf(&sb, "  (%s, %s, %s, %d%%Z, %s)", c08CoqStr(s.file), c08CoqStr(s.fn), c08CoqStr(s.expr), s.ord, c08CoqStr(s.kind))
	}
	sb.WriteString("].\n")
	writeOut(args, sb.String())
}
