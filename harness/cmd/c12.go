//go:build verif

package main

import (
	"bytes"
	"errors"
	"fmt"
	"io"
	"math"
	"net/http"
	"net/url"
	"regexp"
	"sort"
	"strings"

	"github.com/google/pprof/internal/plugin"
	"github.com/google/pprof/internal/symbolizer"
	"github.com/google/pprof/internal/symbolz"
	"github.com/google/pprof/profile"
	"github.com/ianlancetaylor/demangle"
)

func init() { registry["C12"] = runC12 }

// ---------------------------------------------------------------------------------------------
// The scripted plug-ins.  One answer script is consumed positionally by every call that reaches a
// plug-in (ObjTool.Open, ObjFile.BuildID, ObjFile.SourceLine, the symbolz POST); an exhausted
// script answers "error".  Every call is logged.  coq/M_Symbolize.v (ask) does the same.

type c12Answer struct {
	Err    bool
	Bid    string
	Frames []plugin.Frame
	Body   string
}

type c12Script struct {
	ans []c12Answer
	k   int
	log []Term
}

func (s *c12Script) next(call Term) c12Answer {
	s.log = append(s.log, call)
	if s.k < len(s.ans) {
		a := s.ans[s.k]
		s.k++
		return a
	}
	return c12Answer{Err: true}
}

var errC12 = errors.New("scripted failure")

type c12Tool struct{ s *c12Script }

func (t *c12Tool) Open(file string, start, limit, offset uint64, reloc string) (plugin.ObjFile, error) {
	a := t.s.next(L(S("open"), S(file), ZU(start), ZU(limit), ZU(offset)))
	if a.Err {
		return nil, errC12
	}
	return &c12File{t.s}, nil
}
func (t *c12Tool) Disasm(file string, start, end uint64, intel bool) ([]plugin.Inst, error) {
	return nil, errC12
}

type c12File struct{ s *c12Script }

func (f *c12File) Name() string                          { return "scripted" }
func (f *c12File) ObjAddr(addr uint64) (uint64, error)    { return 0, errC12 }
func (f *c12File) BuildID() string                        { return f.s.next(L(S("buildid"))).Bid }
func (f *c12File) Close() error                           { return nil }
func (f *c12File) Symbols(*regexp.Regexp, uint64) ([]*plugin.Sym, error) { return nil, errC12 }
func (f *c12File) SourceLine(addr uint64) ([]plugin.Frame, error) {
	a := f.s.next(L(S("sourceline"), ZU(addr)))
	if a.Err {
		return nil, errC12
	}
	return append([]plugin.Frame(nil), a.Frames...), nil
}

// c12RT is the symbolz endpoint: an http.RoundTripper replaying the script.
type c12RT struct{ s *c12Script }

func (t *c12RT) RoundTrip(req *http.Request) (*http.Response, error) {
	var q []byte
	if req.Body != nil {
		q, _ = io.ReadAll(req.Body)
		req.Body.Close()
	}
	a := t.s.next(L(S("post"), S(req.URL.String()), S(string(q))))
	if a.Err {
		return nil, errC12
	}
	return &http.Response{StatusCode: 200, Status: "200 OK", Proto: "HTTP/1.1", ProtoMajor: 1, ProtoMinor: 1,
		Header: http.Header{}, Body: io.NopCloser(bytes.NewReader([]byte(a.Body))), ContentLength: int64(len(a.Body)), Request: req}, nil
}

type c12UI struct{}

func (c12UI) ReadLine(string) (string, error)      { return "", io.EOF }
func (c12UI) Print(...interface{})                  {}
func (c12UI) PrintErr(...interface{})               {}
func (c12UI) IsTerminal() bool                      { return false }
func (c12UI) WantBrowser() bool                     { return false }
func (c12UI) SetAutoComplete(func(string) string)   {}

// ---------------------------------------------------------------------------------------------
// pools

var c12Modes = []string{"", "none", "no", "local", "fastlocal", "remote", "force", "local:force", "remote:force",
	"demangle=full", "demangle=none", "demangle=templates", "demangle=default", "local:demangle=full",
	"remote:demangle=templates", "LOCAL", "Force:Remote", "bogus", "local:bogus:force", "full", "templates", "default",
	"force:none", "none:force", "::", "local:remote", "remote:local", "fastlocal:force:demangle=none", "demangle=",
	"demangle=bogus", "local:no", "Demangle=Full"}

var c12SysNames = []string{"main", "foo", "bar", "runtime.mallocgc", "", "_", "__", "_ZN3foo3barEv", "__ZN3foo3barEv",
	"_Z3fooIiEvT_", "_ZNSt6vectorIiSaIiEE9push_backEOi", "_ZN1a1bC2Ev", "foo::bar(int)", "vector<int>::size()",
	"<unknown>", "<lambda>", "()", "(anonymous namespace)::f(int)", "class.<init>", "foo.(*Bar[...]).Method",
	"operator<<", "a>b", "f(g(h))", "((", "))", "a<b<c>>::d(e<f>)", "x<y", "ns::f<T>(U<V>)", "[clone]", "f() [clone .cold]",
	"_foo", "_ZN3fooE.cold", "<>", "(<)>", "a::b", "a)b(c", "<(>)", "_Zbogus", " <T>", "(int) ", " (a)<b>\t"}

var c12Files = []string{"/bin/app", "/bin/app", "/lib/libc.so.6", "", "[vdso]", "linux-vdso.so.1", "/dev/dri/card0", "//anon",
	"http://host/debug/pprof/profile", "https://h.example/bin", "HTTP://x/y", "ftp://h/f", "dir/[x]", "/", "app/", "[heap",
	"/a/linux-vdso", "x:y", "/dev/dri", "anon", "shttp://x/y"}

var c12Sources = []string{"http://host:8080/debug/pprof/profile?seconds=3", "http://host/pprof/heap", "https://h.example/x/y",
	"http://host", "/tmp/local.prof", "", "http://host/debug/pprof/", "http://h/a/b/../c?x=1", "http://h/pprof/growth"}

var c12SrcFiles = []string{"main.go", "foo.cc", "", "dir/bar.h"}

// ---------------------------------------------------------------------------------------------
// generators

func c12Profile(r *Rng, wrapIDs bool) *profile.Profile {
	k := DefaultKnobs()
	k.MaxMappings, k.MaxLocs, k.MaxFuncs, k.MaxSamples = 4, 7, 5, 4
	k.Labels, k.NumLabels = r.P(1, 3), r.P(1, 4)
	k.Header = r.P(1, 3)
	k.SparseIDs = r.P(2, 3)
	p := GenProfile(r, k)
	for _, f := range p.Function {
		sys := PickS(r, c12SysNames)
		switch r.Intn(5) {
		case 0:
			f.Name, f.SystemName = sys, sys
		case 1:
			f.Name, f.SystemName = "", sys
		case 2:
			f.Name, f.SystemName = PickS(r, c12SysNames), sys
		case 3:
			f.Name, f.SystemName = sys, ""
		default:
			f.Name, f.SystemName = sys, sys
		}
	}
	if r.P(1, 3) {
		// small sparse ids in random order: len(Function)+1 is often taken
		perm := map[uint64]bool{}
		for _, f := range p.Function {
			id := uint64(1 + r.Intn(2*len(p.Function)+2))
			for perm[id] {
				id = uint64(1 + r.Intn(2*len(p.Function)+2))
			}
			perm[id] = true
			f.ID = id
		}
	}
	if wrapIDs && len(p.Function) > 0 {
		// function ids right below 2^64: the next id wraps to the reserved 0
		used := map[uint64]bool{}
		for _, f := range p.Function {
			used[f.ID] = true
		}
		id := uint64(math.MaxUint64) - uint64(r.Intn(3))
		if !used[id] {
			p.Function[r.Intn(len(p.Function))].ID = id
		}
	}
	sharedFile := PickS(r, c12Files)
	for i, m := range p.Mapping {
		m.File = PickS(r, c12Files)
		if r.P(1, 5) {
			m.File = sharedFile
		}
		if r.P(1, 2) {
			m.File = "/bin/app" + fmt.Sprint(i%2)
		}
		m.BuildID = PickS(r, []string{"", "", "abc123", "ff00"})
		switch r.Intn(4) {
		case 0, 1:
			m.HasFunctions, m.HasFilenames, m.HasLineNumbers, m.HasInlineFrames = false, false, false, false
		case 2:
			m.HasFunctions, m.HasFilenames, m.HasLineNumbers, m.HasInlineFrames = r.Bool(), r.Bool(), r.Bool(), r.Bool()
		case 3:
			m.HasFunctions = true
		}
		if r.P(1, 12) {
			m.Start = c12PickU(r, []uint64{0, 1 << 63, 1<<63 - 0x1000, math.MaxUint64 - 0xffff, 0x1000})
			m.Limit = m.Start + 0x10000
		}
	}
	for _, l := range p.Location {
		if l.Mapping != nil {
			m := l.Mapping
			switch r.Intn(8) {
			case 0:
				l.Address = m.Start
			case 1:
				l.Address = m.Limit - 1
			case 2:
				l.Address = m.Limit
			case 3:
				l.Address = 0
			case 4:
				l.Address = m.Start + 0x10 // shared by several locations
			default:
				l.Address = m.Start + uint64(r.Intn(0x2000))
			}
		} else if r.P(1, 3) {
			l.Address = 0
		}
		if r.P(1, 2) {
			l.Line = nil
		}
	}
	return p
}

func c12PickU(r *Rng, l []uint64) uint64 { return l[r.Intn(len(l))] }

func c12Frame(r *Rng) plugin.Frame {
	if r.P(1, 8) {
		// what addr2line prints as ?? / ??:0: nothing known about the frame (maybe a column or start line)
		return plugin.Frame{Column: r.Intn(2), StartLine: r.Intn(2) * 7}
	}
	return plugin.Frame{Func: PickS(r, c12SysNames), File: PickS(r, c12SrcFiles),
		Line:      int(PickI(r, []int64{0, 0, 1, 7, 42, -1, math.MaxInt64, math.MinInt64})),
		Column:    r.Intn(3),
		StartLine: int(PickI(r, []int64{0, 0, 3, 40, -5}))}
}

type c12Source = struct {
	Source string
	Start  uint64
}

func c12Sources_(r *Rng, p *profile.Profile) plugin.MappingSources {
	ms := plugin.MappingSources{}
	for _, m := range p.Mapping {
		if r.P(1, 4) {
			continue
		}
		keys := []string{m.File}
		if m.BuildID != "" && r.Bool() {
			keys = append(keys, m.BuildID)
			if r.Bool() {
				keys = keys[1:]
			}
		}
		for _, key := range keys {
			if _, ok := ms[key]; ok {
				continue
			}
			var l []c12Source
			for n := 1 + r.Intn(2); n > 0; n-- {
				st := m.Start
				switch r.Intn(8) {
				case 0:
					st = 0
				case 1:
					st = m.Start + 0x1000
				case 2:
					st = m.Start - 0x1000
				case 3:
					st = c12PickU(r, []uint64{1 << 63, math.MaxUint64, 1<<63 - 1, 1})
				}
				l = append(l, c12Source{PickS(r, c12Sources), st})
			}
			ms[key] = l
		}
	}
	return ms
}

// a symbolz answer body: lines aimed at the addresses the server would have been asked for,
// plus malformed ones
func c12Body(r *Rng, p *profile.Profile, ms plugin.MappingSources) string {
	var sb strings.Builder
	n := r.Intn(6)
	for i := 0; i < n; i++ {
		var addr uint64
		if len(p.Location) > 0 {
			l := p.Location[r.Intn(len(p.Location))]
			addr = l.Address
			if l.Mapping != nil {
				srcs := append(append([]c12Source(nil), ms[l.Mapping.File]...), ms[l.Mapping.BuildID]...)
				if len(srcs) > 0 && r.P(5, 6) {
					s := srcs[r.Intn(len(srcs))]
					addr = uint64(int64(addr) + (int64(s.Start) - int64(l.Mapping.Start)))
				}
			}
		}
		name := PickS(r, c12SysNames)
		switch r.Intn(14) {
		case 0:
			fmt.Fprintf(&sb, "0x%X\t %s", addr, name)
		case 1:
			fmt.Fprintf(&sb, "%#x  \t%s\r", addr, name)
		case 2:
			sb.WriteString("hello world")
		case 3:
			sb.WriteString(PickS(r, []string{"0x", "0xZZ foo", "0x10", "0x10 ", "0x 12 f", "0X10 f", "x10 f", ""}))
		case 4:
			sb.WriteString(PickS(r, []string{"0x10000000000000000 f", "0xffffffffffffffff f", "0x8000000000000000 g", "0x1ffffffffffffffff"}))
		case 5:
			fmt.Fprintf(&sb, "prefix 0x0x%x %s trailing 0x5 z", addr, name)
		case 6:
			fmt.Fprintf(&sb, "0x000000000000000000%x %s", addr, name)
		case 7:
			fmt.Fprintf(&sb, "%#x", addr)
		case 8:
			fmt.Fprintf(&sb, "%#x %s %s", addr, name, PickS(r, c12SysNames))
		default:
			fmt.Fprintf(&sb, "%#x %s", addr, name)
		}
		if i < n-1 || r.P(4, 5) {
			sb.WriteByte('\n')
		}
	}
	return sb.String()
}

func c12ScriptGen(r *Rng, p *profile.Profile, ms plugin.MappingSources, errRate int) []c12Answer {
	n := r.Intn(14)
	if r.P(1, 10) {
		n = 0
	}
	palette := []plugin.Frame{c12Frame(r), c12Frame(r), c12Frame(r)}
	var out []c12Answer
	for i := 0; i < n; i++ {
		a := c12Answer{Err: r.P(1, errRate)}
		a.Bid = PickS(r, []string{"", "", "abc123", "ff00", "deadbeef"})
		nf := r.Intn(4)
		for j := 0; j < nf; j++ {
			if r.P(2, 3) {
				a.Frames = append(a.Frames, palette[r.Intn(len(palette))])
			} else {
				a.Frames = append(a.Frames, c12Frame(r))
			}
		}
		a.Body = c12Body(r, p, ms)
		out = append(out, a)
	}
	return out
}

func c12IsHTTP(file string) bool {
	u, err := url.Parse(file)
	return err == nil && u.IsAbs() && strings.Contains(strings.ToLower(u.Scheme), "http")
}

func c12DumpScript(sc []c12Answer) Term {
	var l []Term
	for _, a := range sc {
		var fs []Term
		for _, f := range a.Frames {
			fs = append(fs, L(S(f.Func), S(f.File), ZI(f.Line), ZI(f.Column), ZI(f.StartLine)))
		}
		l = append(l, L(Bool(a.Err), S(a.Bid), L(fs...), S(a.Body)))
	}
	return L(l...)
}

func c12SortedKeys(m map[string]bool) []string {
	var ks []string
	for k := range m {
		ks = append(ks, k)
	}
	sort.Strings(ks)
	return ks
}

// c12Sym runs one whole Symbolize case.
func c12Sym(c *Ctx, gen, mode string, p *profile.Profile, ms plugin.MappingSources, script []c12Answer) {
	c12SymN(c, gen, mode, p, ms, script, false)
}

// c12SymN: twice = the same Symbolizer object symbolizes the same profile a second time (op "sym2").
func c12SymN(c *Ctx, gen, mode string, p *profile.Profile, ms plugin.MappingSources, script []c12Answer, twice bool) {
	if p.CheckValid() != nil {
		return // only valid profiles are in the property's domain
	}
	before := DumpProfile(p)
	names := map[string]bool{}
	for _, f := range p.Function {
		names[f.SystemName] = true
	}
	for _, a := range script {
		for _, f := range a.Frames {
			names[f.Func] = true
		}
	}
	// tables of the url-based tests
	var srcT, symzT, httpT []Term
	seenSrc := map[string]bool{}
	var keys []string
	for k := range ms {
		keys = append(keys, k)
	}
	sort.Strings(keys)
	for _, k := range keys {
		var l []Term
		for _, s := range ms[k] {
			l = append(l, L(S(s.Source), ZU(s.Start)))
			if !seenSrc[s.Source] {
				seenSrc[s.Source] = true
				if z := symbolz.VerifC12Symbolz(s.Source); z != "" {
					symzT = append(symzT, L(S(s.Source), S(z)))
				}
			}
		}
		srcT = append(srcT, L(S(k), L(l...)))
	}
	seenF := map[string]bool{}
	for _, m := range p.Mapping {
		if !seenF[m.File] {
			seenF[m.File] = true
			if c12IsHTTP(m.File) {
				httpT = append(httpT, L(S(m.File), Bool(true)))
			}
		}
	}

	sc := &c12Script{ans: script}
	sym := &symbolizer.Symbolizer{Obj: &c12Tool{sc}, UI: c12UI{}, Transport: &c12RT{sc}}
	var obs Term
	var serr error
	func() {
		defer func() {
			if e := recover(); e != nil {
				obs = L(S("panic"), S(fmt.Sprint(e)))
			}
		}()
		serr = sym.Symbolize(mode, ms, p)
		if twice && serr == nil {
			serr = sym.Symbolize(mode, ms, p)
		}
	}()
	changed := false
	if obs == nil {
		after := DumpProfile(p)
		changed = Render(after) != Render(before)
		obs = L(S("ok"), Bool(serr != nil), after, Bool(p.CheckValid() == nil), L(sc.log...))
		for _, f := range p.Function {
			names[f.SystemName] = true
		}
	}
	// demangle.Filter answers for every name that can be asked about, per demangler mode
	var filtT []Term
	for _, dm := range []string{"", "templates", "full"} {
		var tab []Term
		for _, n := range c12SortedKeys(names) {
			cands := []string{n}
			if strings.HasPrefix(n, "_") {
				cands = append(cands, n[1:])
			}
			for _, s := range cands {
				if d := demangle.Filter(s, symbolizer.VerifC12Options(dm)...); d != s {
					tab = append(tab, L(S(s), S(d)))
				}
			}
		}
		filtT = append(filtT, L(S(dm), L(tab...)))
	}
	op := "sym"
	if twice {
		op = "sym2"
	}
	in := L(S(op), S(mode), before, c12DumpScript(script), L(srcT...), L(symzT...), L(httpT...), L(filtT...))
	tags := []string{"mode:" + strings.ToLower(mode)}
	if serr != nil {
		tags = append(tags, "returned-error")
	}
	if changed {
		tags = append(tags, "profile-changed")
	}
	if len(sc.log) > 0 {
		tags = append(tags, "plugin-called")
	}
	c.Case(gen, in, obs, len(sc.log) > 0 || changed, tags...)
}

func runC12(c *Ctx) {
	r := c.R
	// 1. whole-Symbolize cases: random valid profile x mode x script x sources
	n := c.Budget(450, 6000)
	for k := 0; k < n; k++ {
		p := c12Profile(r, false)
		ms := c12Sources_(r, p)
		mode := PickS(r, c12Modes)
		if r.P(1, 2) {
			mode = PickS(r, []string{"", "local", "remote", "force", "local:force", "remote:force", "demangle=full", "demangle=templates"})
		}
		c12Sym(c, "random", mode, p, ms, c12ScriptGen(r, p, ms, 7))
	}
	// 2. no failures: everything answers, so that symbolization goes deep
	for k := 0; k < c.Budget(170, 1500); k++ {
		p := c12Profile(r, false)
		for _, m := range p.Mapping {
			if r.P(2, 3) {
				m.HasFunctions, m.HasFilenames, m.HasLineNumbers = false, false, false
				m.File = "/bin/app"
			}
		}
		ms := c12Sources_(r, p)
		c12Sym(c, "all-answer", PickS(r, []string{"", "local", "remote", "force", "remote:force"}), p, ms, c12ScriptGen(r, p, ms, 1000))
	}
	// 3. function ids right below 2^64 (the id headroom hypothesis fails: validity is not demanded,
	//    the wrap-around itself is compared with the model)
	for k := 0; k < c.Budget(30, 200); k++ {
		p := c12Profile(r, true)
		ms := c12Sources_(r, p)
		c12Sym(c, "id-wrap", PickS(r, []string{"", "local", "remote:force", "force"}), p, ms, c12ScriptGen(r, p, ms, 20))
	}
	// 4. the witnesses of the repaired defects F12 (sparse ids) and F13 (<unknown>) are always replayed
	{
		p := &profile.Profile{SampleType: []*profile.ValueType{{Type: "samples", Unit: "count"}}}
		m := &profile.Mapping{ID: 1, Start: 0x1000, Limit: 0x2000, File: "/bin/app"}
		f := &profile.Function{ID: 2, Name: "<unknown>", SystemName: "<unknown>"}
		l1 := &profile.Location{ID: 1, Mapping: m, Address: 0x1100, Line: []profile.Line{{Function: f}}}
		l2 := &profile.Location{ID: 2, Mapping: m, Address: 0x1200}
		p.Mapping, p.Function, p.Location = []*profile.Mapping{m}, []*profile.Function{f}, []*profile.Location{l1, l2}
		p.Sample = []*profile.Sample{{Location: []*profile.Location{l1, l2}, Value: []int64{1}}}
		script := []c12Answer{{}, {}, {Frames: []plugin.Frame{{Func: "<lambda>", File: "a.cc", Line: 3}}}, {Frames: []plugin.Frame{{Func: "g", File: "a.cc", Line: 4}}}}
		c12Sym(c, "repaired-F12-F13", "local", p, plugin.MappingSources{}, script)
	}
	{
		p := &profile.Profile{SampleType: []*profile.ValueType{{Type: "samples", Unit: "count"}}}
		m := &profile.Mapping{ID: 1, Start: 0x1000, Limit: 0x2000, File: "/bin/app"}
		f := &profile.Function{ID: 2, Name: "<unknown>", SystemName: "<unknown>"}
		l1 := &profile.Location{ID: 1, Mapping: m, Address: 0x1100, Line: []profile.Line{{Function: f}}}
		l2 := &profile.Location{ID: 2, Mapping: m, Address: 0x1200}
		p.Mapping, p.Function, p.Location = []*profile.Mapping{m}, []*profile.Function{f}, []*profile.Location{l1, l2}
		p.Sample = []*profile.Sample{{Location: []*profile.Location{l1, l2}, Value: []int64{1}}}
		ms := plugin.MappingSources{"/bin/app": []c12Source{{"http://host/debug/pprof/profile", 0x1000}}}
		c12Sym(c, "repaired-F12-F13", "remote", p, ms, []c12Answer{{Body: "0x1200 <lambda>\n"}})
	}
	// 4a. the same Symbolizer symbolizes the same profile twice
	for k := 0; k < c.Budget(80, 1500); k++ {
		p := c12Profile(r, false)
		ms := c12Sources_(r, p)
		mode := PickS(r, []string{"", "local", "remote", "force", "local:force", "remote:force", "none", "demangle=full", "fastlocal"})
		c12SymN(c, "twice", mode, p, ms, c12ScriptGen(r, p, ms, 12), true)
	}
	// 4b. the driver's pipeline around Symbolize (c12fetch.go)
	runC12Fetch(c)
	// 5. direct calls of the pure helpers
	ext := []uint64{0, 1, 2, 0x1000, 1<<63 - 1, 1 << 63, 1<<63 + 1, math.MaxUint64 - 1, math.MaxUint64, 1 << 32}
	adj := func(a uint64, o int64) {
		v, ov := symbolz.VerifC12Adjust(a, o)
		c.Case("adjust", L(S("adjust"), ZU(a), Z(o)), L(Bool(!ov), ZU(v)), o != 0, "op:adjust")
	}
	for _, a := range ext {
		for _, o := range ext {
			adj(a, int64(o))
			adj(a, -int64(o))
		}
	}
	for k := 0; k < c.Budget(200, 4000); k++ {
		a, o := r.U64()>>uint(r.Intn(64)), r.I64()>>uint(r.Intn(64))
		if r.P(1, 3) {
			a = c12PickU(r, ext) + uint64(r.Intn(5)) - 2
		}
		if r.P(1, 3) {
			o = int64(c12PickU(r, ext)) + int64(r.Intn(5)) - 2
		}
		if r.P(1, 4) {
			o = -int64(a) + int64(r.Intn(5)) - 2
		}
		adj(a, o)
	}
	// regular expression of symbolz answers: lines over a small alphabet around the syntax
	alpha := []string{"0", "x", "0x", "1f", "A", "g", " ", "\t", "\r", "\f", "\v", "  ", "name", "0x1", "X", "+", "\xff"}
	for k := 0; k < c.Budget(200, 5000); k++ {
		var sb strings.Builder
		for j := r.Intn(8); j > 0; j-- {
			sb.WriteString(PickS(r, alpha))
		}
		line := sb.String()
		m := symbolz.VerifC12Match(line + "\n")
		obs := L()
		if len(m) == 3 {
			obs = L(S(m[1]), S(m[2]))
		}
		c.Case("re", L(S("re"), S(line)), obs, len(m) == 3, "op:re")
	}
	// removeMatching / looksLikeDemangledCPlusPlus over names built from brackets
	br := []string{"(", ")", "<", ">", "a", "::", "b", "[", "]", ".<", "]).", ""}
	for k := 0; k < c.Budget(200, 5000); k++ {
		var name string
		if r.P(1, 4) {
			name = PickS(r, c12SysNames)
		} else {
			var sb strings.Builder
			for j := r.Intn(9); j > 0; j-- {
				sb.WriteString(PickS(r, br))
			}
			name = sb.String()
		}
		st, en := byte('('), byte(')')
		if r.Bool() {
			st, en = '<', '>'
		}
		func() {
			defer func() {
				if e := recover(); e != nil {
					c.Case("rm", L(S("rm"), S(name), S(string(st)), S(string(en))), L(S("panic"), S(fmt.Sprint(e))), true, "op:rm")
				}
			}()
			out := symbolizer.VerifC12RemoveMatching(name, st, en)
			c.Case("rm", L(S("rm"), S(name), S(string(st)), S(string(en))), S(out), out != name, "op:rm")
		}()
		c.Case("looks", L(S("looks"), S(name)), Bool(symbolizer.VerifC12LooksLikeDemangled(name)), name != "", "op:looks")
	}
	// 6. the end-to-end layer: driver.PProf, an interactive session, the web handlers (c12e2e.go)
	runC12E2E(c)
}
