"""C02 configuration for bin/check."""
CFG = dict(
    level="proof", pfile="P_C02.v", rmod="R_C02", judge="judge_C02", shard=150,
    rule="byte strings: valid encodings of generated profiles, structure-aware mutations (bit flips, truncation, +-1, insert/"
         "delete, duplicated slices), every single-byte truncation of small encodings (exhaustive), wire-format field soups, "
         "concatenations, gzip wrappers (valid, truncated, corrupted), the repository's legacy test files and mutations of "
         "them, legacy documents with hostile memory maps and extreme numbers, binary CPU profiles with extreme words, "
         "labels the decoder drops -> profile.ParseData outcome {err | ok(dump) + Write/Copy/Compact/Merge/all text reports} ; the gzip reader's "
         "and the legacy chain's answers are shipped as oracle values; distinct = sha256 of input; non-trivial = length > 8",
    spec_what="ParseData panicked / was slow, or returned a profile violating the validity contract, or a follow-up "
              "operation (Write, Copy, Compact, Merge, a text report) crashed on a returned profile",
    trusted_base=["compress/gzip and the six legacy parsers are oracles of the model (their answers are taken from the run)",
                  "internal/report generation is exercised, not modelled, in this check (see C04/C05/C18)"],
    assumptions=["Go-runtime panics inside regexp-driven legacy parsers cannot be excluded by a theorem; they are explored",
                 "CheckValid's pointer-identity tests are vacuous on id-resolved profiles (see M_Valid.v)"],
    level_text="Theorems for ALL byte strings: the protobuf parser never panics and never runs out of fuel "
               "(parse_total_proto), ParseData returns only CheckValid-gated profiles for any gzip/legacy oracle, CheckValid + "
               "reference resolution imply the validity contract (parse_returns_valid); what the protobuf parser returns is valid in "
               "the codec's full sense - every decoded number within its Go type (decodeVarint < 2^64), labels regrouped in key order, "
               "unit lists well formed - so it can be written (parsed_profile_can_be_written_partial) and copied, the copy being its "
               "normal form (parsed_profile_is_valid, parsed_profile_can_be_copied: the bridge to C01's round-trip theorems); the "
               "legacy text parsers and the 'compacted/reported' part of the clause are explored on every generated input.",
    level_note="proof for the protobuf path and the validity gate; partial (exploration) for panics inside the legacy text "
               "parsers and for the follow-up operations on returned profiles",
)
