"""C01 configuration for bin/check."""
CFG = dict(
    level="proof", pfile="P_C01.v", rmod="R_C01", judge="judge_C01", shard=150,
    rule="inputs: (a) generated valid in-memory profiles (sparse/huge ids, shared/unused locations, 0..3 sample types, "
         "multi-valued string and numeric labels with nil/all-empty/mixed units, extreme int64, meta/non-UTF8 strings, "
         "1..3 inline lines) -> serialize bytes, Parse(Write(p)) and Copy dumps; (b) exhaustive list lengths 0..5 x 0..5 around "
         "the packed switch with extreme values and ids near 2^64; (c) byte strings: valid encodings, structure-aware "
         "mutations, wire-format field soups, edge inputs -> ParseUncompressed result + re-serialization; distinct = sha256 of "
         "the input term; non-trivial = a sample with a label or >= 2 locations (profiles), length > 8 (bytes)",
    spec_what="write/parse round trip differs from normalize(p), or a parsed profile does not survive write-then-parse / "
              "does not re-serialize to identical bytes, or serialization panics on a units-well-formed profile",
    trusted_base=["compress/gzip (Write/Parse path) is outside the model",
                  "harness DumpProfile canonicalisation (maps dumped key-sorted, pointers as ids)"],
    assumptions=["dense-slice vs map id tables of postDecode are modelled as one 'last definition wins' lookup",
                 "Go maps are modelled as key-sorted association lists (the harness dumps them sorted)"],
    level_text="Theorems for ALL inputs: varint and field codec round trips, every message codec, "
               "write_parse_roundtrip (parse (serialize p) = normalize p for every valid, units-well-formed profile), "
               "parse never panics / never runs out of fuel on any byte string; model tied to the code by byte-exact "
               "comparison of serialize and of ParseUncompressed results on generated profiles and hostile bytes.",
    level_note="Proof about the Gallina model M_Codec (transcription of proto.go/encode.go); gzip, the Go runtime and the "
               "harness dumper are trusted; correspondence is sampled (differential), the theorems are not.",
)
