"""C03 configuration for bin/check."""
CFG = dict(
    level="proof", pfile="P_C03.v", rmod="R_C03", judge="judge_C03",
    level_text="TODO",
    level_note="TODO",
    rule="TODO",
    spec_what="merge result differs from the C03 statement",
    trusted_base=[],
    assumptions=[],
    shard=150,
)
