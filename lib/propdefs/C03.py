"""C03 configuration for bin/check."""
CFG = dict(
    level="proof", pfile="P_C03.v", rmod="R_C03", judge="judge_C03",
    level_text="Theorems about the executable model of profile.Merge (all input lists, no bounds): per (stack, label set) identity "
               "and sample-type column the result weight is the int64 sum of the inputs (merge_conserves, totals_conserved), exactly "
               "one non-zero sample per identity with that sum or none when it is zero (merge_exact, merge_distinct, "
               "merge_no_zero_sample), result passes CheckValid with ids 1..n (merge_valid), weights independent of input order "
               "(merge_perm), header rules (merge_headers, merge_period_max with its F25 _refuted twin, comments_dedup_is_union), "
               "the re-merge recursion stops after one extra pass (remerge_terminates), Compact returns a merge result unchanged, ids "
               "and order included (compact_idempotent), the per-source memo tables are pure memoisation (merge_memo_equiv), Merge succeeds on compatible inputs (merge_total), key encodings injective (sample_key_injective, location_key_lines_injective). An end-to-end layer drives driver.PProf (command lines, sessions, web handlers) and judges the parsed-back -proto/-raw//download "
               "outputs with the glue model M_MergeGlue (chunked_grab_conserves, fetch_base_subtracts). The model is tied to /repo's Merge by comparing COMPLETE result dumps (ids and order "
               "included) on 1.2k generated lists per quick run (60k thorough) and sampleKey byte for byte.",
    level_note="Identities never mention ids: frame = (binary = page-rounded size/offset/build-id-or-file, address - mapping start, "
               "[(function name, system name, file, start line), line, column] in inline order, folded). Not provable in an id model but evaluated on "
               "every case: aliasing/mutation of inputs (reflect pointer sets, Go side), "
               "kernel relocation symbol provenance. Trusted: Coq kernel + vm_compute, harness; the two string-valued keys are "
               "modelled as the tuples they encode, their encodings are transcribed, compared with the real keys and proved injective.",
    rule="inputs = lists of 0..6 profiles instantiated from one pool of functions/mappings/locations/samples with per-profile id "
         "layouts (dense, shuffled, sparse/huge, rotated so ids collide) and load addresses; duplicate records INSIDE one input (same stack and labels; cancelling, partly cancelling, cancelling in one column, "
         "three-way, int64-wrap cancelling, adding + literal zero, cancel-and-revive; with both / no / string / numeric labels; as a one-element "
         "list through Merge and through p.Compact(), and in 2-3 input lists); histories (an input or an earlier RESULT that has been through Merge/Compact is edited in place -- Aggregate flags, "
         "attributes made alike or made different, random point edits -- and merged / compacted again; random sessions over live "
         "profiles; every operation is judged on the dump taken immediately before it); END TO END through driver.PProf (incl. weights beyond 2^53 / at the int64 extremes, heap-like / duplicate / empty value types, "
         "no-mapping sources; inputs serialised / copied / compacted before the merge; one-shot -proto/-raw command lines with option combinations, failing sources, "
         "bases, 130+ sources; interactive sessions; web requests incl. /download; outputs parsed back and compared with the glue model "
         "M_MergeGlue); systematic single-attribute pairs (incl. empty value vs value equal to another field of the entity; incl. addresses below the mapping start / at its edges; 71 "
         "attributes of mapping/function/line/location/label/num-label/stack x same-profile, two-profile, crossed, cancelling); header "
         "rule tables (times with zeros/negatives, periods, wrapping durations, comments), incompatible/empty/nil-period-type lists, "
         "GenProfile lists incl. a profile with itself or its negation, regression witnesses F1/F2/F24, finding F25; 100+ sampleKey byte "
         "cases and 100+ Location.key cases; distinct = sha256 of the input term; non-trivial = >= 2 inputs sharing >= 1 stack (pool: one sample spec used in two "
         "inputs; attr-two/cross/cancel by construction)",
    spec_what="Merge result is not valid / does not conserve some stack's weights or totals / duplicates or keeps a zero stack / breaks a "
              "header rule / aliases or modifies its inputs / depends on input order / is not a fixed point of Compact",
    trusted_base=["Go harness generators, reflect-based pointer-reachability and before/after snapshots of the inputs incl. unexported fields (aliasing and "
                  "mutation of inputs are observed on the Go side, not modelled)",
                  "pointer identity of entities is represented by ids: faithful for sources with unique ids (CheckValid); the per-source "
                  "id memo tables are transcribed in M_MergeMemo and proved not to change the result (merge_memo_equiv)",
                  "locationKey.lines and sampleKey are modelled by the tuples they encode; their string encodings are transcribed (lines_key, "
                  "skey_bytes), proved injective (location_key_lines_injective, sample_key_injective) and compared with the real keys on every run"],
    assumptions=["end-to-end layer: symbolisation off, equal sample types/units across sources (CompatibilizeSampleTypes/ScaleProfiles = identity), periods "
                 "below 2^53 (ScaleProfiles converts Period through float64), no drop/keep frames, no URL-like mapping files",
                 "input profiles are valid (CheckValid) with unique ids; int64/uint64 fields are in range (Go types)",
                 "binary identity = Mapping.key's notion of the same binary (page-rounded size, offset, build id or else file)",
                 "Merge of >= 2 in-memory profiles with a nil PeriodType panics (compatible() dereferences it); Parse never produces "
                 "one, such lists are outside the statement's domain (modelled and compared, not judged)"],
    shard=100,
)
