"""C04 configuration for bin/check."""
CFG = dict(
    level="proof", pfile="P_C04.v", rmod="R_C04", judge="judge_C04", shard=110,
    level_text="Theorems (all sample lists over any entry key type, all kept sets, int64 wrap-around explicit): the graph's flat, cum, "
               "edge weight and their mean divisors equal the definition sums over samples (leaf / occurs-anywhere-once / adjacency-once), "
               "call-tree numbers equal the per-path sums, the report total equals the sum of absolute values (base-only when diffing), "
               "printers project the graph's FlatValue/CumValue/WeightValue; model tied to the code by differential cases over "
               "granularity x noinlines x sample_index x mean x call_tree x tagroot/tagleaf x 7 output forms. End-to-end layer: every text form is "
               "produced by driver.PProf from a flag set (parseFlags, Fetcher plug-in, report, plugin.Writer), an interactive session "
               "(assignments, `cmd N >file`) or the web /top handler; the glue is modelled (command overrides of nodecount/trim, legacy "
               "sample-index flags, entry-point sample_index rules, web top = 500 entries, trimPath on every graph build) with theorems "
               "explicit_nodecount_kept, notrim_switches_limits_off, legacy_keeps_explicit_index.",
    level_note="Entry identity (nodeInfo + Aggregate) is part of the model and is tied by correspondence only; numbers are parsed back out "
               "of -top/-tree/-dot/-callgrind/-traces text; filepath.Clean, DOT escaping, float percentages, tags/nodelets are outside the model.",
    rule="inputs = (profile, options, output form): hand-made stack shapes (recursion, repeated inlined frames, shared/unsymbolized "
         "locations, empty stacks, cancelling values, diff-base labels, tag roots) x all granularities, plus random valid profiles x "
         "sampled option combinations x forms; distinct = sha256 of the input term; non-trivial = the profile has a recursive or an "
         "inlined (multi-line) stack. End-to-end streams: an 83-entry profile (more than the default limit of 80) with nodecount "
         "0 / not given / trim=false for tree, dot, top through cli, session (own numeric argument) and web; option combinations x "
         "{cli, session with decoy assignments and a previous command, web /top}; legacy -inuse_space/-mean_delay... flags. Round 5 (deterministic): "
         "label pseudo frames with string AND numeric values under one tag key, units, zero/negative/huge numbers, absent / repeated / "
         "unknown keys; profiles without samples, all-zero samples, unnamed functions, locations without mapping or lines, id gaps",
    spec_what="a flat/cum/edge/total number in some output form differs from its definition over the samples",
    trusted_base=["text parsers of the harness (numbers parsed back out of report text)",
                  "entry identity (graph.nodeInfo, profile.Aggregate) modelled, not proved against a spec",
                  "measurement.ScaledLabel on numeric tag values shipped as an answer table",
                  "filepath.Clean is the identity on the generated (clean) paths",
                  "plug-in stubs of the end-to-end layer (Fetcher returning the serialized profile, no-op symbolizer, capturing Writer/UI)",
                  "sample type names are distinct (CompatibilizeSampleTypes on equal names is C07's subject)"],
    assumptions=["sample values of text-form cases are small integers in unit 'count' so that they print as raw integers",
                 "sort.Sort returns the unique sorted order (node orders are total on the generated names: no spaces in names, C08/F8)"],
 )
