"""C13 configuration for bin/check."""
CFG = dict(
    level="proof", pfile="P_C13.v", rmod="R_C13", judge="judge_C13", shard=250,
    level_text="Theorems (all ELF program-header lists, all page-aligned biases, all page-aligned pieces of a segment's image, all addresses; "
               "no bounds): for an ET_DYN/ET_EXEC object whose PT_LOAD segment p (offset = vaddr mod 4096, file bytes present) is mapped by the "
               "loader model at bias, every address among p's own bytes inside the piece is translated by ObjAddr to address - bias or to an "
               "error (user_base_is_bias), the owner is always among ProgramHeadersForMapping's candidates (owner_in_headers), "
               "HeaderForFileOffset returns the owner or an error, never another header (unique_or_error, owner_or_error), the translation "
               "succeeds whenever the owner is the only PT_LOAD header whose file range contains the address's file offset "
               "(identified_owner_succeeds), base-once sequences keep the bias (obj_addr_seq_meets_spec), the evaluated checkers accept the "
               "model on every input (obj_addr_meets_spec, addr_info_meets_spec); nm lookup over any sorted table returns a symbol with the "
               "greatest start not above the address, data symbols only within their size (addr_info_greatest_le, addr_info_none_reason), "
               "binary search fuel suffices; glue: locateBinaries never replaces the recorded file by a file with another (or no) build id when the profile records one, Merge lands a mapping on a merged mapping with the same key and its rebased addresses denote the same link-time addresses, fast symbolization of a mapping looks every location up in the nm table shifted by the load bias and finds the symbol containing address - bias massageMappings merges consecutive pieces of one segment image into a piece with the same start - offset (pieces_adjacent, merge_adjacent_piece); (locate_build_id, merge_mapping_same_key, rebase_preserves_link, symbolize_mapping_bias, fast_lookup_link_address); request and answer of an addr2line / llvm-symbolizer conversation stay paired: after every request the pipe is drained, so the k-th answer is the tool's answer for address_k - base whatever was asked before (conversation_paired, conversation_meets_spec, llvm_conversation_paired); objects returned by Open are independent: along every history of Open/ObjAddr/SetFastSymbolization/Close on one Binutils each object answers as a stand-alone file, hence address - bias per object (session_handle_independent, session_handle_meets_spec, open_elf_user_ok); addr2Liner.addrInfo's nm fix-up consults the runtime-keyed table (link address + base) with the runtime address and replaces only the non-inlined frame's name (a2l_fixup_meets_spec); all outside the known-finding class F23 (refuted twin proved). Model tied to the code by ~4,800 "
               "differential cases per quick run (GetBase incl. kernel heuristics, ProgramHeadersForMapping, HeaderForFileOffset, "
               "computeBase/ObjAddr through a fake elfOpen, parseAddr2LinerNM+addrInfo, addr2Liner.addrInfo with a scripted pipe and an attached nm table).",
    level_note="Kernel heuristics of GetBase/kernelBase are corresponded only (the statement does not cover kernel images). Addresses in the "
               "page padding a mapping shares with a neighbouring segment's file bytes are outside the theorem (own_bytes_hypothesis_needed "
               "shows the hypothesis is forced). The loader model (S_Elf.image/pieceb) is the specification side; the thorough tier validates "
               "it against real /proc/self/maps of gcc/clang-built binaries. Trusted: Coq kernel + vm_compute, harness, debug/elf, the "
               "external symbolizer tools (addr2line, llvm-symbolizer, nm) that receive address - base.",
    rule="inputs = (op, ...): loader-driven objaddr cases = linker-like layout (1..4 PT_LOAD, max-page-size 4K/64K/2M, packed / separate-code / "
         "page-sharing segments, bss, pure-bss segments, non-zero first offset) x bias (0, 4K, 2M, 0x5555.., 0x7f.., near 2^47, = segment "
         "offset) x piece of the owner's image (whole, first/last page, random sub-range, coalesced) x 1..4 addresses at segment / page / "
         "neighbour-file-range edges; plus unit cases for GetBase (kernel thresholds, empirical kernel tuples), ProgramHeadersForMapping "
         "(offsets/limits at every comparison threshold, wrap-around headers), HeaderForFileOffset, objaddr with arbitrary mappings "
         "(error paths, kernel paths, nil mapping, open failure, ET_REL/ET_NONE, no PT_LOAD), nm tables (ties, zero/huge sizes, data and "
         "code types, junk lines, wrap-around bases). a2lnm cases (contiguous text tables x base {0, small, pages, below text size, large} x runtime address x truncated / full / unrelated addr2line names x inlined frames). session cases = histories on ONE Binutils through the public API over real minimal ELF files (1..2 files x 1..2 biases x every segment's image or a piece, shuffled order, repeated opens, interleaved ObjAddr across objects, SetFastSymbolization / Close in between, tiny page-sharing layouts preferred). conv cases = 2..10 addresses asked of ONE addr2Liner (optionally with nm) or ONE llvmSymbolizer over one simulated pipe (known / inlined / half-known / unknown addresses, file:line forms, repeats). e2e cases = worlds (ELF files with symbol tables on disk, processes, profile files) pushed through driver.PProf (-proto/-top/-traces, several sources, -diff_base, option combinations), an interactive session and the web /top handler with the real binutils + nm/llvm-symbolizer; deterministic decisive worlds (same runtime address in two binaries, two runs of one PIE with different extents, stale builds in PPROF_BINARY_PATH, page-sharing tiny object) + random worlds. legacy worlds = the same worlds written as legacy text profiles with a /proc/self/maps memory map (split / huge-page / gap / missing-first-part / 0x400000 / library-first shapes) through the real legacy parser, massageMappings and remapMappingIDs. distinct = sha256 of the input term; non-trivial = a mapping, >= 1 address and >= 1 "
         "PT_LOAD (objaddr), a segment given (getbase), >= 2 headers (phm, hffo), >= 2 symbols and >= 1 address (nm)",
    spec_what="an address among the owning segment's own bytes in a loader-made mapping was translated to something other than "
              "runtime address - load bias (or an error was returned although the owner is the only header containing its file offset), "
              "or a symbol lookup returned a symbol that is not the greatest start not above the address / a data symbol beyond its size",
    trusted_base=["loader model S_Elf.image/pieceb (specification side; validated against real /proc/self/maps in the thorough tier)",
                  "export shim harness/overlay/internal/binutils/zz_verif_c13.go (fake elfOpen, fresh file object per case)",
                  "error values compared by the site that produced them (substring of the message)",
                  "debug/elf header parsing, external tools addr2line/llvm-symbolizer/nm (they receive address - base)"],
    assumptions=["page size 4096 (the constant the code uses)",
                 "the first address asked of a file object is one of the owning segment's own bytes [bias+Vaddr, bias+Vaddr+Memsz), not page padding",
                 "runtime mappings are page-aligned sub-ranges of ONE segment's file-backed image (mappings coalesced across segments are corresponded, not specified)",
                 "a session keeps no address-translation state between the objects one Binutils returns (that is the model; the session stream checks it)",
                 "the symbolizer tool is well behaved: it answers every request line, prints ?? / ??:0 for the sentinel, and no function name starts with 0x (a2l_tool_ok); the JSON text of llvm-symbolizer is outside the model",
                 "end-to-end: nm, llvm-symbolizer (or addr2line) are installed and report the symbol table of the harness-written ELF files faithfully; names are C-like (no demangling); the e2e composition of the glue model is tied to the code by correspondence, not by one theorem",
                 "images lie below 2^63 and mapping start > 0 (user space); kernel images are outside the statement"],
)
