"""C13 configuration for bin/check."""
CFG = dict(
    level="proof", pfile="P_C13.v", rmod="R_C13", judge="judge_C13",
    level_text="TODO",
    level_note="TODO",
    rule="TODO",
    spec_what="an address of a loader-made mapping was translated to something else than runtime address - load bias (or an error was returned although the owning segment is unique), or a symbol lookup returned a symbol that is not the greatest start not above the address",
    trusted_base=[],
    assumptions=[],
)
