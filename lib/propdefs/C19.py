"""C19 configuration for bin/check."""
CFG = dict(
    level="proof", pfile="P_C19.v", rmod="R_C19", judge="judge_C19",
    level_text="Theorems (all field tables satisfying the decidable table_ok, all option values, all float oracles): configuration -> URL -> "
               "configuration restores every saved option that has a URL parameter ('' = unset = default), defaults are elided, applyURL touches "
               "nothing the URL does not mention, Atoi inverts Sprint on every int; save/delete satisfy the very checkers (save_ok/delete_ok) that are "
               "evaluated on the implementation's files: the saved name restores the configuration, all other names are untouched, failed requests "
               "leave the file alone; crash_atomic: for EVERY system-call list accepted by the recogniser protocol_ok, a kill between any two calls or "
               "inside any write after any byte leaves the complete old or complete new contents (the recogniser is evaluated on the calls the code "
               "really issues, recovered by strace each run); edits_serializable: every schedule of mutex-guarded read-modify-write requests equals "
               "a sequential order. Table facts re-proved by vm_compute on configFields regenerated from /repo each run. Model tied to the code by "
               "~1.1k differential cases per quick run plus kill/fault injection at every system call of 5 saves and 40 concurrent request mixes. End-to-end layer: pprof is started through driver.PProf with option flags and -http; saves/deletes go to the registered handlers with url-encoded names, the menu is parsed back from served HTML; the flag glue is modelled (M_Flags) and save_keeps_options_in_force is proved.",
    level_note="Known findings F25 (invalid UTF-8 is coerced by json.Marshal) and F26 (tagroot/tagleaf are saved but have no URL parameter) are "
               "stated as _refuted theorems with witnesses. Trusted: Coq kernel + vm_compute, translator gen-configtable, harness + strace hook, "
               "encoding/json and net/url (abstracted: JSON keeps saved fields, query Encode/Query round-trips), strconv.ParseFloat/fmt.Sprint on "
               "float64 (oracle shipped with each case), atomicity of rename(2); power-loss durability (fsync ordering) is outside the model "
               "(crash = process kill or failing system call).",
    translators=[("gen-configtable", "Gen/Gen_ConfigTable.v")],
    rule="cases = (a) url: (config, base query) -> makeURL -> applyURL on the default config: random configs (mostly-default / mixed / all-random "
         "over value pools with boundary ints, floats incl. -0/NaN/Inf, metacharacter strings) x empty or random base query, plus every field x "
         "value one-at-a-time; (b) apply: random config x random query incl. junk values (error paths, order of failing fields); (c) seq: random "
         "histories of save/delete/menu requests on an absent / existing (duplicate names possible) / corrupt settings file, observed through "
         "readSettings after every step; (d) conc: 2-5 concurrent save/delete requests on one file, final file compared with all sequential "
         "orders; (e) fs (python hook): 5 saves traced with strace, killed at every system call and failed at every system call. "
         "(f) failed edits followed by more work IN THE SAME PROCESS: seq histories contain save!/delete! requests whose write to disk fails "
         "(RLIMIT_FSIZE, EFBIG) and refused requests, followed by menu renders and further saves/deletes (stream seq-failed-edit: file with "
         "3-4 named configs, 1-2 failing edits of existing names, then 1-3 more requests); every step is observed twice: through readSettings "
         "and by an independent JSON decode of the file, which must agree; fs-edits (python hook): one process does overwrite/delete/append, "
         "with each system call of its writeSettings part failed by strace in turn, then menu/save/delete/save. "
         "(f') read faults: save?/delete?/menu? requests run while settings.json cannot be read (mode 000 in a writable directory; as root the "
         "process's file-system uid is switched to nobody for the request) and, in fs-edits, with EACCES/EPERM/EIO injected at the open/read; "
         "(h) END-TO-END: pprof started through driver.PProf with option flags and -http; /saveconfig, /deleteconfig and the Config menu read back "
         "from served HTML; deterministic in every quick run: names changing under URL decoding stored with their decoded twins, saving over the "
         "entry the menu marks current while flags shape the view, a refused command line; random: 30 histories of flags x names x requests; "
         "(i) leftovers: stray files (a long settings.json.tmp, other .tmp*, ~, .bak, .swp, a directory) next to settings.json before the "
         "requests of every other seq-failed-edit / every third seq-random case and of three deterministic seq-stray cases; fs-kill-then-edit: "
         "after every kill point a NEW process deletes / renders / saves / deletes on top of what the killed save left; "
         "(g) burst: the FIRST edits a never-edited settings file sees arrive simultaneously (spin barrier, 3-8 requests with distinct names, "
         "half through the HTTP handlers); the final file is compared up to order with the sequential result. "
         "distinct = sha256 of the input term; non-trivial = URL changed (url), non-empty query (apply), at least one successful edit (seq), always (conc, fs)",
    spec_what="saved configuration / URL round trip / settings history / crash point / concurrent edit differs from the C19 statement",
    trusted_base=["translator gen-configtable (dumps configFields incl. a behavioural probe of resetTransient)",
                  "strconv.ParseFloat + fmt.Sprint on float64: oracle table shipped with each case (hypothesis of the theorems: any function)",
                  "encoding/json: saved fields survive Marshal/Unmarshal, strings go through the shipped coercion table, non-finite floats fail; omitempty drops -0",
                  "net/url Values.Encode / URL.Query round trip",
                  "strace 6.1 log of the harness child (system calls -> M_Fs ops by lib/c19_fs.py); rename(2) atomic, page cache survives a kill"],
    assumptions=["crash = the process is killed or a system call fails; power loss (fsync ordering) is not modelled",
                 "in-process write failures are produced with RLIMIT_FSIZE=8 + ignored SIGXFSZ (write(2) fails with EFBIG), other failure points with strace error injection",
                 "float options are compared as numbers (-0 = 0: omitempty drops -0 and it is read back as 0)",
                 "concurrent requests: the final file is compared with all sequential orders (2-5 requests); the theorem covers all schedules of the mutex model"],
    shard=100,
    extra=["c19_fs.run"],
)
