"""C19 configuration for bin/check."""
CFG = dict(
    level="proof", pfile="P_C19.v", rmod="R_C19", judge="judge_C19",
    level_text="TBD",
    level_note="TBD",
    translators=[("gen-configtable", "Gen/Gen_ConfigTable.v")],
    rule="TBD",
    spec_what="saved configuration / URL round trip / settings history / crash point / concurrent edit differs from the C19 statement",
    trusted_base=[],
    assumptions=[],
    shard=100,
    extra=["c19_fs.run"],
)
