"""C18 configuration for bin/check."""
CFG = dict(
    level="proof", pfile="P_C18.v", rmod="R_C18", judge="judge_C18",
    level_text="TODO",
    level_note="TODO",
    rule="TODO",
    spec_what="DOT text is not a valid Graphviz document / an edge names an undeclared node / callgrind name or position does not decode / profile text unescaped in HTML",
    trusted_base=[],
    assumptions=[],
    shard=150,
)
