"""C18 configuration for bin/check."""
CFG = dict(
    level="proof", pfile="P_C18.v", rmod="R_C18", judge="judge_C18",
    level_text="Theorems, all universally quantified: (DOT) escapeForDot / escapeTagForDot of ANY string between double quotes is exactly one "
               "string token of an independent Graphviz lexer and reads back as the string; the label rewriting applied after escaping keeps "
               "the body well-formed; for ALL graphs, titles, legends, tags, attributes the text of the ComposeDot model is accepted by an "
               "independent DOT recogniser (dot_well_formed) and every edge endpoint is a declared node (dot_edges_declared) -- unconditional "
               "with respect to profile-derived text since the repair of F29/F30 (formatted values, file and binary names are escaped), with a "
               "refuted twin for a dangling edge; (callgrind) for ALL graphs the reference "
               "reader follows the printCallgrind model line by line: no undefined/redefined (n), every reference resolves to the intended "
               "name, node and callee positions decode (callgrind_reads_back) outside F11, and the written TEXT parses back to those lines "
               "(callgrind_text_reads_back, outside F20), with refuted twins F11/F20. END-TO-END: the same inputs go through driver.PProf (flags, Fetcher, -base/-diff_base, tagroot/tagleaf, filters, trimming, Writer), "
               "interactive sessions and the -http handlers, and what is printed is judged by the same recogniser / reader; the call-tree "
               "trimming primitive is modelled (M_Trim.v) with trim_tree_closed / trim_twice_closed (surviving edges join kept nodes when every "
               "node was listed) and the refuted twin for nodes only taken off the list. Models tied to the code by "
               "byte-level correspondence on ~1.7k cases per quick run, and the recogniser / reader are evaluated on the text the implementation wrote.",
    level_note="HTML views are partial: html/template and encoding/json are trusted, the harness fetches /top /flamegraph /peek /source through "
               "httptest and counts raw payload markers. F11 rests on the stated reading of the Callgrind manual (positions are relative to the last cost line).",
    rule="round 6: value-dependent FormatValue (zero without unit, auto-scaled units, unit on positive values only) x hostile units and "
         "sample types x zero / negative / extreme totals, synthetic, through report.GetDOT with -mean and through driver.PProf "
         "(-mean, -sample_index, -diff_base, -unit, sessions). End-to-end streams: deterministic grids (call tree with nodes below the cut-off x call_tree x nodecount x granularity; "
         "-diff_base/-base against a bigger base x 6 option sets x dot/callgrind; two fixed interactive histories), random option combinations "
         "(1..4 of 31 options) and random session histories on profiles with 8..20 functions, web requests with option parameters; TrimTree on "
         "random forests with random listed orders / kept sets. Other inputs: (esc) strings over an alphabet of DOT/callgrind/HTML metacharacters; (dot) graphs handed to ComposeDot -- synthetic ones "
         "(names, tags, attributes, extreme weights) and those report.GetDOT builds from generated profiles under call_tree / drop_negative / "
         "trimming / functions|lines|files|addresses|filefunctions, incl. diff-like profiles whose nodes net to zero; (cg) the graph "
         "printCallgrind walks for generated profiles, plus profiles whose locations come from a pool of special addresses (0 / no mapping "
         "mixed with non-zero, neighbours, length boundaries of the decimal and hex forms, 2^63, 2^64-1), coarse explicit units (zero costs) and "
         "-tagroot/-tagleaf pseudo frames; every stream also with LONG strings (90..400 bytes, dense in quotes and backslashes) in every position; (html) 4 pages x 2 queries of the web UI for profiles whose every string carries payload "
         "markers. distinct = sha256 of the input term; non-trivial = string holds a quote/backslash/newline (esc), graph has a node (dot), "
         ">= 2 nodes and an edge (cg), page is HTML and contains profile text (html)",
    spec_what="DOT text is not a valid Graphviz document / an edge names an undeclared node / callgrind name or position does not decode / profile text unescaped in HTML",
    trusted_base=["Graphviz quoted-string scanning rule as transcribed in S_Dot.v (backslash-quote, backslash-backslash pairs, backslash-newline)",
                  "reading of the Callgrind format in S_Callgrind.v (name tables per kind; positions relative to the last cost line)",
                  "oracles shipped with each case: ShortenFunctionName, FormatValue, Percentage, SortTags/collapsedTags selection, EdgeMap.Sort order, "
                  "node/edge order and scaled costs of the callgrind graph",
                  "html/template, encoding/json (HTML views: marker counting only)",
                  "case transport: long strings as lists of primitive 63-bit integers (U_C18Pack.v), runner only"],
    assumptions=["float-derived DOT attributes (fontsize, color, fillcolor) are masked on both sides of the comparison",
                 "edges / nodes that tie in pprof's own orderings (C08: F9, F19) are compared as multisets of lines (dot) or loosely (cg: the text must read)",
                 "F11: Callgrind subpositions are relative to the last cost line (manual; kcachegrind ignores call targets)"],
    shard=150,
)
