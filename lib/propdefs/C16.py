"""C16 configuration for bin/check."""
CFG = dict(
    level="proof", pfile="P_C16.v", rmod="R_C16", judge="judge_C16",
    level_text="TODO",
    level_note="TODO",
    rule="TODO",
    spec_what="status / merged profile / per-source error lines differ from what the C16 statement demands for these source lists",
    trusted_base=[], assumptions=[],
    shard=200,
)
