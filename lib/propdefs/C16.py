"""C16 configuration for bin/check."""
CFG = dict(
    level="proof", pfile="P_C16.v", rmod="R_C16", judge="judge_C16",
    level_text="Theorems (all source/base lists of any length, all per-source outcomes, all completion orders, all chunk sizes >= 1): "
               "slots, concurrentGrab and grabSourcesAndBases are independent of the completion order (Leibniz equality, no assumption on "
               "combineProfiles); chunkedGrab = one combine over all successes (profile up to 'same report', count and save exactly); one "
               "error line per failed source in command-line order; fails iff no source / no requested base was obtained; the result depends "
               "on the successes only (not on which other sources fail, where they sit relative to the 128 boundary, or the chunk size); what a "
               "request gets from the run's shared HTTP transport is independent of the requests before it and of their order; the command line "
               "keeps every mention of a source (cli_keeps_every_mention). End-to-end streams tie parseFlags/setDefaults/fetchProfiles/report glue to the model. "
               "The merge-dependent theorems assume three named laws of combineProfiles (equivalence, properness in the accumulator, "
               "combine [combine A; combine B] ~ combine (A ++ B)); they are PROVED for the toy profile instance the runner executes, and "
               "the boolean spec checker is proved sound w.r.t. the declarative spec. Model tied to the code by ~3.5k differential cases "
               "per quick run with scripted completion orders.",
    level_note="combineProfiles (Merge, sample-type/unit reconciliation, mapping-source union) is abstract: laws named combine_laws in P_C16.v, to be "
               "discharged by the C03/C07 merge model; trusted: Go WaitGroup happens-before (a goroutine = one atomic slot write), Coq kernel + "
               "vm_compute, harness (scripted Fetcher/RoundTripper, gate controller), export shim VerifC16Grab/VerifC16Fetch.",
    rule="inputs = (source list, base list, completion order[, op fetchProfiles]); per source an outcome kind (5 ways to succeed, 6 to fail: fetcher, "
         "file, HTTP) and a toy profile (sample type, distinct comment, keyed int64 samples). Streams: exhaustive m<=4 (thorough 5): all splits x m! "
         "orders x 2^m failure subsets; m=5 (6) sampled; random kinds/values incl. shared, cancelling, zero, wrap-around values and incompatible types; "
         "sizes 127..300 (thorough ..513) x 12 failure patterns aimed at the chunk switch (whole chunks failing, single success at 0/127/128/last, ...); "
         "incompatible success at the boundary; the same through fetchProfiles; stream transport: sources fetched through the run's REAL internal/transport "
         "object (http / https / https+insecure against local plain, -tls_ca-trusted and untrusted TLS servers): all kind pairs x both arrival orders, "
         "sampled triples x 6 orders, mixes with the other kinds; END-TO-END op pprof: driver.PProf (setDefaults, parseFlags, fetchProfiles, report) through "
         "-proto -output, an interactive `proto >file`, the web /download handler and -top rows, parsed back; command lines with repeated / failing / "
         "shuffled mentions, -base / -diff_base lists with empty values, odd drop_frames, 8-source completion orders (deterministic) + random; header shapes (deterministic): sources in three / four time units "
         "in every order and by alias, equal units, around failing sources, as bases and across the 128 boundary; default sample type on the first / a "
         "later / no source, around failures and across the boundary; timed HTTP sources: 12 (-seconds, -timeout) x URL seconds= combinations with the "
         "client's deadline observed, servers answering 0.3-1.5 s late under -timeout 1; HTTP sources whose names make stat fail with ENAMETOOLONG "
         "(queries of 3.9k-20k characters) or ENOTDIR (a regular file `http:` / host:port in the cwd). distinct = sha256 of the input term; non-trivial = >= 2 sources "
         "with at least one failing and one succeeding",
    spec_what="status / merged profile (sample type, contributors in order, weight per key) / per-source error lines differ from what the C16 "
              "statement demands for these source lists and outcomes",
    trusted_base=["combineProfiles abstract (laws combine_laws; proved for the runner's toy instance)",
                  "Go sync.WaitGroup happens-before / memory model: goroutine = one atomic slot write, barrier = every index occurs in the order",
                  "completion order is enforced best-effort by gates on the Fetcher (a fetch's return, not its slot write, is sequenced)",
                  "export shims harness/overlay/internal/driver/zz_verif_c16.go (build the profileSource lists like fetchProfiles does)"],
    assumptions=["fetch deadline: model fetch_timeout_ms / client_allowance_ms (adjustURL + 5 s grace of fetchURL); allowance read from the request "
                 "context deadline (rounded to 0.5 s); one real-delay case in the quick tier (1.5 s), the over-the-deadline one only in thorough",
                 "header judgement (hdr_C16): merged unit = finest unit among the fetched sources, default sample type = first non-empty among them; "
                 "values compared as physical weights (ns); period-type units and multi-column defaults not exercised",
                 "end-to-end: Obj.Open never recognises the first argument as a binary; drop_frames of the cases are inert (non-RE2 or matching nothing); "
                 "comments compared after de-duplication; -symbolize=none; local (non-remote) outcome kinds only",
                 "transport model (tr_round_trip): TLS policy per request, -tls_cert/-tls_key and the initErr path not exercised; rq_trusted is an oracle",
                 "combine_laws (P_C16.v): eqv equivalence, combine_pair_proper, combine_flat -- to be discharged by the C03/C07 merge model",
                 "mergeable: the fetched profiles can be combined at all (premise of the statement)",
                 "stderr of the source group and of the base group are compared per group (their interleaving is scheduler-dependent)"],
    shard=200,
    technique="Coq proof about an executable model + differential correspondence with scripted schedules",
)
