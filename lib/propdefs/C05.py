"""C05 configuration for bin/check."""
CFG = dict(
    level="proof", pfile="P_C05.v", rmod="R_C05", judge="judge_C05", shard=150,
    level_text="Theorems (all sample lists, EVERY kept set, any entry key type): an entry that is kept has exactly the flat/cum numbers of "
               "the untrimmed graph; every edge of a trimmed graph carries the definition sum over the kept sequence, joins shown entries, "
               "and refers to no removed entry; model of the two-pass trimming (cum cutoff, top N under the active order, "
               "edge cutoff, redundant residual edges) tied to the code around every cutoff. End-to-end layer: top/tree/dot text comes from "
               "driver.PProf (flags), an interactive session (`top N >file`) or the web /top page; call_tree with text/tree must be ignored; "
               "source_path/trim_path clean-up is modelled once per report, on the full-graph build (F42 repaired: text_report_nodes_unchanged "
               "is unconditional again; the old witness is a regression case); untrimmed_request_shows_all.",
    level_note="Cutoffs enter as the integers computed by the implementation's float expression; in graphical reports the survivor set and "
               "order (EntropyOrder, float log2) are taken from the implementation and the invariance is checked for that set; "
               "TrimTree (call_tree with dot) is not modelled.",
    rule="inputs = (profile, options with nodecount / node cutoff / edge cutoff / sort, output form): chains, diamonds and random "
         "profiles x nodecount in {0,1,2,3,n-1,n,n+1} x fractions placing the cutoff just below/at/above each distinct |cum| and "
         "edge weight x sort x text/tree/dot; distinct = sha256 of the input term; non-trivial = some trimming is active and the profile "
         "has at least 2 samples. End-to-end streams: every cutoff of every chain with call_tree set for top/tree (deterministic); "
         "source_path/trim_path configurations x lines/files/filefunctions/addresses x cutoffs; nodecount not given; trim=false; "
         "entry points cli / session (decoys, own numeric argument) / web top (500 entries)",
    spec_what="a shown entry or non-residual edge differs from the untrimmed report, the wrong entries were removed, the accounting-for "
              "figure is not the sum of the flat values shown, or an edge refers to a removed entry",
    trusted_base=["text parsers of the harness", "float cutoff expression evaluated by the harness (report.go:138-139)",
                  "survivor order of graphical reports taken from the implementation (GetDOT)",
                  "plug-in stubs of the end-to-end layer (Fetcher, no-op symbolizer, capturing Writer/UI, httptest request)"],
    assumptions=["node orders are total on the generated names (C08)", "values of text-form cases are small integers in unit 'count'"],
 )
