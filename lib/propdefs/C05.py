"""C05 configuration for bin/check."""
CFG = dict(
    level="proof", pfile="P_C05.v", rmod="R_C05", judge="judge_C05", shard=150,
    level_text="Theorems (all sample lists, EVERY kept set, any entry key type): an entry that is kept has exactly the flat/cum numbers of "
               "the untrimmed graph; every edge of a trimmed graph carries the definition sum over the kept sequence, joins shown entries, "
               "and refers to no removed entry; model of the two-pass trimming (cum cutoff, top N under the active order, "
               "edge cutoff, redundant residual edges) tied to the code around every cutoff.",
    level_note="Cutoffs enter as the integers computed by the implementation's float expression; in graphical reports the survivor set and "
               "order (EntropyOrder, float log2) are taken from the implementation and the invariance is checked for that set; "
               "TrimTree (call_tree with dot) is not modelled.",
    rule="inputs = (profile, options with nodecount / node cutoff / edge cutoff / sort, output form): chains, diamonds and random "
         "profiles x nodecount in {0,1,2,3,n-1,n,n+1} x fractions placing the cutoff just below/at/above each distinct |cum| and "
         "edge weight x sort x text/tree/dot; distinct = sha256 of the input term; non-trivial = some trimming is active and the profile "
         "has at least 2 samples",
    spec_what="a shown entry or non-residual edge differs from the untrimmed report, the wrong entries were removed, the accounting-for "
              "figure is not the sum of the flat values shown, or an edge refers to a removed entry",
    trusted_base=["text parsers of the harness", "float cutoff expression evaluated by the harness (report.go:138-139)",
                  "survivor order of graphical reports taken from the implementation (GetDOT)"],
    assumptions=["node orders are total on the generated names (C08)", "values of text-form cases are small integers in unit 'count'"],
 )
