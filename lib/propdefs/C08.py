"""C08 configuration for bin/check."""
CFG = dict(
    also=["C16", "C01:history"],   # completion order of concurrent fetches: C16's model and gated fetcher; "however often it has been run": C01's serializer model on edited-after-write histories
    level="proof", pfile="P_C08.v", rmod="R_C08", judge="judge_C08",
    technique="Coq proofs about comparator chains and map-range sites regenerated from the Go source (go/ast translators) + "
              "differential comparison of every comparator with its chain + repeated in-process generation of every format",
    translators=[("cmpscan", "Gen/Gen_Comparators.v"), ("maprange", "Gen/Gen_MapRange.v")],
    level_text="Theorems: every Less on the output paths (Nodes.Sort x7, compareNodes, edgeList.Less, tags.Less x2; chains re-read from "
               "graph.go by cmpscan on every run) decides on the key it guards on, hence is a strict weak order, and ends on an identity key, "
               "hence is a strict TOTAL order on nodes outside F8/F19, on edges outside F9, on tags unconditionally (all chains, all lists, "
               "all int64/string values); a strict total order has exactly one sorted arrangement (sorted_unique: neither map order nor "
               "sort.Sort's instability can show); sort.Strings/Ints likewise; every `range` over a map in profile, internal/{graph,report,"
               "driver,measurement} (maprange, 83 sites of 390 range statements) is classified and each class has its order-insensitivity "
               "theorem, the single order-sensitive site (float sum in edgeEntropyScore, F25) is refuted with IEEE floats inside Coq; "
               "fmt.Sprint(NodeInfo) is injective without spaces (F8 is confined to names with spaces).",
    level_note="Report emitters are not modelled (C04/C18 own them): that the bytes are a function of the sorted collections is covered "
               "dynamically (every format produced 48-64x in-process on tie-rich profiles and byte-compared, Go re-randomising each map range). "
               "Trusted: Coq kernel + vm_compute, translators cmpscan/maprange (fail closed), hand classification table of map ranges "
               "(coq/S_MapRange.v), harness, fmt/strconv formatting, sort.Sort returning a sorted permutation. Print Assumptions lists the "
               "kernel's primitive float type and operations for the F25 refutation only (float, PrimFloat.eqb, add) - primitives, not axioms.",
    rule="cmp: (comparator, 2-3 elements biased to ties: equal magnitudes of opposite sign, equal flat/cum, equal names at different "
         "address/file/start line/object file, names with spaces, MinInt64) -> k x k matrix of Less answers (order laws checked on the "
         "answers, compared with the regenerated chain); sort: implementation's sorted order vs model's; name: PrintableName/Sprint vs model; "
         "det: (format in top/tree/dot/callgrind/tags/traces/raw/proto/topproto/comments, options, tie-rich profile) -> number of distinct "
         "outputs over 48 (quick) / 64 (thorough) in-process repetitions on fresh copies; ser: distinct Write/WriteUncompressed/String over 16 "
         "repetitions; ent: distinct entropyScore over 64 repetitions; distinct = sha256 of the input term; non-trivial = cmp/sort/name always, "
         "det: >= 2 nodes and >= 2 samples, ser: >= 2 labels, ent: >= 3 edges",
    spec_what="an output ordering is not a strict total order on the things it orders / repeated runs of the same input produced different bytes",
    trusted_base=["translator cmpscan (go/ast; comparator bodies -> chains; fails closed on unknown shapes)",
                  "translator maprange (go/ast, syntactic type resolution; unresolved operands are emitted as unknown and must be in the table)",
                  "hand classification of the 83 map-range sites (coq/S_MapRange.v)",
                  "report emitters (covered by repetition, not by proof); sort.Sort returns a sorted permutation",
                  "class recognition of det cases uses the node list of the report's full graph as dumped by the implementation"],
    assumptions=["Go re-randomises map iteration per range statement (schedule exploration = repetition in one process)",
                 "goroutine completion order of fetches is C16's theorem, repetition within a session is C10's"],
    allowed_axioms=["float", "PrimFloat.eqb", "add"],
)
