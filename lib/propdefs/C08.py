"""C08 configuration for bin/check."""
CFG = dict(
    level="proof", pfile="P_C08.v", rmod="R_C08", judge="judge_C08",
    technique="Coq proof about comparator chains regenerated from the Go source + differential/schedule exploration",
    translators=[("cmpscan", "Gen/Gen_Comparators.v"), ("maprange", "Gen/Gen_MapRange.v")],
    level_text="placeholder",
    level_note="placeholder",
    rule="placeholder",
    spec_what="an output ordering is not a strict total order on the things it orders / repeated runs produced different bytes",
    trusted_base=[],
    assumptions=[],
    allowed_axioms=["float", "PrimFloat.eqb", "add"],
)
