"""C06 configuration for bin/check."""
CFG = dict(
    level="proof", pfile="P_C06.v", rmod="R_C06", judge="judge_C06",
    level_text="pending",
    level_note="pending",
    translators=[("gen-unittable", "Gen/Gen_UnitTable.v")],
    rule="pending",
    spec_what="samples / frames / labels kept by the filters differ from the C06 statement",
    trusted_base=["Go regexp engine (its answers are shipped as a match table in every case)"],
    assumptions=[],
)
