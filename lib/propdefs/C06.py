"""C06 configuration for bin/check."""
CFG = dict(
    level="proof", pfile="P_C06.v", rmod="R_C06", judge="judge_C06",
    level_text="Theorems for every match predicate and every valid profile (unique location ids, sample locations present, lines with "
               "functions), on frame samples (values, labels, expanded frames leaf first): FilterSamplesByName meets the "
               "focus/ignore/hide/show rule in any combination incl. in-place line removal on shared locations (outside F16, F24); "
               "focus_exact; ignore_exact and focus/ignore partition with column totals adding up (no empty stack, F16); ShowFrom "
               "meets its rule (outside F25); tagshow/taghide and tagfocus/tagignore change exactly what they describe; refuted twins "
               "for F16, F24, F25 with concrete witnesses. The composition inside applyFocus and the tag-filter grammar "
               "(key=value, comma lists, ranges with unit scaling) are modelled and covered by correspondence + the evaluated "
               "pipeline specification, not by a theorem (full_statement_apply_focus). End-to-end layer: glue model M_Driver (merge header, RemoveUninteresting once, tag roots/leaves before the filters irrespective of relative_percentages, every command/request from a pristine copy) tied to driver.PProf / interactive / web by correspondence; add_label_nodes keeps samples, values, labels.",
    level_note="Regexp engine abstract: theorems quantify over every match predicate, each case ships Go regexp's match table; "
               "numeric ranges: model uses exact rationals (M_Measure.scale over the regenerated unit table), generators keep values "
               "where float64 comparison is exact; relative_percentages (order of applyFocus vs report.New) is not modelled.",
    translators=[("gen-unittable", "Gen/Gen_UnitTable.v")],
    rule="inputs = (op, profile, options, numLabelUnits, match table): FilterSamplesByName with focus-only / ignore-only pairs on the "
         "same profile and random subsets of focus/ignore/hide/show; ShowFrom; FilterTagsByName; applyFocus (through the driver) with "
         "tagfocus/tagignore drawn from a pool of regexps, key=value, comma lists, ranges with units/signs/overflow, and random subsets of "
         "all ten options incl. invalid expressions; profiles with shared and inlined locations, unsymbolized locations, empty stacks, "
         "locations without mapping, labels and numeric labels with units; distinct = sha256 of the input term; non-trivial = the "
         "filter changed samples or locations; END-TO-END (op e2e): the same profiles and option pools through driver.PProf with flags (-proto / -traces via -output), interactive sessions (assignments, cmd >file, interleaved unfiltered commands) and the web /top handler (URL parameters), output parsed back (proto re-read, traces text, top rows); deterministic streams for session histories, URL-encoded expressions, tagroot/tagleaf x filters x relative_percentages, numeric filters on non-multiples",
    spec_what="samples / frames / labels kept by the filters differ from the C06 statement (frame-sample rules of S_Filter.v)",
    trusted_base=["Go regexp engine (its answers are shipped as a match table in every case)",
                  "translator gen-unittable + M_Measure.scale (C15) for numeric tag ranges; float64 vs exact rationals",
                  "numLabelUnits: an input of the applyfocus op (as for applyFocus itself); modelled (num_label_units) and compared (op numunits) for the end-to-end cases",
                  "export shim internal/driver/zz_verif_c06.go (calls applyFocus with a config built from defaultConfig)"],
    assumptions=["end-to-end: -proto/-traces of the command line and sessions, /top of the web UI; other report formats, -base/-diff_base, saved configs, numeric tagroot keys not covered",
                 "profiles are valid in the sense of wf_profile (a fragment of Profile.CheckValid)",
                 "composition of the applyFocus stages and compile_tag_filter's grammar: correspondence + evaluated checker only",
                 "relative_percentages ordering in generateRawReport not modelled"],
)
