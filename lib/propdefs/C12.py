"""C12 configuration for bin/check."""
CFG = dict(
    level="proof", pfile="P_C12.v", rmod="R_C12", judge="judge_C12",
    level_text="Theorems (all modes, all profiles, ALL answer scripts of ObjTool.Open / ObjFile.BuildID / ObjFile.SourceLine / the symbolz "
               "POST including an error at any call, all demanglers and URL classifiers): Symbolize never panics; the frame condition "
               "(samples, header, location ids/addresses/mapping refs, mapping ids/ranges/files/build ids untouched; existing functions keep "
               "id/system name/file/start line, functions are only appended); line information is only attached (a location is untouched or ends "
               "with >= 1 line); Has* flags are only raised; mappings that carry function names and their locations are left "
               "alone unless force is requested; demangling keeps non-empty names non-empty (for demanglers that do); the result passes "
               "CheckValid whenever the input did and the new function ids fit below 2^64; symbolz adjust detects every wrap-around; "
               "-symbolize=none does nothing; the evaluated checkers are sound for these relations; the driver pipeline around Symbolize (fetch_* theorems) keeps all of it and restores the mapping files outside known finding F34 (refuted twin); for ANY symbolizer "
               "plug-in (arbitrary function) a profile returned by the pipeline passes CheckValid (validity is re-checked after symbolization); "
               "command line (cli_* theorems): naming an executable / build id touches only the file / build id of the main mapping (never the "
               "has-symbols flags), without force symbolized mappings come out as they went in, pprof fails on a valid profile only when the "
               "symbol service failed or the ids ran out. End-to-end layer: driver.PProf / interactive session / web handlers, outputs parsed back. Model tied to the code by ~2,300 "
               "differential cases per quick run (whole Symbolize runs against scripted plug-ins + direct calls of adjust, the symbolz "
               "regexp, removeMatching, looksLikeDemangledCPlusPlus).",
    level_note="Oracle-relative: ObjTool/ObjFile, the symbolz endpoint and demangle.Filter are arbitrary (scripted / tabulated), not modelled. "
               "Trusted: Coq kernel + vm_compute, the harness (scripted plugin.ObjTool, http.RoundTripper, UI), net/url and net/http.Client "
               "as used by postURL, regexp (checked against a hand recogniser on generated lines), strconv.ParseUint, fmt %#x, "
               "strings.ToLower beyond ASCII, pointer identity = id identity (CheckValid makes them agree for valid profiles).",
    shard=150,
    rule="inputs = (op, ...): op sym = (mode, valid profile, answer script, mapping sources, url/demangle answer tables): random valid "
         "profiles (partly symbolized, sparse / small-permuted / near-2^64 function ids, several mappings incl. unsymbolizable, URL, "
         "nameless and dangling ones, addresses at mapping edges and 0, shared addresses) x 32 mode spellings x random scripts (errors at "
         "any call, build-id mismatches, empty/inlined stacks, interned frames, symbolz bodies with re-based addresses, malformed lines, "
         "overflowing numbers, unterminated last line) x sources with extreme start offsets; plus an all-answer stream, an id-wrap "
         "stream and the replayed witnesses of the repaired F12/F13; ops adjust / re / rm / looks = direct calls of the pure helpers on "
         "boundary and random arguments; op sym2 = the same Symbolizer symbolizes the same profile twice; op fetch = the driver's fetchProfiles "
         "(real code, one profile handed over by a fetcher plug-in reporting a remote URL or none, object tool that finds no binary, "
         "answer script starting when the Symbolizer is entered) over 17 mode spellings x fetched profiles whose mappings often have "
         "neither file nor build id or that have no mapping at all, compared with the pipeline model (fake mapping, "
         "collectMappingSources, Symbolize, unsourceMappings, CheckValid) and judged by the same clauses + saved copy agrees + Go's own CheckValid accepts what is returned; stream fetch-id-wrap = the same with "
         "function ids within 2 of 2^64 and mappings that still need symbols (the id counter wraps to the reserved 0: fetchProfiles must refuse); "
         "op fetchx = fetchProfiles with a third-party symbolizer plug-in that leaves the profile in one of 10 scripted states "
         "(unregistered / aliased / id-0 / duplicate-id function, nil function, unregistered mapping, value count, duplicate location id, "
         "error after corrupting, well-behaved), its exit state shipped as the plug-in's answer; op e2e = the END-TO-END layer: the real "
         "driver.PProf (real parseFlags over a FlagSet with -symbolize, -buildid, -add_comment and an executable named as first positional "
         "argument; profile from a Fetcher plug-in or a file) run four times per input: -proto (re-read), -traces -addresses (rows parsed), "
         "one interactive session (granularity=addresses; traces; proto; traces) and the web interface (/download through the real "
         "handlers), compared with the command-line model fetch_cli and judged by the same clauses; ~100 deterministic shapes (named "
         "executable x mode x recorded file x build id on a partly symbolized profile; symbol sources answering a function identical to "
         "another one, local and remote; file-less and mapping-less profiles) + 70 random; deterministic drop_frames shapes (11 answered names x 4 "
         "drop/keep alternations x modes, frame outermost / in the middle / inside an inlined location) for ops fetch and e2e. distinct = sha256 of the input term; non-trivial = a plug-in was called or the profile changed "
         "(sym), offset != 0 (adjust), the regexp matched (re), the name changed (rm), non-empty name (looks)",
    spec_what="symbolization changed something other than lines / names / has-flags (or touched a mapping that already had symbols without "
              "force, emptied a name, left an invalid profile, or adjust missed a wrap-around): C12 statement",
    trusted_base=["scripted plug-ins of the harness (plugin.ObjTool/ObjFile, http.RoundTripper behind postURL, plugin.UI)",
                  "tables computed by the harness with the real code: symbolz.symbolz (export shim), demangle.Filter with "
                  "demanglerModeToOptions (export shim), url.Parse-based http test of doLocalSymbolize (re-stated in the harness)",
                  "Go regexp for symbolzRE vs the model's hand recogniser (compared on generated lines, op re)",
                  "pointer identity of mappings/functions is represented by ids (faithful for valid profiles)"],
    assumptions=["profiles are valid on entry (Profile.CheckValid), as Symbolize's callers guarantee (fetch.go)",
                 "validity of the result is claimed when max function id + number of functions added < 2^64 (uint64 ids; beyond that "
                 "max+1 wraps to the reserved id 0); the wrap-around itself is modelled and compared",
                 "demangle.Filter never answers a non-empty name by the empty string (checked on the shipped tables)",
                 "modes are ASCII (strings.ToLower)",
                 "drop_frames / keep_frames of the pipeline streams are bare alternations of literal names (whole-name matching decided in the "
                 "model, C11's Prune semantics); stacks may shrink only when a function's whole simplified name is an alternative (droppable)",
                 "op e2e: sample labels are stripped (their round trip through -proto is C01's), -traces rows are compared on the (inline) marks "
                 "and on containing the function name (value column and address/file:line text are C04/C15/C18's); an error result is accepted only "
                 "when the proved model also fails (cli_fails_only_when)",
                 "op fetch: one source, no base profile, empty DropFrames (RemoveUninteresting is C11's), distinct sample type names "
                 "(CompatibilizeSampleTypes is C07/C16's), locateBinaries finds no binary, the source URL reported by the fetcher is "
                 "absolute (as adjustURL produces); class 34 = known finding F34 (unsourceMappings erases URL-like files it never wrote)"],
)
