"""C12 configuration for bin/check."""
CFG = dict(
    level="proof", pfile="P_C12.v", rmod="R_C12", judge="judge_C12",
    level_text="placeholder",
    level_note="placeholder",
    rule="placeholder",
    spec_what="symbolization changed something other than names/lines/flags, or left an invalid profile (C12 statement)",
    shard=150,
    trusted_base=[],
    assumptions=[],
)
