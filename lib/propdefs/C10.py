"""C10 configuration for bin/check."""
CFG = dict(
    level="proof", pfile="P_C10.v", rmod="R_C10", judge="judge_C10",
    level_text="TBD", level_note="TBD",
    translators=[("gen-configtable", "Gen/Gen_ConfigTable.v"), ("gen-commandtable", "Gen/Gen_CommandTable.v")],
    rule="TBD",
    spec_what="a report's output, the option state after a command, or the loaded profile depends on earlier commands/requests (C10 statement)",
    trusted_base=[], assumptions=[], shard=30,
)
