"""C10 configuration for bin/check."""
CFG = dict(
    level="proof", pfile="P_C10.v", rmod="R_C10", judge="judge_C10",
    level_text="Theorems about the state machine of the interactive loop and of web requests (all environments, all histories): an input that is "
               "not an option assignment never changes the option state; a report's configuration differs from the state only in what the command "
               "line can spell (nodecount, output, sort, focus, ignore, tagfocus, tagignore) and the state is untouched; the state after any history "
               "is the state after its assignments alone, hence what the next input does is independent of earlier commands; every report starts "
               "from a fresh decode of the immutable serialized profile for any (mutating) report function; any interleaving of web request handlers "
               "gives each request the configuration it gets alone and leaves the option state alone. The model is tied to the code by running the "
               "REAL interactive loop (scripted plugin.UI, real report generation) and the REAL web handlers (httptest) on generated histories: "
               "option state after every line and (command, configuration) of every report must equal the model's. End-to-end layer: the histories also run through driver.PProf (real parseFlags, fetch pipeline, real binutils object tool, HTTPServer hook); the option state the flags produce is modelled (M_Flags) and compared.",
    level_note="Partial for mutation leaks: that report generation does not leak through shared pointers is checked, not proved, by the "
               "metamorphic oracle on the real code (same command in a fresh session with the same options must give byte-identical output; the "
               "profile handed to each report must deep-equal the pristine decode; the loaded profile must be unchanged afterwards). Report "
               "generation itself is abstract in the model. Trusted: Coq kernel + vm_compute, translators gen-configtable/gen-commandtable, harness.",
    translators=[("gen-configtable", "Gen/Gen_ConfigTable.v"), ("gen-commandtable", "Gen/Gen_CommandTable.v"), ("gen-unittable", "Gen/Gen_UnitTable.v")],
    rule="cases = (a) session: random valid profile (1-3 sample types, labels) x initial option state (default or random) x 2-12 lines (thorough: "
         "up to 32) mixing assignments (every option, valid/invalid values, spacing, //: comments, bare bool names, choices as variables, "
         "shortcuts ':' / sample types / total_ / mean_), commands (top text tree peek list traces tags raw dot comments callgrind proto topproto "
         "with node counts, focus/ignore regexps, -cum, >file, digit suffixes, missing arguments), o/help/junk/exit; (b) web: 2-7 requests over "
         "/top /peek /flamegraph / /download /source with mutating and invalid query parameters, sequential or concurrent. "
         "(c) session-src / web-src: source listings against REAL files -- an on-disk tree in the scratch dir with two sets of files of the same "
         "relative names and different contents, profiles naming them through a remote prefix; histories mix source_path= / trim_path= "
         "assignments with list / weblist commands (sessions) or with /source and /top requests (web; assignments via configure); here the fresh "
         "reference of the metamorphic oracle runs in a CHILD PROCESS (harness c10-ref) so that no process-wide cache is shared with it. "
         "(f) TALK: what help / o / options print is compared too; deterministic histories ([help], [o, help], ...) against a fresh process; "
         "(e) SHAPES (deterministic, every quick run): 13 hand-made rare-but-valid profile shapes (unit families at both ends incl. GCU, negative / zero / "
         "equal values, no mapping, empty name, numeric-tag units, duplicate sample types, inlining, special names, exact threshold, extreme "
         "values, no samples, id gaps) x fixed session and web histories, every report compared with a fresh PROCESS; "
         "(d) END-TO-END: the same kinds of histories through driver.PProf with a real flag set (parseFlags -> option state, M_Flags), the Fetch "
         "plug-in + fetch pipeline, the real binutils object tool; deterministic in every quick run: 4 sessions and 3 request sequences on a "
         "profile of a real binary with disasm / weblist / /disasm / /source while intel_syntax changes (flag, assignment, URL); random: 40 "
         "sessions + 20 request mixes with 0-4 option flags; two refused command lines. "
         "distinct = sha256 of the input term; non-trivial = at least one report was generated (session, session-src, e2e), always (web, web-src, e2eweb)",
    spec_what="a report's output, the option state after a command, or the loaded profile depends on earlier commands/requests (C10 statement)",
    trusted_base=["translators gen-configtable, gen-commandtable (pprofCommands: name/hasParam, configHelp keys)",
                  "strings.TrimSpace/Fields modelled for ASCII white space (generated lines are ASCII)",
                  "report generation is abstract in the model; its independence of earlier reports is checked on the real code by the metamorphic oracle and deep comparison",
                  "strconv.ParseFloat + fmt.Sprint oracle table shipped with each case"],
    assumptions=["outputs that are unstable between identical runs (map-iteration order; C08's subject) are re-run (bounded budget) and not counted as leaks",
                 "source-listing profiles give every function its own file and every location one line (two functions per file / inlined lines make weblist's output follow map order)",
                 "profiles carry at most ONE numeric tag with conflicting units (one warning per report; several conflicting tags are printed in map order); its key is unique per profile",
                 "what a report prints through the UI is part of its compared output, except the 'Generating report in <temp file>' line",
                 "web: the configuration a request's report is generated with is not observable from outside; the model's status prediction covers only applyURL errors (400)"],
    shard=30,
)
