"""C11 configuration for bin/check."""
CFG = dict(
    level="proof", pfile="P_C11.v", rmod="R_C11", judge="judge_C11",
    level_text="Theorems for every match predicate and every valid profile, on frame samples (values, labels, expanded frames): "
               "Prune removes exactly the first frame (from the root, after a non-matching frame) matching drop and not keep with "
               "everything leaf-side (outside F14); PruneFrom keeps the lowest match and drops only its leaf side (outside F15); "
               "unconditionally: number of samples, values, labels unchanged and a sample with frames never becomes empty; "
               "RemoveUninteresting = Prune with ^(..)$-anchored expressions, identity without drop_frames, error leaves the profile "
               "alone; any history of these operations on ONE profile object leaves what the composition of the rules leaves, validity "
               "preserved step by step (history_meets_spec); RemoveUninteresting realises the rule stated with an abstract full-match predicate whenever the anchored expressions behave as that predicate (remove_uninteresting_full_match; re-checked per case against Go regexp); simplifyFunc only cuts a suffix; refuted twins for F14, F15 with concrete witnesses. End-to-end layer: the fetched profile = the rule with the FIRST source's expressions on the merged sources (fetch_meets_spec), prune_from is the last stage of applyFocus (prune_from_is_applied_last), tied to driver.PProf / interactive / web by correspondence.",
    level_note="Regexp engine abstract (match table shipped per case); simplifyFunc's fixed bracket expression modelled exactly and "
               "compared on 400+ names per run; the call site in fetch.go (fetchProfiles applies RemoveUninteresting exactly once, whatever the "
               "mappings' HasFunctions flags) is covered by the `fetch` op on the real fetchProfiles; addLegacyFrameInfo modelled (legacy_frame_info: table chosen by sample type names) and checked on every legacy format (op legacy); the expression tables themselves are taken from the code.",
    rule="inputs = (op, profile, expressions, match table over simplified names): simplifyFunc on a pool + random concatenations of "
         "'(', 'operator()', '(anonymous namespace)' pieces; Prune with drop/keep pairs, PruneFrom, RemoveUninteresting (incl. invalid "
         "expressions, keep without drop) on small stack profiles with inlined locations (1-3 lines), locations shared between "
         "samples and repeated in a stack, unsymbolized locations, empty stacks, matches at root / leaf / middle; the real fetchProfiles on one in-memory source with mappings of mixed HasFunctions flags; "
         "drop/keep expressions from a grammar (alternations starting/ending with groups, one group, leading ^, trailing $, (?i)) probed with full and PARTIAL matches of their alternatives (anchor-probe), judged through a full-match oracle computed from the expression itself; histories of 2-3 operations on the SAME object (prune, prunefrom, removeun, driver fetchProfiles then generateRawReport "
         "-prune_from) judged against the composition of the frame rules (id-free frame-sample observable); distinct = sha256 of "
         "the input term; non-trivial = the operation changed samples or locations; END-TO-END (op e2e): several sources with present / absent / conflicting drop_frames and keep_frames, prune_from on names needing simplification, prune_from combined with focus / ignore / show_from / hide around the prune point, with and without relative_percentages, through driver.PProf, interactive sessions and the web /top handler",
    spec_what="frames removed by Prune / PruneFrom / RemoveUninteresting differ from the C11 statement (frame rules of S_Prune.v)",
    trusted_base=["Go regexp engine (its answers are shipped as a match table in every case)",
                  "export shims profile/zz_verif_c11.go (exposes simplifyFunc), internal/driver/zz_verif_c11.go (runs fetchProfiles on one in-memory source, no-op symbolizer, ObjTool that finds nothing)"],
    assumptions=["end-to-end: sources with disjoint ids and names (merge = concatenation); -base/-diff_base/-normalize not covered",
                 "profiles are valid in the sense of wf_profile (a fragment of Profile.CheckValid)",
                 "an unsymbolized location counts as one frame that matches nothing",
                 "the Go operations keep no state between calls (a history is modelled as the composition of the models; the history op checks it)",
                 "legacy_profile.addLegacyFrameInfo modelled (legacy_frame_info: table chosen by sample type names) and checked on every legacy format (op legacy); the expression tables themselves are taken from the code; the fetch.go call site is checked with a single source (no merge)"],
)
