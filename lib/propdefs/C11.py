"""C11 configuration for bin/check."""
CFG = dict(
    level="proof", pfile="P_C11.v", rmod="R_C11", judge="judge_C11",
    level_text="pending",
    level_note="pending",
    rule="pending",
    spec_what="frames removed by Prune / PruneFrom / RemoveUninteresting differ from the C11 statement",
    trusted_base=["Go regexp engine (its answers are shipped as a match table in every case)"],
    assumptions=[],
)
