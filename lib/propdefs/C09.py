"""C09 configuration for bin/check."""
CFG = dict(
    level="proof", pfile="P_C09.v", rmod="R_C09", judge="judge_C09",
    level_text="partial",
    level_note="",
    translators=[("gen-unittable", "Gen/Gen_UnitTable.v"), ("gen-c09tables", "Gen/Gen_C09Tables.v")],
    rule="", spec_what="pprof panicked, hung, or left the interactive/web session unusable",
    trusted_base=[], assumptions=[],
)
