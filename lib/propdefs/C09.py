"""C09 configuration for bin/check."""
CFG = dict(
    level="proof", pfile="P_C09.v", rmod="R_C09", judge="judge_C09",
    technique="machine-checked proof (Coq) about an executable model of the crash-prone decision cores + model-tied exploration of driver.PProf",
    level_text="PARTIAL. Theorems (all inputs, no bounds): tag-range parsing never panics and treats numbers beyond int64 as 'not a range'; "
               "the binary search-path construction never slices out of bounds; config.set/configure/applyURL return an error exactly for "
               "texts that are not values of the field's kind and never panic; strings.Fields tokens are non-empty and parseCommandLine "
               "never panics on them; one pass and any sequence of passes of the interactive loop never panics for a profile with >= 1 "
               "sample type, keeps the configuration's shape and still answers 'top 3'; every graph.TrimTree call is guarded by output formats for which the graph is built as a call tree (both format sets re-read from the source each run), so its panic is unreachable; the node-limiting step never slices the node list out of range for any node count (its guard is re-read from the source each run); the Active-filters legend cut never slices out of range and a legend line is verbatim up to 80 bytes; the -symbolize mode parser only ever hands demanglerModeToOptions a mode it knows (its panic is unreachable). Table facts (field kinds, distinct names, fields "
               "addressed directly) are re-proved on the tables regenerated from /repo each run. The model is tied to the code by ~4,000 "
               "differential cases per quick run (identical event streams and configurations). Everything else -- report generation, "
               "templates, web handlers, symbolization, fetch -- is EXPLORED, not proved: grammar-driven sessions with real reports, "
               "httptest requests against the handlers reached through driver.PProf -http, and command lines, all under recover() with a deadline.",
    level_note="Crash-freedom of code outside the modelled cores (internal/report, graph, symbolizer, html/template, Go runtime) cannot be "
               "excluded by these theorems; the internal consistency panics (AddToEdgeDiv, TrimTree, synth address, demangler mode) are "
               "left to exploration. Lines or sample types with bytes >= 0x80 are not compared with the model (Unicode white space), only judged by the spec.",
    translators=[("gen-unittable", "Gen/Gen_UnitTable.v"), ("gen-c09tables", "Gen/Gen_C09Tables.v"), ("gen-c09calltree", "Gen/Gen_C09CallTree.v")],
    rule="inputs: (1) tag-filter texts from a pool + grammar (sign, digits up to 41 places, unit suffix, ':' shapes, noise); (2) mappings "
         "(file, build id incl. 1/2/3-char, '..', glob metacharacters) for locateBinaries; (3) configure(name, value): every field/choice "
         "name x pools of bools/ints/floats/regexps/units/ranges; (4) URL query strings (escaped/unescaped/valueless, ';'); (5) interactive "
         "sessions of 1-4 lines from the command grammar (commands, topN, '>' redirection, -ignore, assignments, shortcuts, comments, noise) "
         "+ a closing 'top 3', report requests recorded; (6) the same with real report generation over profiles with odd strings/ids/"
         "addresses/build ids/labels/units; (7) web: 1-5 requests over all handler paths + closing /top via driver.PProf -http and a plugin "
         "HTTPServer; (8) command lines; (9) -symbolize mode texts from a grammar through Symbolizer.Symbolize (model-compared) and through driver.PProf with the real symbolizer; (10) every report under mean on profiles whose first value column holds zeros (session, CLI, web). (14) negative / out-of-range numeric option values (every int and float field, sample_index numbers, integer command arguments, URL parameters) x every report format, and file names equal to the prefixes they are matched against, deterministically in every quick run. (13) END-TO-END layer: sessions with every report written to a file (`cmd >file`), command lines with -output, web requests; the printed Active-filters legend of text/top/tree/peek is parsed back and compared with the legend the model derives from the configuration it predicts; deterministic shapes: values that are one/two/wrapping delimiter characters for options of every kind, filter values of 78..330 bytes built from 1..4-byte characters around the 80-byte cut. (12) locateBinaries candidates compared BY NAME with a lexical filepath model, for build ids / files made of atoms whose length or shape changes under normalisation (Unicode white space, case mappings that change the UTF-8 length, invalid UTF-8, NUL, path metacharacters): every atom, every pair, random 3-5 atom strings; the same atoms feed all string fields of explored profiles and option values. (11) option x output-format matrix: six shaped profiles (two-caller diamond, recursion/inlining/labels, wide, negative values, deep chain, unsymbolized) x settings derived from the config field table alone and combined with call_tree/trim/nodecount/nodefraction x EVERY report command, as interactive sessions (all commands in one session), command lines and web requests. All streams run in child processes under watchdogs (a call that does not return = observable hang). distinct = sha256 of the input term; non-trivial = at least one generated line/request/digit/"
         "mapping/non-empty value/flag",
    spec_what="pprof panicked, hung, answered with an unexpected HTTP status, or left the interactive/web session unusable",
    trusted_base=["translator gen-c09calltree (go/parser scan of the TrimTree call guards and the graph.Options CallTree field; fails closed); assumption: a graph built with CallTree has at most one in-edge per node",
                  "translators gen-c09tables (dumps configFields/pprofCommands/configHelp via reflection-free export shim) and gen-unittable",
                  "export shim harness/overlay/internal/driver/zz_verif_c09.go (add-only; swaps generateReportWrapper, a test hook of the package)",
                  "oracles shipped in cases: strconv.ParseFloat results, net/url query parsing; regexp and filepath.Glob not modelled; filepath.Clean/Join/Base/Dir modelled lexically for Unix (tied by the locate cases)",
                  "scripted plugin.UI / FlagSet (Go flag package) / Fetcher / ObjTool / Writer / HTTPServer; PATH emptied so no external program starts",
                  "strings.TrimSpace/Fields/ToLower modelled for ASCII only"],
    assumptions=["a profile reaching interactive()/the web UI has at least one sample type (fetchProfiles rejects others; explored)",
                 "report generation and rendering are outside the model: explored under recover() with a 20 s deadline per report"],
)
