"""C20 configuration for bin/check."""
CFG = dict(
    also=["C16"],   # 'several sources fetched concurrently ... same as one at a time': C16's gated fetcher and model
    level="proof", pfile="P_C20.v", rmod="R_C20", judge="judge_C20",
    technique="Coq proof about an interleaving semantics of event-list threads + translator (lockscan) regenerating the "
              "event lists from /repo + concurrent stress cases compared with the model + the same stress under the Go race detector",
    level_text="Theorems for ANY number of threads and ANY interleaving: well_locked => mutual exclusion and race freedom "
               "(mutex- and sync.Once-guarded variables); one-lock-at-a-time => no deadlock; critical sections linearizable in "
               "lock-acquisition order (options get/set/configure, serialize: every concurrent call returns serialize p, "
               "sync.Once: body runs once and every caller reads its value); concurrent create-exclusive temp files get distinct, "
               "fresh names and overwrite nothing (and without O_EXCL they can collide). The lock discipline itself is "
               "re-established on every run by vm_compute on the event lists lockscan extracts from /repo's current source "
               "(profile, internal/driver, internal/binutils, internal/transport, internal/report, internal/graph), together with the obligation that every read-modify-write of "
               "a guarded variable (configure, temp-file registry, copy-on-write tool configuration) lies in ONE acquire..release region, "
               "including check-then-act / snapshot-then-reset patterns; the temp-file registry never loses a registered file.",
    level_note="partial by nature: the theorems are about the lock discipline extracted syntactically from the source "
               "(objects are abstracted to one instance per guarded field; control flow is flattened under a fail-closed "
               "region rule); Go's memory model, sync.Mutex/Once/WaitGroup, the file system's O_EXCL and rename, and the "
               "scanner are trusted; deadlock freedom is proved only for roots holding one lock at a time (the one nested "
               "pair settingsMu > currentMu is covered by the evaluated lock-order check); races on state the guard table "
               "does not list, and everything in packages other than profile/driver/binutils, are reachable only by the "
               "race-detector exploration (dynamic, not a proof).",
    translators=[("lockscan", "Gen/Gen_LockEvents.v")],
    extra=["c20hooks.race_stress"],
    shard=120,
    rule="round 7: the FIRST /download requests of a fresh process together (and mixed with pages) on a 20,000-function profile, every body gunzipped, "
         "parsed back and compared with the profile; round 6: overlapping web requests with different no-match filters, the errors box of every page parsed back and compared with the "
         "message list of its own request; round 5: the DEFAULT UI (stdUI) printed to by 1-16 goroutines and by a 24-source invocation with Options.UI nil (whole lines, compared with "
         "one-at-a-time runs); lock-free settings readers and page loads during saves with the settings file regular / symlinked / dangling / in a symlinked directory; "
         "end-to-end: driver.PProf with a real flag set and the DEFAULT transport on 2-8 sources of mixed kinds (http, https+insecure, https with an "
         "untrusted certificate, files) with the -proto output re-read; 2-3 perf.data inputs converted by a fake perf_to_profile with staggered "
         "overlapping conversions; interactive sessions with rejected assignments followed by redirected commands; a FRESH child process whose "
         "first k web requests arrive together (exit status and HTTP statuses); cases = concurrent runs of: k newTempFile calls on a directory whose taken names belong to files of six kinds (fresh/old, empty/with data, "
         "directory, dangling symlink), creators writing their own payload; first uses of a fresh Binutils overlapped with a setter; concurrent ObjAddr after a FAILED first use; 2-3 threads of "
         "get/set/configure on the option store (all interleavings enumerated in Coq); k goroutines configuring DISTINCT options and "
         "reading their own option back (lost-update detector); accepted/rejected configure sequences followed by option reads, "
         "sequential (no mutex may stay held after an operation returned) and concurrent under a watchdog; files registered for deletion "
         "while cleanups run, then the exit cleanup (no registered file left, no cleanup fails); Write/WriteUncompressed/Copy on one "
         "random profile; k addrInfo calls through ONE scripted addr2line / llvm-symbolizer pipe; concurrent ObjAddr on one "
         "ELF ObjFile; concurrent save/delete of named configs in one settings file; parallel fetch of up to 300 sources; "
         "mixed web UI requests; distinct = sha256 of the input term; non-trivial = at least two goroutines (and a non-empty profile)",
    spec_what="concurrent result differs from the sequential one / names not distinct or not fresh / an existing file was "
              "overwritten / option reads not linearizable",
    trusted_base=["translator lockscan (go/parser + go/ast; syntactic type resolution; fail-closed GBad on shapes it cannot linearise)",
                  "Go memory model, sync.Mutex / sync.Once / sync.WaitGroup semantics, os.OpenFile(O_EXCL), os.Rename",
                  "Go race detector (dynamic exploration only)"],
    assumptions=["end-to-end streams: the https server's certificate is one the default client does not trust; perf_to_profile is a scripted stand-in "
                 "(0.25 s, refuses an existing output without -f); pages of concurrent web requests are counted, not judged",
                 "one abstract instance per guarded field (a lock taken through receiver x guards the fields reached from x)",
                 "constructors and Close run while the object is not shared (listed in gen_exempt with the reason)",
                 "decode side of package profile runs on fresh objects (checked syntactically for unmarshal's argument)"],
)
