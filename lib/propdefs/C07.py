"""C07 configuration for bin/check."""
CFG = dict(
    level="proof", pfile="P_C07.v", rmod="R_C07", judge="judge_C07",
    level_text="stub",
    level_note="stub",
    translators=[("gen-unittable", "Gen/Gen_UnitTable.v")],
    rule="stub",
    spec_what="combined / subtracted profile is not the entry-wise sum / difference required by the C07 statement",
    trusted_base=[],
    assumptions=[],
    shard=120,
)
