"""C07 configuration for bin/check."""
CFG = dict(
    level="proof", pfile="P_C07.v", rmod="R_C07", judge="judge_C07",
    level_text="Theorems (all profiles / ratio vectors / selectors, unbounded): the -top numbers are the entry-level int64 sums; "
               "the keyed merge conserves every entry-level sum (weights additive per stack identity); report_additive (combined = sum of the "
               "individual reports, mod 2^64); Scale(-1) negates every entry exactly; merge of source with negated base = source - base per entry; "
               "a profile minus itself has every entry 0; CompatibilizeSampleTypes keeps all samples and carries columns by name; integer unit ratios "
               "multiply exactly; a scaled column's total becomes ratio*total +- n/2 (the -normalize clause, partial); ScaleN never loses a non-zero value outside class F4 (refuted inside: scale_n_keep_refuted). Model tied to "
               "fetchProfiles + generateRawReport/TextItems by ~900 (quick) / ~15k (thorough) differential tuples, each also judged by the "
               "independent checker spec_ok; 75 (quick) / ~940 (thorough) of them go END TO END through driver.PProf (real parseFlags on a FlagSet, file "
               "sources, -output / interactive `cmd >file` / web handlers) with the command-line glue modelled (cli_sources, cli_plan, cli_fetch; theorems "
               "cli_sources_only_drops_leading_binary, cli_sources_keeps_every_profile, cli_plan_passes_flags, cli_fetch_plain_is_fetch_of_all) (linearity per entry, finest unit, base total, diff_base_roundtrip = report after the driver's real -proto command + reopen has the same total and entries, self-diff emptiness).",
    level_note="partial: the end-to-end composition through CompatibilizeSampleTypes/ScaleProfiles (full_statement_fetch_linear), the -normalize "
               "total bound (full_statement_normalize_total) and the -diff_base percentage base (full_statement_diff_base_total) are stated in full "
               "in P_C07.v but only their stage theorems are proved; those clauses are covered by correspondence + the evaluated checker. "
               "profile.Merge proper (re-interning by content) is C03's subject: here a keyed merge over shared symbol tables, for which the "
               "conservation law is proved. float64 is modelled by exact rationals.",
    translators=[("gen-unittable", "Gen/Gen_UnitTable.v")],
    rule="inputs = (diff_base?, normalize?, source profiles, base profiles): tuples of 1..4 sources and 0..2 bases sharing one function/location "
         "table, built by 8 streams (same units; convertible units incl. aliases/plurals; permuted and partially overlapping sample types; the F4 "
         "shape = zeros in scaled columns next to non-zeros in unscaled ones; profile minus itself; sources = k x base under -normalize; "
         "incompatible units / period types / duplicate types (error paths); large and extreme int64 values) x {plain, -base, -diff_base} x "
         "{-normalize}; every sample_index of the result is reported; the F4 witness is always generated. ROUND 7 deterministic shapes: same-named functions that differ only in their source file (same base name in another directory, other base name, absolute vs relative, no file vs file, suffix, same file) x {sum, -base, -diff_base}; the merged dump shows the file of every line. ROUND 6 deterministic shapes: 127 / 128 / 129 / 130 / 256 / 257 profiles on the source side and 128 / 129 / 130 / 257 on the base side (chunkedGrab's chunks of 128, modelled by chunked_grab), three of them also end to end on that many files. ROUND 5 deterministic shapes: profiles of different builds listing only their own functions/locations under tuple-wide ids (one address = two functions; same names with other start lines at other / the same addresses; address-less locations; inlined vs plain at one address; same build) x {sum, -base, -diff_base}, 4 of them also end to end; units+layout (a profile with reordered / extra sample types AND another unit of the family; also in the units stream C15 reuses). END-TO-END: 13 deterministic command-line "
         "shapes (sources named by content hashes / ids, plain names, names needing escaping, the same file twice, an executable first, two "
         "-diff_base files with -normalize, flag misuse) x {driver.PProf command line, one interactive session, web handlers} + random tuples x "
         "random file names x the three entry points; sources are files, output is parsed back (proto bytes, top text rows, /top page data). distinct = sha256 of the input term; "
         "non-trivial = at least two profiles and at least two non-zero values",
    spec_what="the combined / subtracted report is not the entry-wise sum / difference of the individual reports (or: common sample type "
              "dropped, unit not the finest, -diff_base percentage base is not the base total, -proto round trip changes the report, profile minus itself not empty)",
    trusted_base=["translator gen-unittable (dumps measurement.UnitTypes)",
                  "export shims harness/overlay/internal/driver/zz_verif_c07.go (call fetchProfiles / generateRawReport / generateReport(proto) with in-memory sources and an in-memory output Writer, a no-op symbolizer and a silent UI)",
                  "float64 arithmetic of ScaleN/Normalize/Scale modelled by exact rationals: cases where a -normalize product sits on a rounding "
                  "boundary with a non-dyadic ratio (class 901) or magnitudes reach 2^50 where float64 is used (class 902) are skipped and counted",
                  "profile.Merge's re-interning of functions/locations/mappings (C03) - generators give all profiles of a tuple one symbol table with pairwise distinct locations and function names",
                  "serialization round trip of the merged profile (C01) - the model treats -proto + reopen as the identity; the implementation's reopened report is compared with it"],
    assumptions=["end-to-end cases: the ObjTool opens exactly the names a case declares as executables; files named on the command line exist and parse; "
                 "numeric labels are non-zero (a (0, no unit) label does not survive a file: C01); values are printed in the column's own unit (-unit) so the text rows are exact",
                 "merge conservation law (weights additive per stack identity) is proved for the keyed merge of the model (merge_conserves_weights); for the real profile.Merge it is C03's merge_conserves",
                 "float64 rounding is outside the model (exact rationals; classes 901/902 skipped)",
                 "function and location ids are tuple-wide in the generated tuples (equal id <-> equal content; what profile.Merge's interning by content, C03, establishes); the merged tables are the union", "entries are function names (default granularity), every location has at least one line, function names are unique in a tuple"],
    shard=64,
)
