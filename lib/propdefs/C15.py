"""C15 configuration for bin/check."""
CFG = dict(
    level="proof", pfile="P_C15.v", rmod="R_C15", judge="judge_C15",
    level_text="Theorems (all unit tables satisfying the decidable table_ok, all int64 values, all spellings): exact-ratio conversion, "
               "identity, negation, family confinement, unknown units untouched, auto picks the largest unit >= 1, label read-back "
               "within half a printed digit, label monotonicity, percentage = absolute ratio; table facts re-proved by vm_compute on the "
               "unit table regenerated from /repo each run; model tied to the code by 16k+ differential cases per quick run.",
    level_note="Values are exact rationals in the model, float64 in Go: compared within 2^-40 relative, boundary cases skipped and counted; "
               "trusted: Coq kernel + vm_compute, translator gen-unittable, harness, fmt/strconv number formatting, strings.ToLower beyond ASCII.",
    translators=[("gen-unittable", "Gen/Gen_UnitTable.v")],
    rule="inputs = (op, value, from-unit, to-unit): full spelling x target matrix (every alias, plural, case variant, "
         "unknown units) with rotating boundary values, plus random triples, monotonicity pairs, percentages and "
         "CommonValueType lists; distinct = sha256 of the input term; non-trivial = value != 0 and from != to "
         "(scale/label), x != y (mono), both operands non-zero (pct), >= 2 types (common)",
    spec_what="unit conversion / label read-back / monotonicity / percentage differs from the C15 statement",
    trusted_base=["translator gen-unittable (dumps measurement.UnitTypes, factors as exact rationals of the float64s)",
                  "float64 arithmetic of Go compared with exact Q within 2^-40 relative; comparisons within float noise of a rounding boundary are skipped and counted",
                  "strings.ToLower modelled for ASCII only"],
    assumptions=["float64 rounding is outside the model (tolerance 2^-40 relative)",
                 "fmt %.2f / %5.2g rendering trusted; %5.2g strings are not compared"],
 )
