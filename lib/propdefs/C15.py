"""C15 configuration for bin/check."""
CFG = dict(
    also=["C07:units", "C06:gen:tagrange-boundary,e2e-tag-nonmultiple"],   # numeric tag filters are a consumer of the exact ratio (C06's model of parseTagFilterRange);   # "harmonising the units of several profiles preserves each profile's physical totals": C07's ScaleProfiles/ScaleN model on its convertible-units streams
    level="proof", pfile="P_C15.v", rmod="R_C15", judge="judge_C15",
    level_text="Theorems (all unit tables satisfying the decidable table_ok, all int64 values, all spellings): exact-ratio conversion, "
               "identity, negation, family confinement, unknown units untouched, auto picks the largest unit >= 1, label read-back "
               "within half a printed digit, label monotonicity, percentage = absolute ratio; table facts re-proved by vm_compute on the "
               "unit table regenerated from /repo each run; model tied to the code by 16k+ differential cases per quick run.",
    level_note="Two models: M_Measure (exact rationals; what the theorems are about) and M_MeasureF (the same functions with IEEE binary64 "
               "arithmetic from Coq's SpecFloat, pure Gallina, in the order measurement.go uses float64; fmt's %.2f and %.2g as the correctly "
               "rounded decimals of the float's exact value). The implementation is compared BIT FOR BIT with M_MeasureF (no tolerance, no "
               "skipped case); each compared case is also checked against the exact-rational specification (within float rounding, except in "
               "the counted near-boundary classes) and, in the whole-number-factor families, to be the correctly rounded exact quotient. "
               "trusted: Coq kernel + vm_compute, translator gen-unittable, harness, strings.ToLower beyond ASCII.",
    translators=[("gen-unittable", "Gen/Gen_UnitTable.v")],
    # only whole_factor_conversion_correctly_rounded (Flocq + Reals) depends on these standard-library axioms
    allowed_axioms=["ClassicalDedekindReals.sig_not_dec", "ClassicalDedekindReals.sig_forall_dec",
                    "FunctionalExtensionality.functional_extensionality_dep", "Classical_Prop.classic"],
    rule="inputs = (op, value, from-unit, to-unit): full spelling x target matrix (every alias, plural, case variant, "
         "unknown units) with rotating boundary values, plus random triples, monotonicity pairs, percentages and "
         "CommonValueType lists, and text reports (pprof -top rows: labels under -unit/minimum and divide_by, flat%/sum%/cum%) of small "
         "profiles; the harmonising clause reuses C07's convertible-units streams (also=C07:units); distinct = sha256 of the input term; non-trivial = value != 0 and from != to "
         "(scale/label), x != y (mono), both operands non-zero (pct), >= 2 types (common)",
    spec_what="unit conversion / label read-back / monotonicity / percentage differs from the C15 statement",
    trusted_base=["translator gen-unittable (dumps measurement.UnitTypes, factors as exact rationals of the float64s)",
                  "Flocq 4 (IEEE754.BinarySingleNaN, PrimFloat equivalence lemmas) and Coq Reals with their standard axioms, for one theorem",
                  "Coq SpecFloat (binary64 operations as Gallina functions) taken as the meaning of Go's float64 + - * /, int64->float64 and fmt %.2f/%.2g; agreement is observed bit for bit on every case",
                  "the exact-rational specification is not applied to a float result within float noise of a rounding/selection boundary (classes 900/901, counted in evidence)",
                  "strings.ToLower modelled for ASCII only"],
    assumptions=["the theorems of P_C15 are about the exact-rational model; its link to the float model is PROVED for the whole-number-factor families "
                 "(memory, time) while value*factor < 2^53 (whole_factor_conversion_correctly_rounded: the float result is the correctly rounded "
                 "exact quotient; Flocq, uses the standard library's real-number axioms classic, sig_forall_dec, sig_not_dec, "
                 "functional_extensionality_dep) and checked per case elsewhere (GCU family, larger products)",
                 "text-report rows are generated for single-frame samples with pairwise distinct |value| (ordering of ties is C08's subject)"],
 )
