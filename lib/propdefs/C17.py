"""C17 configuration for bin/check."""
CFG = dict(
    level="proof", pfile="P_C17.v", rmod="R_C17", judge="judge_C17",
    level_text="TBD",
    level_note="TBD",
    translators=[("gen-unittable", "Gen/Gen_UnitTable.v")],
    rule="TBD",
    spec_what="stack set differs from the C17 statement",
    trusted_base=[],
    assumptions=[],
)
