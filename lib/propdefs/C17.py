"""C17 configuration for bin/check."""
CFG = dict(
    level="proof", pfile="P_C17.v", rmod="R_C17", judge="judge_C17",
    level_text="End-to-end: glue model of the /flamegraph path (flags, URL parameters, default granularity, sample selection, aggregation, stateless sessions) with theorems web_session_history_irrelevant, url_sample_index_overrides_command_line, flamegraph_one_stack_per_loaded_sample, tied to driver.PProf + serveWebInterface by ~390 end-to-end cases per quick run. Theorems about the model of (*Report).Stacks (makeInitialStacks + fillPlaces), for ALL profiles (recursion, inlining, "
               "lines without function, empty stacks, locations without lines, equal names in different files), all options and all "
               "oracle answers: one stack per sample in order with the selected value; each stack = synthetic root + the sample's frames "
               "caller->callee with inlined frames expanded and flagged (slot by slot: name+line info, file, inlined); sources interned "
               "injectively by (name, file, line, column, inlined); sum of stack values = signed sum of sample values; Self = sum of the "
               "stacks a source terminates (mod 2^64, exact when it fits int64); Places = exactly (stack, first index) per stack containing "
               "the source, no stack twice, outermost occurrence, complete; every index in range; Display non-empty. Model tied to the code "
               "by ~1.7k differential cases per quick run through report.New(...).Stacks() and through the real /flamegraph handler "
               "(JSON parsed back, nulls/missing fields counted).",
    level_note="Non-null arrays are an observable of the harness (nil slices / JSON null, missing or mistyped fields are counted), not a "
               "Coq theorem: Gallina lists have no nil/empty distinction. Scale is float64 in Go and an exact rational in the model "
               "(compared within 2^-40 relative). Color (sha256) is not modelled. graph.ShortenFunctionName and filepath.Clean are "
               "oracles whose answers are shipped in each case; theorems hold for arbitrary oracle functions. Trusted: Coq kernel + "
               "vm_compute, harness, go build -overlay, encoding/json + html/template hand-off as exercised.",
    shard=150,
    translators=[("gen-unittable", "Gen/Gen_UnitTable.v")],
    rule="END-TO-END: driver.PProf -http with generated command lines (sample_index / legacy selection flags / mean / granularity / noinlines / showcolumns / trim_path / divide_by and irrelevant flags), profile fetched from serialized bytes through a Fetcher plug-in, real handler table, request histories (other views before and between /flamegraph requests, repeats, refused requests); deterministic streams e2e-history, e2e-flag-x-url, e2e-options on a not pre-aggregated 3-type profile, plus e2e-random; judged against the glue model applied to the harness's own parse of the same bytes. CORE: inputs = (profile as held by the report after aggregation, options {sample index, mean divisor, type, unit, trim path, ratio}, "
         "oracle tables); generators: seeded random profiles biased to few names/files (collisions), recursion (repeated locations), "
         "self-inlining, lines differing only in line/column, nil functions, empty stacks, locations without lines, diff-base labels, "
         "extreme int64 values x 6 granularities x noinlines/showcolumns; a third of them with shared backing arrays (same / overlapping / adjacent Location slices, shared Line and Value arrays); call sequences (\"seq\" cases: Stacks() 2-5 times on one report or on several reports sharing the profile, every returned stack set judged against the original profile, profile dumped again afterwards); web pages are read the way a browser does (HTML tokenizer delimits the script element, then the stackViewer(...) call is decoded; names/files with script end tags, comment openers, <>&, quotes, control characters); web sessions (2-4 /flamegraph requests through one webInterface, incl. a refused request in between); the same through the web handler with URL parameters "
         "(incl. profiles without samples / with only empty stacks); hand-made corner profiles; exhaustive small scope (all pairs of "
         "stacks of depth <= 2 (quick: 1/3 of them) or <= 3 (thorough) over 4 locations x 3 granularities); distinct = sha256 of the "
         "input term; non-trivial = at least one sample has a frame",
    spec_what="(incl. Total = sum of magnitudes over all samples, Scale = unit factor x ratio, Unit) stack set served to the flame graph violates the C17 statement (stack/frames mismatch, interning, value sum, self, "
              "places, index range, null array or missing field)",
    trusted_base=["harness HTML tokenizer (c17_page.go), cross-checked on every web case against the Gallina tokenizer S_Handoff.script_data_end",
                  "graph.ShortenFunctionName and filepath.Clean+ToSlash as oracles (answers shipped per case, identity where equal)",
                  "export shims internal/report/zz_verif_c17.go, internal/driver/zz_verif_c17.go (add-only; the driver shim calls the real "
                  "stackView handler and re-runs generateRawReport with the same configuration to hand the model the profile/options)",
                  "Scale compared within 2^-40 relative (float64 vs exact rational); unit table regenerated from /repo (gen-unittable)"],
    assumptions=["end-to-end layer: one source, no filters/tagroot/base profiles, DropFrames/KeepFrames empty, distinct sample type names, no saved settings",
                 "the script engine is approximated: the stackViewer call must read JSON, comma, JSON, \");\" and nothing else up to the end of the script element as the HTML tokenizer delimits it",
                 "encoding/json string encoding is modelled for valid UTF-8 without U+2028/U+2029",
                 "call sequences: the reports share one profile and only Stacks() is called between the two profile dumps",
                 "profile pointers are modelled as ids: locations/functions referenced by samples/lines exist and ids are unique (profile.CheckValid)",
                 "SourcePath is empty (trimPath's search-path heuristic is not modelled); TrimPath is modelled",
                 "StackSource.Color is not part of the observable"],
)
