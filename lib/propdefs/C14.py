"""C14 configuration for bin/check."""
CFG = dict(
    level="proof", pfile="P_C14.v", rmod="R_C14", judge="judge_C14", shard=120,
    level_text="Theorems (all documents / all raw sample lists / all exp oracles): the final pass of every legacy parser "
               "(location interning, id hand-out, mapping assignment, clean-up) shows one sample per raw sample in order with "
               "exactly its addresses, values and block-size label; the documented conversion convert_* of each of the five "
               "formats (Go count, heap family, contention/mutex, threadz, binary CPU) meets the specification's sample clause; "
               "an effective heap sampling rate <= 1 means raw values (model and spec); the CPU signal-handler frame is unique (map order immaterial); CPU header probing accepts exactly the word "
               "size/byte order written; the parser model converts every printed Go-count record line as documented. "
               "The parser model (hand recognisers for the 12 regexps, bufio.Scanner, strconv) is tied to /repo's ParseData by "
               "2,000+ differential cases per quick run (printed documents, layout variants, token mutations), and the "
               "implementation's output is judged by the independent spec checker legacy_spec.",
    level_note="parse(print doc) = convert doc is proved per record line for Go count only (_partial); for whole documents and the "
               "other formats it is stated (full_statement_*), holds on the evaluated Examples through the whole legacy chain, and is "
               "checked on every generated document of every run (model = implementation = convert, byte-identical printers). "
               "math.Exp is an oracle (math/big in the harness, +-1 and 2^-40 relative); contention delay scaling is exact Q vs float64 "
               "(same tolerance); Java heapz/contentionz/CPU, gzip, '$attr=' map replacers and regexp back-tracking corners are outside the "
               "model (class 900, skipped and counted). Trusted: Coq kernel + vm_compute, harness, Go printers (cross-checked against the Coq "
               "printers on every doc case).",
    rule="inputs = (kind, format, abstract document, printed bytes, exp table): per round one random document of each of the five "
         "formats (records with shared/adjacent/extreme addresses, zero counts, alloc columns, every heap header variant, rates none/1/2/3/small/524288 (effective rate exactly 1 included) x tiny 1-8 byte blocks with counts up to 40000, "
         "attribute blocks, same-as-previous threads, all four CPU word layouts with shared second frames at the len/32 margin, "
         "memory maps in /proc/maps, brief and gperftools form with adjacent/offset/main-binary/hugepage/non-executable entries), "
         "plus an END-TO-END layer (the printed documents, plain and gzip-compressed, through driver.PProf -traces with every way of naming a column on the command line, through interactive sessions with histories of sample_index= / mean= / <type>, total_<type>, mean_<type> shortcuts, and through the web /top handler with si/mean URL parameters; the printed legend, values and addresses are parsed back and compared with the glue model applied to the documented conversion) Java heapz/contentionz documents through the driver (drop/keep-frame tables applied by the real RemoveUninteresting/Prune; printed traces compared with the prune model) and deterministic streams generated on every run (incl. versioned-library names in front of the executable for the main-binary heuristic, and mapping file names with special characters: =, :, @, (deleted), brackets, $, non-ASCII, very long paths, in every map form) (runs of 2-4 EQUAL consecutive records in every format x handler frame(s) x duplicated leaf x all four CPU word layouts; CPU documents with >= 32 records whose tolerated outliers carry the handler address deeper or as leaf; one object as 3-4 contiguous map segments in every map form); its layout variants (CRLF, no final newline, column alignment, interleaved comments, symbolized thread lines) and 1-3 "
         "token-level mutations; distinct = sha256 of the input term; non-trivial = the document has at least one record",
    spec_what="legacy profile does not convert to the documented samples / addresses / values / block-size label / mappings",
    trusted_base=["end-to-end layer: text parser of -traces output and of the /top page JSON in the harness; values are read back as integers (-unit=nanoseconds keeps every legacy unit unscaled)", "hand-written recognisers for the regular expressions of legacy_profile.go (validated against Go regexp on every case)",
                  "math.Exp replaced by a table computed with math/big (256-bit Taylor series), compared within +-1 and 2^-40 relative",
                  "contention delay: exact rational in the model, float64 in Go, same tolerance",
                  "harness export shim profile/zz_verif_c14.go (reads the four frame regexps)",
                  "protobuf decoder assumed to reject legacy text (checked per case by the harness; flagged cases are skipped)"],
    assumptions=["end-to-end layer covers -traces at address granularity and web /top for a single source; other report formats, -base/-normalize, several sources and remote fetch are not driven", "bufio.Scanner's 64 KiB token limit and non-ASCII white space (unicode.IsSpace beyond ASCII) are outside the model; generators are ASCII",
                 "int64(float64) conversions stay in range (generators keep unsampled values below 2^62)",
                 "Java legacy formats are not modelled (cases that reach parseJavaProfile's body or javaCPUProfile are skipped, class 900)"],
)
