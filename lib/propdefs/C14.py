"""C14 configuration for bin/check."""
CFG = dict(
    level="proof", pfile="P_C14.v", rmod="R_C14", judge="judge_C14", shard=120,
    level_text="pending",
    level_note="pending",
    rule="pending",
    spec_what="legacy profile does not convert to the documented samples / addresses / values / block-size label / mappings",
    trusted_base=[],
    assumptions=[],
)
