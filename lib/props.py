"""Per-property configuration of bin/check: one module per property under lib/propdefs/ (CFG dict)."""
import glob, importlib.util, os

PROPS = {}
_d = os.path.join(os.path.dirname(os.path.abspath(__file__)), "propdefs")
for _f in sorted(glob.glob(os.path.join(_d, "C*.py"))):
    _n = os.path.basename(_f)[:-3]
    _spec = importlib.util.spec_from_file_location("propdefs_" + _n, _f)
    _m = importlib.util.module_from_spec(_spec)
    _spec.loader.exec_module(_m)
    PROPS[_n] = _m.CFG

BASELINE_OFF = ("for m in . ./browsertests; do (cd /repo/$m && go test -mod=mod -json -vet=off -count=1 -timeout 25m ./...); done")

_pending = "check not built yet (see DESIGN.md 5 for the planned model and theorems)"
NOT_APPLICABLE = {("C%02d" % i): _pending for i in range(1, 21)}
