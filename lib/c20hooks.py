"""C20: the dynamic side.  Re-runs the C20 stress generator in a harness built with -race (from
/repo's current tree, same overlay) and turns every race report into a violation with the report
as the replay.  If the race detector cannot be built here, says so in the evidence notes."""
import os, re, time
import vp


def race_stress(R):
    t0 = time.time()
    hb, log = vp.build_harness(race=True)
    if hb is None:
        if "cgo" in log.lower() or "gcc" in log.lower() or "-race" in log:
            R.notes.append("race detector unavailable here (%s); the concurrent-vs-sequential cases above are the only dynamic evidence" % log.strip()[-200:])
            return
        R.violation(dict(kind="correspondence-broken", what="race-enabled harness does not build", log=log[-2000:]), False)
        return
    build_s = time.time() - t0
    d = os.path.join(vp.scratch(), "race")
    os.makedirs(d, exist_ok=True)
    env = dict(vp.GOENV, GORACE="halt_on_error=0 exitcode=0 history_size=2", VERIF_C20_RACE="1")
    rounds = 1 if R.tier == "quick" else 2
    reports, total, wall = [], 0, 0.0
    for k in range(rounds):
        cmd = [hb, "-prop", "C20", "-seed", str(R.seed + 1000 + k), "-tier", R.tier, "-out", os.path.join(d, "cases.jsonl"),
               "-meta", os.path.join(d, "meta.json")]
        rc, out, w = vp.sh(cmd, cwd=d, env=env, timeout=1500)
        wall += w
        try:
            import json
            total += json.load(open(os.path.join(d, "meta.json"))).get("cases", 0)
        except Exception:
            pass
        if rc != 0 and "WARNING: DATA RACE" not in out:
            R.violation(dict(kind="harness-crashed", what="race-enabled stress run failed", rc=rc, log=out[-3000:]), False)
            return
        reports += re.split(r"(?m)^={18}\n", out)
    races = [r for r in reports if "WARNING: DATA RACE" in r]
    R.cov["race_stress"] = dict(rounds=rounds, scenarios_run=total, reports=len(races), build_s=round(build_s, 1), wall_s=round(wall, 1))
    R.cov["evaluations"] += total
    seen = set()
    for r in races:
        frames = re.findall(r"(?m)^\s+(\S+\(\))\n\s+(\S+:\d+)", r)
        key = tuple(frames[:2])
        if key in seen:
            continue
        seen.add(key)
        pprof = [f for f in frames if "google/pprof" in f[0] and "zzverif" not in f[0]]
        R.violation(dict(kind="data-race", what="the Go race detector reported a data race while the tool's permitted concurrent "
                         "operations were overlapped (stress generator of harness/cmd/c20.go, -race build)",
                         where=["%s %s" % f for f in pprof[:6]], report=r[:6000]), True)
        if len(seen) >= 5:
            break
