"""C19 extra step: crash/fault exploration of writeSettings on the REAL code and kernel.

A child process of the harness (`harness c19-write <file> <variant>`) performs one writeSettings.
It is run under `strace -f`:
  * baseline: the system calls it issues between two marker stats are mapped to the op language of
    coq/M_Fs.v; the op list must satisfy `protocol_ok` (the hypothesis of theorem crash_atomic) --
    evaluated inside Coq by judge_C19 on an "fs" case;
  * kill at every system call of the window (`--inject=<call>:signal=KILL:when=k`): the settings
    file afterwards must hold the complete old or the complete new contents, and must equal what
    M_Fs predicts for that prefix of the op list (correspondence of the file-system model);
  * error at every system call (`error=ENOSPC/EIO/EACCES/...`): same, and the op list actually
    executed on the error path must again be in the protocol class.
Uses the Run object of bin/check: self.violation, self.cov, self.notes.
"""
import json, os, re, shutil, subprocess
import vp

CALLS = ["openat", "read", "write", "fchmod", "fsync", "close", "renameat", "rename", "renameat2", "unlinkat", "unlink",
         "mkdirat", "mkdir", "newfstatat", "ftruncate", "pwrite64", "fdatasync", "link", "linkat"]
ERRS = {"openat": "EACCES", "write": "ENOSPC", "fchmod": "EPERM", "fsync": "EIO", "close": "EIO",
        "renameat": "EACCES", "rename": "EACCES", "renameat2": "EACCES", "mkdirat": "EACCES", "mkdir": "EACCES",
        "pwrite64": "ENOSPC", "fdatasync": "EIO", "ftruncate": "EIO"}
MARK_B, MARK_E = b"/verif-marker-begin", b"/verif-marker-end"


def ts(b):
    """Coq rendering of a byte string as a term (same as harness/cmd/term.go)."""
    if all(0x20 <= c <= 0x7e for c in b):
        return 'TS "%s"' % b.decode().replace('"', '""')
    return "TS (B [%s])" % ";".join(str(c) for c in b)


def opt(b):
    return "TL []" if b is None else "TL [%s]" % ts(b)


def optref(b, old, new):
    """contents identical to the old / new bytes already in the input travel as a reference"""
    if b == old:
        return "TZ 0"
    if b == new:
        return "TZ 1"
    return opt(b)


def unhex(s):
    return bytes(int(x, 16) for x in re.findall(r"\\x([0-9a-f]{2})", s))


LINE = re.compile(r"^(\d+)\s+(\w+)\((.*)\)\s+=\s+(-?\d+|\?)(.*)$")


def parse(log):
    """-> list of (tid, name, args string, ret int|None) in log order (unfinished/resumed joined)."""
    out, pend = [], {}
    for line in log.split("\n"):
        m = re.match(r"^(\d+)\s+(.*)$", line)
        if not m:
            continue
        tid, rest = m.group(1), m.group(2)
        if rest.endswith("<unfinished ...>"):
            pend[tid] = rest[:-len("<unfinished ...>")]
            continue
        r = re.match(r"<\.\.\. (\w+) resumed>(.*)$", rest)
        if r and tid in pend:
            rest = pend.pop(tid) + r.group(2)
        m2 = LINE.match(tid + " " + rest)
        if m2:
            out.append((tid, m2.group(2), m2.group(3), None if m2.group(4) == "?" else int(m2.group(4))))
    for tid, rest in pend.items():      # killed inside the call
        m3 = re.match(r"^(\w+)\((.*)$", rest)
        if m3:
            out.append((tid, m3.group(1), m3.group(2), None))
    return out


def strs(args):
    return [unhex(x) for x in re.findall(r'"((?:\\x[0-9a-f]{2})*)"', args)]


def window(calls):
    """calls of the marker thread strictly between the markers; plus per-name ordinal (from the
    start of that thread) of each."""
    tid, begin = None, None
    for i, (t, n, a, r) in enumerate(calls):
        if n == "newfstatat" and MARK_B in strs(a):
            tid, begin = t, i
            break
    if tid is None:
        return None, []
    count, win, inside = {}, [], False
    for i, (t, n, a, r) in enumerate(calls):
        if t != tid:
            continue
        count[n] = count.get(n, 0) + 1
        if i == begin:
            inside = True
            continue
        if inside and n == "newfstatat" and MARK_E in strs(a):
            break
        if inside:
            win.append(dict(name=n, args=a, ret=r, ordinal=count[n]))
    return tid, win


def to_op(c):
    """map one SUCCESSFUL system call to an M_Fs op term (None = no effect on the model)."""
    n, a, r = c["name"], c["args"], c["ret"]
    if r is None or r < 0:
        return None
    s = strs(a)
    fd0 = re.match(r"\s*(\d+)", a)
    if n == "openat":
        flags = a.split(",")[2] if len(a.split(",")) > 2 else ""
        if "O_DIRECTORY" in flags:
            return None
        return "TL [TS \"open\"; TZ %d; %s; TZ %d; TZ %d]" % (r, ts(s[0]), int("O_CREAT" in flags), int("O_TRUNC" in flags or "O_EXCL" in flags))
    if n in ("write", "pwrite64"):
        return "TL [TS \"write\"; TZ %s; %s]" % (fd0.group(1), ts(s[0][:r] if s else b""))
    if n in ("fchmod", "fsync", "fdatasync"):
        return "TL [TS \"meta\"; TZ %s]" % fd0.group(1)
    if n == "ftruncate":   # not in the op language: make the recogniser reject it if it hits the target's fd
        return "TL [TS \"write\"; TZ %s; TS \"<ftruncate>\"]" % fd0.group(1)
    if n == "close":
        return "TL [TS \"close\"; TZ %s]" % fd0.group(1)
    if n in ("renameat", "rename", "renameat2", "link", "linkat"):
        return "TL [TS \"rename\"; %s; %s]" % (ts(s[0]), ts(s[1]))
    if n in ("unlinkat", "unlink"):
        return "TL [TS \"unlink\"; %s]" % ts(s[0])
    if n in ("mkdirat", "mkdir"):
        return "TL [TS \"mkdir\"; %s]" % ts(s[0])
    return None


def read(p):
    try:
        with open(p, "rb") as fh:
            return fh.read()
    except FileNotFoundError:
        return None


def strace_works():
    try:
        p = subprocess.run(["strace", "-f", "-e", "trace=write", "-o", "/dev/null", "/bin/true"],
                           stdout=subprocess.PIPE, stderr=subprocess.PIPE, timeout=30)
        return p.returncode == 0
    except Exception:
        return False


def run(self):
    if not strace_works():
        # an environment without ptrace says nothing about the tree: no alarm, but say so
        self.notes.append("c19_fs: strace/ptrace not usable here -- crash/fault exploration of writeSettings was SKIPPED "
                          "(theorem crash_atomic is proved, but its protocol hypothesis was not re-validated on this run)")
        self.cov["c19_fs"] = dict(skipped="strace unavailable")
        return
    hb, _ = vp.build_harness()
    base = os.path.join(vp.scratch(), "c19fs")
    shutil.rmtree(base, ignore_errors=True)
    os.makedirs(base)
    env = dict(vp.GOENV, GOMAXPROCS="1", GOGC="off")
    self.cov["trusted_base"] = self.cov.get("trusted_base", []) + ["strace 6.x --inject (kill / error at a chosen system call)"]
    variants = [(None, 1), (1, 2), (3, 1), (2, 4), (4, 0)]
    if self.tier == "thorough":
        variants += [(None, 6), (6, 12), (12, 3), (1, 1), (0, 5), (5, 5), (8, 2)]
    stats = dict(saves=0, kill_points=0, kill_unverified=0, fault_points=0, syscalls=[])
    cases = []

    def child(fname, variant, inject=None, log=None):
        cmd = [hb, "c19-write", fname, variant]
        if log:
            cmd = ["strace", "-f", "-xx", "-s", "1000000", "-e", "trace=" + ",".join(CALLS)] + \
                  (["-e", "inject=" + inject] if inject else []) + ["-o", log] + cmd
        p = subprocess.run(cmd, env=env, stdout=subprocess.PIPE, stderr=subprocess.STDOUT, timeout=60)
        return p.returncode, p.stdout.decode("utf-8", "replace")

    for vi, (oldn, newn) in enumerate(variants):
        d = os.path.join(base, "v%d" % vi)
        fname = os.path.join(d, "cfgdir", "pprof", "settings.json")
        # expected new bytes: an untraced run somewhere else
        exp = os.path.join(d, "exp", "settings.json")
        rc, out = child(exp, "new:%d" % newn)
        new = read(exp)
        if rc != 0 or new is None:
            self.violation(dict(kind="c19fs-child-failed", rc=rc, out=out[-2000:]), False)
            return

        def reset():
            shutil.rmtree(os.path.join(d, "cfgdir"), ignore_errors=True)
            if oldn is not None:
                child(fname, "old:%d" % oldn)
            return read(fname)

        old = reset()
        log = os.path.join(d, "base.log")
        rc, out = child(fname, "new:%d" % newn, log=log)
        calls = parse(open(log, errors="replace").read())
        tid, win = window(calls)
        if rc != 0 or tid is None:
            self.violation(dict(kind="c19fs-baseline-failed", rc=rc, out=out[-2000:]), False)
            return
        final = read(fname)
        ops = [(j, to_op(c)) for j, c in enumerate(win)]
        opterms = [t for _, t in ops if t]
        stats["saves"] += 1
        if vi == 0:
            stats["syscalls"] = ["%s=%s" % (c["name"], c["ret"]) for c in win]
        # kill on entering the j-th call of the window: the model ops completed = those before j
        kills = []
        for j, c in enumerate(win):
            done = len([1 for jj, t in ops if t and jj < j])
            ok = False
            for attempt in range(3):
                reset()
                klog = os.path.join(d, "kill%d.log" % j)
                rc, out = child(fname, "new:%d" % newn, inject="%s:signal=KILL:when=%d" % (c["name"], c["ordinal"]), log=klog)
                kt, kwin = window(parse(open(klog, errors="replace").read()))
                # verified: the process died, and exactly j calls of the window completed before the fatal one
                if rc in (-9, 137) and kt is not None and len(kwin) == j + 1 and kwin[-1]["name"] == c["name"] and kwin[-1]["ret"] is None:
                    ok = True
                    break
            if not ok:
                stats["kill_unverified"] += 1
                continue
            stats["kill_points"] += 1
            kills.append((done, read(fname)))
            # second step of the crash history: a NEW process edits the settings (first making the file
            # shorter) on top of whatever the killed save left behind in the directory
            try:
                pa = subprocess.run([hb, "c19-edits", fname, "after"], env=env, stdout=subprocess.PIPE, stderr=subprocess.PIPE, timeout=60)
                case2 = json.loads(pa.stdout.decode("utf-8", "replace").strip().split("\n")[-1])
                cases.append({"in": case2["in"], "obs": case2["obs"], "gen": "fs-kill-then-edit",
                              "what": "save %s -> %s configs killed at %s (call %d of %d), then delete / menu / save / delete in a new process" % (oldn, newn, c["name"], j, len(win))})
                stats["kill_then_edit"] = stats.get("kill_then_edit", 0) + 1
            except Exception as e:
                self.violation(dict(kind="c19fs-after-child-failed", error=str(e)), False)
        inp = "TL [TS \"fs\"; %s; %s; TL [%s]; %s; TZ 0; TL [%s]]" % (
            ts(fname.encode()), opt(old), "; ".join(opterms), opt(new), "; ".join("TZ %d" % k for k, _ in kills))
        obs = "TL [%s; TL [%s]]" % (optref(final, old, new), "; ".join("TL [TZ %d; %s]" % (k, optref(b, old, new)) for k, b in kills))
        cases.append({"in": inp, "obs": obs, "gen": "fs-kill", "what": "save %s -> %s configs, kill at each of %d system calls" % (oldn, newn, len(win))})
        # fail the j-th call
        for j, c in enumerate(win):
            if c["name"] not in ERRS or (c["ret"] is not None and c["ret"] < 0):
                continue
            reset()
            flog = os.path.join(d, "fail%d.log" % j)
            rc, out = child(fname, "new:%d" % newn, inject="%s:error=%s:when=%d" % (c["name"], ERRS[c["name"]], c["ordinal"]), log=flog)
            ft, fwin = window(parse(open(flog, errors="replace").read()))
            if ft is None:
                continue
            stats["fault_points"] += 1
            fops = [to_op(x) for x in fwin]
            inp = "TL [TS \"fs\"; %s; %s; TL [%s]; %s; TZ %d; TL []]" % (
                ts(fname.encode()), opt(old), "; ".join(t for t in fops if t), opt(new), int(rc != 0))
            obs = "TL [%s; TL []]" % optref(read(fname), old, new)
            cases.append({"in": inp, "obs": obs, "gen": "fs-fault", "what": "save %s -> %s configs, %s fails with %s (exit %d)" % (oldn, newn, c["name"], ERRS[c["name"]], rc)})
    # ---- a failed edit followed by more work in the SAME process (harness c19-edits): the first
    # edit (overwrite / delete / append, optionally after a page render has read the file) gets one
    # system call of its writeSettings part failed; then menu, save, delete, save run normally.
    # The child prints the complete "seq" case; M_Settings predicts every step.
    import json as _json
    edit_variants = ["overwrite", "delete", "overwrite+read", "delete+read"]
    if self.tier == "thorough":
        edit_variants += ["append", "append+read"]
    stats["edit_fault_points"] = 0
    for vi, variant in enumerate(edit_variants):
        d = os.path.join(base, "e%d" % vi)
        fname = os.path.join(d, "cfgdir", "pprof", "settings.json")

        def echild(inject=None, log=None, first_fault=""):
            shutil.rmtree(os.path.join(d, "cfgdir"), ignore_errors=True)
            cmd = [hb, "c19-edits", fname, variant, first_fault]
            if log:
                cmd = ["strace", "-f", "-xx", "-s", "1000000", "-e", "trace=" + ",".join(CALLS)] + \
                      (["-e", "inject=" + inject] if inject else []) + ["-o", log] + cmd
            p = subprocess.run(cmd, env=env, stdout=subprocess.PIPE, stderr=subprocess.PIPE, timeout=60)
            try:
                return p.returncode, _json.loads(p.stdout.decode("utf-8", "replace").strip().split("\n")[-1])
            except Exception:
                return p.returncode, None

        os.makedirs(d, exist_ok=True)
        log = os.path.join(d, "base.log")
        rc, case = echild(log=log)
        tid, win = window(parse(open(log, errors="replace").read()))
        if rc != 0 or case is None or tid is None:
            self.violation(dict(kind="c19fs-edits-baseline-failed", rc=rc, variant=variant), False)
            return
        cases.append({"in": case["in"], "obs": case["obs"], "gen": "fs-edits", "what": "%s then more work, no fault" % variant})
        # only the writeSettings part: from the creation of the temporary file on
        start = next((j for j, c in enumerate(win) if c["name"] == "openat" and "O_CREAT" in c["args"]), len(win))
        for j, c in enumerate(win):
            if j < start or c["name"] not in ERRS or (c["ret"] is not None and c["ret"] < 0):
                continue
            rc, case = echild(inject="%s:error=%s:when=%d" % (c["name"], ERRS[c["name"]], c["ordinal"]), log=os.path.join(d, "f%d.log" % j))
            if case is None:
                self.violation(dict(kind="c19fs-edits-child-failed", rc=rc, variant=variant, syscall=c["name"]), False)
                continue
            stats["edit_fault_points"] += 1
            cases.append({"in": case["in"], "obs": case["obs"], "gen": "fs-edits",
                          "what": "%s with %s failing (%s), then menu / save / delete / save in the same process" % (variant, c["name"], ERRS[c["name"]])})
        # the READ part of the edit: opening / reading settings.json fails (permission errors and EIO);
        # the child is told so (the fault is an input of the model: such a request must fail with
        # "could not read settings" and leave the file alone)
        rfd = None
        for j, c in enumerate(win):
            if j >= start:
                break
            errs_here = []
            if c["name"] == "openat" and fname.encode() in strs(c["args"]) and "O_CREAT" not in c["args"] and (c["ret"] or -1) >= 0:
                rfd = c["ret"]
                errs_here = ["EACCES", "EPERM", "EIO"]
            elif c["name"] == "read" and rfd is not None and re.match(r"\s*%d," % rfd, c["args"]) and (c["ret"] or 0) > 0:
                errs_here = ["EIO"]
            for e in errs_here:
                rc, case = echild(inject="%s:error=%s:when=%d" % (c["name"], e, c["ordinal"]), log=os.path.join(d, "r%d%s.log" % (j, e)), first_fault="read")
                if case is None:
                    self.violation(dict(kind="c19fs-edits-child-failed", rc=rc, variant=variant, syscall=c["name"]), False)
                    continue
                stats["edit_read_fault_points"] = stats.get("edit_read_fault_points", 0) + 1
                cases.append({"in": case["in"], "obs": case["obs"], "gen": "fs-edits",
                              "what": "%s whose read of the settings file fails (%s = %s), then menu / save / delete / save in the same process" % (variant, c["name"], e)})
    fails, errs, wall = vp.eval_cases(self.cfg["rmod"], self.cfg["judge"], cases, shard=12, tag="c19fs")
    self.cov["evaluations"] += len(cases)
    self.cov["c19_fs"] = dict(stats, cases=len(cases), eval_wall_s=round(wall, 2))
    self.cov["distinct_nontrivial"] += len(cases)
    if errs:
        self.violation(dict(kind="model-evaluation-failed", step="c19fs", errors=errs[:3]), False)
    for f in fails:
        c = cases[f["idx"]]
        if f["corr"] and f["spec"]:
            continue
        info = dict(case={"in": c["in"][:6000], "obs": c["obs"][:6000], "gen": c["gen"]}, what_was_done=c["what"],
                    model_agrees_with_impl=f["corr"], spec_accepts_impl_output=f["spec"])
        if not f["spec"]:
            info["kind"] = "spec-violated"
            info["what"] = ("settings file is neither the complete old nor the complete new contents after an interrupted/failed save, "
                            "or the system calls issued by writeSettings are outside the protocol class of theorem crash_atomic"
                            if c["gen"] not in ("fs-edits", "fs-kill-then-edit") else
                            "after an edit whose write failed, later requests of the same process do not see / produce what the settings file held")
            self.violation(info, True)
        else:
            info["kind"] = "correspondence-broken"
            info["what"] = "M_Fs predicts other file contents for this prefix of the observed system calls than the kernel produced"
            self.violation(info, False)
    shutil.rmtree(base, ignore_errors=True)
