#!/usr/bin/env python3
"""Common machinery of /verif checks: Coq build + gate + Print Assumptions, overlay-built Go
harness, in-Coq evaluation of cases (vm_compute), decision and evidence.  See DESIGN.md 2."""
import atexit, fcntl, glob, hashlib, json, os, re, shutil, subprocess, sys, time
from concurrent.futures import ThreadPoolExecutor

VERIF = os.path.dirname(os.path.dirname(os.path.abspath(__file__)))
REPO = os.environ.get("VERIF_REPO", "/repo")
COQ = os.path.join(VERIF, "coq")
HARN = os.path.join(VERIF, "harness")
NPROC = int(os.environ.get("VERIF_JOBS", "16"))

GOENV = dict(os.environ, GOFLAGS="-mod=mod", GOPROXY="off", GOSUMDB="off", GOTOOLCHAIN="local",
             CGO_ENABLED=os.environ.get("CGO_ENABLED", "0"))

_scratch = None


def scratch():
    """Per-run scratch directory outside /repo, /verif and /tmp; removed on exit."""
    global _scratch
    if _scratch is None:
        base = os.environ.get("VERIF_TMP", "/var/tmp")
        _scratch = os.path.join(base, "verif-%d" % os.getpid())
        os.makedirs(_scratch, exist_ok=True)
        if not os.environ.get("VERIF_KEEP"):
            atexit.register(lambda: shutil.rmtree(_scratch, ignore_errors=True))
    return _scratch


def sh(cmd, cwd=None, timeout=600, env=None, input=None):
    t0 = time.time()
    try:
        p = subprocess.run(cmd, cwd=cwd, env=env or os.environ, timeout=timeout, input=input,
                           stdout=subprocess.PIPE, stderr=subprocess.STDOUT)
        out = p.stdout.decode("utf-8", "replace")
        return p.returncode, out, time.time() - t0
    except subprocess.TimeoutExpired as e:
        return 124, (e.stdout or b"").decode("utf-8", "replace") + "\nTIMEOUT", time.time() - t0


# ------------------------------------------------------------------ Go harness (overlay build)

def overlay_json():
    """Map every file under harness/overlay/<pkg>/ and harness/cmd/ to a virtual path in /repo."""
    rep = {}
    for root, _, files in os.walk(os.path.join(HARN, "overlay")):
        for f in files:
            if f.endswith(".go"):
                src = os.path.join(root, f)
                rel = os.path.relpath(src, os.path.join(HARN, "overlay"))
                rep[os.path.join(REPO, rel)] = src
    for f in sorted(os.listdir(os.path.join(HARN, "cmd"))):
        if f.endswith(".go"):
            rep[os.path.join(REPO, "internal/zzverif/harness", f)] = os.path.join(HARN, "cmd", f)
    path = os.path.join(scratch(), "overlay.json")
    with open(path, "w") as fh:
        json.dump({"Replace": rep}, fh)
    return path


_harness_bin = None
_props = None          # the properties the running check needs from the harness (set_props)
harness_subset = None  # the file subset used when the full harness did not build


def set_props(props, translators=()):
    """Tell build_harness which properties (and translator subcommands) the running check needs, so
    that when the full harness no longer compiles against /repo (a change broke a hook of some
    OTHER property) the check can still run on the part of the harness it depends on."""
    global _props
    _props = (list(props), list(translators))


_DECL = re.compile(r"^(?:func (\w+)|type (\w+)|var (\w+)|const (\w+))", re.M)   # top-level, methods excluded
_GROUP = re.compile(r"^(?:var|const) \((.*?)^\)", re.M | re.S)


def _decls(src):
    names = {n for m in _DECL.finditer(src) for n in m.groups() if n}
    for g in _GROUP.finditer(src):
        names |= set(re.findall(r"^\t(\w+)", g.group(1), re.M))
    return names


def _subset_build(out, race, props, translators):
    """Compiler-driven closure: start from the common files and the files of the given properties
    (and of the translators they use), add the file defining each identifier the compiler reports as
    undefined, until the subset builds or nothing more can be added."""
    cmd = os.path.join(HARN, "cmd")
    srcs = {f: strip_go_comments(open(os.path.join(cmd, f)).read()) for f in os.listdir(cmd) if f.endswith(".go")}
    defs = {}
    for f, src in srcs.items():
        for n in _decls(src):
            defs.setdefault(n, set()).add(f)
    ovdefs = {}
    for root, _, files in os.walk(os.path.join(HARN, "overlay")):
        for f in files:
            if f.endswith(".go"):
                path = os.path.join(root, f)
                for n in set(re.findall(r"^func (?:\([^)]*\) )?(Verif\w+)|^(?:type|var|const) (Verif\w+)", open(path).read(), re.M)):
                    for x in n:
                        if x:
                            ovdefs.setdefault(x, set()).add(path)
    sel = {"main.go", "term.go", "profterm.go"}
    for f, src in srcs.items():
        if any(re.match(r"c%s(\D|$)" % p[1:], f) for p in props):
            sel.add(f)
        if any(('subcmds["%s"]' % t) in src for t in translators):
            sel.add(f)
    log = ""
    for _ in range(15):
        ov = set()
        for f in sel:
            for n in set(re.findall(r"\.(Verif\w+)", srcs[f])):
                ov |= ovdefs.get(n, set())
        rep = {os.path.join(REPO, os.path.relpath(x, os.path.join(HARN, "overlay"))): x for x in ov}
        for f in sel:
            rep[os.path.join(REPO, "internal/zzverif/harness", f)] = os.path.join(cmd, f)
        path = os.path.join(scratch(), "overlay-subset.json")
        with open(path, "w") as fh:
            json.dump({"Replace": rep}, fh)
        rc, log = _go_build(out, path, race)
        if rc == 0:
            return 0, log, dict(cmd=sorted(sel), overlay=sorted(os.path.relpath(x, HARN) for x in ov))
        add = set()
        for n in re.findall(r": undefined: (\w+)", log):
            add |= defs.get(n, set())
        if not (add - sel):
            break
        sel |= add
    return 1, log, None


def strip_go_comments(src):
    return re.sub(r"//[^\n]*", "", re.sub(r"/\*.*?\*/", "", src, flags=re.S))


def _go_build(out, overlay, race):
    cmd = ["go", "build", "-tags", "verif", "-overlay", overlay, "-o", out]
    env = dict(GOENV)
    if race:
        cmd.insert(2, "-race")
        env["CGO_ENABLED"] = "1"
    cmd.append("./internal/zzverif/harness")
    rc, log, _ = sh(cmd, cwd=REPO, env=env, timeout=600)
    return rc, log


def build_harness(race=False):
    """Compile the harness from /repo's CURRENT working tree (hooks on: -tags verif -overlay).  If the
    whole harness does not compile, fall back to the files the running check depends on."""
    global _harness_bin, harness_subset
    if _harness_bin and not race:
        return _harness_bin, ""
    out = os.path.join(scratch(), "harness-race" if race else "harness")
    rc, log = _go_build(out, overlay_json(), race)
    if rc != 0 and _props:
        rc2, log2, sub = _subset_build(out, race, *_props)
        if rc2 == 0:
            harness_subset = dict(sub, full_build_log=log[-1500:])
            rc, log = 0, log2
        else:
            log = log + "\n--- subset build (files this check depends on) ---\n" + log2
    if rc != 0:
        return None, log
    if not race:
        _harness_bin = out
    return out, log


def run_harness(prop, seed, tier, extra_args=(), timeout=1200, binary=None, only=None):
    hb = binary or build_harness()[0]
    d = os.path.join(scratch(), "run-" + prop)
    os.makedirs(d, exist_ok=True)
    cases = os.path.join(d, "cases.jsonl")
    meta = os.path.join(d, "meta.json")
    cmd = [hb, "-prop", prop, "-seed", str(seed), "-tier", tier, "-out", cases, "-meta", meta] + list(extra_args)
    rc, log, wall = sh(cmd, cwd=d, env=dict(GOENV, VERIF_ONLY=only or ""), timeout=timeout)
    m = {}
    if os.path.exists(meta):
        m = json.load(open(meta))
    infl = os.path.join(d, "inflight.txt")   # the input a harness was running when it died
    if rc != 0 and os.path.exists(infl):
        m["inflight"] = open(infl, errors="replace").read()
    cl = []
    if os.path.exists(cases):
        with open(cases, "rb") as fh:
            for line in fh:
                try:
                    cl.append(json.loads(line))
                except ValueError:      # truncated last line of a harness that died: reported via rc
                    if rc == 0:
                        rc = 3
                    break
    return rc, log, cl, m, wall


# ------------------------------------------------------------------ Coq build

def strip_comments(src):
    out, depth, i = [], 0, 0
    while i < len(src):
        if src.startswith("(*", i):
            depth += 1; i += 2
        elif src.startswith("*)", i) and depth > 0:
            depth -= 1; i += 2
        else:
            if depth == 0:
                out.append(src[i])
            i += 1
    return "".join(out)


GATE = re.compile(r"\b(Admitted|admit|Axiom|Axioms|Parameter|Parameters|Conjecture|Conjectures)\b"
                  r"|Admit\s+Obligations|Unset\s+Guard|bypass_check|type-in-type|impredicative-set"
                  r"|Unset\s+Positivity|Unset\s+Universe")


def coq_sources():
    fs = []
    for pat in ("Base/*.v", "Gen/*.v", "*.v"):
        fs += sorted(glob.glob(os.path.join(COQ, pat)))
    return [os.path.relpath(f, COQ) for f in fs]


def gate():
    """No Admitted/admit/Axiom/Parameter/... anywhere in the development (comments excluded).
    Variable/Hypothesis are allowed only inside a Section."""
    bad = []
    for f in coq_sources():
        src = strip_comments(open(os.path.join(COQ, f), errors="replace").read())
        src_ns = re.sub(r'"(?:[^"]|"")*"', '""', src)
        for m in GATE.finditer(src_ns):
            bad.append("%s: %s" % (f, m.group(0)))
        depth = 0
        for line in src_ns.split("\n"):
            if re.match(r"\s*Section\b", line): depth += 1
            elif re.match(r"\s*End\b", line) and depth > 0: depth -= 1
            elif depth == 0 and re.match(r"\s*(Variable|Variables|Hypothesis|Hypotheses|Context)\b", line):
                bad.append("%s: %s outside a section" % (f, line.strip()))
    return bad


def coq_build(timeout=3000):
    """Full .vo build (coq_makefile + make -j), serialised by a lock; returns (ok, log, failing_file)."""
    os.makedirs(os.path.join(COQ, "Gen"), exist_ok=True)
    lock = open(os.path.join(COQ, ".lock"), "w")
    fcntl.flock(lock, fcntl.LOCK_EX)
    try:
        proj = "-Q . PV\n-arg -w -arg -notation-overridden,-deprecated-hint-without-locality,-deprecated-instance-without-locality\n" + "\n".join(coq_sources()) + "\n"
        pp = os.path.join(COQ, "_CoqProject")
        old = open(pp).read() if os.path.exists(pp) else None
        if old != proj or not os.path.exists(os.path.join(COQ, "Makefile.coq")):
            open(pp, "w").write(proj)
            rc, log, _ = sh(["coq_makefile", "-f", "_CoqProject", "-o", "Makefile.coq"], cwd=COQ)
            if rc != 0:
                return False, log, None
        rc, log, wall = sh(["make", "-f", "Makefile.coq", "-j%d" % NPROC, "-k"], cwd=COQ, timeout=timeout)
        failing = None
        if rc != 0:
            m = re.search(r'File "\./([^"]+)", line (\d+)', log)
            if m:
                failing = "%s:%s" % (m.group(1), m.group(2))
        return rc == 0, log, failing
    finally:
        fcntl.flock(lock, fcntl.LOCK_UN)
        lock.close()


def theorems_of(pfile):
    src = strip_comments(open(os.path.join(COQ, pfile)).read())
    return re.findall(r"^\s*(?:Theorem|Corollary)\s+(\w+)", src, re.M)


def print_assumptions(pfile):
    """Re-run coqc on the property file (it holds only `Theorem .. exact lemma. Print Assumptions`)
    and return {theorem: 'closed' | [axioms]} plus raw log."""
    d = os.path.join(scratch(), "pa")
    os.makedirs(d, exist_ok=True)
    tmp = os.path.join(d, os.path.basename(pfile))
    shutil.copy(os.path.join(COQ, pfile), tmp)
    rc, log, wall = sh(["coqc", "-Q", COQ, "PV", "-w", "-notation-overridden", tmp], cwd=d, timeout=900)
    names = re.findall(r"Print Assumptions\s+(\w+)\s*\.", strip_comments(open(tmp).read()))
    res, chunks = {}, re.split(r"(?m)^(?=Closed under the global context|Axioms:)", log)
    chunks = [c for c in chunks if c.startswith("Closed under") or c.startswith("Axioms:")]
    for n, c in zip(names, chunks):
        if c.startswith("Closed"):
            res[n] = "closed"
        else:
            res[n] = re.findall(r"(?m)^([A-Za-z_][\w.']*)\s*:", c.split("\n", 1)[1] if "\n" in c else "")
    return rc == 0, res, log, wall


# ------------------------------------------------------------------ evaluating cases inside Coq

def _write_shard(path, rmod, judge, cases):
    with open(path, "wb") as fh:
        fh.write(("From PV Require Import Base.Term %s.\nImport ListNotations.\nOpen Scope string_scope.\nOpen Scope Z_scope.\n"
                  "Definition cases : list (term * term) := [\n" % rmod).encode())
        for k, c in enumerate(cases):
            if k:
                fh.write(b";\n")
            fh.write(b"(" + c["in"].encode() + b",\n " + c["obs"].encode() + b")")
        fh.write(("\n].\nDefinition res := Eval vm_compute in %s cases.\nPrint res.\n" % judge).encode())


RES_ITEM = re.compile(r"\((\d+),\((\d),(\d)\),\[([^\]]*)\]\)")


def eval_cases(rmod, judge, cases, shard=400, timeout=1500, tag="ev"):
    """Evaluate the model/spec on every case inside Coq.  Returns (failures, log, wall) where
    failures = list of dict(idx, corr, spec, cls)."""
    d = os.path.join(scratch(), tag)
    shutil.rmtree(d, ignore_errors=True)
    os.makedirs(d)
    shards = [cases[i:i + shard] for i in range(0, len(cases), shard)]
    t0 = time.time()

    def one(k):
        name = "cases_%d" % k
        p = os.path.join(d, name + ".v")
        _write_shard(p, rmod, judge, shards[k])
        rc, log, _ = sh(["coqc", "-Q", COQ, "PV", "-w", "-notation-overridden", p], cwd=d, timeout=timeout)
        return k, rc, log

    fails, errs = [], []
    with ThreadPoolExecutor(max_workers=NPROC) as ex:
        for k, rc, log in ex.map(one, range(len(shards))):
            flat = re.sub(r"\s+", "", log).replace("%Z", "")
            m = re.search(r"res=(.*?):list", flat, re.S)
            if rc != 0 or not m:
                errs.append("shard %d: rc=%d %s" % (k, rc, log[-800:]))
                continue
            for it in RES_ITEM.finditer(m.group(1)):
                cls = [int(x) for x in it.group(4).split(";") if x]
                fails.append(dict(idx=k * shard + int(it.group(1)), corr=it.group(2) == "1",
                                  spec=it.group(3) == "1", cls=cls))
    return fails, errs, time.time() - t0


# ------------------------------------------------------------------ known findings

def known_findings():
    """known_findings.txt: lines `finding: property=<id> class=<n> <what fails>` and
    `fixed: property=<id> <commit> <what failed>`.  Never written at run time."""
    out = {"finding": [], "fixed": []}
    p = os.path.join(VERIF, "known_findings.txt")
    if os.path.exists(p):
        for line in open(p):
            line = line.strip()
            m = re.match(r"finding:\s+property=(\S+)\s+class=(\S+)\s+(.*)", line)
            if m:
                out["finding"].append(dict(prop=m.group(1), cls=m.group(2), what=m.group(3)))
            m = re.match(r"fixed:\s+property=(\S+)\s+(\S+)\s+(.*)", line)
            if m:
                out["fixed"].append(dict(prop=m.group(1), commit=m.group(2), what=m.group(3)))
    return out


def write_json(path, obj):
    os.makedirs(os.path.dirname(path), exist_ok=True)
    tmp = path + ".tmp"
    with open(tmp, "w") as fh:
        json.dump(obj, fh, indent=1, sort_keys=False)
        fh.write("\n")
    os.replace(tmp, path)
