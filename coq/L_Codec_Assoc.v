(* Sorted association lists: how assoc_update behaves when keys arrive in increasing order
   (the order in which preEncode emits labels), used by the regrouping proof of C01. *)
From Coq Require Import Lia.
From PV Require Import M_Codec.
Open Scope string_scope.
Open Scope list_scope.

Lemma str_ltb_irrefl k : str_ltb k k = false.
Proof.
  unfold str_ltb. pose proof (String.compare_antisym k k) as H.
  destruct (String.compare k k); simpl in H; congruence.
Qed.

Lemma str_ltb_neq a b : str_ltb a b = true -> String.eqb b a = false.
Proof.
  intros H. apply String.eqb_neq. intros ->. rewrite str_ltb_irrefl in H. discriminate.
Qed.

Lemma str_ltb_asym a b : str_ltb a b = true -> str_ltb b a = false.
Proof.
  unfold str_ltb. rewrite (String.compare_antisym a b). destruct (String.compare b a); simpl; congruence.
Qed.

Definition keys_below {V} (k : string) (l : list (string * V)) : Prop :=
  Forall (fun e => str_ltb (fst e) k = true) l.

(* a new largest key is appended *)
Lemma assoc_update_new {V} k (f : option V -> V) l :
  keys_below k l -> assoc_update k f l = l ++ [(k, f None)].
Proof.
  induction l as [|[k' v] r IH]; intros H; cbn [assoc_update app]; [reflexivity|].
  inversion H as [|? ? H1 H2]; subst. cbn [fst] in H1.
  rewrite (str_ltb_neq _ _ H1), (str_ltb_asym _ _ H1), (IH H2). reflexivity.
Qed.

(* the current largest key is updated in place *)
Lemma assoc_update_last {V} k (f : option V -> V) l v :
  keys_below k l -> assoc_update k f (l ++ [(k, v)]) = l ++ [(k, f (Some v))].
Proof.
  induction l as [|[k' v'] r IH]; intros H; cbn [assoc_update app].
  - rewrite String.eqb_refl. reflexivity.
  - inversion H as [|? ? H1 H2]; subst. cbn [fst] in H1.
    rewrite (str_ltb_neq _ _ H1), (str_ltb_asym _ _ H1), (IH H2). reflexivity.
Qed.

Lemma assoc_new {V} k (l : list (string * V)) : keys_below k l -> assoc k l = None.
Proof.
  unfold assoc. induction l as [|[k' v] r IH]; intros H; cbn [find]; [reflexivity|].
  inversion H as [|? ? H1 H2]; subst. cbn [fst] in *.
  rewrite String.eqb_sym, (str_ltb_neq _ _ H1). apply IH, H2.
Qed.

Lemma assoc_last {V} k (l : list (string * V)) v : keys_below k l -> assoc k (l ++ [(k, v)]) = Some v.
Proof.
  unfold assoc. induction l as [|[k' v'] r IH]; intros H; cbn [find app fst snd].
  - rewrite String.eqb_refl. reflexivity.
  - inversion H as [|? ? H1 H2]; subst. cbn [fst] in *.
    rewrite String.eqb_sym, (str_ltb_neq _ _ H1). apply IH, H2.
Qed.
