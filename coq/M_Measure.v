(* Executable model of internal/measurement/measurement.go (unit conversion and labels).
   Transcribed function by function; values are exact rationals where the Go code uses float64.
   The unit table is a parameter: the real one is regenerated from /repo into Gen/Gen_UnitTable.v
   on every run. No proofs here. *)
From Coq Require Import QArith Qround Qabs.
From PV Require Export Base.Term Base.Str.
Open Scope Z_scope.

Record unit := { u_name : string; u_aliases : list string; u_factor : Q }.
Record unit_type := { ut_default : unit; ut_units : list unit }.

Definition min_int64 : Z := - 2 ^ 63.
Definition max_int64 : Z := 2 ^ 63 - 1.

(* UnitType.findByAlias: first unit (table order) one of whose aliases equals [alias]. *)
Fixpoint find_by_alias (us : list unit) (alias : string) : option unit :=
  match us with
  | [] => None
  | u :: r => if existsb (String.eqb alias) (u_aliases u) then Some u else find_by_alias r alias
  end.

(* UnitType.sniffUnit: a canonical name verbatim; else lower-case, strip ONE trailing "s" when longer
   than 2 bytes, and look the alias up. *)
Definition sniff_unit (ut : unit_type) (s : string) : option unit :=
  match find (fun u => String.eqb s (u_name u)) (ut_units ut) with   (* a canonical name, verbatim *)
  | Some u => Some u
  | None =>
      let l := to_lower s in
      let l := if (2 <? Z.of_nat (String.length l)) then trim_suffix "s" l else l in
      find_by_alias (ut_units ut) l
  end.

(* UnitType.autoScale: loop keeps the LAST unit with the largest factor such that
   value/factor >= 1 (the test is [u.Factor >= f], so later equal factors win). *)
Fixpoint auto_scale_loop (us : list unit) (value : Q) (f : Q) (name : string) : Q * string :=
  match us with
  | [] => (f, name)
  | u :: r =>
      if Qle_bool f (u_factor u) && Qle_bool 1%Q (value / u_factor u)%Q
      then auto_scale_loop r value (u_factor u) (u_name u)
      else auto_scale_loop r value f name
  end.

Definition auto_scale (ut : unit_type) (value : Q) : option (Q * string) :=
  let '(f, name) := auto_scale_loop (ut_units ut) value 0%Q "" in
  if Qeq_bool f 0 then None else Some ((value / f)%Q, name).

Definition is_auto (s : string) : bool := String.eqb s "minimum" || String.eqb s "auto".

(* UnitType.convertUnit *)
Definition convert_unit (ut : unit_type) (value : Z) (from to : string) : option (Q * string) :=
  match sniff_unit ut from with
  | None => None
  | Some fu =>
      let v := (inject_Z value * u_factor fu)%Q in
      let dflt := Some ((v / u_factor (ut_default ut))%Q, u_name (ut_default ut)) in
      if is_auto to then
        match auto_scale ut v with
        | Some r => Some r
        | None => dflt
        end
      else
        match sniff_unit ut to with
        | None => dflt
        | Some tu => Some ((v / u_factor tu)%Q, u_name tu)
        end
  end.

Fixpoint convert_first (uts : list unit_type) (value : Z) (from to : string) : option (Q * string) :=
  match uts with
  | [] => None
  | ut :: r =>
      match convert_unit ut value from to with
      | Some x => Some x
      | None => convert_first r value from to
      end
  end.

Definition uninteresting (to : string) : bool :=
  existsb (String.eqb to) ["count"; "sample"; "unit"; "minimum"; "auto"].

(* Scale, for a value that is not recursed on *)
Definition scale_pos (uts : list unit_type) (value : Z) (from to : string) : Q * string :=
  match convert_first uts value from to with
  | Some x => x
  | None => (inject_Z value, if uninteresting to then "" else to)
  end.

(* Scale: [value < 0 && -value > 0] with int64 negation, so MinInt64 is NOT negated. *)
Definition scale (uts : list unit_type) (value : Z) (from to : string) : Q * string :=
  if (value <? 0) && negb (value =? min_int64) then
    let '(v, u) := scale_pos uts (- value) from to in ((- v)%Q, u)
  else scale_pos uts value from to.

(* fmt.Sprintf("%.2f", q): round half even at two decimals, sign kept for negative values that
   round to zero ("-0.00") *)
Definition round_half_even (q : Q) : Z :=
  let f := Qfloor q in
  let r := (q - inject_Z f)%Q in
  match Qcompare r (1 # 2) with
  | Lt => f
  | Gt => f + 1
  | Eq => if Z.even f then f else f + 1
  end.

Definition two_digits (z : Z) : string :=
  (if z <? 10 then "0" else "") ++ string_of_Z z.

Definition fmt2 (q : Q) : string :=
  let neg := match Qcompare q 0%Q with Lt => true | _ => false end in
  let a := Qabs q in
  let r := round_half_even (a * 100)%Q in
  (if neg then "-" else "") ++ string_of_Z (r / 100) ++ "." ++ two_digits (r mod 100).

(* distance of q*100 from the nearest rounding boundary x.5, used only to SKIP comparisons the
   float implementation may round the other way *)
Definition near_half (q : Q) : bool :=
  let a := (Qabs q * 100)%Q in
  let r := (a - inject_Z (Qfloor a))%Q in
  (* float64 carries 53 bits: at magnitude a the product value*factor is off by up to a few
     ulps (a * 2^-52 each), so the window grows with a *)
  Qle_bool (Qabs (r - (1 # 2))%Q) ((1 # 1000000) + a * (1 # 281474976710656))%Q.

Definition scaled_label (uts : list unit_type) (value : Z) (from to : string) : string :=
  let '(v, u) := scale uts value from to in
  let sv := trim_suffix ".00" (fmt2 v) in
  if String.eqb sv "0" || String.eqb sv "-0" then "0" else sv ++ u.

Definition label (uts : list unit_type) (value : Z) (unit : string) : string :=
  scaled_label uts value unit "auto".

(* Percentage: ratio = |value/total| * 100 (0 when total = 0); which of the three formats *)
Definition pct_ratio (value total : Z) : Q :=
  if total =? 0 then 0%Q else (Qabs (inject_Z value / inject_Z total) * 100)%Q.

Definition pct_class (r : Q) : Z :=
  if Qle_bool (9995 # 100) r && Qle_bool r (10005 # 100) then 0     (* "  100%" *)
  else if Qle_bool 1%Q r then 1                                      (* %5.2f%% *)
  else 2.                                                          (* %5.2g%% *)

Definition pad_left (n : nat) (s : string) : string :=
  B (repeat 32 (n - String.length s)) ++ s.

Definition percentage_f (r : Q) : string := pad_left 5 (fmt2 r) ++ "%".

(* compatibleValueTypes / CommonValueType / ScaleProfiles ratios *)
Definition vt := (string * string)%type. (* type, unit *)

Definition compatible_value_types (uts : list unit_type) (a b : vt) : bool :=
  if negb (String.eqb (trim_suffix "s" (fst a)) (trim_suffix "s" (fst b))) then false
  else if String.eqb (snd a) (snd b) then true
  else existsb (fun ut => match sniff_unit ut (snd a), sniff_unit ut (snd b) with
                          | Some _, Some _ => true | _, _ => false end) uts.

(* CommonValueType: None = nil result (0 or 1 types), inl = error *)
Fixpoint common_loop (uts : list unit_type) (mn : vt) (ts : list vt) : option vt :=
  match ts with
  | [] => Some mn
  | t :: r =>
      if compatible_value_types uts mn t then
        let ratio := fst (scale uts 1 (snd t) (snd mn)) in
        common_loop uts (if Qle_bool 1%Q ratio then mn else t) r
      else None
  end.

Inductive cvt_result := CvtNil | CvtErr | CvtOk (t : vt).
Definition common_value_type (uts : list unit_type) (ts : list vt) : cvt_result :=
  match ts with
  | [] | [_] => CvtNil
  | t :: r => match common_loop uts t r with Some m => CvtOk m | None => CvtErr end
  end.
