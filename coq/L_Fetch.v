(* Lemmas about M_Fetch (C16). *)
From Coq Require Import Lia PeanoNat Permutation.
From PV Require Import M_Profile M_Fetch S_Fetch.
Open Scope nat_scope.

(* ------------------------------------------------------------------ generic list facts *)
Lemma nth_error_ext_eq {A} (a b : list A) : (forall j, nth_error a j = nth_error b j) -> a = b.
Proof.
  revert b. induction a as [|x a IH]; intros [|y b] H.
  - reflexivity.
  - specialize (H 0). discriminate H.
  - specialize (H 0). discriminate H.
  - f_equal.
    + specialize (H 0). simpl in H. congruence.
    + apply IH. intros j. exact (H (S j)).
Qed.

Lemma upd_length {A} i (v : A) l : List.length (upd i v l) = List.length l.
Proof. revert i. induction l as [|a l IH]; intros [|i]; simpl; auto. Qed.

Lemma nth_error_upd_same {A} i (v : A) l : i < List.length l -> nth_error (upd i v l) i = Some v.
Proof.
  revert i. induction l as [|a l IH]; intros [|i] H; simpl in *; try lia; auto.
  apply IH. lia.
Qed.

Lemma nth_error_upd_other {A} i j (v : A) l : i <> j -> nth_error (upd i v l) j = nth_error l j.
Proof.
  revert i j. induction l as [|a l IH]; intros [|i] [|j] H; simpl; auto; try congruence.
Qed.

Section Proofs.
  Variable P : Type.
  Variable combine : list P -> option P.
  Variable eqv : P -> P -> Prop.

  Local Notation src := (source P).
  Local Notation run := (run_goroutines P).
  Local Notation fin := (finish P).
  Local Notation coll := (collect P).
  Local Notation cgrab := (concurrent_grab P combine).
  Local Notation fchunk := (finish_chunk P combine).
  Local Notation cloop := (chunk_loop P combine).
  Local Notation cgrabs := (chunked_grab P combine).
  Local Notation gsb := (grab_sources_and_bases P combine).
  Local Notation oeqv := (opt_eqv P eqv).

  (* ---------------------------------------------------------------- 1. the slots *)
  (* [covers n order]: every goroutine 0..n-1 has finished (what wg.Wait() guarantees) *)
  Definition covers (n : nat) (order : list nat) : Prop := forall j, j < n -> In j order.

  Lemma finish_length (ch : list src) slots i : List.length (fin ch slots i) = List.length slots.
  Proof. unfold finish. destruct (nth_error ch i); [apply upd_length|reflexivity]. Qed.

  Lemma fold_finish_length (ch : list src) order slots :
    List.length (fold_left (fin ch) order slots) = List.length slots.
  Proof.
    revert slots. induction order as [|i r IH]; intros slots; simpl; [reflexivity|].
    rewrite IH. apply finish_length.
  Qed.

  Lemma fold_finish_untouched (ch : list src) order slots j :
    ~ In j order -> nth_error (fold_left (fin ch) order slots) j = nth_error slots j.
  Proof.
    revert slots. induction order as [|i r IH]; intros slots H; simpl; [reflexivity|].
    rewrite IH by (intros C; apply H; now right).
    unfold finish. destruct (nth_error ch i); [|reflexivity].
    apply nth_error_upd_other. intros ->. apply H. now left.
  Qed.

  (* once goroutine j has finished, slot j holds ITS result whatever else happens, in any order *)
  Lemma fold_finish_written (ch : list src) order slots j s :
    List.length slots = List.length ch -> In j order -> nth_error ch j = Some s ->
    nth_error (fold_left (fin ch) order slots) j = Some (Some (s_res s)).
  Proof.
    revert slots. induction order as [|i r IH]; intros slots L I N; simpl; [destruct I|].
    destruct (in_dec Nat.eq_dec j r) as [Ir|Ir].
    - apply IH; [rewrite finish_length; exact L|exact Ir|exact N].
    - destruct I as [->|I]; [|contradiction].
      rewrite fold_finish_untouched by exact Ir.
      unfold finish. rewrite N. apply nth_error_upd_same.
      rewrite L. apply nth_error_Some. congruence.
  Qed.

  Lemma repeat_length' {A} (a : A) n : List.length (repeat a n) = n.
  Proof. induction n; simpl; auto. Qed.

  Lemma slots_after_barrier (ch : list src) order :
    covers (List.length ch) order -> run ch order = map (fun s => Some (s_res s)) ch.
  Proof.
    intros C. apply nth_error_ext_eq. intros j. unfold run_goroutines.
    destruct (nth_error ch j) as [s|] eqn:N.
    - rewrite (fold_finish_written ch order _ j s); [|apply repeat_length'| |exact N].
      + symmetry. apply (map_nth_error (fun s => Some (s_res s))). exact N.
      + apply C. apply nth_error_Some. congruence.
    - apply nth_error_None in N.
      transitivity (@None (option (grab_res P))).
      + apply nth_error_None. rewrite fold_finish_length, repeat_length'. exact N.
      + symmetry. apply nth_error_None. rewrite map_length. exact N.
  Qed.

  (* ---------------------------------------------------------------- 2. the pass after the barrier *)
  Lemma collect_written (ch : list src) :
    coll ch (map (fun s => Some (s_res s)) ch) = Some (failure_lines ch, successes ch, any_remote ch).
  Proof.
    induction ch as [|s ch IH]; simpl; [reflexivity|].
    rewrite IH. destruct (s_res s) as [p r|e]; reflexivity.
  Qed.

  (* concurrentGrab with all goroutines run one after the other in command-line order *)
  Definition seq_grab (ch : list src) : cres P * list string :=
    (fchunk (successes ch) (any_remote ch), failure_lines ch).

  Lemma concurrent_grab_seq (ch : list src) order :
    covers (List.length ch) order -> cgrab ch order = seq_grab ch.
  Proof.
    intros C. unfold concurrent_grab. rewrite (slots_after_barrier ch order C), collect_written. reflexivity.
  Qed.

  (* ---------------------------------------------------------------- 3. chunk loop without schedules *)
  Fixpoint seq_loop (chs : list (list src)) (acc : option (P * bool * nat)) (lines : list string)
    : cres P * list string :=
    match chs with
    | [] => (match acc with None => CNil | Some (p, s, c) => COk p s c end, lines)
    | ch :: r =>
        let '(cr, ls) := seq_grab ch in
        let lines' := (lines ++ ls)%list in
        match cr with
        | CPanic => (CPanic, lines')
        | CErr => (CErr, lines')
        | CNil => seq_loop r acc lines'
        | COk cp cs cc =>
            match acc with
            | None => seq_loop r (Some (cp, cs, cc)) lines'
            | Some (p, s, c) =>
                match combine [p; cp] with
                | None => (CErr, lines')
                | Some p' => seq_loop r (Some (p', s || cs, (c + cc)%nat)) lines'
                end
            end
        end
    end.

  Lemma chunk_order_covers start len sched :
    (forall g, start <= g < start + len -> In g sched) -> covers len (chunk_order start len sched).
  Proof.
    intros H j Hj. unfold chunk_order. apply in_map_iff. exists (start + j). split; [lia|].
    apply filter_In. split; [apply H; lia|].
    apply andb_true_iff. split; [apply Nat.leb_le; lia|apply Nat.ltb_lt; lia].
  Qed.

  Lemma chunk_loop_seq chs : forall start sched acc lines,
    (forall g, start <= g < start + List.length (List.concat chs) -> In g sched) ->
    cloop chs start sched acc lines = seq_loop chs acc lines.
  Proof.
    induction chs as [|ch r IH]; intros start sched acc lines H; [reflexivity|].
    cbn [List.concat] in H. rewrite app_length in H.
    cbn [chunk_loop seq_loop].
    rewrite concurrent_grab_seq by (apply chunk_order_covers; intros g Hg; apply H; lia).
    assert (H' : forall g, start + List.length ch <= g < start + List.length ch + List.length (List.concat r) -> In g sched)
      by (intros g Hg; apply H; lia).
    unfold seq_grab.
    destruct (fchunk (successes ch) (any_remote ch)) as [|cp cs cc| |]; try reflexivity.
    - apply IH; exact H'.
    - destruct acc as [[[p s] c]|].
      + destruct (combine [p; cp]); [apply IH; exact H'|reflexivity].
      + apply IH; exact H'.
  Qed.

  Lemma chunks_concat fuel k (l : list src) : 1 <= k -> List.length l <= fuel -> List.concat (chunks_of P fuel k l) = l.
  Proof.
    intros K. revert l. induction fuel as [|f IH]; intros l L.
    - destruct l; simpl in *; [reflexivity|lia].
    - destruct l as [|a l']; [reflexivity|].
      cbn [chunks_of List.concat]. rewrite IH.
      + apply firstn_skipn.
      + rewrite skipn_length. change (List.length (a :: l')) with (S (List.length l')) in *. lia.
  Qed.

  Lemma seq_loop_no_panic chs : forall acc lines, fst (seq_loop chs acc lines) <> CPanic.
  Proof.
    induction chs as [|ch r IH]; intros acc lines.
    - simpl. destruct acc as [[[p s] c]|]; discriminate.
    - cbn [seq_loop]. unfold seq_grab.
      destruct (fchunk (successes ch) (any_remote ch)) as [|cp cs cc| |] eqn:FC.
      + apply IH.
      + destruct acc as [[[p s] c]|]; [destruct (combine [p; cp])|]; try apply IH. discriminate.
      + discriminate.
      + exfalso. unfold finish_chunk in FC. destruct (successes ch); [discriminate|].
        destruct (combine (p :: l)); discriminate.
  Qed.

  Definition chunked_seq (k : nat) (l : list src) : cres P * list string :=
    seq_loop (chunks_of P (List.length l) k l) None [].

  Lemma chunked_grab_seq k (l : list src) sched :
    1 <= k -> covers (List.length l) sched -> cgrabs k l sched = chunked_seq k l.
  Proof.
    intros K C. unfold chunked_grab, chunked_seq. apply chunk_loop_seq.
    rewrite chunks_concat by (auto; lia). intros g Hg. apply C. lia.
  Qed.


  (* the result of grabSourcesAndBases does not depend on the completion order (Leibniz equality,
     no assumption on combine) *)
  Definition gsb_seq (k : nat) (srcs bases : list src) : gsb_out P :=
    grab_sources_and_bases P combine k srcs bases (seq 0 (List.length srcs)) (seq 0 (List.length bases)).

  Lemma gsb_any_schedule k (srcs bases : list src) ss sb ss' sb' :
    1 <= k -> covers (List.length srcs) ss -> covers (List.length bases) sb ->
    covers (List.length srcs) ss' -> covers (List.length bases) sb' ->
    gsb k srcs bases ss sb = gsb k srcs bases ss' sb'.
  Proof.
    intros K C1 C2 C3 C4. unfold grab_sources_and_bases.
    rewrite !chunked_grab_seq by assumption. reflexivity.
  Qed.

  Lemma chunked_grab_no_panic k (l : list src) sched :
    1 <= k -> covers (List.length l) sched -> fst (cgrabs k l sched) <> CPanic.
  Proof. intros K C. rewrite chunked_grab_seq by assumption. apply seq_loop_no_panic. Qed.

  (* ---------------------------------------------------------------- 4. chunked = flat *)
  (* what one concurrentGrab over the WHOLE list would return *)
  Definition flat_grab (l : list src) : cres P := fchunk (successes l) (any_remote l).

  Definition cres_eqv (a b : cres P) : Prop :=
    match a, b with
    | CNil, CNil => True
    | COk p s c, COk q s' c' => eqv p q /\ s = s' /\ c = c'
    | CErr, CErr => True
    | CPanic, CPanic => True
    | _, _ => False
    end.

  Lemma successes_app (a b : list src) : successes (a ++ b) = (successes a ++ successes b)%list.
  Proof. apply flat_map_app. Qed.
  Lemma failure_lines_app (a b : list src) : failure_lines (a ++ b) = (failure_lines a ++ failure_lines b)%list.
  Proof. apply flat_map_app. Qed.
  Lemma any_remote_app (a b : list src) : any_remote (a ++ b) = any_remote a || any_remote b.
  Proof. apply existsb_app. Qed.

  Lemma finish_chunk_nonempty ps s : ps <> [] ->
    fchunk ps s = match combine ps with None => CErr | Some p => COk p s (List.length ps) end.
  Proof. destruct ps; [congruence|reflexivity]. Qed.

  (* the laws of combineProfiles the fold relies on (to be discharged by the C03/C07 merge model) *)
  Hypothesis eqv_refl : forall a, eqv a a.
  Hypothesis eqv_sym : forall a b, eqv a b -> eqv b a.
  Hypothesis eqv_trans : forall a b c, eqv a b -> eqv b c -> eqv a c.
  (* combine_pair_proper: combining equivalent accumulators with the same chunk gives equivalent results *)
  Hypothesis combine_pair_proper : forall a a' b, eqv a a' -> oeqv (combine [a; b]) (combine [a'; b]).
  (* combine_flat: combining the combinations of two non-empty groups = combining everything at once
     (errors included: a group that cannot be combined makes the whole uncombinable and conversely) *)
  Hypothesis combine_flat : forall A B, A <> [] -> B <> [] ->
    oeqv (match combine A, combine B with Some a, Some b => combine [a; b] | _, _ => None end) (combine (A ++ B)).

  Lemma oeqv_none_r x : oeqv None x -> x = None.
  Proof. destruct x; simpl; [tauto|reflexivity]. Qed.
  Lemma oeqv_none_l x : oeqv x None -> x = None.
  Proof. destruct x; simpl; [tauto|reflexivity]. Qed.

  Lemma combine_none_app_l A B : A <> [] -> combine A = None -> combine (A ++ B) = None.
  Proof.
    intros NA H. destruct B as [|b B]; [rewrite app_nil_r; exact H|].
    apply oeqv_none_r. pose proof (combine_flat A (b :: B) NA ltac:(discriminate)) as F.
    rewrite H in F. exact F.
  Qed.

  Lemma combine_none_app_r A B : B <> [] -> combine B = None -> combine (A ++ B) = None.
  Proof.
    intros NB H. destruct A as [|a A]; [exact H|].
    apply oeqv_none_r. pose proof (combine_flat (a :: A) B ltac:(discriminate) NB) as F.
    rewrite H in F. destruct (combine (a :: A)); exact F.
  Qed.

  (* invariant of the chunk fold: the accumulator is equivalent to the flat combination of the
     successes seen so far, count and save flag are exact *)
  Definition acc_inv (acc : option (P * bool * nat)) (L : list src) : Prop :=
    match acc with
    | None => successes L = []
    | Some (p, s, c) =>
        successes L <> [] /\ (exists q, combine (successes L) = Some q /\ eqv p q)
        /\ s = any_remote L /\ c = List.length (successes L)
    end.

  Lemma any_remote_no_success (l : list src) : successes l = [] -> any_remote l = false.
  Proof.
    induction l as [|s l IH]; simpl; [reflexivity|].
    destruct (s_res s); simpl; [discriminate|exact IH].
  Qed.

  Lemma seq_loop_flat chs : forall L acc lines,
    acc_inv acc L -> cres_eqv (fst (seq_loop chs acc lines)) (flat_grab (L ++ List.concat chs)).
  Proof.
    induction chs as [|ch r IH]; intros L acc lines I.
    - simpl. rewrite app_nil_r. unfold flat_grab. destruct acc as [[[p s] c]|]; simpl in I.
      + destruct I as (NE & (q & Cq & E) & -> & ->).
        rewrite finish_chunk_nonempty by exact NE. rewrite Cq. simpl. auto.
      + rewrite I. simpl. exact Logic.I.
    - cbn [seq_loop List.concat]. unfold seq_grab.
      replace (L ++ ch ++ List.concat r)%list with ((L ++ ch) ++ List.concat r)%list by (symmetry; apply app_assoc).
      destruct (successes ch) as [|c0 cs0] eqn:SC.
      + (* nothing fetched in this chunk: skipped *)
        simpl. apply IH.
        destruct acc as [[[p s] c]|]; simpl in *.
        * rewrite successes_app, SC, app_nil_r, any_remote_app, (any_remote_no_success ch SC), orb_false_r. exact I.
        * rewrite successes_app, SC, I. reflexivity.
      + assert (NC : successes ch <> []) by (rewrite SC; discriminate).
        rewrite <- SC. rewrite finish_chunk_nonempty by exact NC.
        destruct (combine (successes ch)) as [cp|] eqn:CC.
        * destruct acc as [[[p s] c]|]; simpl in I.
          -- destruct I as (NE & (q & Cq & E) & -> & ->).
             pose proof (combine_flat _ _ NE NC) as F. rewrite Cq, CC in F.
             pose proof (combine_pair_proper p q cp E) as PP.
             destruct (combine [p; cp]) as [p'|] eqn:C2.
             ++ apply IH. simpl. rewrite successes_app, any_remote_app, app_length.
                split; [intros X; apply app_eq_nil in X; tauto|].
                split; [|split; reflexivity].
                destruct (combine [q; cp]) as [q'|]; [|destruct PP].
                destruct (combine (successes L ++ successes ch)) as [m|]; [|destruct F].
                exists m. split; [reflexivity|]. simpl in PP, F. eapply eqv_trans; eassumption.
             ++ (* the accumulator cannot be combined with this chunk: neither can the flat list *)
                simpl. apply oeqv_none_r in PP. rewrite PP in F. apply oeqv_none_r in F.
                unfold flat_grab. rewrite !successes_app.
                rewrite finish_chunk_nonempty by (intros X; apply app_eq_nil in X; destruct X as [X _]; apply app_eq_nil in X; tauto).
                rewrite (combine_none_app_l _ (successes (List.concat r)))
                  by (try exact F; intros X; apply app_eq_nil in X; tauto).
                exact Logic.I.
          -- apply IH. simpl. rewrite successes_app, I, any_remote_app, (any_remote_no_success L I). simpl.
             split; [exact NC|]. split; [exists cp; split; [exact CC|apply eqv_refl]|split; reflexivity].
        * (* the chunk itself cannot be combined *)
          simpl. unfold flat_grab. rewrite !successes_app.
          rewrite finish_chunk_nonempty by (intros X; apply app_eq_nil in X; destruct X as [X _]; apply app_eq_nil in X; tauto).
          rewrite (combine_none_app_l _ (successes (List.concat r))).
          -- exact Logic.I.
          -- intros X; apply app_eq_nil in X; tauto.
          -- apply combine_none_app_r; assumption.
  Qed.

  (* stderr: unless a combine error ends the loop early, exactly the failure lines, in order *)
  Lemma seq_loop_lines chs : forall acc lines,
    fst (seq_loop chs acc lines) = CErr \/
    snd (seq_loop chs acc lines) = (lines ++ failure_lines (List.concat chs))%list.
  Proof.
    induction chs as [|ch r IH]; intros acc lines.
    - right. simpl. rewrite app_nil_r. reflexivity.
    - cbn [seq_loop List.concat]. unfold seq_grab. rewrite failure_lines_app, app_assoc.
      destruct (fchunk (successes ch) (any_remote ch)) as [|cp cs cc| |] eqn:FC.
      + apply IH.
      + destruct acc as [[[p s] c]|]; [destruct (combine [p; cp])|]; try apply IH. left. reflexivity.
      + left. reflexivity.
      + exfalso. unfold finish_chunk in FC. destruct (successes ch); [discriminate|].
        destruct (combine (p :: l)); discriminate.
  Qed.

  Lemma chunked_seq_flat k (l : list src) : 1 <= k -> cres_eqv (fst (chunked_seq k l)) (flat_grab l).
  Proof.
    intros K. unfold chunked_seq.
    pose proof (seq_loop_flat (chunks_of P (List.length l) k l) [] None [] eq_refl) as H.
    rewrite chunks_concat in H by (auto; lia). exact H.
  Qed.

  Lemma chunked_seq_lines k (l : list src) : 1 <= k ->
    fst (chunked_seq k l) = CErr \/ snd (chunked_seq k l) = failure_lines l.
  Proof.
    intros K. unfold chunked_seq.
    pose proof (seq_loop_lines (chunks_of P (List.length l) k l) None []) as H.
    rewrite chunks_concat in H by (auto; lia). exact H.
  Qed.

  (* ---------------------------------------------------------------- 5. grabSourcesAndBases meets the specification *)
  Lemma chunked_seq_cases k (l : list src) : 1 <= k -> mergeable P combine l ->
    (successes l = [] /\ chunked_seq k l = (CNil, failure_lines l)) \/
    (successes l <> [] /\ exists p m, chunked_seq k l = (COk p (any_remote l) (List.length (successes l)), failure_lines l)
                                     /\ combine (successes l) = Some m /\ eqv p m).
  Proof.
    intros K M.
    pose proof (chunked_seq_flat k l K) as F. pose proof (chunked_seq_lines k l K) as Ln.
    destruct (chunked_seq k l) as [r ls]. simpl in F, Ln. unfold flat_grab in F.
    destruct (successes l) as [|p0 ps] eqn:S.
    - left. split; [reflexivity|]. simpl in F. destruct r; try contradiction.
      destruct Ln as [Ln|Ln]; [discriminate|]. rewrite Ln. reflexivity.
    - right. split; [discriminate|].
      destruct M as [M|M]; [rewrite S in M; discriminate|]. rewrite S in M.
      rewrite finish_chunk_nonempty in F by discriminate.
      destruct (combine (p0 :: ps)) as [m|] eqn:C; [|congruence].
      destruct r as [|p s c| |]; try contradiction. destruct F as (E & -> & ->).
      destruct Ln as [Ln|Ln]; [discriminate|]. rewrite Ln.
      exists p, m. repeat split; assumption.
  Qed.

  Lemma length_eqb_0_nonempty {A} (l : list A) : l <> [] -> (List.length l =? 0) = false.
  Proof. destruct l; [congruence|reflexivity]. Qed.

  Theorem gsb_meets_spec k (srcs bases : list src) ss sb :
    1 <= k -> covers (List.length srcs) ss -> covers (List.length bases) sb ->
    mergeable P combine srcs -> mergeable P combine bases ->
    spec_holds P combine eqv srcs bases (gsb k srcs bases ss sb).
  Proof.
    intros K C1 C2 M1 M2. unfold grab_sources_and_bases.
    rewrite !chunked_grab_seq by assumption.
    destruct (chunked_seq_cases k srcs K M1) as [(S1 & ->)|(S1 & p1 & m1 & -> & Cm1 & E1)];
    destruct (chunked_seq_cases k bases K M2) as [(S2 & ->)|(S2 & p2 & m2 & -> & Cm2 & E2)].
    - (* no source fetched (bases: none either) *)
      simpl. constructor; simpl.
      + split; [discriminate|intros (X & _); congruence].
      + split; [intros _; exact S1|reflexivity].
      + split; [discriminate|intros (X & _); congruence].
      + discriminate.
      + discriminate.
      + reflexivity.
      + reflexivity.
    - (* no source fetched, some base fetched *)
      simpl. constructor; simpl.
      + split; [discriminate|intros (X & _); congruence].
      + split; [intros _; exact S1|reflexivity].
      + split; [discriminate|intros (X & _); congruence].
      + discriminate.
      + discriminate.
      + reflexivity.
      + reflexivity.
    - (* sources ok, no base fetched: fails iff bases were requested *)
      cbn [count_of prof_of save_of]. rewrite (length_eqb_0_nonempty _ S1). cbn [Nat.eqb andb].
      destruct bases as [|b0 bs].
      + simpl. constructor; simpl; unfold merged.
        * split; [intros _; split; [exact S1|left; reflexivity]|reflexivity].
        * split; [discriminate|intros X; congruence].
        * split; [discriminate|intros (_ & X & _); congruence].
        * intros _. destruct (successes srcs) eqn:Sx; [congruence|]. rewrite Cm1. exact E1.
        * intros _. exact Logic.I.
        * reflexivity.
        * reflexivity.
      + cbn [List.length Nat.eqb negb]. constructor; cbn [g_status g_src g_base g_err_src g_err_base].
        * split; [discriminate|]. intros (_ & [X|X]); [discriminate X|congruence].
        * split; [discriminate|intros X; congruence].
        * split; [intros _; repeat split; [exact S1|discriminate|exact S2]|reflexivity].
        * discriminate.
        * discriminate.
        * reflexivity.
        * reflexivity.
    - cbn [count_of prof_of save_of]. rewrite (length_eqb_0_nonempty _ S1), (length_eqb_0_nonempty _ S2).
      cbn [andb]. constructor; simpl; unfold merged.
      + split; [intros _; split; [exact S1|right; exact S2]|reflexivity].
      + split; [discriminate|intros X; congruence].
      + split; [discriminate|intros (_ & _ & X); congruence].
      + intros _. destruct (successes srcs) eqn:Sx; [congruence|]. rewrite Cm1. exact E1.
      + intros _. destruct (successes bases) eqn:Sx; [congruence|]. rewrite Cm2. exact E2.
      + reflexivity.
      + reflexivity.
  Qed.

  (* the report does not depend on WHICH other sources fail, nor on where they sit relative to the
     chunk boundaries, nor on the chunk size *)
  Theorem chunked_profile_depends_on_successes_only k k' (l l' : list src) :
    1 <= k -> 1 <= k' -> successes l = successes l' ->
    oeqv (prof_of P (fst (chunked_seq k l))) (prof_of P (fst (chunked_seq k' l'))).
  Proof.
    intros K K' S.
    pose proof (chunked_seq_flat k l K) as F. pose proof (chunked_seq_flat k' l' K') as F'.
    unfold flat_grab in F, F'. rewrite <- S in F'.
    destruct (successes l) as [|p0 ps].
    - simpl in F, F'. destruct (fst (chunked_seq k l)); try contradiction.
      destruct (fst (chunked_seq k' l')); try contradiction. exact Logic.I.
    - rewrite finish_chunk_nonempty in F, F' by discriminate.
      destruct (combine (p0 :: ps)) as [m|].
      + destruct (fst (chunked_seq k l)) as [|p s c| |]; try contradiction.
        destruct (fst (chunked_seq k' l')) as [|p' s' c'| |]; try contradiction.
        simpl. destruct F as (E & _). destruct F' as (E' & _). eapply eqv_trans; [exact E|apply eqv_sym; exact E'].
      + destruct (fst (chunked_seq k l)); try contradiction.
        destruct (fst (chunked_seq k' l')); try contradiction. exact Logic.I.
  Qed.
End Proofs.

(* ------------------------------------------------------------------ headline forms used by P_C16 *)
Lemma slots_independent_lemma : forall P (ch : list (source P)) order order',
  covers (List.length ch) order -> covers (List.length ch) order' ->
  run_goroutines P ch order = run_goroutines P ch order'
  /\ run_goroutines P ch order = map (fun s => Some (s_res s)) ch.
Proof.
  intros P ch o o' C C'. split.
  - rewrite (slots_after_barrier P ch o C), (slots_after_barrier P ch o' C'). reflexivity.
  - exact (slots_after_barrier P ch o C).
Qed.

Lemma concurrent_grab_det_lemma : forall P combine (ch : list (source P)) order order',
  covers (List.length ch) order -> covers (List.length ch) order' ->
  concurrent_grab P combine ch order = concurrent_grab P combine ch order'
  /\ fst (concurrent_grab P combine ch order) <> CPanic.
Proof.
  intros P combine ch o o' C C'. rewrite (concurrent_grab_seq P combine ch o C), (concurrent_grab_seq P combine ch o' C').
  split; [reflexivity|]. unfold seq_grab, finish_chunk. simpl.
  destruct (successes ch); [discriminate|]. destruct (combine (p :: l)); discriminate.
Qed.

Section Headlines.
  Variable P : Type.
  Variable combine : list P -> option P.
  Variable eqv : P -> P -> Prop.
  Hypothesis eqv_refl : forall a, eqv a a.
  Hypothesis eqv_sym : forall a b, eqv a b -> eqv b a.
  Hypothesis eqv_trans : forall a b c, eqv a b -> eqv b c -> eqv a c.
  Hypothesis combine_pair_proper : forall a a' b, eqv a a' -> opt_eqv P eqv (combine [a; b]) (combine [a'; b]).
  Hypothesis combine_flat : forall A B, A <> [] -> B <> [] ->
    opt_eqv P eqv (match combine A, combine B with Some a, Some b => combine [a; b] | _, _ => None end) (combine (A ++ B)).

  Lemma chunked_equals_flat_lemma : forall k (l : list (source P)) sched,
    1 <= k -> covers (List.length l) sched ->
    cres_eqv P eqv (fst (chunked_grab P combine k l sched)) (flat_grab P combine l).
  Proof.
    intros k l sched K C. rewrite (chunked_grab_seq P combine k l sched K C).
    exact (chunked_seq_flat P combine eqv eqv_refl eqv_trans combine_pair_proper combine_flat k l K).
  Qed.

  Lemma errors_lemma : forall k (l : list (source P)) sched,
    1 <= k -> covers (List.length l) sched ->
    fst (chunked_grab P combine k l sched) = CErr \/
    snd (chunked_grab P combine k l sched) = failure_lines l.
  Proof.
    intros k l sched K C. rewrite (chunked_grab_seq P combine k l sched K C).
    exact (chunked_seq_lines P combine k l K).
  Qed.

  Lemma other_failures_lemma : forall k k' (l l' : list (source P)) sched sched',
    1 <= k -> 1 <= k' -> covers (List.length l) sched -> covers (List.length l') sched' ->
    successes l = successes l' ->
    opt_eqv P eqv (prof_of P (fst (chunked_grab P combine k l sched))) (prof_of P (fst (chunked_grab P combine k' l' sched'))).
  Proof.
    intros k k' l l' s s' K K' C C' S.
    rewrite (chunked_grab_seq P combine k l s K C), (chunked_grab_seq P combine k' l' s' K' C').
    exact (chunked_profile_depends_on_successes_only P combine eqv eqv_refl eqv_sym eqv_trans combine_pair_proper combine_flat k k' l l' K K' S).
  Qed.
End Headlines.

(* [seq 0 n] is a completion order; so is its reverse, and any list containing it *)
Lemma covers_seq n : covers n (seq 0 n).
Proof. intros j H. apply in_seq. lia. Qed.
Lemma covers_rev n o : covers n o -> covers n (rev o).
Proof. intros C j H. apply in_rev. rewrite rev_involutive. apply C. exact H. Qed.
Lemma covers_app n o o' : covers n o -> covers n (o' ++ o).
Proof. intros C j H. apply in_or_app. right. apply C. exact H. Qed.

(* a permutation of 0..n-1 is a completion order *)
Lemma perm_covers n o : Permutation (seq 0 n) o -> covers n o.
Proof. intros H j Hj. eapply Permutation_in; [exact H|]. apply in_seq. lia. Qed.

(* ------------------------------------------------------------------ the shared transport *)
(* what a request gets does not depend on the requests that went through the transport before it *)
Lemma tr_round_trip_history_free st r : snd (tr_round_trip st r) = snd (tr_round_trip TrFresh r).
Proof. reflexivity. Qed.

Lemma tr_run_history_free {W} (rs : list (W * tr_req)) : forall st,
  tr_run st rs = map (fun wr => (fst wr, snd (tr_round_trip TrFresh (snd wr)))) rs.
Proof.
  induction rs as [|[w r] t IH]; intros st; simpl; [reflexivity|]. rewrite IH. reflexivity.
Qed.

(* hence the answers are the same for every order in which the requests reach the transport *)
Lemma tr_run_order_free {W} (rs rs' : list (W * tr_req)) st st' w r :
  In (w, r) rs -> In (w, r) rs' ->
  exists ok, In (w, ok) (tr_run st rs) /\ In (w, ok) (tr_run st' rs') /\ ok = snd (tr_round_trip TrFresh r).
Proof.
  intros I I'. exists (snd (tr_round_trip TrFresh r)). rewrite !tr_run_history_free.
  split; [|split; [|reflexivity]]; apply in_map_iff; exists (w, r); split; auto.
Qed.

(* ------------------------------------------------------------------ command line *)
(* every mention of a source on the command line is a source: nothing is dropped, merged or reordered *)
Lemma cli_keeps_every_mention_lemma {A} (is_empty : A -> bool) (args base : list A) :
  args <> [] ->
  cli_source_lists A is_empty false args base [] = CliOk args (filter (fun a => negb (is_empty a)) base) false
  /\ (forall d0 d, is_empty d0 = false ->
       cli_source_lists A is_empty false args [] (d0 :: d) = CliOk args (d0 :: filter (fun a => negb (is_empty a)) d) true).
Proof.
  intros N. destruct args as [|a0 rest]; [congruence|]. split.
  - unfold cli_source_lists, drop_empty. simpl. destruct rest; destruct (filter _ base); reflexivity.
  - intros d0 d E. unfold cli_source_lists, drop_empty. simpl. rewrite E. simpl. destruct rest; reflexivity.
Qed.

(* ------------------------------------------------------------------ header side of the merge *)
Lemma first_nonempty_app a b :
  first_nonempty (a ++ b) = if String.eqb (first_nonempty a) "" then first_nonempty b else first_nonempty a.
Proof.
  induction a as [|x a IH]; simpl; [reflexivity|].
  destruct (String.eqb x "") eqn:E; [exact IH|]. rewrite E. reflexivity.
Qed.

(* merging chunk by chunk (each chunk's default, then the first non-empty of those) names the same
   default sample type as one merge over everything *)
Lemma first_nonempty_chunks (chs : list (list string)) :
  first_nonempty (map first_nonempty chs) = first_nonempty (List.concat chs).
Proof.
  induction chs as [|c r IH]; simpl; [reflexivity|].
  rewrite first_nonempty_app, IH. destruct (String.eqb (first_nonempty c) ""); reflexivity.
Qed.

Lemma fold_min_le (l : list Z) : forall a, (fold_left Z.min l a <= a)%Z /\ (forall x, In x l -> (fold_left Z.min l a <= x)%Z).
Proof.
  induction l as [|y l IH]; intros a; simpl; [split; [lia|tauto]|].
  destruct (IH (Z.min a y)) as [H1 H2]. split; [lia|]. intros x [<-|I]; [lia|auto].
Qed.

Lemma fold_min_in (l : list Z) : forall a, fold_left Z.min l a = a \/ In (fold_left Z.min l a) l.
Proof.
  induction l as [|y l IH]; intros a; simpl; [now left|].
  destruct (IH (Z.min a y)) as [H|H]; [|right; now right].
  rewrite H. destruct (Z.min_spec a y) as [[_ E]|[_ E]]; rewrite E; [now left|right; now left].
Qed.

(* the common unit is a unit of one of the profiles and no profile has a finer one *)
Lemma common_unit_finest (us : list Z) : us <> [] ->
  In (common_unit us) us /\ forall u, In u us -> (common_unit us <= u)%Z.
Proof.
  destruct us as [|a r]; [congruence|]. intros _. unfold common_unit.
  destruct (fold_min_le r a) as [H1 H2]. split.
  - destruct (fold_min_in r a) as [E|I]; [rewrite E; now left|now right].
  - intros u [<-|I]; [exact H1|exact (H2 u I)].
Qed.

(* ------------------------------------------------------------------ fetch deadline *)
Lemma client_allowance_spec s t u :
  (0 < t -> client_allowance_ms s t u = t * 1000 + 5000)%Z /\
  (fetch_timeout_ms s t u + 5000 <= client_allowance_ms s t u)%Z /\ (6000 <= client_allowance_ms s t u)%Z.
Proof.
  unfold client_allowance_ms, fetch_timeout_ms. split; [|split; [lia|]].
  - intros H. apply Z.ltb_lt in H. rewrite H. reflexivity.
  - destruct (0 <? t)%Z eqn:T; [apply Z.ltb_lt in T; lia|].
    match goal with |- context [if (0 <? ?d)%Z then _ else _] => destruct (0 <? d)%Z eqn:D end; [|lia].
    apply Z.ltb_lt in D.
    match type of D with (0 < ?d)%Z => assert (1000 <= d)%Z end.
    { destruct (0 <? s)%Z eqn:S; [apply Z.ltb_lt in S; lia|]. destruct u as [u|]; lia. }
    match goal with |- (_ <= ?d + ?d / 2 + _)%Z => assert (0 <= d / 2)%Z by (apply Z.div_pos; lia) end. lia.
Qed.

(* ------------------------------------------------------------------ file or URL *)
Lemma route_of_stat_spec st : (route_of_stat st = RouteFile <-> st = StatOk) /\ (forall e, route_of_stat (StatOther e) = RouteURL).
Proof. split; [destruct st; simpl; split; congruence|reflexivity]. Qed.
