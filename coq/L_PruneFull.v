(* Proof that the anchored compilation of RemoveUninteresting realises the full-match rule. *)
From PV Require Import M_Filter M_Prune S_Filter S_Prune S_PruneFull L_FilterBase L_Prune.
Open Scope Z_scope.
Open Scope list_scope.

Section FullMatchProof.
  Variable M : string -> string -> bool.
  Variable V : string -> bool.
  Variable F : string -> string -> bool.
  Variable p : profile.
  (* the anchoring realises "fully matches" for the two expressions of the profile *)
  Hypothesis Hdrop : forall s, M (anchor (p_dropframes p)) s = F (p_dropframes p) s.
  Hypothesis Hkeep : forall s, M (anchor (p_keepframes p)) s = F (p_keepframes p) s.

  Lemma frame_dropped_full (fr : frame) :
    frame_dropped M p (anchor (p_dropframes p)) (ru_keep p) fr = frame_uninteresting F p fr.
  Proof.
    unfold frame_dropped, frame_uninteresting, ru_keep.
    destruct (frame_fn p fr) as [f|]; [|reflexivity].
    rewrite Hdrop. destruct (String.eqb (p_keepframes p) ""); cbn [negb andb].
    - reflexivity.
    - now rewrite Hkeep.
  Qed.

  Lemma remove_uninteresting_full_match_l :
    p_dropframes p <> ""%string ->
    V (anchor (p_dropframes p)) = true ->
    (p_keepframes p = ""%string \/ V (anchor (p_keepframes p)) = true) ->
    wf_profile p = true -> in_F14 M p (anchor (p_dropframes p)) (ru_keep p) = false ->
    exists p', remove_uninteresting M V p = Some p'
               /\ fsamples p' = spec_remove_uninteresting F p (fsamples p).
  Proof.
    intros Hd Hv Hk Hwf Hc. eexists. split.
    - apply remove_uninteresting_prunes; assumption.
    - rewrite (prune_meets_spec_l M p _ _ Hwf Hc).
      unfold spec_prune, spec_remove_uninteresting.
      destruct (String.eqb_spec (p_dropframes p) ""); [congruence|].
      apply map_ext. intros s. unfold on_frames. f_equal.
      apply prune_frames_ext. exact frame_dropped_full.
  Qed.
End FullMatchProof.
