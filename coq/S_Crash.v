(* Specification of C09 (crash-freedom) on the OBSERVABLES of the implementation, written without
   reference to the model's control flow, with decidable checkers.
   "pprof either produces the requested output or reports an error; it never panics, hangs or exits
   abnormally, and an interactive or web session stays usable afterwards." *)
From PV Require Import M_Crash.
Open Scope string_scope.
Open Scope Z_scope.

(* an outcome the harness records for a guarded call: TS "ok" | TS "error" | TS other-normal-result
   | TL [TS "panic"; TS msg] | TL [TS "hang"] *)
Definition crashed (t : term) : bool :=
  match t with
  | TL (TS tag :: _) => String.eqb tag "panic" || String.eqb tag "hang"
  | _ => false
  end.

Definition ok_or_error (t : term) : bool :=
  match t with TS s => String.eqb s "ok" || String.eqb s "error" | _ => false end.

(* ---- decision cores ---- *)
Definition spec_tagrange (o : term) : bool :=
  match o with TS s => String.eqb s "nil" || String.eqb s "fn" | _ => false end.
Definition spec_locate (o : term) : bool :=
  match o with TL (TS s :: _) => String.eqb s "ok" | _ => false end.
Definition spec_setting (o : term) : bool :=
  match o with TL (t :: _) => ok_or_error t | _ => false end.

(* ---- interactive session ----
   observable: TL [outcome; TL events; final config; TL report results]
   events: TL [TS "line"] (a line was read) | TL [TS "err"] | TL [TS "rerr"] (error printed by or for a
   report) | TL [TS "report"; TL cmd; cfg] (a report was requested) *)
Definition is_event (tag : string) (e : term) : bool :=
  match e with TL (TS s :: _) => String.eqb s tag | _ => false end.
Definition count_lines (evs : list term) : nat := List.length (filter (is_event "line") evs).

(* the events after the last "line" marker *)
Fixpoint after_last_line (evs : list term) (cur : list term) : list term :=
  match evs with
  | [] => cur
  | e :: r => if is_event "line" e then after_last_line r [] else after_last_line r (cur ++ [e])%list
  end.

Definition is_report_of (name : string) (e : term) : bool :=
  match e with
  | TL [TS tag; TL (TS c :: _); _] => String.eqb tag "report" && String.eqb c name
  | _ => false
  end.

Definition quit_word (s : string) : bool := String.eqb s "exit" || String.eqb s "quit" || String.eqb s "q".

(* "the session stays usable afterwards": every line the user typed was read and the closing
   [top] command was answered with a report request -- unless the user ended the session with
   exit/quit/q, in which case reading stopped exactly at that line *)
Definition session_usable (lines : list string) (evs : list term) : bool :=
  let n := List.length lines in
  let k := count_lines evs in
  if (k =? n)%nat then
    existsb (is_report_of "top") (after_last_line evs []) ||
    match nth_error lines (k - 1) with       (* the closing line itself may be a quit word only if typed so *)
    | Some l => match fields l with t :: _ => quit_word t | [] => false end || str_existsb is_high l
    | None => false
    end
  else if (k <? n)%nat && (1 <=? k)%nat then
    match nth_error lines (k - 1) with
    | Some l => match fields l with t :: _ => quit_word t | [] => false end || str_existsb is_high l
    | None => false
    end
  else false.

Definition spec_session (lines : list string) (o : term) : bool :=
  match o with
  | TL (out :: TL evs :: _ :: TL results :: _) =>     (* a 5th element: legends parsed back from captured outputs *)
      ok_or_error out && forallb ok_or_error results && session_usable lines evs
  | _ => false
  end.

(* ---- web session ----
   observable: TL [outcome of driver.PProf; TL statuses]; the last request is a plain /top *)
Definition status_allowed (t : term) : bool :=
  match t with
  | TS s => existsb (String.eqb s) ["200"; "400"; "501"; "301"]
  | _ => false
  end.
Definition status_answering (t : term) : bool :=
  match t with TS s => String.eqb s "200" || String.eqb s "400" | _ => false end.

Definition spec_web (nreq : nat) (o : term) : bool :=
  match o with
  | TL [out; TL sts] =>
      ok_or_error out && forallb status_allowed sts &&
      match out with
      | TS "ok" => (List.length sts =? nreq)%nat && match last sts (TL []) with t => status_answering t end
      | _ => true
      end
  | _ => false
  end.

(* ---- command line ---- *)
Definition spec_cli (o : term) : bool :=
  match o with TL (out :: _) => ok_or_error out | _ => false end.   (* 2nd element: legend parsed back *)

(* ---- symbolization mode ----
   observable: TL [outcome; number of "unrecognized option" messages; demangler mode seen in the names] *)
Definition spec_symmode (o : term) : bool :=
  match o with TL (out :: _) => ok_or_error out | _ => false end.
