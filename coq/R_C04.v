(* Case runner for C04: report numbers in every output form vs the model, and the specification
   checker (definition sums) evaluated on the implementation's output.
   input  = TL [profile; options; TS form; fmt-table]
   forms  = graph | items | top | tree | dot | callgrind | traces *)
From PV Require Import R_Graph.
Open Scope string_scope.
Open Scope list_scope.
Open Scope Z_scope.

Definition c04_prepare (i : term) : ropts * (sidx * prepared) :=
  let t := gn i 1 in
  let o0 := ropts_of t in
  let p := profile_of (gn i 0) in
  let valid := match sample_index_by_name p (o_sample_index o0) with SiOk _ => true | _ => false end in
  let o := set_sample_index o0 (entry_sample_index (gs (gn t 18)) (gss (gn t 17)) (o_sample_index o0) valid) in
  (o, prepare (fmt_table (gn i 3)) o p).

Definition legend_of (tr : trimmed) : Z := graph_total (t_g tr).

Definition of_item (it : text_item) : term := TL [TS (ti_name it); TS (ti_inl it); TZ (ti_flat it); TZ (ti_cum it)].

Definition edge_line (name : node_info) (e : edge node_info) : term :=
  TL [TS (with_inl (printable_name name) (if e_inl e then "(inline)" else "")); TZ (weight_value e)].

Definition tree_block (g : igraph) (e : node_info * nval) : term :=
  TL [TS (printable_name (fst e)); TZ (flat_value (snd e)); TZ (cum_value (snd e));
      set_of (map (fun x => edge_line (e_src x) x) (in_edges node_info ni_eqb g (fst e)));
      set_of (map (fun x => edge_line (e_dst x) x) (out_edges node_info ni_eqb g (fst e)))].

(* dot: nodes (name, flat, cum) and edges (src, dst, weight, residual, inline) as sets *)
Definition dot_obs {K} (name : K -> string) (g : graph K) : list term :=
  [set_of (map (fun e => TL [TS (name (fst e)); TZ (flat_value (snd e)); TZ (cum_value (snd e))]) (g_nodes g));
   set_of (map (fun e => TL [TS (name (e_src e)); TS (name (e_dst e)); TZ (weight_value e); of_bool (e_res e); of_bool (e_inl e)])
               (g_edges g))].

(* callgrind: nodes (function, file, line, flat) and calls (caller function, callee function, callee line, weight) *)
Definition cg_obs {K} (info : K -> node_info) (g : graph K) : list term :=
  [set_of (map (fun e => TL [TS (ni_name (info (fst e))); TS (ni_file (info (fst e))); TZ (ni_lineno (info (fst e)));
                             TZ (flat_value (snd e))]) (g_nodes g));
   set_of (map (fun e => TL [TS (ni_name (info (e_src e))); TS (ni_name (info (e_dst e))); TZ (ni_lineno (info (e_dst e)));
                             TZ (weight_value e)]) (g_edges g))].

Definition run_C04 (i : term) : term :=
  let '(o, (si, pr)) := c04_prepare i in
  let form := gs (gn i 2) in
  match si with
  | SiOk _ =>
      if String.eqb form "graph" then
        TL (TS "ok" :: TZ (pr_total pr) ::
            (if eff_call_tree o then of_tgraph (report_tree o (rebuild o pr)) else of_igraph (report_graph o (rebuild o pr) None)))
      else if String.eqb form "items" || String.eqb form "webtop" then
        let tr := new_trimmed_text o pr in
        TL [TS "ok"; TZ (pr_total pr); TZ (legend_of tr); TL (map of_item (text_items (t_g tr)))]
      else if String.eqb form "top" then
        let tr := new_trimmed_text o pr in
        TL [TS "ok"; TZ (legend_of tr); TZ (pr_total pr);
            TL (map (fun it => TL [TS (with_inl (ti_name it) (ti_inl it)); TZ (ti_flat it); TZ (ti_cum it)]) (text_items (t_g tr)))]
      else if String.eqb form "tree" then
        let tr := new_trimmed_text o pr in
        TL [TS "ok"; TZ (legend_of tr); TZ (pr_total pr); TL (map (tree_block (t_g tr)) (g_nodes (t_g tr)))]
      else if String.eqb form "dot" then
        if eff_call_tree o
        then let g := report_tree o (rebuild o pr) in
             TL (TS "ok" :: TZ (graph_total g) :: TZ (pr_total pr) :: dot_obs (fun p => printable_name (last_ni p)) g)
        else let g := report_graph o (rebuild o pr) None in
             TL (TS "ok" :: TZ (graph_total g) :: TZ (pr_total pr) :: dot_obs printable_name g)
      else if String.eqb form "callgrind" then
        if eff_call_tree o
        then TL (TS "ok" :: cg_obs last_ni (report_tree o (rebuild o pr)))
        else TL (TS "ok" :: cg_obs (fun k : node_info => k) (report_graph o (rebuild o pr) None))
      else if String.eqb form "traces" then
        TL [TS "ok"; TL (map (fun t : Z * list (string * bool) =>
                           TL [TZ (fst t); TL (map (fun f : string * bool => TS (with_inl (fst f) (if snd f then "(inline)" else ""))) (snd t))])
                             (traces pr (o_mean o)))]
      else TL [TS "unknown-form"]
  | e => err_term e
  end.

Definition eqv_C04 (i m o : term) : bool := eqv_canon i m o.

(* ---- specification checker on the implementation's output ---- *)
(* per-sample (value, divisor, base) triples of the profile as given (before aggregation) *)
Definition total_inputs (ix : Z) (mean : bool) (p : profile) : list (Z * Z * bool) :=
  map (fun s => (sample_w ix s, sample_dw mean s, diff_base_sample s)) (p_sample p).

(* a printed row (name, flat value, cum value) is justified by the definition: some entry with
   that printable name has exactly these values *)
(* [if] rather than [&&]: vm_compute evaluates both arguments of andb, and the right-hand sides
   are sums over all samples *)
Definition row_ok (o : ropts) (ss : list (gsample node_info)) (name : string) (flat cum : Z) : bool :=
  existsb (fun k => if String.eqb (printable_name k) name
                    then let v := spec_nval node_info ni_eqb None ss k in
                         (flat_value v =? flat) && (cum_value v =? cum)
                    else false)
          (all_keys node_info ss).

Definition strip_inl (s : string) : string :=
  trim_suffix " (inline)" (trim_suffix " (partial-inline)" s).

Definition edge_row_ok (ss : list (gsample node_info)) (a b : string) (w : Z) : bool :=
  existsb (fun ka => if String.eqb (printable_name ka) a then
     existsb (fun kb => if String.eqb (printable_name kb) b then
        (mean_value (wrap_i64 (edge_spec node_info ni_eqb false None ss ka kb))
                    (wrap_i64 (edge_spec node_info ni_eqb true None ss ka kb)) =? w) else false)
        (all_keys node_info ss) else false)
     (all_keys node_info ss).

Definition items_of (t : term) : list term := match gl t with TS _ :: r => r | r => r end.

(* ---- what an untrimmed report must show, from the definition sums only ---- *)
Definition c04_nodup (l : list node_info) : list node_info :=
  fold_right (fun k acc => if memK node_info ni_eqb k acc then acc else k :: acc) [] l.

(* graph mode: an entry is hidden only if its flat and cum are both 0 (or it is negative under
   drop_negative); every other entry is a row (name, FlatValue, CumValue) *)
Definition expected_rows (o : ropts) (ss : list (gsample node_info)) : list term :=
  flat_map (fun k => let v := spec_nval node_info ni_eqb None ss k in
                     if node_dropped (o_drop_negative o) v then []
                     else [TL [TS (printable_name k); TZ (flat_value v); TZ (cum_value v)]])
           (c04_nodup (all_keys node_info ss)).
Definition sets_match (exp obs : list term) : bool := term_eqb (canon (set_of exp)) (canon (set_of obs)).

(* call-tree mode: one row per path with non-hidden numbers; one edge into each from its shown parent *)
Definition tree_rows_raw (o : ropts) (ss : list (gsample node_info)) : list term :=
  map (fun e => of_nval (of_ni (last_ni (fst e))) (snd e)) (tree_expected_nodes node_info ni_eqb (o_drop_negative o) ss).
Definition tree_edges_raw (o : ropts) (ss : list (gsample node_info)) : list term :=
  map (fun e => let '(p, q, w, wd) := e in TL [of_ni (last_ni p); of_ni (last_ni q); TZ w; TZ wd])
      (tree_expected_edges node_info ni_eqb (o_drop_negative o) ss).
Definition tree_rows_named (o : ropts) (ss : list (gsample node_info)) : list term :=
  map (fun e => TL [TS (printable_name (last_ni (fst e))); TZ (flat_value (snd e)); TZ (cum_value (snd e))])
      (tree_expected_nodes node_info ni_eqb (o_drop_negative o) ss).
Definition tree_edges_named (o : ropts) (ss : list (gsample node_info)) : list term :=
  map (fun e => let '(p, q, w, wd) := e in
                TL [TS (printable_name (last_ni p)); TS (printable_name (last_ni q)); TZ (mean_value w wd)])
      (tree_expected_edges node_info ni_eqb (o_drop_negative o) ss).
Definition proj3 (t : term) (a b c : nat) : term := TL [gn t a; gn t b; gn t c].
Definition proj4 (t : term) : term := TL [gn t 0; gn t 1; gn t 2; gn t 3].

Definition spec_C04 (i ob : term) : bool :=
  let '(o, (si, pr)) := c04_prepare i in
  let form := gs (gn i 2) in
  match si with
  | SiOk ix =>
      (* entries are identified after the report's path clean-up (one application) *)
      let ss := report_samples o (rebuild o pr) in
      let tot := total_spec (total_inputs ix (o_mean o) (profile_of (gn i 0))) in
      if negb (String.eqb (gs (gn ob 0)) "ok") then false
      else if String.eqb form "graph" then
        (gz (gn ob 1) =? tot) &&
        (if eff_call_tree o
         then sets_match (tree_rows_raw o ss) (items_of (gn ob 2)) &&
              sets_match (tree_edges_raw o ss) (map proj4 (items_of (gn ob 3)))
         else check_graph node_info ni_eqb None (o_drop_negative o) ss (igraph_of (gn ob 2) (gn ob 3)))
      else if String.eqb form "items" || String.eqb form "webtop" then
        (gz (gn ob 1) =? tot) &&
        forallb (fun r => row_ok o ss (gs (gn r 0)) (gz (gn r 2)) (gz (gn r 3))) (gl (gn ob 3)) &&
        sets_match (expected_rows o ss) (map (fun r => proj3 r 0 2 3) (gl (gn ob 3))) &&
        (gz (gn ob 2) =? fold_left (fun a r => wadd a (gz (gn r 2))) (gl (gn ob 3)) 0)
      else if String.eqb form "top" then
        (gz (gn ob 2) =? tot) &&
        forallb (fun r => row_ok o ss (strip_inl (gs (gn r 0))) (gz (gn r 1)) (gz (gn r 2))) (gl (gn ob 3)) &&
        sets_match (expected_rows o ss) (map (fun r => TL [TS (strip_inl (gs (gn r 0))); gn r 1; gn r 2]) (gl (gn ob 3))) &&
        (gz (gn ob 1) =? fold_left (fun a r => wadd a (gz (gn r 1))) (gl (gn ob 3)) 0)
      else if String.eqb form "tree" then
        (gz (gn ob 2) =? tot) &&
        sets_match (expected_rows o ss) (map (fun b => proj3 b 0 1 2) (gl (gn ob 3))) &&
        (gz (gn ob 1) =? fold_left (fun a r => wadd a (gz (gn r 1))) (gl (gn ob 3)) 0) &&
        forallb (fun b => row_ok o ss (gs (gn b 0)) (gz (gn b 1)) (gz (gn b 2)) &&
                          forallb (fun e => edge_row_ok ss (strip_inl (gs (gn e 0))) (gs (gn b 0)) (gz (gn e 1))) (items_of (gn b 3)) &&
                          forallb (fun e => edge_row_ok ss (gs (gn b 0)) (strip_inl (gs (gn e 0))) (gz (gn e 1))) (items_of (gn b 4)))
                (gl (gn ob 3))
      else if String.eqb form "dot" then
        (gz (gn ob 2) =? tot) &&
        (gz (gn ob 1) =? fold_left (fun a r => wadd a (gz (gn r 1))) (items_of (gn ob 3)) 0) &&
        (if eff_call_tree o
         then sets_match (tree_rows_named o ss) (items_of (gn ob 3)) &&
              sets_match (tree_edges_named o ss) (map (fun e => proj3 e 0 1 2) (items_of (gn ob 4)))
         else sets_match (expected_rows o ss) (items_of (gn ob 3)) &&
              forallb (fun r => row_ok o ss (gs (gn r 0)) (gz (gn r 1)) (gz (gn r 2))) (items_of (gn ob 3)) &&
              forallb (fun e => edge_row_ok ss (gs (gn e 0)) (gs (gn e 1)) (gz (gn e 2)) && negb (gb (gn e 3))) (items_of (gn ob 4)))
      else true
  | _ => String.eqb (gs (gn ob 0)) "err"
  end.

Definition cls_C04 (i : term) : list Z := [].

Definition judge_C04 := judge_all run_C04 eqv_C04 spec_C04 cls_C04 0%Z.
