(* Executable model of the legacy-profile parsers (profile/legacy_profile.go, ParseData's legacy
   chain in profile/profile.go): Go count, heap/growth/fragmentation, contention/mutex, threadz,
   binary CPU; memory-map section, massageMappings and the three remap* passes.
   Locations are interned per address by every parser, so the model identifies a location with its
   (adjusted) address until ids are handed out by remapLocationIDs.
   math.Exp (heap unsampling) is a Section variable; the contention delay scaling (float64 in Go)
   is the exact rational, truncated.  Java formats are outside the model ([Unk]).
   No proofs here. *)
From PV Require Export M_LegacyLex.
Open Scope Z_scope.

Record rsample := { rs_addrs : list Z; rs_vals : list Z; rs_bytes : option Z }.

Record pre := { pr_st : list valuetype; pr_pt : valuetype; pr_period : Z; pr_duration : Z;
                pr_samples : list rsample }.

Definition mk_vt (t u : string) : valuetype := {| vt_type := t; vt_unit := u |}.

(* ---------------- massageMappings (profile.go) ---------------- *)
Definition adjacent (m1 m2 : mapping) : bool :=
  if nonempty (m_file m1) && nonempty (m_file m2) && negb (String.eqb (m_file m1) (m_file m2)) then false
  else if nonempty (m_buildid m1) && nonempty (m_buildid m2) && negb (String.eqb (m_buildid m1) (m_buildid m2)) then false
  else if negb (m_limit m1 =? m_start m2) then false
  else if negb (m_offset m1 =? 0) && negb (m_offset m2 =? 0)
          && negb (wrap_u64 (m_offset m1 + wrap_u64 (m_limit m1 - m_start m1)) =? m_offset m2) then false
  else true.

Definition set_range (m : mapping) (st lim off : Z) (file bid : string) : mapping :=
  {| m_id := m_id m; m_start := st; m_limit := lim; m_offset := off; m_file := file; m_buildid := bid;
     m_hasfn := m_hasfn m; m_hasfile := m_hasfile m; m_hasline := m_hasline m; m_hasinline := m_hasinline m |}.

Definition absorb (lm m : mapping) : mapping :=
  set_range lm (m_start lm) (m_limit m) (m_offset lm)
            (if nonempty (m_file m) then m_file m else m_file lm)
            (if nonempty (m_buildid m) then m_buildid m else m_buildid lm).

(* acc is the reversed result; its head is the last kept mapping *)
Fixpoint merge_adjacent (acc : list mapping) (ms : list mapping) : list mapping :=
  match ms with
  | [] => rev acc
  | m :: r =>
      match acc with
      | lm :: ar => if adjacent lm m then merge_adjacent (absorb lm m :: ar) r else merge_adjacent (m :: acc) r
      | [] => merge_adjacent [m] r
      end
  end.

Fixpoint remove_deleted (skip : nat) (s : string) : string :=
  match s with
  | EmptyString => EmptyString
  | String a r =>
      match skip with
      | S k => remove_deleted k r
      | O => if has_prefix "(deleted)" s then remove_deleted 8 r else String a (remove_deleted 0 r)
      end
  end.

(* libRx  ([.]so$|[.]so[._][0-9]+) *)
Definition lib_at (s : string) : option unit :=
  dO r <- lit ".so" s;
  match r with
  | EmptyString => Some tt
  | String a (String b _) => if (N.eqb (code a) 46 || N.eqb (code a) 95) && is_digit b then Some tt else None
  | _ => None
  end.
Definition is_lib (file : string) : bool := match search lib_at file with Some _ => true | None => false end.

Definition looks_main (m : mapping) : bool :=
  let file := trim_space (remove_deleted 0 (m_file m)) in
  match file with
  | EmptyString => false
  | String a _ => negb (is_lib file) && negb (N.eqb (code a) 91)
  end.

Fixpoint find_index {A} (f : A -> bool) (l : list A) (i : nat) : option nat :=
  match l with [] => None | a :: r => if f a then Some i else find_index f r (S i) end.

Fixpoint set_nth {A} (n : nat) (x : A) (l : list A) : list A :=
  match l, n with
  | [], _ => []
  | _ :: r, O => x :: r
  | a :: r, S k => a :: set_nth k x r
  end.

Definition swap0 {A} (i : nat) (l : list A) : list A :=
  match l with
  | [] => []
  | a0 :: _ => match nth_error l i with
               | Some ai => set_nth i a0 (set_nth 0 ai l)
               | None => l
               end
  end.

Definition massage (ms : list mapping) : list mapping :=
  let ms := merge_adjacent [] ms in
  match find_index looks_main ms 0 with Some i => swap0 i ms | None => ms end.

(* ---------------- remapMappingIDs ---------------- *)
Definition drop_hugepage (ms : list mapping) : list mapping :=
  match ms with
  | m0 :: m1 :: r => if has_prefix "/anon_hugepage" (m_file m0) && (m_limit m0 =? m_start m1) then m1 :: r else ms
  | _ => ms
  end.

Definition fix_main_start (ms : list mapping) : list mapping :=
  match ms with
  | m0 :: r => if wrap_u64 (m_start m0 - m_offset m0) =? 4194304
               then set_range m0 4194304 (m_limit m0) 0 (m_file m0) (m_buildid m0) :: r else ms
  | [] => []
  end.

Definition fake_mapping : mapping :=
  {| m_id := 1; m_start := 0; m_limit := two64 - 1; m_offset := 0; m_file := ""; m_buildid := "";
     m_hasfn := false; m_hasfile := false; m_hasline := false; m_hasinline := false |}.

(* one location: (mappings, index of the fake mapping) -> new state and the 1-based index of the
   mapping the location gets (0 = nil) *)
Definition assign_one (st : list mapping * option nat) (a : Z) : (list mapping * option nat) * Z :=
  let '(ms, fake) := st in
  if a =? 0 then (st, 0) else
  match find_index (fun m => (m_start m <=? a) && (a <? m_limit m)) ms 0 with
  | Some i => (st, Z.of_nat (S i))
  | None =>
      match find_index (fun m => negb (m_offset m =? 0) && (wrap_u64 (m_start m - m_offset m) <=? a) && (a <? m_start m)) ms 0 with
      | Some i =>
          match nth_error ms i with
          | Some m => ((set_nth i (set_range m (wrap_u64 (m_start m - m_offset m)) (m_limit m) 0 (m_file m) (m_buildid m)) ms, fake),
                       Z.of_nat (S i))
          | None => (st, 0)
          end
      | None =>
          match fake with
          | Some i => (st, Z.of_nat (S i))
          | None => (((ms ++ [fake_mapping])%list, Some (List.length ms)), Z.of_nat (S (List.length ms)))
          end
      end
  end.

Fixpoint assign_all (st : list mapping * option nat) (addrs : list Z) : (list mapping * option nat) * list Z :=
  match addrs with
  | [] => (st, [])
  | a :: r => let '(st1, i) := assign_one st a in
              let '(st2, is) := assign_all st1 r in (st2, i :: is)
  end.

Fixpoint renumber (i : Z) (ms : list mapping) : list mapping :=
  match ms with
  | [] => []
  | m :: r => {| m_id := i; m_start := m_start m; m_limit := m_limit m; m_offset := m_offset m; m_file := m_file m;
                 m_buildid := m_buildid m; m_hasfn := m_hasfn m; m_hasfile := m_hasfile m; m_hasline := m_hasline m;
                 m_hasinline := m_hasinline m |} :: renumber (i + 1) r
  end.

(* ---------------- remapLocationIDs: locations in order of first use by a sample ---------------- *)
Definition memz (a : Z) (l : list Z) : bool := existsb (Z.eqb a) l.
Fixpoint nodup_acc (seen : list Z) (l : list Z) : list Z :=   (* seen is reversed *)
  match l with
  | [] => rev seen
  | a :: r => if memz a seen then nodup_acc seen r else nodup_acc (a :: seen) r
  end.
Definition first_uses (l : list Z) : list Z := nodup_acc [] l.

Fixpoint index_of (a : Z) (l : list Z) (i : Z) : Z :=   (* 1-based id; 0 when absent *)
  match l with [] => 0 | b :: r => if a =? b then i else index_of a r (i + 1) end.

(* cleanupDuplicateLocations *)
Definition cleanup_dup (addrs : list Z) : list Z :=
  match addrs with
  | a0 :: a1 :: r => if a0 =? wrap_u64 (a1 + 1) then a0 :: r else addrs
  | _ => addrs
  end.

(* addLegacyFrameInfo: the three regexp strings are reported as tokens by the harness *)
Definition heapz_types : list (list string) :=
  [["allocations"; "size"]; ["objects"; "space"]; ["inuse_objects"; "inuse_space"]; ["alloc_objects"; "alloc_space"];
   ["alloc_objects"; "alloc_space"; "inuse_objects"; "inuse_space"]]%string.
Definition contentionz_types : list (list string) := [["contentions"; "delay"]]%string.
Fixpoint ss_eqb (a b : list string) : bool :=
  match a, b with [], [] => true | x :: a', y :: b' => String.eqb x y && ss_eqb a' b' | _, _ => false end.
Definition is_profile_type (st : list valuetype) (tbl : list (list string)) : bool :=
  existsb (ss_eqb (map vt_type st)) tbl.
Definition frame_info (st : list valuetype) : string * string :=
  if is_profile_type st heapz_types then ("<alloc>", "<allocskip>")
  else if is_profile_type st contentionz_types then ("<lock>", "")
  else ("<cpu>", "")%string.

Definition mk_loc (a_i : Z * Z) (id : Z) : location :=
  {| l_id := id; l_mapping := snd a_i; l_addr := fst a_i; l_lines := []; l_folded := false |}.
Fixpoint mk_locations (l : list (Z * Z)) (id : Z) : list location :=
  match l with [] => [] | x :: r => mk_loc x id :: mk_locations r (id + 1) end.
Definition sample_addrs (cleanup : bool) (s : rsample) : list Z :=
  if cleanup then cleanup_dup (rs_addrs s) else rs_addrs s.
Definition mk_sample (cleanup : bool) (locs : list Z) (s : rsample) : sample :=
  {| s_loc := map (fun a => index_of a locs 1) (sample_addrs cleanup s);
     s_val := rs_vals s; s_label := [];
     s_numlabel := match rs_bytes s with Some b => [("bytes"%string, [b])] | None => [] end;
     s_numunit := [] |}.

(* ParseMemoryMapFromScanner's tail + addLegacyFrameInfo (+ cleanupDuplicateLocations for the
   two parsers that call it after the ids exist) *)
Definition finalize (cleanup : bool) (x : pre) (maps : list mapping) : profile :=
  let ms0 := fix_main_start (drop_hugepage (massage maps)) in
  let locs := first_uses (List.concat (map rs_addrs (pr_samples x))) in
  let '((ms1, _), lmap) := assign_all (ms0, None) locs in
  let locations := mk_locations (combine locs lmap) 1 in
  let '(dropf, keepf) := frame_info (pr_st x) in
  {| p_sampletype := pr_st x; p_defaultsampletype := ""; p_sample := map (mk_sample cleanup locs) (pr_samples x);
     p_mapping := renumber 1 ms1; p_location := locations; p_function := []; p_comments := [];
     p_docurl := ""; p_dropframes := dropf; p_keepframes := keepf; p_timenanos := 0;
     p_durationnanos := pr_duration x; p_periodtype := Some (pr_pt x); p_period := pr_period x |}.

(* ---------------- scanner helpers ---------------- *)
(* for s.Scan() && isSpaceOrComment(s.Text()) {} : the current line (empty at EOF) and the rest *)
Fixpoint skip_sc (lines : list string) : string * list string :=
  match lines with
  | [] => (EmptyString, [])
  | l :: r => if is_space_or_comment l then skip_sc r else (l, r)
  end.

(* parseAdditionalSections: for !isMemoryMapSentinel(s.Text()) && s.Scan() {} ; then the map lines *)
Fixpoint to_sentinel (cur : string) (rest : list string) : list string :=
  if is_sentinel cur then rest else match rest with [] => [] | l :: r => to_sentinel l r end.

Definition additional_sections (cleanup : bool) (x : pre) (cur : string) (rest : list string) : res profile :=
  do maps <- parse_proc_maps (to_sentinel cur rest); Ok (finalize cleanup x maps).

Definition dec1 (a : Z) : Z := wrap_u64 (a - 1).

(* ---------------- parseGoCount ---------------- *)
Definition count_line (l : string) : res rsample :=
  match count_re l with
  | None => Err
  | Some (d, hs) =>
      match parse_int0 d with
      | Ok n => match parse_all_hex hs with
                | Some addrs => Ok {| rs_addrs := map dec1 addrs; rs_vals := [n]; rs_bytes := None |}
                | None => Err
                end
      | Unk => Unk
      | _ => Err
      end
  end.

Fixpoint count_loop (lines : list string) : res (list rsample * (string * list string)) :=
  match lines with
  | [] => Ok ([], (EmptyString, []))
  | l :: r =>
      if is_space_or_comment l then count_loop r
      else if has_prefix "---" l then Ok ([], (l, r))
      else do s <- count_line l; do (ss, k) <- count_loop r; Ok (s :: ss, k)
  end.

Definition parse_count (lines : list string) : res profile :=
  let '(cur, rest) := skip_sc lines in
  match count_start_re cur with
  | None => Unrec
  | Some t =>
      do (ss, (cur', rest')) <- count_loop rest;
      additional_sections false
        {| pr_st := [mk_vt t "count"]; pr_pt := mk_vt t "count"; pr_period := 1; pr_duration := 0; pr_samples := ss |}
        cur' rest'
  end.

Section WithExp.
  (* scaleHeapSample's float64 computation for count, size <> 0 and rate > 1 *)
  Variable unsample : Z -> Z -> Z -> Z * Z.

  Definition scale_heap_sample (count size rate : Z) : Z * Z :=
    if (count =? 0) || (size =? 0) then (0, 0)
    else if rate <=? 1 then (count, size)
    else unsample count size rate.

  (* ---------------- parseHeap ---------------- *)
  (* parseHeapHeader: sampling = "v2" (true) or "" (false), period, hasAlloc *)
  Definition heap_header (line : string) : res (bool * Z * bool) :=
    match heap_header_re line with
    | Some (h1, h2, h3, h4, h5, h6) =>
        do period <- (if nonempty h6 then match parse_int10 h6 with Some p => Ok p | None => Unrec end else Ok 0);
        let has_alloc := (negb (String.eqb h3 h1) && negb (String.eqb h3 "0")) || (negb (String.eqb h4 h2) && negb (String.eqb h4 "0")) in
        if String.eqb h5 "heapz_v2" || String.eqb h5 "heap_v2" then Ok (true, period, has_alloc)
        else if String.eqb h5 "heapprofile" then Ok (false, 1, has_alloc)
        else if String.eqb h5 "heap" then Ok (true, Z.quot period 2, has_alloc)
        else Unrec
    | None =>
        if heap_other_re "growth" line then Ok (false, 1, false)
        else if heap_other_re "fragmentation" line then Ok (false, 1, false)
        else Unrec
    end.

  (* addValues: new block size (if count <> 0) and the two values *)
  Definition add_values (v2 : bool) (rate : Z) (cs ss : string) : res (option Z * list Z) :=
    match parse_int10 cs, parse_int10 ss with
    | Some count, Some size =>
        if (count =? 0) && negb (size =? 0) then Err
        else if count =? 0 then Ok (None, [count; size])
        else let '(c, s) := if v2 then scale_heap_sample count size rate else (count, size) in
             Ok (Some (Z.quot size count), [c; s])
    | _, _ => Err
    end.

  Definition heap_sample (v2 : bool) (rate : Z) (has_alloc : bool) (line : string) : res rsample :=
    match heap_sample_re line with
    | None => Err
    | Some (g1, g2, g3, g4, g5) =>
        do (b1, v1) <- (if has_alloc then add_values v2 rate g3 g4 else Ok (None, []));
        do (b2, v2') <- add_values v2 rate g1 g2;
        match parse_hex_addresses g5 with
        | None => Err
        | Some addrs =>
            Ok {| rs_addrs := map dec1 addrs; rs_vals := (v1 ++ v2')%list;
                  rs_bytes := Some (match b2 with Some b => b | None => match b1 with Some b => b | None => 0 end end) |}
        end
    end.

  Fixpoint heap_loop (v2 : bool) (rate : Z) (has_alloc : bool) (lines : list string)
    : res (list rsample * (string * list string)) :=
    match lines with
    | [] => Ok ([], (EmptyString, []))
    | l :: r =>
        let t := trim_space l in
        if is_space_or_comment t then heap_loop v2 rate has_alloc r
        else if is_sentinel t then Ok ([], (l, r))
        else do s <- heap_sample v2 rate has_alloc t;
             do (ss, k) <- heap_loop v2 rate has_alloc r; Ok (s :: ss, k)
    end.

  Definition heap_sample_types (has_alloc : bool) : list valuetype :=
    if has_alloc then [mk_vt "alloc_objects" "count"; mk_vt "alloc_space" "bytes";
                       mk_vt "inuse_objects" "count"; mk_vt "inuse_space" "bytes"]
    else [mk_vt "objects" "count"; mk_vt "space" "bytes"].

  Definition parse_heap (lines : list string) : res profile :=
    match lines with
    | [] => Unrec
    | l0 :: r =>
        do (v2, period, has_alloc) <- heap_header l0;
        do (ss, (cur, rest)) <- heap_loop v2 period has_alloc r;
        additional_sections false
          {| pr_st := heap_sample_types has_alloc; pr_pt := mk_vt "space" "bytes"; pr_period := period;
             pr_duration := 0; pr_samples := ss |} cur rest
    end.

  (* ---------------- parseContention ---------------- *)
  Record cattrs := { ca_hz : Z; ca_period : Z; ca_dur : Z }.

  (* strings.SplitN(line, "=", 2) *)
  Fixpoint split_eq (s : string) : option (string * string) :=
    match s with
    | EmptyString => None
    | String a r => if N.eqb (code a) 61 then Some (EmptyString, r)
                    else match split_eq r with Some (x, y) => Some (String a x, y) | None => None end
    end.

  Fixpoint cont_attrs (lines : list string) (st : cattrs) : res (cattrs * (string * list string)) :=
    match lines with
    | [] => Ok (st, (EmptyString, []))
    | l :: r =>
        let t := trim_space l in
        if is_space_or_comment t then cont_attrs r st
        else if has_prefix "---" t then Ok (st, (l, r))
        else match split_eq t with
             | None => Ok (st, (l, r))
             | Some (k, v) =>
                 let key := trim_space k in let val := trim_space v in
                 let num (f : Z -> cattrs) := match parse_int0 val with Ok z => cont_attrs r (f z) | Unk => Unk | _ => Unrec end in
                 if String.eqb key "cycles/second" then num (fun z => {| ca_hz := z; ca_period := ca_period st; ca_dur := ca_dur st |})
                 else if String.eqb key "sampling period" then num (fun z => {| ca_hz := ca_hz st; ca_period := z; ca_dur := ca_dur st |})
                 else if String.eqb key "ms since reset" then
                   num (fun z => {| ca_hz := ca_hz st; ca_period := ca_period st; ca_dur := wrap_i64 (wrap_i64 (z * 1000) * 1000) |})
                 else if String.eqb key "discarded samples" then cont_attrs r st
                 else Unrec
             end
    end.

  (* parseContentionSample; the delay is float64(v1)*float64(period)/(float64(cpuHz)/1e9) in Go *)
  Definition contention_values (period hz v1 v2 : Z) : list Z :=
    if 0 <? period then
      [wrap_i64 (v2 * period); if 0 <? hz then Z.quot (v1 * period * 1000000000) hz else v1]
    else [v2; v1].

  Definition contention_sample (period hz : Z) (line : string) : res rsample :=
    match contention_sample_re line with
    | None => Unrec
    | Some (g1, g2, g3) =>
        match parse_int10 g1, parse_int10 g2 with
        | Some v1, Some v2 =>
            match parse_hex_addresses g3 with
            | Some addrs => Ok {| rs_addrs := map dec1 addrs; rs_vals := contention_values period hz v1 v2; rs_bytes := None |}
            | None => Err
            end
        | _, _ => Err
        end
    end.

  Fixpoint cont_loop (period hz : Z) (cur : string) (rest : list string) : res (list rsample * (string * list string)) :=
    let t := trim_space cur in
    if has_prefix "---" t then Ok ([], (cur, rest))
    else
      do here <- (if is_space_or_comment t then Ok [] else do s <- contention_sample period hz t; Ok [s]);
      match rest with
      | [] => Ok (here, (EmptyString, []))
      | l :: r => do (ss, k) <- cont_loop period hz l r; Ok ((here ++ ss)%list, k)
      end.

  Definition parse_contention (lines : list string) : res profile :=
    match lines with
    | [] => Unrec
    | l0 :: r =>
        if has_prefix "--- contentionz " l0 || has_prefix "--- mutex:" l0 || has_prefix "--- contention:" l0 then
          do (a, (cur, rest)) <- cont_attrs r {| ca_hz := 0; ca_period := 1; ca_dur := 0 |};
          do (ss, (cur', rest')) <- cont_loop (ca_period a) (ca_hz a) cur rest;
          additional_sections false
            {| pr_st := [mk_vt "contentions" "count"; mk_vt "delay" "nanoseconds"]; pr_pt := mk_vt "contentions" "count";
               pr_period := ca_period a; pr_duration := ca_dur a; pr_samples := ss |} cur' rest'
        else Unrec
    end.

  (* ---------------- parseThread ---------------- *)
  (* threadz header: for s.Scan() { line = s.Text(); if sentinel || "-" prefix {break} } :
     (line variable, scanner text, rest) *)
  Fixpoint thread_advance (line : string) (rest : list string) : string * string * list string :=
    match rest with
    | [] => (line, EmptyString, [])
    | l :: r => if is_sentinel l || has_prefix "-" l then (l, l, r) else thread_advance l r
    end.

  Definition thread_addrs (addrs : list Z) : list Z :=
    match addrs with [] => [] | a :: r => a :: map dec1 r end.

  Definition bump_last (acc : list rsample) : list rsample :=   (* acc reversed: head = last sample *)
    match acc with
    | s :: r => {| rs_addrs := rs_addrs s; rs_bytes := rs_bytes s;
                   rs_vals := match rs_vals s with v :: vr => wrap_i64 (v + 1) :: vr | [] => [] end |} :: r
    | [] => []
    end.

  Definition commit_block (same : bool) (addrs : list Z) (acc : list rsample) : list rsample :=
    if same || match addrs with [] => true | _ => false end then bump_last acc
    else {| rs_addrs := thread_addrs addrs; rs_vals := [1]; rs_bytes := None |} :: acc.

  (* One pass over the lines after a thread header: [addrs]/[same] belong to the open block, [last] is
     parseThreadSample's line variable.  Result: samples, scanner text, remaining lines. *)
  Fixpoint thread_blocks (rest : list string) (addrs : list Z) (same : bool) (last : string) (acc : list rsample)
    : res (list rsample * (string * list string)) :=
    match rest with
    | [] =>
        (* EOF inside a block: the outer loop sees [last]; only a sentinel there ends it well *)
        if is_sentinel last then Ok (rev (commit_block same addrs acc), (EmptyString, []))
        else Unrec
    | l :: r =>
        let t := trim_space l in
        if negb (nonempty t) then thread_blocks r addrs same t acc
        else if has_prefix "---" t then
          let acc' := commit_block same addrs acc in
          if is_sentinel t then Ok (rev acc', (l, r))
          else if has_prefix "---- no stack trace for" t then Ok (rev acc', (l, r))
          else if thread_start_re t then thread_blocks r [] false EmptyString acc'
          else Unrec
        else if contains "same as previous thread" t then thread_blocks r addrs true t acc
        else match parse_hex_addresses t with
             | Some a => thread_blocks r (addrs ++ a)%list same t acc
             | None => Err
             end
    end.

  Definition thread_pre : pre :=
    {| pr_st := [mk_vt "thread" "count"]; pr_pt := mk_vt "thread" "count"; pr_period := 1; pr_duration := 0; pr_samples := [] |}.

  Definition parse_thread (lines : list string) : res profile :=
    let '(cur, rest) := skip_sc lines in
    do (line, scur, rest1) <-
       (if threadz_start_re cur then Ok (thread_advance cur rest)
        else if thread_start_re cur then Ok (cur, cur, rest) else Unrec);
    do (ss, (cur', rest')) <-
       (if is_sentinel line then Ok ([], (scur, rest1))
        else if has_prefix "---- no stack trace for" line then Ok ([], (scur, rest1))
        else if thread_start_re line then thread_blocks rest1 [] false EmptyString []
        else Unrec);
    additional_sections true
      {| pr_st := pr_st thread_pre; pr_pt := pr_pt thread_pre; pr_period := 1; pr_duration := 0; pr_samples := ss |} cur' rest'.

  (* ---------------- parseCPU (binary) ---------------- *)
  Definition wordfn := list Z -> Z * option (list Z).
  Definition get32l : wordfn := fun b =>
    match b with b0 :: b1 :: b2 :: b3 :: r => (b0 + 256 * b1 + 65536 * b2 + 16777216 * b3, Some r) | _ => (0, None) end.
  Definition get32b : wordfn := fun b =>
    match b with b0 :: b1 :: b2 :: b3 :: r => (b3 + 256 * b2 + 65536 * b1 + 16777216 * b0, Some r) | _ => (0, None) end.
  Definition get64l : wordfn := fun b =>
    match b with
    | b0 :: b1 :: b2 :: b3 :: b4 :: b5 :: b6 :: b7 :: r =>
        (b0 + 256 * (b1 + 256 * (b2 + 256 * (b3 + 256 * (b4 + 256 * (b5 + 256 * (b6 + 256 * b7)))))), Some r)
    | _ => (0, None)
    end.
  Definition get64b : wordfn := fun b =>
    match b with
    | b0 :: b1 :: b2 :: b3 :: b4 :: b5 :: b6 :: b7 :: r =>
        (b7 + 256 * (b6 + 256 * (b5 + 256 * (b4 + 256 * (b3 + 256 * (b2 + 256 * (b1 + 256 * b0)))))), Some r)
    | _ => (0, None)
    end.
  (* a nil slice stays nil *)
  Definition pw (parse : wordfn) (b : option (list Z)) : Z * option (list Z) :=
    match b with Some l => parse l | None => (0, None) end.

  Fixpoint read_words (parse : wordfn) (n : nat) (b : option (list Z)) : list Z * option (list Z) :=
    match n with
    | O => ([], b)
    | S k => let '(w, b1) := pw parse b in let '(ws, b2) := read_words parse k b1 in (w :: ws, b2)
    end.

  Definition cpu_addrs (adjust : bool) (addrs : list Z) : list Z :=
    if adjust then thread_addrs addrs else addrs.

  (* parseCPUSamples; fuel = number of bytes (every round consumes at least two words) *)
  Fixpoint cpu_samples (fuel : nat) (parse : wordfn) (adjust : bool) (period : Z) (b : option (list Z))
    : res (list rsample * option (list Z)) :=
    match b with
    | None | Some [] => Ok ([], b)
    | Some _ =>
        match fuel with
        | O => Unk
        | S f =>
            let '(count, b1) := pw parse b in
            let '(nstk, b2) := pw parse b1 in
            match b2 with
            | None => Unrec
            | Some l2 =>
                if Z.of_nat (List.length l2) / 4 <? nstk then Unrec else
                let '(addrs, b3) := read_words parse (Z.to_nat nstk) b2 in
                if (count =? 0) && (nstk =? 1) && match addrs with [a] => a =? 0 | _ => false end then Ok ([], b3)
                else
                  let s := {| rs_addrs := cpu_addrs adjust addrs;
                              rs_vals := [wrap_i64 count; wrap_i64 (wrap_i64 count * period)]; rs_bytes := None |} in
                  do (ss, k) <- cpu_samples f parse adjust period b3; Ok (s :: ss, k)
            end
        end
    end.

  (* signal-handler frame: second-from-leaf address shared by all but len/32 samples.  At most one
     address can qualify (L_Legacy.signal_frame_unique), so Go's map iteration order is immaterial. *)
  Definition second_addr (s : rsample) : option Z := match rs_addrs s with _ :: a :: _ => Some a | _ => None end.
  Definition has_second (a : Z) (s : rsample) : bool := match second_addr s with Some b => a =? b | None => false end.
  Definition count_second (a : Z) (ss : list rsample) : Z := Z.of_nat (List.length (filter (has_second a) ss)).
  Definition seconds (ss : list rsample) : list Z :=
    flat_map (fun s => match second_addr s with Some a => [a] | None => [] end) ss.
  Definition qualifies (ss : list rsample) (a : Z) : bool :=
    let n := Z.of_nat (List.length ss) in n - n / 32 <=? count_second a ss.
  Definition drop_second (s : rsample) : rsample :=
    {| rs_addrs := match rs_addrs s with a0 :: _ :: r => a0 :: r | l => l end; rs_vals := rs_vals s; rs_bytes := rs_bytes s |}.
  Definition strip_frame (ss : list rsample) : list rsample :=
    match find (qualifies ss) (seconds ss) with
    | Some a => map (fun s => if has_second a s then drop_second s else s) ss
    | None => ss
    end.

  Definition bytes_to_string (b : option (list Z)) : string := match b with Some l => B l | None => EmptyString end.

  Definition cpu_profile (parse : wordfn) (n4 : Z) (b : option (list Z)) : res profile :=
    let period := wrap_i64 (wrap_i64 n4 * 1000) in
    do (ss, rest) <- cpu_samples (match b with Some l => List.length l | None => O end) parse true period b;
    let ss := strip_frame (strip_frame ss) in
    do maps <- parse_proc_maps (split_lines (bytes_to_string rest));
    Ok (finalize true {| pr_st := [mk_vt "samples" "count"; mk_vt "cpu" "nanoseconds"]; pr_pt := mk_vt "cpu" "nanoseconds";
                         pr_period := period; pr_duration := 0; pr_samples := ss |} maps).

  Definition cpu_try (parse : wordfn) (b : list Z) : option (res profile) :=
    let '(n1, t) := pw parse (Some b) in
    let '(n2, t) := pw parse t in
    let '(n3, t) := pw parse t in
    let '(n4, t) := pw parse t in
    let '(n5, t) := pw parse t in
    match t with
    | Some _ =>
        if (n1 =? 0) && (n2 =? 3) && (n3 =? 0) && (0 <? n4) && (n5 =? 0) then Some (cpu_profile parse n4 t)
        else if (n1 =? 0) && (n2 =? 3) && (n3 =? 1) && (0 <? n4) && (n5 =? 0) then Some Unk   (* javaCPUProfile *)
        else None
    | None => None
    end.

  Definition parse_cpu (b : list Z) : res profile :=
    match cpu_try get32l b with Some r => r | None =>
    match cpu_try get32b b with Some r => r | None =>
    match cpu_try get64l b with Some r => r | None =>
    match cpu_try get64b b with Some r => r | None => Unrec end end end end.

  (* ---------------- parseJavaProfile: only its header test (the format is outside the model) ---------------- *)
  Fixpoint first_line (s : string) : option string :=   (* None: no newline at all *)
    match s with
    | EmptyString => None
    | String a r => if N.eqb (code a) 10 then Some EmptyString
                    else match first_line r with Some x => Some (String a x) | None => None end
    end.
  Definition parse_java (data : string) : res profile :=
    match first_line data with
    | None => Unrec
    | Some h => let h := trim_space h in
                if String.eqb h "--- heapz 1 ---" || String.eqb h "--- contentionz 1 ---" then Unk else Unrec
    end.

  (* ---------------- parseLegacy: first parser that does not answer errUnrecognized ---------------- *)
  Definition or_else (r : res profile) (k : unit -> res profile) : res profile :=
    match r with Unrec => k tt | _ => r end.

  Definition parse_legacy (data : string) : res profile :=
    let lines := split_lines data in
    or_else (parse_cpu (bytes_of_string data)) (fun _ =>
    or_else (parse_heap lines) (fun _ =>
    or_else (parse_count lines) (fun _ =>
    or_else (parse_thread lines) (fun _ =>
    or_else (parse_contention lines) (fun _ => parse_java data))))).
End WithExp.
