(* Lemmas and proofs about the model of Report.Stacks (M_Stacks) against its specification
   (S_Stacks). *)
From Coq Require Import Lia Arith.
From PV Require Import M_Stacks S_Stacks.
Open Scope string_scope.
Open Scope Z_scope.
Open Scope list_scope.

(* ================================================================== generic list facts *)
Lemma upd_length : forall A (f : A -> A) (l : list A) n, List.length (upd l n f) = List.length l.
Proof. induction l as [|a l IH]; intros [|n]; simpl; auto. Qed.

Lemma map_upd_proj : forall A B (g : A -> B) (f : A -> A) (l : list A) n,
  (forall x, g (f x) = g x) -> map g (upd l n f) = map g l.
Proof.
  intros A B g f l n H. revert n. induction l as [|a l IH]; intros [|n]; simpl; auto.
  - now rewrite H.
  - now rewrite IH.
Qed.

Lemma nth_error_upd_eq : forall A (f : A -> A) (l : list A) n x,
  nth_error l n = Some x -> nth_error (upd l n f) n = Some (f x).
Proof.
  induction l as [|a l IH]; intros [|n] x H; simpl in *; try discriminate.
  - now inversion H.
  - now apply IH.
Qed.

Lemma nth_error_upd_neq : forall A (f : A -> A) (l : list A) n m,
  n <> m -> nth_error (upd l n f) m = nth_error l m.
Proof.
  induction l as [|a l IH]; intros [|n] [|m] H; simpl; auto; try congruence.
Qed.

Lemma nth_error_app_Some : forall A (l e : list A) i x,
  nth_error l i = Some x -> nth_error (l ++ e) i = Some x.
Proof.
  intros A l e i x H. rewrite nth_error_app1; auto. apply nth_error_Some. congruence.
Qed.

Lemma combine_app_eq : forall A B (a a' : list A) (b b' : list B),
  List.length a = List.length b -> combine (a ++ a') (b ++ b') = combine a b ++ combine a' b'.
Proof.
  induction a as [|x a IH]; intros a' [|y b] b' H; simpl in *; try discriminate; auto.
  f_equal. apply IH. lia.
Qed.

Lemma In_combine_seq : forall A (l : list A) a n k,
  In (n, k) (combine (seq a (List.length l)) l) <-> (a <= n)%nat /\ nth_error l (n - a) = Some k.
Proof.
  induction l as [|x l IH]; intros a n k; simpl.
  - split; [tauto|]. intros [_ H]. destruct (n - a)%nat; discriminate.
  - rewrite IH. split.
    + intros [H|[H1 H2]].
      * inversion H; subst. rewrite Nat.sub_diag. auto.
      * split; [lia|]. replace (n - a)%nat with (S (n - S a)) by lia. exact H2.
    + intros [H1 H2]. destruct (Nat.eq_dec n a) as [->|Hne].
      * left. rewrite Nat.sub_diag in H2. simpl in H2. congruence.
      * right. split; [lia|]. replace (n - a)%nat with (S (n - S a)) in H2 by lia. exact H2.
Qed.

Lemma NoDup_snoc : forall A (l : list A) x, NoDup l -> ~ In x l -> NoDup (l ++ [x]).
Proof.
  induction l as [|a l IH]; intros x Hd Hn; simpl.
  - constructor; [tauto|constructor].
  - inversion Hd; subst. constructor.
    + rewrite in_app_iff. simpl in *. intros [H|[H|[]]]; [tauto|]. subst. tauto.
    + apply IH; auto. simpl in Hn. tauto.
Qed.

(* ================================================================== wrap_i64 *)
Lemma wrap_i64_add_l : forall a b, wrap_i64 (wrap_i64 a + b) = wrap_i64 (a + b).
Proof.
  intros a b. unfold wrap_i64.
  replace ((a + two63) mod two64 - two63 + b + two63) with ((a + two63) mod two64 + b) by lia.
  rewrite Zplus_mod_idemp_l. f_equal. f_equal. lia.
Qed.

Lemma wrap_i64_0 : wrap_i64 0 = 0.
Proof. reflexivity. Qed.

Lemma wrap_i64_small : forall z, - two63 <= z < two63 -> wrap_i64 z = z.
Proof.
  intros z H. unfold wrap_i64. rewrite Z.mod_small; [lia|].
  unfold two63, two64 in *. lia.
Qed.

(* ================================================================== keys *)
Lemma skey_eqb_eq : forall a b, skey_eqb a b = true <-> a = b.
Proof.
  intros [a1 a2 a3 a4 a5] [b1 b2 b3 b4 b5]. unfold skey_eqb. simpl.
  rewrite !andb_true_iff, !String.eqb_eq, !Z.eqb_eq, Bool.eqb_true_iff.
  split.
  - intros [[[[-> ->] ->] ->] ->]. reflexivity.
  - intros H. inversion H. auto.
Qed.

Lemma skey_eqb_refl : forall a, skey_eqb a a = true.
Proof. intros a. now apply skey_eqb_eq. Qed.

(* ================================================================== frames *)
Lemma map_combine_seq_true : forall (ls : list line) a k,
  (forall j, (a <= j < a + List.length ls)%nat -> j <> k) ->
  map (fun jl : nat * line => (snd jl, negb (Nat.eqb (fst jl) k))) (combine (seq a (List.length ls)) ls)
  = map (fun y => (y, true)) ls.
Proof.
  induction ls as [|x ls IH]; intros a k H; simpl; auto.
  f_equal.
  - f_equal. assert (a <> k) by (apply H; simpl; lia).
    destruct (Nat.eqb_spec a k); [contradiction|reflexivity].
  - apply IH. intros j Hj. apply H. simpl. lia.
Qed.

Lemma lines_rev_frames_aux : forall ls : list line,
  rev (map (fun jl : nat * line => (snd jl, negb (Nat.eqb (fst jl) (List.length ls - 1))))
           (combine (seq 0 (List.length ls)) ls))
  = match rev ls with
    | [] => []
    | outer :: inner => (outer, false) :: map (fun x => (x, true)) inner
    end.
Proof.
  intros ls. induction ls as [|x l0 _] using rev_ind.
  - reflexivity.
  - rewrite rev_app_distr. simpl rev at 2. simpl app at 2. cbv iota.
    rewrite app_length. simpl List.length.
    replace (List.length l0 + 1 - 1)%nat with (List.length l0) by lia.
    replace (List.length l0 + 1)%nat with (S (List.length l0)) by lia.
    rewrite seq_S. simpl plus.
    rewrite combine_app_eq by (now rewrite seq_length).
    simpl combine. rewrite map_app, rev_app_distr. simpl.
    rewrite Nat.eqb_refl. simpl. f_equal.
    rewrite map_combine_seq_true by (intros j Hj; lia).
    now rewrite map_rev.
Qed.

Lemma loc_lines_rev_frames : forall l, loc_lines_rev l = loc_frames l.
Proof. intros l. unfold loc_lines_rev, loc_frames. apply lines_rev_frames_aux. Qed.

Lemma sample_lines_frames : forall p s, sample_lines p s = sample_frames p s.
Proof.
  intros p s. unfold sample_lines, sample_frames.
  induction (rev (s_loc s)) as [|id r IH]; simpl; auto.
  rewrite IH. destruct (find_location p id); auto. now rewrite loc_lines_rev_frames.
Qed.

(* ================================================================== makeInitialStacks *)
Section Proofs.
  Variable shorten clean : string -> string.
  Variable o : opts.
  Variable p : profile.

  Notation intern := (intern shorten clean o).
  Notation get_src := (get_src shorten clean o).
  Notation build := (build shorten clean o).
  Notation new_source := (new_source shorten clean o).
  Notation sample_step := (sample_step shorten clean o).
  Notation make_initial_stacks := (make_initial_stacks shorten clean o).
  Notation stacks_of := (stacks_of shorten clean o).

  Definition keys (S : list source) : list (option skey) := map so_key S.

  (* the part of a source that is fixed when it is created *)
  Definition dsc (x : source) := (so_key x, so_full x, so_file x, so_inl x, so_display x).

  Definition wfd (d : option skey * string * string * bool * list string) : Prop :=
    let '(k, full, file, il, disp) := d in
    match k with
    | None => full = "root" /\ disp = ["root"]
    | Some k => full = full_name o k /\ file = trim_path (o_trim o) (k_file k) /\ il = k_inl k
                /\ disp = display_of shorten clean o k
    end.

  Record Inv (S : list source) : Prop := {
    inv_keys : exists rest, keys S = None :: rest /\ Forall (fun k => k <> None) rest /\ NoDup rest;
    inv_desc : Forall wfd (map dsc S);
    inv_places : Forall (fun pl => pl = []) (map so_places S)
  }.

  Definition key_at (S : list source) (i : nat) (k : skey) : Prop := nth_error (keys S) i = Some (Some k).

  Lemma key_at_app : forall S e i k, key_at S i k -> key_at (S ++ e) i k.
  Proof. unfold key_at, keys. intros. rewrite map_app. now apply nth_error_app_Some. Qed.

  Lemma Inv_init : Inv (st_srcs init_st).
  Proof.
    constructor; simpl.
    - exists []. repeat split; constructor.
    - repeat constructor.
    - repeat constructor.
  Qed.

  Lemma find_idx_Some : forall k l a i, find_idx k l a = Some i ->
    (a <= i)%nat /\ nth_error (map so_key l) (i - a) = Some (Some k).
  Proof.
    induction l as [|x l IH]; intros a i H; simpl in H; [discriminate|].
    destruct (so_key x) as [k'|] eqn:E.
    - destruct (skey_eqb k k') eqn:Ek.
      + inversion H; subst. apply skey_eqb_eq in Ek. subst. rewrite Nat.sub_diag. simpl. rewrite E. auto.
      + apply IH in H. destruct H as [H1 H2]. split; [lia|].
        replace (i - a)%nat with (S (i - S a)) by lia. exact H2.
    - apply IH in H. destruct H as [H1 H2]. split; [lia|].
      replace (i - a)%nat with (S (i - S a)) by lia. exact H2.
  Qed.

  Lemma find_idx_None : forall k l a, find_idx k l a = None -> ~ In (Some k) (map so_key l).
  Proof.
    induction l as [|x l IH]; intros a H; simpl in *; [tauto|].
    destruct (so_key x) as [k'|] eqn:E.
    - destruct (skey_eqb k k') eqn:Ek; [discriminate|].
      intros [H1|H1].
      + inversion H1; subst. rewrite skey_eqb_refl in Ek. discriminate.
      + eapply IH; eauto.
    - intros [H1|H1]; [discriminate|]. eapply IH; eauto.
  Qed.

  (* what [intern] guarantees *)
  Lemma intern_spec : forall k fid s i s', intern k fid s = (i, s') -> Inv (st_srcs s) ->
    Inv (st_srcs s') /\ (exists e, st_srcs s' = st_srcs s ++ e /\ Forall (fun x => so_self x = 0) e)
    /\ key_at (st_srcs s') i k /\ i <> O /\ st_unk s' = st_unk s.
  Proof.
    intros k fid s i s' H HI. unfold M_Stacks.intern in H.
    destruct (find_idx k (st_srcs s) 0) as [j|] eqn:F.
    - inversion H; subst. split; [exact HI|]. split; [exists []; rewrite app_nil_r; auto|].
      apply find_idx_Some in F. destruct F as [_ F]. rewrite Nat.sub_0_r in F.
      split; [exact F|]. split; [|reflexivity].
      destruct HI as [[rest [Hk _]] _ _]. unfold keys in Hk. rewrite Hk in F.
      intros ->. simpl in F. discriminate.
    - inversion H; subst; clear H. simpl.
      apply find_idx_None in F.
      destruct HI as [[rest [Hk [Hn Hd]]] Hdesc Hpl].
      split; [|split; [|split; [|split]]].
      + constructor.
        * exists (rest ++ [Some k]). unfold keys in *. rewrite map_app, Hk. simpl. split; [reflexivity|].
          split.
          -- apply Forall_app. split; auto. constructor; [discriminate|constructor].
          -- rewrite Hk in F. simpl in F.
             apply NoDup_snoc; [exact Hd|tauto].
        * rewrite map_app. apply Forall_app. split; auto. simpl. constructor; [|constructor].
          simpl. auto.
        * rewrite map_app. apply Forall_app. split; auto. simpl. repeat constructor.
      + eexists. split; [reflexivity|]. repeat constructor.
      + unfold key_at, keys. rewrite map_app. rewrite nth_error_app2 by (rewrite map_length; lia).
        rewrite map_length, Nat.sub_diag. reflexivity.
      + unfold keys in Hk. destruct (st_srcs s); simpl in *; [discriminate|lia].
      + reflexivity.
  Qed.

  Lemma get_src_frame_key : forall ln il s,
    get_src p ln il s =
    let '(k, fid, unk) := frame_key p (st_unk s) (ln, il) in
    intern k fid {| st_srcs := st_srcs s; st_seen := st_seen s; st_unk := unk |}.
  Proof.
    intros ln il s. unfold M_Stacks.get_src, line_fn, frame_key. simpl.
    destruct (if ln_fn ln =? 0 then None else find_function p (ln_fn ln)); reflexivity.
  Qed.

  (* what [build] guarantees for the frames of one sample *)
  Lemma build_spec : forall ls acc s idxs s', build p ls acc s = (idxs, s') -> Inv (st_srcs s) ->
    Inv (st_srcs s')
    /\ (exists e, st_srcs s' = st_srcs s ++ e /\ Forall (fun x => so_self x = 0) e)
    /\ exists new, idxs = acc ++ new /\
         let '(ks, unk') := label_frames p (st_unk s) ls in
         st_unk s' = unk' /\ Forall2 (fun i k => i <> O /\ key_at (st_srcs s') i k) new ks.
  Proof.
    induction ls as [|[ln il] r IH]; intros acc s idxs s' H HI; simpl in H.
    - inversion H; subst. split; [exact HI|]. split; [exists []; rewrite app_nil_r; auto|].
      exists []. rewrite app_nil_r. simpl. auto.
    - destruct (get_src p ln il s) as [i s1] eqn:G.
      rewrite get_src_frame_key in G. simpl label_frames.
      destruct (frame_key p (st_unk s) (ln, il)) as [[k fid] unk] eqn:FK.
      apply intern_spec in G; [|exact HI]. simpl in G.
      destruct G as [HI1 [[e1 [He1 Hs1]] [Hk1 [Hi0 Hu1]]]].
      apply IH in H; [|exact HI1].
      destruct H as [HI' [[e2 [He2 Hs2]] [new [Hnew Hrest]]]].
      split; [exact HI'|]. split.
      + exists (e1 ++ e2). rewrite He2, He1, app_assoc. split; [reflexivity|]. apply Forall_app; auto.
      + exists (i :: new). split; [rewrite Hnew, <- app_assoc; reflexivity|].
        rewrite Hu1 in Hrest.
        destruct (label_frames p unk r) as [ks unk'']. destruct Hrest as [Hu Hf]. split; [exact Hu|].
        constructor; [|exact Hf]. split; [exact Hi0|]. rewrite He2. now apply key_at_app.
  Qed.

  (* ---------------------------------------------------------------- the loop over samples *)
  Definition selfs (S : list source) : list Z := map so_self S.

  Definition stack_ok (S : list source) (k : stack) (sk : sample * list skey) : Prop :=
    sk_value k = sample_value o (fst sk) /\
    exists idxs, sk_sources k = O :: idxs /\ Forall2 (fun i key => i <> O /\ key_at S i key) idxs (snd sk).

  Definition RangeInv (stacks : list stack) (S : list source) : Prop :=
    Forall (fun k => Forall (fun i => (i < List.length S)%nat) (sk_sources k)
                     /\ (last (sk_sources k) O < List.length S)%nat) stacks.

  Definition SelfInv (stacks : list stack) (S : list source) : Prop :=
    forall x v, nth_error (selfs S) x = Some v -> v = wrap_i64 (self_sum x stacks).

  Lemma Inv_upd_self : forall S n v, Inv S -> Inv (upd S n (add_self v)).
  Proof.
    intros S n v [H1 H2 H3]. constructor; unfold keys in *;
      rewrite map_upd_proj by (intros x; reflexivity); assumption.
  Qed.

  Lemma Inv_nonempty : forall S, Inv S -> (0 < List.length S)%nat.
  Proof.
    intros S [[rest [H _]] _ _]. unfold keys in H. destruct S; simpl in *; [discriminate|lia].
  Qed.

  Lemma key_at_lt : forall S i k, key_at S i k -> (i < List.length S)%nat.
  Proof.
    unfold key_at, keys. intros S i k H. rewrite <- (map_length so_key). apply nth_error_Some. congruence.
  Qed.

  Lemma key_at_ext : forall S S' e i k, keys S' = keys S ++ e -> key_at S i k -> key_at S' i k.
  Proof. unfold key_at. intros S S' e i k H H1. rewrite H. now apply nth_error_app_Some. Qed.

  Lemma Forall2_mono : forall A B (P Q : A -> B -> Prop) l l',
    (forall a b, P a b -> Q a b) -> Forall2 P l l' -> Forall2 Q l l'.
  Proof. intros A B P Q l l' H F. induction F; constructor; auto. Qed.

  Lemma stack_ok_ext : forall S S' e k sk, keys S' = keys S ++ e -> stack_ok S k sk -> stack_ok S' k sk.
  Proof.
    intros S S' e k sk H [H1 [idxs [H2 H3]]]. split; [exact H1|]. exists idxs. split; [exact H2|].
    eapply Forall2_mono; [|exact H3]. simpl. intros a b [Ha Hb]. split; [exact Ha|].
    eapply key_at_ext; eauto.
  Qed.

  Lemma last_In : forall (l : list nat) d, l <> [] -> In (last l d) l.
  Proof.
    induction l as [|a l IH]; intros d H; [congruence|].
    destruct l as [|b l]; [left; reflexivity|]. right. apply IH. discriminate.
  Qed.

  Lemma self_sum_app : forall x a b, self_sum x (a ++ b) = self_sum x a + self_sum x b.
  Proof. intros x a b. unfold self_sum. induction a as [|k a IH]; simpl; [reflexivity|]. rewrite IH. lia. Qed.

  Lemma self_sum_out : forall x stacks S, RangeInv stacks S -> (List.length S <= x)%nat -> self_sum x stacks = 0.
  Proof.
    intros x stacks S H Hx. induction H as [|k r [_ Hl] _ IH]; simpl; [reflexivity|].
    rewrite IH. destruct (Nat.eqb_spec (last (sk_sources k) O) x); [lia|reflexivity].
  Qed.

  Lemma RangeInv_grow : forall stacks S S', RangeInv stacks S -> (List.length S <= List.length S')%nat ->
    RangeInv stacks S'.
  Proof.
    intros stacks S S' H Hl. eapply Forall_impl; [|exact H]. simpl. intros k [H1 H2]. split; [|lia].
    eapply Forall_impl; [|exact H1]. simpl. intros. lia.
  Qed.

  Lemma Forall2_length_eq : forall A B (P : A -> B -> Prop) l l', Forall2 P l l' -> List.length l = List.length l'.
  Proof. intros A B P l l' F. induction F; simpl; auto. Qed.

  (* one sample *)
  Lemma step_spec : forall stacks0 s0 smp stacks s,
    sample_step p (stacks0, s0) smp = (stacks, s) ->
    Inv (st_srcs s0) -> RangeInv stacks0 (st_srcs s0) -> SelfInv stacks0 (st_srcs s0) ->
    Inv (st_srcs s) /\ (exists e, keys (st_srcs s) = keys (st_srcs s0) ++ e)
    /\ RangeInv stacks (st_srcs s) /\ SelfInv stacks (st_srcs s)
    /\ exists k, stacks = stacks0 ++ [k] /\
         let '(ks, unk') := label_frames p (st_unk s0) (sample_frames p smp) in
         st_unk s = unk' /\ stack_ok (st_srcs s) k (smp, ks).
  Proof.
    intros stacks0 s0 smp stacks s H HI HR HS. unfold M_Stacks.sample_step in H.
    destruct (build p (sample_lines p smp) [O] s0) as [srcs s1] eqn:B.
    pose proof (build_spec _ _ _ _ _ B HI) as [HI1 [[e [He Hse]] [new [Hnew Hl]]]].
    rewrite sample_lines_frames in Hl.
    inversion H; subst stacks s; clear H. simpl st_srcs. simpl st_unk.
    set (v := sample_value o smp) in *.
    set (leaf := last srcs O) in *.
    assert (Hk2 : keys (upd (st_srcs s1) leaf (add_self v)) = keys (st_srcs s1)).
    { unfold keys. apply map_upd_proj. reflexivity. }
    assert (Hlen : List.length (upd (st_srcs s1) leaf (add_self v)) = List.length (st_srcs s1)) by apply upd_length.
    assert (Hsrcs : Forall (fun i => (i < List.length (st_srcs s1))%nat) srcs).
    { subst srcs. constructor; [now apply Inv_nonempty|].
      destruct (label_frames p (st_unk s0) (sample_frames p smp)) as [ks unk']. destruct Hl as [_ Hl].
      clear -Hl. induction Hl as [|i k l l' [_ Hk] _ IH]; constructor; auto. eapply key_at_lt; eauto. }
    assert (Hleaf : (leaf < List.length (st_srcs s1))%nat).
    { rewrite Forall_forall in Hsrcs. apply Hsrcs. apply last_In. subst srcs. discriminate. }
    split; [now apply Inv_upd_self|]. split.
    { exists (map so_key e). rewrite Hk2. unfold keys. now rewrite He, map_app. }
    split.
    { unfold RangeInv. apply Forall_app. split.
      - eapply RangeInv_grow; [exact HR|]. rewrite Hlen, He, app_length. lia.
      - constructor; [|constructor]. simpl. rewrite Hlen. auto. }
    split.
    { (* Self *)
      assert (HS1 : SelfInv stacks0 (st_srcs s1)).
      { intros x w Hx. unfold selfs in Hx. rewrite He, map_app in Hx.
        destruct (Nat.lt_ge_cases x (List.length (st_srcs s0))) as [Hlt|Hge].
        - rewrite nth_error_app1 in Hx by (now rewrite map_length). now apply HS.
        - rewrite nth_error_app2 in Hx by (now rewrite map_length).
          erewrite self_sum_out by eauto. rewrite wrap_i64_0.
          apply nth_error_In in Hx. apply in_map_iff in Hx. destruct Hx as [y [Hy Hin]].
          rewrite Forall_forall in Hse. rewrite <- Hy. now apply Hse. }
      intros x w Hx. rewrite self_sum_app. simpl. unfold selfs in Hx.
      rewrite nth_error_map in Hx.
      destruct (Nat.eq_dec leaf x) as [E|Hne].
      - subst x. destruct (nth_error (st_srcs s1) leaf) as [y|] eqn:Ey.
        + erewrite nth_error_upd_eq in Hx by eauto. simpl in Hx. inversion Hx; subst w; clear Hx.
          fold leaf. rewrite Nat.eqb_refl.
          rewrite (HS1 leaf (so_self y)) by (unfold selfs; rewrite nth_error_map, Ey; reflexivity).
          rewrite wrap_i64_add_l. f_equal. fold v. lia.
        + apply nth_error_None in Ey. lia.
      - rewrite nth_error_upd_neq in Hx by exact Hne.
        fold leaf. destruct (Nat.eqb_spec leaf x); [contradiction|].
        rewrite <- nth_error_map in Hx. rewrite (HS1 x w Hx). f_equal. lia. }
    eexists. split; [reflexivity|].
    destruct (label_frames p (st_unk s0) (sample_frames p smp)) as [ks unk']. destruct Hl as [Hu Hf].
    split; [exact Hu|]. split; [reflexivity|]. simpl. exists new. split; [exact Hnew|].
    eapply Forall2_mono; [|exact Hf]. simpl. intros a b [Ha Hb]. split; [exact Ha|].
    unfold key_at in *. now rewrite Hk2.
  Qed.

  Lemma loop_spec : forall ss stacks0 s0 stacks s,
    fold_left (sample_step p) ss (stacks0, s0) = (stacks, s) ->
    Inv (st_srcs s0) -> RangeInv stacks0 (st_srcs s0) -> SelfInv stacks0 (st_srcs s0) ->
    Inv (st_srcs s) /\ (exists e, keys (st_srcs s) = keys (st_srcs s0) ++ e)
    /\ RangeInv stacks (st_srcs s) /\ SelfInv stacks (st_srcs s)
    /\ exists news, stacks = stacks0 ++ news /\
         Forall2 (stack_ok (st_srcs s)) news (combine ss (label_samples p (st_unk s0) ss)).
  Proof.
    induction ss as [|a r IH]; intros stacks0 s0 stacks s H HI HR HS; cbn [fold_left] in H.
    - inversion H; subst. split; [exact HI|]. split; [exists []; now rewrite app_nil_r|].
      split; [exact HR|]. split; [exact HS|]. exists []. rewrite app_nil_r. split; [reflexivity|constructor].
    - destruct (sample_step p (stacks0, s0) a) as [st1 s1] eqn:E.
      pose proof (step_spec _ _ _ _ _ E HI HR HS) as [HI1 [[e1 He1] [HR1 [HS1 [k [Hk Hl]]]]]].
      pose proof (IH _ _ _ _ H HI1 HR1 HS1) as [HI2 [[e2 He2] [HR2 [HS2 [news [Hn Hf]]]]]].
      split; [exact HI2|]. split; [exists (e1 ++ e2); now rewrite He2, He1, app_assoc|].
      split; [exact HR2|]. split; [exact HS2|].
      exists (k :: news). split; [rewrite Hn, Hk, <- app_assoc; reflexivity|].
      simpl label_samples.
      destruct (label_frames p (st_unk s0) (sample_frames p a)) as [ks unk']. destruct Hl as [Hu Hok].
      simpl. constructor.
      + eapply stack_ok_ext; eauto.
      + rewrite <- Hu. exact Hf.
  Qed.
End Proofs.

(* ================================================================== fillPlaces *)
Definition pl (S : list source) (x : nat) : list (nat * nat) := nth x (map so_places S) [].

Lemma pl_upd : forall S y pr x, (x < List.length S)%nat ->
  pl (upd S y (add_place pr)) x = if Nat.eqb x y then pl S x ++ [pr] else pl S x.
Proof.
  unfold pl. induction S as [|a S IH]; intros y pr x Hx; simpl in Hx; [lia|].
  destruct y as [|y], x as [|x]; simpl; auto.
  apply IH. lia.
Qed.

Definition place1 (i j : nat) (x : nat) (ss : list nat) : list (nat * nat) :=
  match first_index x ss with Some d => [(i, (j + d)%nat)] | None => [] end.

Lemma fp_inner_length : forall ss i j seen S, List.length (fp_inner i j ss seen S) = List.length S.
Proof.
  induction ss as [|y r IH]; intros i j seen S; simpl; [reflexivity|].
  destruct (memn y seen); rewrite IH; [reflexivity|apply upd_length].
Qed.

Lemma memn_true_iff : forall x l, memn x l = true <-> In x l.
Proof.
  induction l as [|y l IH]; simpl; [split; [discriminate|tauto]|].
  rewrite orb_true_iff, IH, Nat.eqb_eq. split; intros [H|H]; auto.
Qed.

Lemma fp_inner_spec : forall ss i j seen S x, (x < List.length S)%nat ->
  pl (fp_inner i j ss seen S) x = pl S x ++ (if memn x seen then [] else place1 i j x ss).
Proof.
  unfold place1.
  induction ss as [|y r IH]; intros i j seen S x Hx; simpl.
  - destruct (memn x seen); now rewrite app_nil_r.
  - destruct (memn y seen) eqn:My.
    + rewrite IH by exact Hx. f_equal. destruct (memn x seen) eqn:Mx; [reflexivity|].
      destruct (Nat.eqb_spec x y) as [->|Hne]; [congruence|].
      destruct (first_index x r); simpl; [|reflexivity]. f_equal. f_equal. lia.
    + rewrite IH by (now rewrite upd_length). rewrite pl_upd by exact Hx. simpl.
      destruct (Nat.eqb_spec x y) as [->|Hne].
      * rewrite My. simpl. rewrite <- app_assoc. rewrite app_nil_r. f_equal. f_equal. f_equal. lia.
      * simpl. f_equal. destruct (memn x seen); [reflexivity|].
        destruct (first_index x r); simpl; [|reflexivity]. f_equal. f_equal. lia.
Qed.

(* the place list the specification asks for: per stack, the first index of x (if any) *)
Fixpoint places_from (i : nat) (x : nat) (stacks : list stack) : list (nat * nat) :=
  match stacks with
  | [] => []
  | k :: r => place1 i O x (sk_sources k) ++ places_from (S i) x r
  end.

Lemma fp_outer_length : forall stacks i S, List.length (fp_outer i stacks S) = List.length S.
Proof.
  induction stacks as [|k r IH]; intros i S; simpl; [reflexivity|].
  now rewrite IH, fp_inner_length.
Qed.

Lemma fp_outer_spec : forall stacks i S x, (x < List.length S)%nat ->
  pl (fp_outer i stacks S) x = pl S x ++ places_from i x stacks.
Proof.
  induction stacks as [|k r IH]; intros i S x Hx; simpl.
  - now rewrite app_nil_r.
  - rewrite IH by (now rewrite fp_inner_length). rewrite fp_inner_spec by exact Hx. simpl.
    now rewrite app_assoc.
Qed.

Lemma first_index_Some : forall x l j, first_index x l = Some j ->
  nth_error l j = Some x /\ forall j', (j' < j)%nat -> nth_error l j' <> Some x.
Proof.
  induction l as [|y l IH]; intros j H; simpl in H; [discriminate|].
  destruct (Nat.eqb_spec x y) as [->|Hne].
  - inversion H; subst. split; [reflexivity|]. intros j' Hj. lia.
  - destruct (first_index x l) as [d|] eqn:E; [|discriminate]. inversion H; subst.
    destruct (IH d eq_refl) as [H1 H2]. split; [exact H1|].
    intros [|j'] Hj; simpl; [congruence|]. apply H2. lia.
Qed.

Lemma first_index_In : forall x l, In x l -> exists j, first_index x l = Some j.
Proof.
  induction l as [|y l IH]; intros H; simpl in *; [tauto|].
  destruct (Nat.eqb_spec x y) as [->|Hne]; [eauto|].
  destruct H as [H|H]; [congruence|]. destruct (IH H) as [j Hj]. rewrite Hj. simpl. eauto.
Qed.

Lemma places_from_In : forall stacks a x i j,
  In (i, j) (places_from a x stacks) <->
  (a <= i)%nat /\ exists k, nth_error stacks (i - a) = Some k /\ first_index x (sk_sources k) = Some j.
Proof.
  induction stacks as [|k r IH]; intros a x i j; simpl.
  - split; [tauto|]. intros [_ [k [H _]]]. destruct (i - a)%nat; discriminate.
  - rewrite in_app_iff, IH. unfold place1. split.
    + intros [H|[H1 [k' [H2 H3]]]].
      * destruct (first_index x (sk_sources k)) as [d|] eqn:E; simpl in H; [|tauto].
        destruct H as [H|[]]. inversion H; subst. split; [lia|]. exists k. rewrite Nat.sub_diag. simpl. auto.
      * split; [lia|]. exists k'. replace (i - a)%nat with (S (i - S a)) by lia. auto.
    + intros [H1 [k' [H2 H3]]]. destruct (Nat.eq_dec i a) as [->|Hne].
      * left. rewrite Nat.sub_diag in H2. simpl in H2. inversion H2; subst. rewrite H3. simpl. auto.
      * right. split; [lia|]. exists k'. replace (i - a)%nat with (S (i - S a)) in H2 by lia. auto.
Qed.

Lemma places_from_fst_ge : forall stacks a x i, In i (map fst (places_from a x stacks)) -> (a <= i)%nat.
Proof.
  intros stacks a x i H. apply in_map_iff in H. destruct H as [[i' j] [H1 H2]]. simpl in H1. subst.
  apply places_from_In in H2. tauto.
Qed.

Lemma places_from_NoDup : forall stacks a x, NoDup (map fst (places_from a x stacks)).
Proof.
  induction stacks as [|k r IH]; intros a x; simpl; [constructor|].
  rewrite map_app. unfold place1. destruct (first_index x (sk_sources k)); simpl; [|apply IH].
  constructor; [|apply IH]. intros H. apply places_from_fst_ge in H. lia.
Qed.

(* ================================================================== the property theorems *)
Lemma fp_inner_proj : forall B (g : source -> B), (forall pr x, g (add_place pr x) = g x) ->
  forall ss i j seen S, map g (fp_inner i j ss seen S) = map g S.
Proof.
  intros B g Hg. induction ss as [|y r IH]; intros i j seen S; simpl; [reflexivity|].
  destruct (memn y seen); rewrite IH; [reflexivity|]. apply map_upd_proj. intros x. apply Hg.
Qed.

Lemma fp_outer_proj : forall B (g : source -> B), (forall pr x, g (add_place pr x) = g x) ->
  forall stacks i S, map g (fp_outer i stacks S) = map g S.
Proof.
  intros B g Hg. induction stacks as [|k r IH]; intros i S; simpl; [reflexivity|].
  rewrite IH. now apply fp_inner_proj.
Qed.

Lemma label_samples_length : forall p ss unk, List.length (label_samples p unk ss) = List.length ss.
Proof.
  induction ss as [|a r IH]; intros unk; simpl; [reflexivity|].
  destruct (label_frames p unk (sample_frames p a)). simpl. now rewrite IH.
Qed.

Lemma nth_error_map_Some : forall A B (g : A -> B) l i b, nth_error (map g l) i = Some b ->
  exists a, nth_error l i = Some a /\ g a = b.
Proof.
  intros A B g l i b H. rewrite nth_error_map in H. destruct (nth_error l i) as [a|]; [|discriminate].
  exists a. split; [reflexivity|]. simpl in H. congruence.
Qed.

Lemma pl_nth_error : forall S x src, nth_error S x = Some src -> pl S x = so_places src.
Proof.
  unfold pl. induction S as [|a S IH]; intros [|x] src H; simpl in *; try discriminate.
  - now inversion H.
  - now apply IH.
Qed.

Lemma pl_nil : forall S x, Forall (fun l => l = []) (map so_places S) -> pl S x = [].
Proof.
  unfold pl. intros S x H. destruct (nth_in_or_default x (map so_places S) []) as [Hin|Hd]; [|exact Hd].
  rewrite Forall_forall in H. now apply H.
Qed.

Section Final.
  Variable shorten clean : string -> string.
  Variable o : opts.
  Variable p : profile.

  Let R := stacks_of shorten clean o p.

  (* slot i of the source table holds the source created for frame key k, and it describes it *)
  Definition frame_at (F : list source) (i : nat) (k : skey) : Prop :=
    exists src, nth_error F i = Some src /\ so_key src = Some k /\ describes o k src.

  Definition stack_keyed (F : list source) (k : stack) (sk : sample * list skey) : Prop :=
    sk_value k = value_at (o_index o) (s_val (fst sk)) /\
    exists idxs, sk_sources k = O :: idxs /\ Forall2 (fun i key => i <> O /\ frame_at F i key) idxs (snd sk).

  (* everything the loop invariants give about the final stack set *)
  Lemma final_facts :
    let stacks := ss_stacks R in let F := ss_sources R in
    Forall2 (stack_keyed F) stacks (combine (p_sample p) (expected_keys p))
    /\ NoDup (map so_key F)
    /\ Forall (wfd shorten clean o) (map (dsc) F)
    /\ (forall x v, nth_error (map so_self F) x = Some v -> v = wrap_i64 (self_sum x stacks))
    /\ (forall x src, nth_error F x = Some src -> so_places src = places_from O x stacks)
    /\ Forall (fun k => Forall (fun i => (i < List.length F)%nat) (sk_sources k)) stacks
    /\ exists r rest, F = r :: rest /\ so_key r = None /\ Forall (fun k => k <> None) (map so_key rest).
  Proof.
    unfold R, stacks_of. destruct (make_initial_stacks shorten clean o p) as [stacks s] eqn:E.
    cbn [ss_stacks ss_sources]. unfold make_initial_stacks in E.
    assert (HS0 : SelfInv [] (st_srcs init_st)).
    { intros [|x] v H; simpl in H; [|destruct x; discriminate]. inversion H. reflexivity. }
    pose proof (loop_spec shorten clean o p _ _ _ _ _ E (Inv_init shorten clean o) (Forall_nil _) HS0)
      as [HI [_ [HR [HS [news [Hn Hf]]]]]].
    simpl in Hn. subst news.
    set (S := st_srcs s) in *. set (F := fill_places stacks S).
    assert (Hkeys : map so_key F = map so_key S) by (apply fp_outer_proj; reflexivity).
    assert (Hdsc : map dsc F = map dsc S) by (apply fp_outer_proj; reflexivity).
    assert (Hself : map so_self F = map so_self S) by (apply fp_outer_proj; reflexivity).
    assert (Hlen : List.length F = List.length S) by apply fp_outer_length.
    destruct HI as [[rest [Hk [Hnn Hnd]]] Hdesc Hpl]. unfold keys in Hk.
    split; [|split; [|split; [|split; [|split; [|split]]]]].
    - eapply Forall2_mono; [|exact Hf]. intros k sk [H1 [idxs [H2 H3]]]. split; [exact H1|].
      exists idxs. split; [exact H2|]. eapply Forall2_mono; [|exact H3]. simpl.
      intros i key [Hi Hk']. split; [exact Hi|]. unfold key_at, keys in Hk'. rewrite <- Hkeys in Hk'.
      apply nth_error_map_Some in Hk'. destruct Hk' as [src [Hs1 Hs2]]. exists src. split; [exact Hs1|].
      split; [exact Hs2|].
      assert (Hw : wfd shorten clean o (dsc src)).
      { rewrite <- Hdsc in Hdesc. rewrite Forall_forall in Hdesc. apply Hdesc. apply in_map.
        eapply nth_error_In; eauto. }
      unfold wfd, dsc in Hw. rewrite Hs2 in Hw. unfold describes. tauto.
    - rewrite Hkeys, Hk. constructor; [|exact Hnd]. intros Hin. rewrite Forall_forall in Hnn.
      now apply (Hnn None Hin).
    - now rewrite Hdsc.
    - rewrite Hself. exact HS.
    - intros x src Hx.
      assert (Hlt : (x < List.length S)%nat) by (rewrite <- Hlen; apply nth_error_Some; congruence).
      pose proof (fp_outer_spec stacks O S x Hlt) as Hp. fold (fill_places stacks S) in Hp. fold F in Hp.
      rewrite (pl_nth_error _ _ _ Hx) in Hp. rewrite (pl_nil _ x Hpl) in Hp. exact Hp.
    - eapply Forall_impl; [|exact HR]. simpl. intros k [H _]. now rewrite Hlen.
    - rewrite <- Hkeys in Hk. clearbody F. destruct F as [|r rest']; [discriminate|].
      simpl in Hk. injection Hk as Hr Hrest. exists r, rest'.
      split; [reflexivity|]. split; [exact Hr|]. rewrite Hrest. exact Hnn.
  Qed.
End Final.

(* ---------------------------------------------------------------- statements used by P_C17 *)
Section Statements.
  Variable shorten clean : string -> string.
  Variable o : opts.
  Variable p : profile.
  Let R := stacks_of shorten clean o p.
  Let stacks := ss_stacks R.
  Let F := ss_sources R.

  Lemma stack_frames_lemma : Forall2 (stack_keyed o F) stacks (combine (p_sample p) (expected_keys p)).
  Proof. exact (proj1 (final_facts shorten clean o p)). Qed.

  Lemma stack_matches_lemma :
    Forall2 (fun k sk => stack_matches o F k (fst sk) (snd sk)) stacks (combine (p_sample p) (expected_keys p)).
  Proof.
    eapply Forall2_mono; [|exact stack_frames_lemma]. intros k sk [H1 [idxs [H2 H3]]]. split; [exact H1|].
    exists idxs. split; [exact H2|]. eapply Forall2_mono; [|exact H3]. simpl.
    intros i key [Hi [src [Hs [_ Hd]]]]. split; [exact Hi|]. exists src. auto.
  Qed.

  Lemma one_stack_lemma :
    List.length stacks = List.length (p_sample p)
    /\ map sk_value stacks = map (fun s => value_at (o_index o) (s_val s)) (p_sample p).
  Proof.
    pose proof stack_frames_lemma as H.
    assert (Hl : List.length (combine (p_sample p) (expected_keys p)) = List.length (p_sample p)).
    { rewrite combine_length. unfold expected_keys. rewrite label_samples_length. lia. }
    split.
    - erewrite Forall2_length_eq by exact H. exact Hl.
    - assert (G : map sk_value stacks = map (fun sk : sample * list skey => value_at (o_index o) (s_val (fst sk)))
                                       (combine (p_sample p) (expected_keys p))).
      { clear Hl. induction H as [|k sk l l' [Hv _] _ IH]; simpl; [reflexivity|]. now rewrite Hv, IH. }
      rewrite G. rewrite <- (map_map fst (fun s => value_at (o_index o) (s_val s))).
      f_equal. clear. unfold expected_keys. generalize 1.
      induction (p_sample p) as [|a r IH]; intros unk; simpl; [reflexivity|].
      destruct (label_frames p unk (sample_frames p a)). simpl. now rewrite IH.
  Qed.

  Lemma values_sum_lemma :
    sum_values stacks = fold_right (fun s acc => value_at (o_index o) (s_val s) + acc) 0 (p_sample p).
  Proof.
    destruct one_stack_lemma as [_ H]. unfold sum_values. revert H. generalize (p_sample p).
    induction stacks as [|k r IH]; intros [|s ss] H; simpl in *; try discriminate; [reflexivity|].
    inversion H. f_equal; auto.
  Qed.

  Lemma self_lemma : forall x src, nth_error F x = Some src -> so_self src = wrap_i64 (self_sum x stacks).
  Proof.
    intros x src H. destruct (final_facts shorten clean o p) as [_ [_ [_ [Hs _]]]]. apply Hs.
    fold R. fold F. rewrite nth_error_map, H. reflexivity.
  Qed.

  Lemma self_exact_lemma : forall x src, nth_error F x = Some src ->
    - two63 <= self_sum x stacks < two63 -> so_self src = self_sum x stacks.
  Proof. intros x src H Hb. rewrite (self_lemma x src H). now apply wrap_i64_small. Qed.

  Lemma places_lemma : forall x src i j, nth_error F x = Some src ->
    (In (i, j) (so_places src) <->
     exists k, nth_error stacks i = Some k /\ first_index x (sk_sources k) = Some j).
  Proof.
    intros x src i j H. destruct (final_facts shorten clean o p) as [_ [_ [_ [_ [Hp _]]]]].
    rewrite (Hp x src H). fold R. fold stacks. rewrite places_from_In. rewrite Nat.sub_0_r.
    split; [tauto|]. intros G. split; [lia|exact G].
  Qed.

  Lemma places_nodup_lemma : forall x src, nth_error F x = Some src -> NoDup (map fst (so_places src)).
  Proof.
    intros x src H. destruct (final_facts shorten clean o p) as [_ [_ [_ [_ [Hp _]]]]].
    rewrite (Hp x src H). apply places_from_NoDup.
  Qed.

  (* a place points at the outermost occurrence of the source in that stack *)
  Lemma places_outermost_lemma : forall x src i j, nth_error F x = Some src -> In (i, j) (so_places src) ->
    exists k, nth_error stacks i = Some k /\ nth_error (sk_sources k) j = Some x
              /\ forall j', (j' < j)%nat -> nth_error (sk_sources k) j' <> Some x.
  Proof.
    intros x src i j H Hin. apply (places_lemma x src i j H) in Hin. destruct Hin as [k [H1 H2]].
    exists k. split; [exact H1|]. now apply first_index_Some.
  Qed.

  (* every stack containing the source is listed *)
  Lemma places_complete_lemma : forall x src i k, nth_error F x = Some src -> nth_error stacks i = Some k ->
    In x (sk_sources k) -> exists j, In (i, j) (so_places src).
  Proof.
    intros x src i k H Hk Hin. destruct (first_index_In x _ Hin) as [j Hj]. exists j.
    apply (places_lemma x src i j H). eauto.
  Qed.

  Lemma range_lemma : Forall (fun k => Forall (fun i => (i < List.length F)%nat) (sk_sources k)) stacks.
  Proof. exact (proj1 (proj2 (proj2 (proj2 (proj2 (proj2 (final_facts shorten clean o p))))))). Qed.

  Lemma display_lemma : Forall (fun src => so_display src <> []) F.
  Proof.
    destruct (final_facts shorten clean o p) as [_ [_ [Hd _]]]. fold R in Hd. fold F in Hd.
    rewrite Forall_forall in *. intros src Hin. specialize (Hd (dsc src) (in_map _ _ _ Hin)).
    unfold wfd, dsc in Hd. destruct (so_key src) as [k|].
    - destruct Hd as [_ [_ [_ Hd]]]. rewrite Hd. unfold display_of, short_name_list, file_name_suffixes.
      destruct (k_fn k); [destruct (full_name o k)|]; discriminate.
    - destruct Hd as [_ Hd]. rewrite Hd. discriminate.
  Qed.

  Lemma injective_lemma : forall i i' src src', nth_error F i = Some src -> nth_error F i' = Some src' ->
    so_key src = so_key src' -> i = i'.
  Proof.
    intros i i' src src' H H' E. destruct (final_facts shorten clean o p) as [_ [Hn _]]. fold R in Hn. fold F in Hn.
    eapply (proj1 (NoDup_nth_error (map so_key F))); eauto.
    - rewrite map_length. apply nth_error_Some. congruence.
    - rewrite !nth_error_map, H, H'. simpl. now rewrite E.
  Qed.

  Lemma root_lemma : exists r rest, F = r :: rest /\ so_full r = "root" /\ so_key r = None
                                    /\ Forall (fun s => so_key s <> None) rest.
  Proof.
    destruct (final_facts shorten clean o p) as [_ [_ [Hd [_ [_ [_ [r [rest [HF [Hr Hrest]]]]]]]]]].
    fold R in Hd, HF. fold F in Hd, HF. exists r, rest. split; [exact HF|].
    rewrite HF in Hd. inversion Hd as [|d ds Hd1 _]; subst d ds. unfold wfd, dsc in Hd1. rewrite Hr in Hd1.
    split; [tauto|]. split; [exact Hr|].
    rewrite Forall_forall in *. intros s0 Hin. apply Hrest. now apply in_map.
  Qed.
End Statements.

(* ================================================================== repeated / interleaved calls *)
Lemma stacks_calls_lemma : forall shorten clean os p,
  stacks_calls shorten clean os p = (map (fun o => stacks_of shorten clean o p) os, p).
Proof.
  intros shorten clean os p. induction os as [|o r IH]; simpl; [reflexivity|].
  unfold stacks_call. rewrite IH. reflexivity.
Qed.

(* ================================================================== computeTotal meets total_spec *)
Section Total.
  Variable o : opts.
  Let v (s : sample) : Z := value_at (o_index o) (s_val s).
  Let d (s : sample) : Z := match o_meandiv o with Some k => value_at k (s_val s) | None => 0 end.

  Lemma total_step_exact : forall D T Db Tb A s,
    0 <= Tb <= T -> Z.abs D <= A -> Z.abs Db <= A ->
    T + Z.abs (v s) < two63 -> A + Z.abs (d s) < two63 ->
    total_step o (D, T, Db, Tb) s =
      (D + d s, T + Z.abs (v s),
       (if diff_base s then Db + d s else Db), (if diff_base s then Tb + Z.abs (v s) else Tb)).
  Proof.
    intros D T Db Tb A s HT HD HDb Hv Hd. unfold total_step. fold (v s). fold (d s). unfold sample_value. fold (v s).
    assert (Ev : (if v s <? 0 then neg_i64 (v s) else v s) = Z.abs (v s)).
    { destruct (Z.ltb_spec (v s) 0).
      - unfold neg_i64. rewrite wrap_i64_small; unfold two63 in *; lia.
      - lia. }
    rewrite Ev.
    rewrite (wrap_i64_small (T + Z.abs (v s))) by (unfold two63 in *; lia).
    rewrite (wrap_i64_small (D + d s)) by (unfold two63 in *; lia).
    destruct (diff_base s); [|reflexivity].
    rewrite (wrap_i64_small (Db + d s)) by (unfold two63 in *; lia).
    rewrite (wrap_i64_small (Tb + Z.abs (v s))) by (unfold two63 in *; lia).
    reflexivity.
  Qed.

  Lemma total_fold_exact : forall r D T Db Tb A,
    0 <= Tb <= T -> Z.abs D <= A -> Z.abs Db <= A ->
    T + sum_abs v r < two63 -> A + sum_abs d r < two63 ->
    fold_left (total_step o) r (D, T, Db, Tb) =
      (D + sum_of d r, T + sum_abs v r, Db + sum_of d (filter diff_base r), Tb + sum_abs v (filter diff_base r)).
  Proof.
    induction r as [|s r IH]; intros D T Db Tb A HT HD HDb Hv Hd.
    - simpl. rewrite !Z.add_0_r. reflexivity.
    - cbn [fold_left]. unfold sum_abs in Hv, Hd. simpl in Hv, Hd. fold (sum_abs v r) in Hv. fold (sum_abs d r) in Hd.
      assert (Hnv : 0 <= sum_abs v r) by (clear; unfold sum_abs; induction r; simpl; lia).
      assert (Hnd : 0 <= sum_abs d r) by (clear; unfold sum_abs; induction r; simpl; lia).
      rewrite (total_step_exact D T Db Tb A s) by lia.
      destruct (diff_base s) eqn:Eb.
      + rewrite (IH _ _ _ _ (A + Z.abs (d s))) by lia.
        cbn [filter]. rewrite Eb. unfold sum_abs, sum_of. cbn [fold_right]. rewrite !Z.add_assoc. reflexivity.
      + rewrite (IH _ _ _ _ (A + Z.abs (d s))) by lia.
        cbn [filter]. rewrite Eb. unfold sum_abs, sum_of. cbn [fold_right]. rewrite !Z.add_assoc. reflexivity.
  Qed.

  Lemma sum_abs_filter_le : forall f (r : list sample), 0 <= sum_abs f (filter diff_base r) <= sum_abs f r.
  Proof.
    intros f r. unfold sum_abs. induction r as [|s r IH]; simpl; [lia|].
    destruct (diff_base s); simpl; lia.
  Qed.

  Lemma quot_abs_le : forall t dv, 0 <= t -> dv <> 0 -> Z.abs (Z.quot t dv) <= t.
  Proof.
    intros t dv Ht Hd. rewrite <- Z.quot_abs by exact Hd. rewrite Z.quot_div_nonneg by lia.
    rewrite (Z.abs_eq t) by exact Ht. apply Z.div_le_upper_bound; [lia|]. nia.
  Qed.

  (* wherever the specification demands a value, the model of computeTotal delivers it *)
  Lemma compute_total_meets_spec : forall p t, total_spec o p = Some t -> compute_total o p = t.
  Proof.
    intros p t H. unfold total_spec in H. fold v in H. fold d in H.
    destruct ((two63 <=? sum_abs v (p_sample p)) || (two63 <=? sum_abs d (p_sample p))) eqn:G; [discriminate|].
    apply orb_false_iff in G. destruct G as [G1 G2]. apply Z.leb_gt in G1. apply Z.leb_gt in G2.
    unfold compute_total.
    rewrite (total_fold_exact (p_sample p) 0 0 0 0 0) by (simpl; lia). simpl Z.add.
    pose proof (sum_abs_filter_le v (p_sample p)) as Hf.
    destruct (0 <? sum_abs v (filter diff_base (p_sample p))) eqn:E.
    - inversion H; subst; clear H.
      destruct (sum_of d (filter diff_base (p_sample p)) =? 0) eqn:E0; [reflexivity|].
      apply wrap_i64_small.
      pose proof (quot_abs_le (sum_abs v (filter diff_base (p_sample p))) (sum_of d (filter diff_base (p_sample p)))
                              (proj1 Hf) (proj1 (Z.eqb_neq _ _) E0)) as Hq.
      unfold two63 in *. lia.
    - inversion H; subst; clear H.
      destruct (sum_of d (p_sample p) =? 0) eqn:E0; [reflexivity|].
      apply wrap_i64_small.
      assert (Hnv : 0 <= sum_abs v (p_sample p)) by lia.
      pose proof (quot_abs_le (sum_abs v (p_sample p)) (sum_of d (p_sample p)) Hnv (proj1 (Z.eqb_neq _ _) E0)) as Hq.
      unfold two63 in *. lia.
  Qed.
End Total.

Lemma stacks_total_lemma : forall shorten clean o p t,
  total_spec o p = Some t -> ss_total (stacks_of shorten clean o p) = t.
Proof.
  intros shorten clean o p t H. unfold stacks_of.
  destruct (make_initial_stacks shorten clean o p) as [stacks s]. simpl. now apply compute_total_meets_spec.
Qed.

(* sources of frames whose functions live in different files are different table slots -- also when
   path trimming makes the DISPLAYED file names equal *)
Lemma files_apart_lemma : forall shorten clean o p i i' src src' k k',
  nth_error (ss_sources (stacks_of shorten clean o p)) i = Some src ->
  nth_error (ss_sources (stacks_of shorten clean o p)) i' = Some src' ->
  so_key src = Some k -> so_key src' = Some k' -> k_file k <> k_file k' ->
  trim_path (o_trim o) (k_file k) = trim_path (o_trim o) (k_file k') -> i <> i'.
Proof.
  intros shorten clean o p i i' src src' k k' H H' Hk Hk' Hne _ Heq. subst i'.
  rewrite H in H'. inversion H'; subst src'. rewrite Hk in Hk'. inversion Hk'; subst k'. now apply Hne.
Qed.
