(* Lemmas about the drop_frames step of the pipeline (C12): nothing is cut unless the whole
   simplified name of some function is an alternative of drop_frames (and not of keep_frames). *)
From PV Require Import M_Prune L_Prune.
From PV Require Import M_Symbolize M_SymbolizeFetch S_Symbolize L_Symbolize.
Open Scope Z_scope.

Lemma prune_scan_none pr pb rl : (forall id, pr id = false) -> (forall id, pb id = false) ->
  forall found, M_Prune.prune_scan pr pb found rl = rl.
Proof.
  intros Hpr Hpb. induction rl as [|id r IH]; intros found; cbn [M_Prune.prune_scan]; [reflexivity|].
  rewrite Hpr, Hpb. cbn [negb andb]. now rewrite IH.
Qed.

Lemma map_id_in {A} (f : A -> A) l : (forall x, In x l -> f x = x) -> map f l = l.
Proof.
  induction l as [|a r IH]; intros H; cbn; [reflexivity|].
  rewrite (H a (or_introl eq_refl)), IH; [reflexivity|]. intros x Hx. apply H. now right.
Qed.

Lemma prune_identity M p drop keep :
  (forall l ln, In l (p_location p) -> In ln (l_lines l) -> M_Prune.prune_line M p drop keep ln = false) ->
  M_Prune.prune M p drop keep = p.
Proof.
  intros H.
  assert (HL : forall l, In l (p_location p) -> M_Prune.prune_loc M p drop keep l = (l, false, false)).
  { intros l Hl. unfold M_Prune.prune_loc.
    assert (E : M_Filter.after_last (M_Prune.prune_line M p drop keep) (l_lines l) = None).
    { apply after_last_none. destruct (existsb _ (l_lines l)) eqn:EE; [|reflexivity].
      apply existsb_exists in EE. destruct EE as [ln [Hin Ht]]. rewrite (H l ln Hl Hin) in Ht. discriminate. }
    rewrite E. reflexivity. }
  assert (Hflag : forall (g : location * bool * bool -> bool), (g = (fun x => snd (fst x)) \/ g = (fun x => snd x)) ->
            forall id, M_Filter.id_flag (fun l => g (M_Prune.prune_loc M p drop keep l)) (p_location p) id = false).
  { intros g Hg id. unfold M_Filter.id_flag. destruct (existsb _ (p_location p)) eqn:EE; [|reflexivity].
    apply existsb_exists in EE. destruct EE as [l [Hin Ht]]. rewrite (HL l Hin) in Ht.
    destruct Hg as [-> | ->]; cbn in Ht; rewrite andb_false_r in Ht; discriminate. }
  unfold M_Prune.prune.
  rewrite (map_id_in (fun l => fst (fst (M_Prune.prune_loc M p drop keep l)))); [|intros l Hl; now rewrite (HL l Hl)].
  rewrite (map_id_in _ (p_sample p)).
  - destruct p; reflexivity.
  - intros s _. rewrite prune_scan_none.
    + rewrite rev_involutive. destruct s; reflexivity.
    + intros id. apply (Hflag (fun x => snd x)). now right.
    + intros id. apply (Hflag (fun x => snd (fst x))). now left.
Qed.

Lemma find_function_in p id f : find_function p id = Some f -> In f (p_function p).
Proof. unfold find_function. intros H. apply find_some in H. tauto. Qed.

Lemma remove_uninteresting_alt_identity p : droppable p = false -> remove_uninteresting_alt p = p.
Proof.
  unfold droppable, remove_uninteresting_alt. destruct (str_empty (p_dropframes p)); [reflexivity|].
  cbn [negb andb]. intros HD. apply prune_identity. intros l ln _ _.
  unfold M_Prune.prune_line. destruct (find_function p (ln_fn ln)) as [f|] eqn:EF; [|reflexivity].
  destruct (String.eqb (f_name f) "") eqn:EN; [reflexivity|].
  assert (Hf := find_function_in _ _ _ EF).
  assert (HX : (negb (str_empty (f_name f)) && alt_match (p_dropframes p) (M_Prune.simplify_func (f_name f)) &&
                negb (negb (str_empty (p_keepframes p)) && alt_match (p_keepframes p) (M_Prune.simplify_func (f_name f)))) = false).
  { destruct (_ && _ && _) eqn:EE; [|reflexivity].
    assert (existsb (fun f => negb (str_empty (f_name f)) && alt_match (p_dropframes p) (M_Prune.simplify_func (f_name f)) &&
                    negb (negb (str_empty (p_keepframes p)) && alt_match (p_keepframes p) (M_Prune.simplify_func (f_name f))))
                    (p_function p) = true) by (apply existsb_exists; eauto).
    congruence. }
  assert (ENE : str_empty (f_name f) = false).
  { destruct (f_name f); [discriminate | reflexivity]. }
  rewrite ENE in HX. cbn [negb andb] in HX.
  unfold ru_M at 1. cbn [String.eqb Ascii.eqb Bool.eqb].
  destruct (alt_match (p_dropframes p) (M_Prune.simplify_func (f_name f))); [|reflexivity].
  cbn [andb] in *. destruct (str_empty (p_keepframes p)); cbn [negb andb] in HX; [discriminate|].
  unfold ru_M. cbn [String.eqb Ascii.eqb Bool.eqb].
  apply negb_false_iff in HX. rewrite HX. reflexivity.
Qed.

(* when what the symbolizer plug-in leaves has no droppable function the step is invisible: the
   pipeline is the one the fetch_* / cli_* theorems are about *)
Lemma fetch_generic_ru_plain plug mode absurl src p :
  (forall srcs p1 p2 err ok calls, plug mode srcs p1 = Some (p2, err, ok, calls) -> droppable p2 = false) ->
  fetch_generic_ru plug mode absurl src p = fetch_generic plug mode absurl src p.
Proof.
  intros H. unfold fetch_generic_ru, fetch_generic. cbn zeta.
  match goal with |- context [plug mode ?s ?q] => destruct (plug mode s q) as [[[[p2 err] ptr_ok] c2]|] eqn:E; [|reflexivity] end.
  rewrite (remove_uninteresting_alt_identity p2 (H _ _ _ _ _ _ E)). reflexivity.
Qed.

Lemma fetch_cli_ru_plain plug c mode absurl src p :
  (forall srcs p1 p2 err ok calls, plug mode srcs p1 = Some (p2, err, ok, calls) -> droppable p2 = false) ->
  fetch_cli_ru plug c mode absurl src p = fetch_cli plug c mode absurl src p.
Proof. intros H. unfold fetch_cli_ru, fetch_cli. now rewrite fetch_generic_ru_plain. Qed.
