(* C19 -- Saved view configurations are durable and faithfully restored.
   Property theorems only: each is closed by [exact] of a lemma (L_Config, L_Settings, L_Fs,
   L_Sched) or by computation on the field table REGENERATED from /repo on every run
   (Gen/Gen_ConfigTable.v), and followed by Print Assumptions. *)
From PV Require Import M_Config M_Flags L_Flags M_Settings M_Fs M_Sched S_Config L_Config L_Settings L_Fs L_Sched L_C19 Gen.Gen_ConfigTable.
Open Scope string_scope.
Open Scope Z_scope.

(* ---------- facts about the table the code has now ---------- *)
(* field names are unique and no two fields share a URL parameter *)
Theorem config_table_ok : table_ok config_fields = true.
Proof. vm_compute. reflexivity. Qed.
Print Assumptions config_table_ok.

(* resetTransient never overwrites an option that is saved *)
Theorem saved_fields_not_transient :
  forallb (fun f => negb (f_saved f && f_transient f)) config_fields = true.
Proof. vm_compute. reflexivity. Qed.
Print Assumptions saved_fields_not_transient.

(* every option that is not saved is transient (nothing is silently zeroed by a reload) *)
Theorem unsaved_fields_are_transient :
  forallb (fun f => f_saved f || f_transient f) config_fields = true.
Proof. vm_compute. reflexivity. Qed.
Print Assumptions unsaved_fields_are_transient.

(* ---------- configuration <-> URL ---------- *)
(* strconv.Atoi inverts fmt.Sprint on every int *)
Theorem int_print_parse : forall z, min_int <= z <= max_int -> atoi (print_int z) = Some z.
Proof. exact atoi_print_int. Qed.
Print Assumptions int_print_parse.

(* the one-letter bool of the URL is read back as the same bool *)
Theorem bool_print_parse : forall b, string_to_bool (take 1 (print_bool b)) = Some b.
Proof. exact bool_url_roundtrip. Qed.
Print Assumptions bool_print_parse.

(* everything config.set can store is a well-formed value (so wf_cfgb below holds of every
   configuration built from the defaults by assignments and URLs), for any float oracle that is
   idempotent, i.e. ParseFloat (Sprint x) = x *)
Theorem set_values_well_formed : forall pf f v w,
  (forall s c, pf s = Some c -> pf c = Some c) ->
  set_value pf f v = Some w -> wf_value pf f w = true.
Proof. exact set_value_wf. Qed.
Print Assumptions set_values_well_formed.

(* converting a configuration to a URL and back: every saved option that has a URL parameter
   comes back, the empty string counting as unset (= default).  All tables, all oracles. *)
Theorem url_roundtrip : forall pf fs c,
  table_ok fs = true -> wf_cfgb pf fs c = true ->
  exists c', apply_url_go pf fs (default_cfg fs) (fst (make_url fs c [])) = Ok c' /\
    forall f, In f fs -> url_field f = true -> c' (f_name f) = canon f (c (f_name f)).
Proof. exact url_roundtrip_lemma. Qed.
Print Assumptions url_roundtrip.

(* the same starting from any URL (other parameters present), whenever applyURL accepts it *)
Theorem url_roundtrip_any_base : forall pf fs c q0 c',
  table_ok fs = true -> wf_cfgb pf fs c = true ->
  apply_url_go pf fs (default_cfg fs) (fst (make_url fs c q0)) = Ok c' ->
  forall f, In f fs -> url_field f = true -> c' (f_name f) = canon f (c (f_name f)).
Proof. exact url_roundtrip_any_base_lemma. Qed.
Print Assumptions url_roundtrip_any_base.

(* the property's statement for ALL saved options *)

(* it holds outside class F26 (a saved option WITHOUT URL parameter is set) ... *)
Theorem url_roundtrip_all_saved_unless_F26 : forall pf fs c,
  table_ok fs = true -> wf_cfgb pf fs c = true -> in_F26 fs c = false ->
  exists c', apply_url_go pf fs (default_cfg fs) (fst (make_url fs c [])) = Ok c' /\
    forall f, In f fs -> f_saved f = true -> c' (f_name f) = canon f (c (f_name f)).
Proof. exact url_roundtrip_all_saved_unless_F26_lemma. Qed.
Print Assumptions url_roundtrip_all_saved_unless_F26.

(* ... and fails inside it on the table the code has now (known finding F26: tagroot/tagleaf) *)
Theorem url_roundtrip_all_saved_refuted : forall pf,
  wf_cfgb pf config_fields (default_cfg config_fields) = true ->
  ~ url_roundtrip_all_saved_statement pf config_fields.
Proof. exact url_roundtrip_all_saved_refuted_lemma. Qed.
Print Assumptions url_roundtrip_all_saved_refuted.

Theorem make_url_elides_defaults : forall fs c q f,
  table_ok fs = true -> In f fs -> url_field f = true -> c (f_name f) = f_default f ->
  vget (fst (make_url fs c q)) (f_url f) = "".
Proof. exact make_url_elides_defaults_lemma. Qed.
Print Assumptions make_url_elides_defaults.

(* the URL made from a configuration is recognised as that configuration: making it again
   changes nothing (the Config menu marks such an entry as current) *)
Theorem make_url_idempotent : forall fs c q,
  table_ok fs = true -> make_url fs c (fst (make_url fs c q)) = (fst (make_url fs c q), false).
Proof. exact make_url_idempotent_lemma. Qed.
Print Assumptions make_url_idempotent.

(* applying a URL changes no option the URL does not mention *)
Theorem apply_url_untouched : forall pf fs c0 q c' f,
  nodup_str (map f_name fs) = true -> apply_url_go pf fs c0 q = Ok c' -> In f fs ->
  (f_url f = "" \/ vget q (f_url f) = "") -> c' (f_name f) = c0 (f_name f).
Proof. exact apply_url_untouched_lemma. Qed.
Print Assumptions apply_url_untouched.

(* ---------- the settings file: restore, and "never alters the others" ---------- *)
(* a configuration written to the settings file and read back has every saved option intact
   (float options as numbers), for every string the JSON encoder can represent *)
Theorem settings_restore : forall js fs cur,
  (forall s, js s = s) -> nodup_str (map f_name fs) = true ->
  forallb (fun f => negb (f_saved f && f_transient f)) fs = true ->
  forall c f, In f fs -> f_saved f = true ->
  norm_val (f_kind f) (reread js fs cur c (f_name f)) = norm_val (f_kind f) (c (f_name f)).
Proof. exact reread_saved. Qed.
Print Assumptions settings_restore.

(* F25: a string the JSON encoder changes is NOT restored intact (json.Marshal coerces invalid
   UTF-8) -- stated for every oracle, then a concrete witness *)
Theorem settings_restore_string_is_coerced : forall js fs c f,
  nodup_str (map f_name fs) = true -> In f fs -> f_saved f = true -> f_kind f = KStr ->
  stored_cfg js fs c (f_name f) = js (c (f_name f)).
Proof. exact stored_string_coerced. Qed.
Print Assumptions settings_restore_string_is_coerced.

Theorem settings_restore_refuted :
  exists c, reread js_F25 config_fields (default_cfg config_fields) c "focus" <> c "focus".
Proof. exact settings_restore_refuted_lemma. Qed.
Print Assumptions settings_restore_refuted.

(* saving: afterwards the name restores the saved configuration, every other named
   configuration is unchanged (the checker S_Config.save_ok that bin/check also evaluates on
   the implementation's files) *)
Theorem save_meets_spec : forall pf js fs cur,
  (forall s, js s = s) -> nodup_str (map f_name fs) = true ->
  forallb (fun f => negb (f_saved f && f_transient f)) fs = true ->
  forall st q st' c before,
    set_config pf js fs cur st q = (0, st') ->
    apply_url_go pf fs cur q = Ok c ->
    read_settings fs cur st = Some before ->
    exists aft, read_settings fs cur st' = Some aft /\ save_ok fs (vget q "config") c before aft = true.
Proof. exact save_meets_spec_lemma. Qed.
Print Assumptions save_meets_spec.

Theorem delete_meets_spec : forall js fs cur,
  (forall s, js s = s) -> nodup_str (map f_name fs) = true ->
  forallb (fun f => negb (f_saved f && f_transient f)) fs = true ->
  forall st name st' before,
    remove_config js fs cur st name = (0, st') ->
    read_settings fs cur st = Some before ->
    exists aft, read_settings fs cur st' = Some aft /\ delete_ok fs name before aft = true.
Proof. exact delete_meets_spec_lemma. Qed.
Print Assumptions delete_meets_spec.

(* list level, without any assumption on strings *)
Theorem set_preserves_others : forall name c ss,
  others name (snd (set_fn name c ss)) = others name ss /\
  lookup_first (snd (set_fn name c ss)) name = Some c.
Proof. exact set_preserves_others_lemma. Qed.
Print Assumptions set_preserves_others.

Theorem remove_preserves_others : forall name ss,
  fst (remove_fn name ss) = 0 -> others name (snd (remove_fn name ss)) = others name ss.
Proof. exact remove_preserves_others_lemma. Qed.
Print Assumptions remove_preserves_others.

(* a request that reports an error (bad name, bad URL, unreadable file, unencodable value, unknown
   config) leaves the settings file exactly as it was *)
Theorem failed_op_keeps_file : forall pf js fs cur st o code st',
  run_sop pf js fs cur st o = (code, st') -> code <> 0 -> st' = st.
Proof. exact failed_op_keeps_file_lemma. Qed.
Print Assumptions failed_op_keeps_file.

(* the same when the request got as far as writing and the write to disk failed (ENOSPC, EFBIG, EIO):
   the failure is reported and the file is what it was *)
Theorem failed_write_keeps_file : forall pf js fs cur st o io code st',
  run_sop_io pf js fs cur st o io = (code, st') -> code <> 0 -> st' = st.
Proof. exact failed_op_io_keeps_file. Qed.
Print Assumptions failed_write_keeps_file.

Theorem failed_write_is_reported : forall pf js fs cur st o,
  fst (run_sop_io pf js fs cur st o false) <> 0.
Proof. exact L_Settings.failed_write_is_reported. Qed.
Print Assumptions failed_write_is_reported.

(* histories of one process: whatever requests failed (refused, or write failed), the settings
   file at the end is what the successful requests alone produce -- nothing of a failed request
   survives into later saves, deletes or reads *)
Theorem failures_leave_no_trace : forall pf js fs cur h st,
  run_hist pf js fs cur st h = run_hist pf js fs cur st (successes pf js fs cur st h).
Proof. exact failures_leave_no_trace_lemma. Qed.
Print Assumptions failures_leave_no_trace.

Theorem failed_then_more : forall pf js fs cur st o io h,
  fst (run_sop_io pf js fs cur st o io) <> 0 ->
  run_hist pf js fs cur st ((o, io) :: h) = run_hist pf js fs cur st h.
Proof. exact failed_then_more_lemma. Qed.
Print Assumptions failed_then_more.

(* a request that cannot READ the settings file (EACCES, EPERM, EIO ... on open/read) reports an
   error and leaves the file alone: only a file that does not exist counts as "no configurations yet" *)
Theorem read_fault_is_reported : forall pf js fs cur st o,
  fst (run_sop_f pf js fs cur st o ReadFault) <> 0 /\ snd (run_sop_f pf js fs cur st o ReadFault) = st.
Proof. exact read_fault_is_reported_lemma. Qed.
Print Assumptions read_fault_is_reported.

Theorem faulted_op_keeps_file : forall pf js fs cur st o f code st',
  run_sop_f pf js fs cur st o f = (code, st') -> code <> 0 -> st' = st.
Proof. exact failed_op_f_keeps_file. Qed.
Print Assumptions faulted_op_keeps_file.

(* histories of one process with failing writes and failing reads anywhere: the file at the end is
   what the successful requests alone produce *)
Theorem faults_leave_no_trace : forall pf js fs cur h st,
  run_hist_f pf js fs cur st h = run_hist_f pf js fs cur st (successes_f pf js fs cur st h).
Proof. exact faults_leave_no_trace_lemma. Qed.
Print Assumptions faults_leave_no_trace.

(* ---------- end to end: flags, URL, stored view ---------- *)
(* option flags touch only the options they name; without flags the run starts from the defaults *)
Theorem flags_touch_only_named_options : forall pf fs c fl c' f,
  nodup_str (map f_name fs) = true -> config_flags pf fs c fl = Ok c' -> In f fs ->
  flag_get fl (f_name f) = None -> (forall ch, In ch (f_choices f) -> flag_true fl ch = false) ->
  c' (f_name f) = c (f_name f).
Proof. exact config_flags_untouched. Qed.
Print Assumptions flags_touch_only_named_options.

Theorem no_flags_no_change : forall pf fs c, config_flags pf fs c [] = Ok c.
Proof. exact config_flags_nil. Qed.
Print Assumptions no_flags_no_change.

(* the options in force when a view is saved -- set by command-line flags or otherwise, and not
   overridden by the request URL -- are part of the stored configuration (whatever the Config menu
   marks as current) *)
Theorem save_keeps_options_in_force : forall pf js fs cur,
  (forall s, js s = s) -> nodup_str (map f_name fs) = true ->
  forallb (fun f => negb (f_saved f && f_transient f)) fs = true ->
  forall st q st' c before f,
    set_config pf js fs cur st q = (0, st') ->
    apply_url_go pf fs cur q = Ok c ->
    read_settings fs cur st = Some before ->
    In f fs -> f_saved f = true -> (f_url f = "" \/ vget q (f_url f) = "") ->
    exists aft c', read_settings fs cur st' = Some aft /\ lookup_first aft (vget q "config") = Some c' /\
      norm_val (f_kind f) (c' (f_name f)) = norm_val (f_kind f) (cur (f_name f)).
Proof. exact save_keeps_options_in_force_lemma. Qed.
Print Assumptions save_keeps_options_in_force.

(* ---------- crash atomicity ---------- *)
(* for every op list in the protocol class (the recogniser is evaluated on the system calls the
   implementation REALLY issues, recovered by strace on every run): killed between any two
   calls, or inside any write after any number of bytes, the settings file holds the complete
   old contents or the complete new contents *)
Theorem crash_atomic : forall target ops s0,
  protocol_ok target false s0 ops = true ->
  forall s, crashed s0 ops s ->
    content s target = content s0 target \/ content s target = content (run s0 ops) target.
Proof. exact crash_atomic_lemma. Qed.
Print Assumptions crash_atomic.

(* a save whose rename never happens (any system call failed: ENOSPC, EIO ...) leaves the old file *)
Theorem failed_save_keeps_old : forall target ops s0,
  protocol_ok target false s0 ops = true -> existsb (renames_onto target) ops = false ->
  content (run s0 ops) target = content s0 target.
Proof. exact failed_save_keeps_old_lemma. Qed.
Print Assumptions failed_save_keeps_old.

(* the complete run of the canonical shape leaves exactly the data written *)
Theorem canonical_save_final : forall fd tmp target ds s,
  tmp <> target -> fget (files s) tmp = None ->
  content (run s (FOpen fd tmp true true :: map (FWrite fd) ds ++ [FMeta fd; FMeta fd; FClose fd; FRename tmp target])%list) target
  = Some (String.concat "" ds).
Proof. exact canonical_save_final_lemma. Qed.
Print Assumptions canonical_save_final.

(* ... whatever an earlier, killed save left behind under the temporary name (the recogniser demands
   that the temporary starts empty: O_TRUNC or O_EXCL) *)
Theorem save_final_ignores_leftovers : forall fd tmp target ds s,
  tmp <> target ->
  content (run s (FOpen fd tmp true true :: map (FWrite fd) ds ++ [FMeta fd; FMeta fd; FClose fd; FRename tmp target])%list) target
  = Some (String.concat "" ds).
Proof. exact save_final_ignores_leftovers_lemma. Qed.
Print Assumptions save_final_ignores_leftovers.

(* a temporary opened for writing WITHOUT truncation is outside the protocol class *)
Example untruncated_temporary_rejected :
  protocol_ok "d/settings.json" false {| files := [("d/settings.json", "OLD"); ("d/settings.json.tmp", "LEFTOVER-LEFTOVER")]; fds := [] |}
    [FOpen 3 "d/settings.json.tmp" true false; FWrite 3 "NEW"; FClose 3; FRename "d/settings.json.tmp" "d/settings.json"] = false.
Proof. vm_compute. reflexivity. Qed.

Example canonical_protocol_ok :
  protocol_ok "d/settings.json" false {| files := [("d/settings.json", "OLD")]; fds := [] |}
    [FMkdir "d"; FOpen 3 "d/settings.json.tmp1" true true; FWrite 3 "NE"; FWrite 3 "W"; FMeta 3; FMeta 3; FClose 3;
     FRename "d/settings.json.tmp1" "d/settings.json"] = true.
Proof. vm_compute. reflexivity. Qed.

(* the hypothesis is needed: truncating and rewriting in place (what os.WriteFile did before the
   repair of F18) is outside the class and does expose an empty and a half-written file *)
Theorem in_place_write_not_atomic :
  let s0 := {| files := [("f", "OLD")]; fds := [] |} in
  let ops := [FOpen 3 "f" true true; FWrite 3 "NEW"] in
  protocol_ok "f" false s0 ops = false /\
  (exists s, crashed s0 ops s /\ content s "f" = Some "") /\
  (exists s, crashed s0 ops s /\ content s "f" = Some "NE").
Proof. exact in_place_write_not_atomic_lemma. Qed.
Print Assumptions in_place_write_not_atomic.

(* ---------- concurrent save / delete requests ---------- *)
(* every schedule of mutex-guarded read-modify-write requests leaves the file that the requests
   give when performed one after another, in the order they took the mutex; each started
   request is counted exactly once *)
Theorem edits_serializable : forall (F : Type) (edit : nat -> F -> option F) (f0 : F) sched s order,
  exec F edit true sched (init F f0) [] = Some (s, order) ->
  holder F s = None ->
  file F s = sequential F edit order f0 /\ NoDup order /\ (forall i, In i order <-> pc F s i = 4%nat).
Proof. exact edits_serializable_lemma. Qed.
Print Assumptions edits_serializable.

(* when all scheduled requests have finished nobody holds the mutex (so the theorem applies) *)
Theorem all_finished_unlocked : forall (F : Type) (edit : nat -> F -> option F) (f0 : F) sched s order,
  exec F edit true sched (init F f0) [] = Some (s, order) ->
  (forall i, In i sched -> pc F s i = 4%nat) -> holder F s = None.
Proof. exact all_finished_unlocked. Qed.
Print Assumptions all_finished_unlocked.

(* instance: the requests are the model's save / delete operations on the settings file *)
Theorem concurrent_requests_serializable : forall pf js fs cur reqs st0 sched s order,
  exec fstate (request_edit pf js fs cur reqs) true sched (init fstate st0) [] = Some (s, order) ->
  (forall i, In i sched -> pc fstate s i = 4%nat) ->
  file fstate s = sequential fstate (request_edit pf js fs cur reqs) order st0 /\ NoDup order.
Proof. exact concurrent_requests_serializable_lemma. Qed.
Print Assumptions concurrent_requests_serializable.

(* the mutex is needed: the same program without it loses an update (r1 r2 w1 w2) *)
Theorem without_mutex_lost_update :
  exists sched s order,
    exec (list nat) add_edit false sched (init (list nat) []) [] = Some (s, order) /\
    (forall i, In i sched -> pc _ s i = 4%nat) /\
    forall perm, In perm [[1; 2]; [2; 1]]%nat -> file _ s <> sequential (list nat) add_edit perm [].
Proof. exact unlocked_lost_update_lemma. Qed.
Print Assumptions without_mutex_lost_update.

(* hypotheses are satisfiable: the default configuration is well formed for the identity oracle *)
Example default_cfg_wf : wf_cfgb (fun s => Some s) config_fields (default_cfg config_fields) = true.
Proof. vm_compute. reflexivity. Qed.
