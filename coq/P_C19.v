(* C19 -- Saved view configurations are durable and faithfully restored. *)
From PV Require Import M_Config M_Settings M_Fs S_Config Gen.Gen_ConfigTable.
Open Scope Z_scope.

Theorem config_table_ok : table_ok config_fields = true.
Proof. vm_compute. reflexivity. Qed.
Print Assumptions config_table_ok.
