(* Declarative specification of C07 ("combining and subtracting profiles is linear in every
   entry"), written from the property text, and a decidable checker of it that is evaluated on the
   implementation's observable.  It shares with the model only the vocabulary of the report
   (which function names a sample's stack shows: frames_of, leaf_is, has_name) and the unit table;
   it does not follow the control flow of fetch / combineProfiles / ScaleN / Merge. *)
From Coq Require Import QArith Qround Qabs.
From PV Require Import M_Combine S_Measure.
Open Scope Z_scope.

(* ------------------------------------------------------------------ entry-level linear functionals *)
(* sum of column i over the samples selected by g, as an unbounded integer *)
Definition lin (g : sample -> bool) (i : nat) (ss : list sample) : Z :=
  fold_right (fun s acc => (if g s then val_at i s else 0) + acc) 0 ss.

(* flat / cum of entry e (a function name) in column i of profile p: what -top prints *)
Definition flat_g (p : profile) (e : string) (s : sample) : bool := leaf_is e (frames_of p s).
Definition cum_g (p : profile) (e : string) (s : sample) : bool := has_name e (frames_of p s).
Definition flatZ (p : profile) (i : nat) (e : string) : Z := lin (flat_g p e) i (p_sample p).
Definition cumZ (p : profile) (i : nat) (e : string) : Z := lin (cum_g p e) i (p_sample p).

(* equality of int64 quantities that the code computes with wrap-around *)
Definition eq64 (a b : Z) : Prop := exists k, a = b + k * two64.

(* a selector "depends only on the stack identity" *)
Definition respects_key (g : sample -> bool) : Prop :=
  forall a b, key_eqb a b = true -> g a = g b.

(* F4 class of one ScaleN call: some sample has a non-zero value in a column that is not scaled
   while every scaled column rounds to zero (and at least one column is scaled) *)
Definition f4_sample (ratios : list Q) (s : sample) : bool :=
  let nv := scale_vals ratios (s_val s) in
  negb (keep_written ratios nv) && keep_documented ratios nv.
Definition in_F4 (ratios : list Q) (p : profile) : bool :=
  negb (forallb is_one ratios) && existsb (f4_sample ratios) (p_sample p).

(* ------------------------------------------------------------------ the checker *)
Fixpoint nodupb (l : list string) : bool :=
  match l with [] => true | a :: r => negb (existsb (String.eqb a) r) && nodupb r end.

Definition col_of (p : profile) (t : string) : option nat := index_of t (type_names p) 0%nat.
Definition unit_of (p : profile) (t : string) : string :=
  match col_of p t with Some i => vt_unit (nth i (p_sampletype p) dummy_vt) | None => ""%string end.

(* types present in every profile, in the order of the first *)
Definition common_types (ps : list profile) : list string :=
  match ps with
  | [] => []
  | p0 :: r => filter (fun t => forallb (fun p => has_name t (type_names p)) r) (type_names p0)
  end.

Definition factor_of (uts : list unit_type) (u : string) : Q :=
  match family_of uts u with Some (_, w) => u_factor w | None => 1%Q end.
Definition family_name (uts : list unit_type) (u : string) : option string :=
  match family_of uts u with Some (ut, _) => Some (u_name (ut_default ut)) | None => None end.

(* units of one sample type across the tuple are convertible: one spelling, or one unit family *)
Definition units_convertible (uts : list unit_type) (us : list string) : bool :=
  match us with
  | [] => true
  | u0 :: r =>
      forallb (String.eqb u0) r ||
      match family_name uts u0 with
      | None => false
      | Some f => forallb (fun u => match family_name uts u with Some f' => String.eqb f f' | None => false end) r
      end
  end.

(* the profiles of a tuple use tuple-wide ids for functions and locations: an id means the same
   function / location in every profile that has it (each profile lists the ones it uses) *)
Definition tables_eqb (a b : profile) : bool :=
  forallb (fun l => match find_location b (l_id l) with
                    | Some l' => term_eqb (of_location l) (of_location l')
                    | None => true
                    end) (p_location a)
  && forallb (fun f => match find_function b (f_id f) with
                       | Some f' => term_eqb (of_function f) (of_function f')
                       | None => true
                       end) (p_function a).

Definition ovt_same (a b : option valuetype) : bool :=
  match a, b with
  | Some x, Some y => String.eqb (vt_type x) (vt_type y)
  | None, None => true
  | _, _ => false
  end.
Definition period_unit (p : profile) : string := match p_periodtype p with Some v => vt_unit v | None => ""%string end.

Definition types_identical (a b : profile) : bool :=
  list_eqb vt_eqb (p_sampletype a) (p_sampletype b) && ovt_eqb (p_periodtype a) (p_periodtype b).

(* the tuples the statement quantifies over ("compatible profiles") *)
Definition spec_compatible (uts : list unit_type) (nm : bool) (srcs bases : list profile) : bool :=
  let ps := (srcs ++ bases)%list in
  match ps with
  | [] => false
  | p0 :: r =>
      forallb (fun p => nodupb (type_names p)) ps
      (* an id means the same function / location in every profile: each profile agrees with the
         union of the tables (first occurrence of every id) *)
      && (let u := set_tables p0 (union_by l_id [] (flat_map p_location ps)) (union_by f_id [] (flat_map p_function ps)) in
          forallb (fun a => tables_eqb a u) ps)
      && negb (match common_types ps with [] => true | _ => false end)
      (* every sample type that two profiles share has the same or convertible units *)
      && forallb (fun t => units_convertible uts (map (fun p => unit_of p t) (filter (fun p => has_name t (type_names p)) ps)))
                 (nodup_str (flat_map type_names ps))
      && forallb (fun p => ovt_same (p_periodtype p0) (p_periodtype p)) r
      && units_convertible uts (map period_unit ps)
      && (negb nm || forallb (types_identical p0) r)
  end.

Definition Qmin_list (l : list Q) (d : Q) : Q :=
  fold_left (fun a b => if Qle_bool a b then a else b) l d.

Definition is_integer (q : Q) : bool := Qeq_bool q (inject_Z (Qfloor q)).

Definition sumQ (l : list Q) : Q := fold_right (fun a acc => Qred (a + acc)) 0%Q l.

(* observable of a successful run *)
Record observed := {
  o_types : list valuetype;
  o_nsamples : nat;
  o_reports : list (Z * list (string * Z * Z));   (* per column: total, entries (name, flat, cum) *)
  o_reports2 : list (Z * list (string * Z * Z))   (* the same after -proto and reopening *);
  o_frames : list (Z * list string * list string) (* every frame of the merged samples: address, function names, files *)
}.

Definition entry_of (r : list (string * Z * Z)) (e : string) : Z * Z :=
  match find (fun x => String.eqb (fst (fst x)) e) r with
  | Some x => (snd (fst x), snd x)
  | None => (0, 0)
  end.

Definition colsum (p : profile) (t : string) : Z :=
  match col_of p t with Some i => lin (fun _ => true) i (p_sample p) | None => 0 end.

Definition n_samples_of (ps : list profile) : Z := Z.of_nat (List.length (flat_map p_sample ps)).

(* |obs - expected| <= tol, obs being an int64: exact comparison modulo 2^64 when tol = 0 *)
Definition close_to (obs : Z) (expected tol : Q) : bool :=
  if Qeq_bool tol 0 then
    is_integer expected && (wrap_i64 (Qfloor expected) =? obs)
  else Qle_bool (Qabs (inject_Z obs - expected)) tol.

Section Check.
  Variable uts : list unit_type.
  Variables (db nm : bool) (srcs bases : list profile).

  Let ps := (srcs ++ bases)%list.

  (* what entry e of sample type t must show, and the rounding allowance:
       sum over sources of ratio * value  -  sum over bases of ratio * value
     ratio = factor of the profile's unit / factor of the result's unit; with -normalize the
     sources are first scaled by (base total / source total) of that type *)
  Definition expected (sel : profile -> string -> sample -> bool) (t : string) (out_unit : string) (e : string) : Q * Q :=
    let f_out := factor_of uts out_unit in
    let part (p : profile) : Q * Q :=
      match col_of p t with
      | None => (0%Q, 0%Q)
      | Some i =>
          let r := (factor_of uts (unit_of p t) / f_out)%Q in
          ((r * inject_Z (lin (sel p e) i (p_sample p)))%Q,
           if is_integer r then 0%Q else (inject_Z (Z.of_nat (List.length (p_sample p))) / 2)%Q)
      end in
    let s := map part srcs in
    let b := map part bases in
    let ssum := sumQ (map fst s) in
    let bsum := sumQ (map fst b) in
    let tol := (sumQ (map snd s) + sumQ (map snd b))%Q in
    if nm then
      let S := sumQ (map (fun p => inject_Z (colsum p t)) srcs) in
      let B := sumQ (map (fun p => inject_Z (colsum p t)) bases) in
      (* Normalize rounds each (merged) source sample once: half a unit per sample that counts for e *)
      let cnt := Z.of_nat (List.length (flat_map (fun p => filter (sel p e) (p_sample p)) srcs)) in
      ((ssum * (B / S) - bsum)%Q, (tol + inject_Z cnt / 2 + (1 # 1000))%Q)
    else ((ssum - bsum)%Q, tol).

  (* -normalize cannot make a source total of 0 equal to the base total: the statement is silent
     there -- unless the source has NO value at all in that column: then scaling changes nothing
     and the entry must simply be minus the base (the formula below gives 0 * (B/0) - base) *)
  Definition column_all_zero (t : string) : bool :=
    forallb (fun p => match col_of p t with
                      | Some i => forallb (fun s => val_at i s =? 0) (p_sample p)
                      | None => true
                      end) srcs.
  Definition norm_degenerate (t : string) : bool :=
    nm && Qeq_bool (sumQ (map (fun p => inject_Z (colsum p t)) srcs)) 0 && negb (column_all_zero t).

  Definition names_of_tuple : list string :=
    nodup_str (flat_map (fun p => map f_name (p_function p)) ps).

  (* the "base total" of sample type t: per stack identity, the magnitude of the summed base
     values (what a report of the base alone calls its total) *)
  Definition base_samples_scaled (t : string) (out_unit : string) : list (sample * Q) :=
    flat_map (fun p => match col_of p t with
                       | None => []
                       | Some i => map (fun s => (s, (factor_of uts (unit_of p t) / factor_of uts out_unit * inject_Z (val_at i s))%Q)) (p_sample p)
                       end) bases.

  Fixpoint group_add (acc : list (sample * Q)) (s : sample) (q : Q) : list (sample * Q) :=
    match acc with
    | [] => [(s, q)]
    | (a, x) :: r => if key_eqb a s then (a, (x + q)%Q) :: r else (a, x) :: group_add r s q
    end.

  Definition base_total_keyed (t out_unit : string) : Q :=
    sumQ (map (fun x => Qabs (snd x))
              (fold_left (fun acc sq => group_add acc (fst sq) (snd sq)) (base_samples_scaled t out_unit) [])).
  Definition base_total_flat (t out_unit : string) : Q :=
    sumQ (map (fun x => Qabs (snd x)) (base_samples_scaled t out_unit)).

  Definition unit_is_finest (t out_unit : string) : bool :=
    let us := map (fun p => unit_of p t) ps in
    existsb (String.eqb out_unit) us
    && Qeq_bool (factor_of uts out_unit) (Qmin_list (map (factor_of uts) us) (factor_of uts out_unit)).

  (* "pprof::base" is the label pprof itself uses to mark base samples: inputs that already carry
     it are outside the statement about the percentage base *)
  Definition no_reserved_label : bool :=
    forallb (fun p => forallb (fun s => negb (existsb (fun kv => String.eqb (fst kv) base_key) (s_label s))) (p_sample p)) ps.

  Definition check_column (o : observed) (j : nat) (t : string) : bool :=
    let ovt := nth j (o_types o) dummy_vt in
    let out_unit := vt_unit ovt in
    let rep := nth j (o_reports o) (0, []) in
    String.eqb (vt_type ovt) t
    && unit_is_finest t out_unit
    && forallb (fun x => has_name (fst (fst x)) names_of_tuple) (snd rep)
    && (norm_degenerate t ||
        forallb (fun e =>
                   let '(f, c) := entry_of (snd rep) e in
                   let '(ef, tf) := expected flat_g t out_unit e in
                   let '(ec, tc) := expected cum_g t out_unit e in
                   close_to f ef tf && close_to c ec tc) names_of_tuple)
    && (negb db || negb no_reserved_label || match bases with [] => true | _ =>
          let bt := base_total_keyed t out_unit in
          Qeq_bool bt 0
          || Qle_bool (Qabs (inject_Z (fst rep) - bt)) (if is_integer bt then 0 else inject_Z (n_samples_of bases) / 2)
          || Qeq_bool (inject_Z (fst rep)) (base_total_flat t out_unit)
        end).

  Definition self_diff : bool :=
    negb nm && term_eqb (TL (map of_profile srcs)) (TL (map of_profile bases)).

  Definition reports_eqb (a b : list (Z * list (string * Z * Z))) : bool :=
    list_eqb (fun x y => (fst x =? fst y)
                         && list_eqb (fun u v => String.eqb (fst (fst u)) (fst (fst v)) && (snd (fst u) =? snd (fst v)) && (snd u =? snd v))
                                     (snd x) (snd y)) a b.

  (* saving the result with -proto and reopening it gives the same report: same total (with
     -diff_base: the base total, so the same percentages) and the same entries *)
  Definition diff_base_roundtrip (o : observed) : bool := reports_eqb (o_reports o) (o_reports2 o).

  (* values are aligned, never re-attributed: every frame of the combined profile (address, the
     functions on its lines, the source file of each) is a frame of one of the inputs *)
  Definition frames_from_inputs (o : observed) : bool :=
    forallb (fun fr =>
      let '(addr, names, files) := fr in
      existsb (fun p => existsb (fun l => (l_addr l =? addr)
                                          && list_eqb String.eqb (loc_names p (l_id l)) names
                                          && list_eqb String.eqb (loc_files p (l_id l)) files) (p_location p)) ps)
            (o_frames o).

  (* None = the run ended in an error *)
  Definition spec_ok (o : option observed) : bool :=
    if spec_compatible uts nm srcs bases then
      match o with
      | None => false
      | Some o =>
          let ts := common_types ps in
          Nat.eqb (List.length (o_types o)) (List.length ts)
          && Nat.eqb (List.length (o_reports o)) (List.length ts)
          && forallb (fun jt => check_column o (fst jt) (snd jt)) (List.combine (seq 0 (List.length ts)) ts)
          && diff_base_roundtrip o
          && frames_from_inputs o
          && (negb (self_diff && negb db) || Nat.eqb (o_nsamples o) 0)
          && (negb self_diff || forallb (fun r => match snd r with [] => true | _ => false end) (o_reports o))
      end
    else true.
End Check.
