(* stub, replaced below *)
From PV Require Import M_Combine.
Definition spec_check (uts : list unit_type) (i o : term) : bool := true.
