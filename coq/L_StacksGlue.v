(* Proofs about the glue model of the /flamegraph path (M_StacksGlue). *)
From Coq Require Import Lia.
From PV Require Import M_Report.
From PV Require Import M_Stacks S_Stacks L_Stacks M_StacksGlue.
Open Scope string_scope.
Open Scope Z_scope.

Lemma aggregate_raw_samples : forall a b c d e f p,
  p_sample (M_Report.aggregate_raw a b c d e f p) = p_sample p /\
  p_sampletype (M_Report.aggregate_raw a b c d e f p) = p_sampletype p.
Proof. intros. split; reflexivity. Qed.

Lemma aggregate_samples : forall g n c p,
  p_sample (M_Report.aggregate g n c p) = p_sample p.
Proof.
  intros g n c p. unfold M_Report.aggregate.
  repeat match goal with
         | |- context [if ?b then _ else _] => destruct b
         end; reflexivity.
Qed.

(* serving requests leaves the session state alone, and every answer is the answer a fresh
   session gives to that request alone *)
Lemma serve_lemma : forall st reqs,
  serve st reqs = (map (fun u => flamegraph_request (fst st) u (snd st)) reqs, st).
Proof.
  intros st reqs. induction reqs as [|u r IH]; simpl; [reflexivity|].
  rewrite IH. reflexivity.
Qed.

Lemma url_si_wins_lemma : forall f f' u p,
  u_si u <> "" ->
  gf_mean f = gf_mean f' -> (forall x, existsb (String.eqb x) (gf_legacy f) = existsb (String.eqb x) (gf_legacy f')) ->
  gf_gran f = gf_gran f' -> gf_noinlines f = gf_noinlines f' -> gf_columns f = gf_columns f' -> gf_trim f = gf_trim f' ->
  flamegraph_request f u p = flamegraph_request f' u p.
Proof.
  intros f f' u p Hsi Hm Hl Hg Hn Hc Ht. unfold flamegraph_request, apply_url, cli_mean.
  rewrite Hm, (Hl "mean_delay"), Hn, Hc, Hg, Ht.
  destruct (String.eqb_spec (u_si u) ""); [contradiction|]. reflexivity.
Qed.

(* one stack per sample OF THE LOADED PROFILE, with that sample's selected value *)
Lemma e2e_one_stack_lemma : forall shorten clean f u loaded o unit p,
  flamegraph_request f u loaded = WebOk o unit p ->
  let R := stacks_of shorten clean o p in
  List.length (ss_stacks R) = List.length (p_sample loaded)
  /\ map sk_value (ss_stacks R) = map (fun s => value_at (o_index o) (s_val s)) (p_sample loaded).
Proof.
  intros shorten clean f u loaded o unit p H. unfold flamegraph_request in H.
  destruct (apply_url f u) as [c|]; [|discriminate].
  destruct (M_Report.sample_format loaded (c_si c)); try discriminate.
  inversion H; subst; clear H. cbv zeta.
  set (p' := M_Report.aggregate _ _ _ loaded).
  pose proof (one_stack_lemma shorten clean
    {| o_index := Z.to_nat i; o_meandiv := if c_mean c then Some 0%nat else None;
       o_type := if c_mean c then "mean_" ++ vt_type (nth (Z.to_nat i) (p_sampletype loaded) {| vt_type := ""; vt_unit := "" |})
                 else vt_type (nth (Z.to_nat i) (p_sampletype loaded) {| vt_type := ""; vt_unit := "" |});
       o_trim := gf_trim f |} p') as [H1 H2].
  unfold p' in *. rewrite aggregate_samples in H1, H2. split; assumption.
Qed.

Lemma default_gran_lemma : forall g, stack_view_gran g = "filefunctions" <-> (g = "" \/ g = "filefunctions").
Proof.
  intros g. unfold stack_view_gran. destruct (String.eqb_spec g ""); subst.
  - split; auto.
  - split; [auto|]. intros [H|H]; [contradiction|exact H].
Qed.
