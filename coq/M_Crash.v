(* Executable model of the decision cores of pprof that can (or could) crash on odd input:
     internal/driver/driver_focus.go  parseTagFilterRange
     internal/driver/fetch.go         locateBinaries (construction of the candidate file names)
     internal/driver/config.go        set, configure, isBoolConfig, applyURL
     internal/driver/interactive.go   interactive (one pass of the command loop), shortcuts,
                                      printCurrentOptions (only its index expression), parseCommandLine,
                                      commandHelp (only whether it reports an error)
     profile/index.go                 SampleIndexByName
   Go panics (index/slice out of range, explicit panic) are the explicit outcome [Panic].
   External behaviour is a Section variable: strconv.ParseFloat ([pf]), measurement.Scale's
   resulting unit ([scale_unit]), filepath.Base/Dir.  No proofs here. *)
From PV Require Export Base.Term Base.Str.
Open Scope string_scope.
Open Scope Z_scope.

Inductive outcome (A : Type) : Type :=
| Ok (a : A)
| Err
| Panic (site : string).
Arguments Ok {A} a.
Arguments Err {A}.
Arguments Panic {A} site.

Definition bind {A B} (o : outcome A) (f : A -> outcome B) : outcome B :=
  match o with Ok a => f a | Err => Err | Panic s => Panic s end.

Definition is_panic {A} (o : outcome A) : bool := match o with Panic _ => true | _ => false end.

(* ------------------------------------------------------------------ bytes and strings *)
Definition byte_of (a : ascii) : N := N_of_ascii a.
Definition is_digit (a : ascii) : bool := (N.leb 48 (byte_of a) && N.leb (byte_of a) 57)%N.
Definition is_alpha (a : ascii) : bool :=
  ((N.leb 65 (byte_of a) && N.leb (byte_of a) 90) || (N.leb 97 (byte_of a) && N.leb (byte_of a) 122))%N.
Definition is_sign (a : ascii) : bool := (N.eqb (byte_of a) 43 || N.eqb (byte_of a) 45)%N.
(* ASCII white space of strings.TrimSpace / strings.Fields: \t \n \v \f \r and space *)
Definition is_space (a : ascii) : bool :=
  ((N.leb 9 (byte_of a) && N.leb (byte_of a) 13) || N.eqb (byte_of a) 32)%N.
Definition is_high (a : ascii) : bool := N.leb 128 (byte_of a).

Fixpoint str_forallb (p : ascii -> bool) (s : string) : bool :=
  match s with EmptyString => true | String a r => p a && str_forallb p r end.
Fixpoint str_existsb (p : ascii -> bool) (s : string) : bool :=
  match s with EmptyString => false | String a r => p a || str_existsb p r end.

(* longest prefix of bytes satisfying p, and the rest *)
Fixpoint span (p : ascii -> bool) (s : string) : string * string :=
  match s with
  | String a r => if p a then let '(x, y) := span p r in (String a x, y) else (EmptyString, s)
  | EmptyString => (EmptyString, EmptyString)
  end.

Fixpoint drop_while (p : ascii -> bool) (s : string) : string :=
  match s with
  | String a r => if p a then drop_while p r else s
  | EmptyString => EmptyString
  end.

Definition trim_space (s : string) : string :=
  rev_string (drop_while is_space (rev_string (drop_while is_space s))).

(* strings.Fields for ASCII white space: maximal runs of non-space bytes *)
Fixpoint fields_acc (s : string) (cur : string) : list string :=
  match s with
  | EmptyString => match cur with EmptyString => [] | _ => [rev_string cur] end
  | String a r =>
      if is_space a
      then match cur with EmptyString => fields_acc r EmptyString | _ => rev_string cur :: fields_acc r EmptyString end
      else fields_acc r (String a cur)
  end.
Definition fields (s : string) : list string := fields_acc s EmptyString.

(* strings.SplitN(s, "=", 2): (before, Some after) at the first '=', or (s, None) *)
Fixpoint split_eq (s : string) : string * option string :=
  match s with
  | EmptyString => (EmptyString, None)
  | String a r =>
      if N.eqb (byte_of a) 61 then (EmptyString, Some r)
      else let '(x, y) := split_eq r in (String a x, y)
  end.

(* value[:strings.LastIndex(value, "//:")] when the sentinel occurs, else value *)
Fixpoint cut_last_comment (s : string) : option string :=
  match s with
  | EmptyString => None
  | String a r =>
      match cut_last_comment r with
      | Some x => Some (String a x)
      | None => if has_prefix "//:" s then Some EmptyString else None
      end
  end.
Definition strip_comment (s : string) : string :=
  match cut_last_comment s with Some x => x | None => s end.

Fixpoint digits_value (s : string) (acc : Z) : Z :=
  match s with
  | String a r => digits_value r (acc * 10 + (Z.of_N (byte_of a) - 48))
  | EmptyString => acc
  end.

(* strconv.ParseInt(s, 10, bits) / strconv.Atoi: optional sign, at least one digit, digits only,
   value within [lo, hi] *)
Definition parse_int (lo hi : Z) (s : string) : option Z :=
  let '(neg, body) :=
    match s with
    | String a r => if N.eqb (byte_of a) 43 then (false, r) else if N.eqb (byte_of a) 45 then (true, r) else (false, s)
    | EmptyString => (false, s)
    end in
  match body with
  | EmptyString => None
  | _ =>
      if str_forallb is_digit body then
        let v := digits_value body 0 in
        let v := if neg then - v else v in
        if (lo <=? v) && (v <=? hi) then Some v else None
      else None
  end.
Definition min_i64 : Z := -9223372036854775808.
Definition max_i64 : Z := 9223372036854775807.
Definition parse_int64 := parse_int min_i64 max_i64.
Definition atoi := parse_int min_i64 max_i64.
Definition parse_int32 := parse_int (-2147483648) 2147483647.

(* strconv.ParseBool *)
Definition parse_bool (s : string) : option bool :=
  if existsb (String.eqb s) ["1"; "t"; "T"; "TRUE"; "true"; "True"] then Some true
  else if existsb (String.eqb s) ["0"; "f"; "F"; "FALSE"; "false"; "False"] then Some false
  else None.

(* driver.stringToBool (commands.go:452) *)
Definition string_to_bool (s : string) : option bool :=
  let l := to_lower s in
  if existsb (String.eqb l) ["true"; "t"; "yes"; "y"; "1"; ""] then Some true
  else if existsb (String.eqb l) ["false"; "f"; "no"; "n"; "0"] then Some false
  else None.

(* s[:n] and s[n:] with Go's bounds check *)
Definition slice_to (s : string) (n : nat) : outcome string :=
  if (n <=? String.length s)%nat then Ok (take n s) else Panic "slice bounds out of range [:n]".
Definition slice_from (s : string) (n : nat) : outcome string :=
  if (n <=? String.length s)%nat then Ok (drop n s) else Panic "slice bounds out of range [n:]".

(* l[i] with Go's bounds check *)
Definition index {A} (l : list A) (i : nat) : outcome A :=
  match nth_error l i with Some a => Ok a | None => Panic "index out of range" end.

(* ------------------------------------------------------------------ parseTagFilterRange *)
(* tagFilterRangeRx = ([+-]?[[:digit:]]+)([[:alpha:]]+)?  -- leftmost match in s:
   [whole; number; unit] (FindStringSubmatch) and the text after the match *)
Definition starts_with_digit (s : string) : bool :=
  match s with String a _ => is_digit a | EmptyString => false end.

Fixpoint rx_find (s : string) : option (list string * string) :=
  match s with
  | EmptyString => None
  | String a r =>
      if is_digit a then
        let '(ds, r1) := span is_digit s in
        let '(us, r2) := span is_alpha r1 in
        Some ([ds ++ us; ds; us], r2)
      else if is_sign a && starts_with_digit r then
        let '(ds, r1) := span is_digit r in
        let '(us, r2) := span is_alpha r1 in
        Some ([String a ds ++ us; String a ds; us], r2)
      else rx_find r
  end.

(* FindAllStringSubmatch(filter, 2) *)
Definition rx_find_all2 (s : string) : list (list string) :=
  match rx_find s with
  | None => []
  | Some (m1, rest) =>
      match rx_find rest with
      | None => [m1]
      | Some (m2, _) => [m1; m2]
      end
  end.

Inductive tagfilter :=
| TFNil                                   (* not a numeric range: the caller treats the value as regexps *)
| TFEq (v : Z) (u : string)
| TFGe (v : Z) (u : string)
| TFLe (v : Z) (u : string)
| TFRange (v1 v2 : Z) (u : string).

Section TagRange.
  (* unit name returned by measurement.Scale(value, from, to) *)
  Variable scale_unit : Z -> string -> string -> string.

  Definition parse_tag_filter_range (filter : string) : outcome tagfilter :=
    let ranges := rx_find_all2 filter in
    match ranges with
    | [] => Ok TFNil
    | _ =>
      bind (index ranges 0) (fun r0 =>
      bind (index r0 1) (fun num0 =>
      match parse_int64 num0 with
      | None => Ok TFNil            (* out of int64 range (was: panic, F5) *)
      | Some v =>
        bind (index r0 2) (fun u0 =>
        let unit := scale_unit v u0 u0 in
        if (List.length ranges =? 1)%nat then
          bind (index r0 0) (fun m =>
          if String.eqb filter m then Ok (TFEq v unit)
          else if String.eqb filter (m ++ ":") then Ok (TFGe v unit)
          else if String.eqb filter (":" ++ m) then Ok (TFLe v unit)
          else Ok TFNil)
        else
          bind (index r0 0) (fun m0 =>
          bind (index ranges 1) (fun r1 =>
          bind (index r1 0) (fun m1 =>
          if negb (String.eqb filter (m0 ++ ":" ++ m1)) then Ok TFNil
          else
            bind (index r1 1) (fun num1 =>
            match parse_int64 num1 with
            | None => Ok TFNil      (* out of int64 range (was: panic, F5) *)
            | Some v2 =>
              bind (index r1 2) (fun u1 =>
              let unit2 := scale_unit v2 u1 unit in
              if negb (String.eqb unit unit2) then Ok TFNil
              else Ok (TFRange v v2 unit))
            end)))))
      end))
    end.
End TagRange.

(* ------------------------------------------------------------------ locateBinaries *)
Section Locate.
  Variable path_base path_dir : string -> string.   (* filepath.Base, filepath.Dir *)

  (* the candidate names tried for one mapping under one search-path entry, as the argument
     lists of filepath.Join; [globbed] are the matches of filepath.Glob over path/buildid *)
  Definition locate_candidates (path file buildid : string) (globbed : list string)
    : outcome (list (list string)) :=
    let base := if String.eqb file "" then "" else path_base file in
    let dir := if String.eqb file "" then "" else path_dir file in
    bind (if String.eqb buildid "" then Ok []
          else
            bind (if (2 <? String.length buildid)%nat
                  then bind (slice_to buildid 2) (fun a =>
                       bind (slice_from buildid 2) (fun b => Ok [[path; a; b ++ ".debug"]]))
                  else Ok [])
                 (fun llvm =>
                    Ok ([[path; buildid; base]] ++ map (fun g => [g]) globbed ++ [[path; file; buildid]] ++ llvm)%list))
         (fun byid =>
            Ok (byid ++
                (if String.eqb file "" then []
                 else [[path; base]; [path; file]; [path; (file ++ ".debug")%string];
                       [path; dir; ".debug"; (base ++ ".debug")%string];
                       [path; "usr"; "lib"; "debug"; dir; (base ++ ".debug")%string]]))%list).
End Locate.

(* ------------------------------------------------------------------ config.go *)
Inductive kind := KString | KInt | KFloat | KBool | KUnsupported.

Record cfield := {
  cf_name : string; cf_url : string; cf_kind : kind; cf_choices : list string;
  cf_default : term   (* TS s | TZ n | float as exact rational TL [TZ num; TZ den] | bool TZ 0/1 *)
}.

(* a config value: one term per field, in configFields order *)
Definition config := list term.

Fixpoint set_nth (cfg : config) (i : nat) (v : term) : config :=
  match cfg, i with
  | [], _ => []
  | _ :: r, O => v :: r
  | x :: r, S j => x :: set_nth r j v
  end.

Section Config.
  Variable flds : list cfield.
  Variable pf : string -> option term.     (* strconv.ParseFloat(value, 64): None = error *)

  Definition default_config : config := map cf_default flds.

  (* configFieldMap[name]: the field called name, or having name among its choices *)
  Fixpoint lookup_from (l : list cfield) (i : nat) (name : string) : option (nat * cfield) :=
    match l with
    | [] => None
    | f :: r =>
        if String.eqb (cf_name f) name || existsb (String.eqb name) (cf_choices f) then Some (i, f)
        else lookup_from r (S i) name
    end.
  Definition lookup (name : string) : option (nat * cfield) := lookup_from flds O name.

  Definition is_configurable (name : string) : bool :=
    match lookup name with Some _ => true | None => false end.

  Definition is_bool_config (name : string) : bool :=
    match lookup name with
    | None => false
    | Some (_, f) =>
        if negb (String.eqb name (cf_name f)) then true
        else match cf_kind f with KBool => true | _ => false end
    end.

  (* the value config.set stores for field f, or its error *)
  Definition set_value (f : cfield) (value : string) : outcome term :=
    match cf_kind f with
    | KString =>
        match cf_choices f with
        | [] => Ok (TS value)
        | cs => if existsb (String.eqb value) cs then Ok (TS value) else Err
        end
    | KInt => match atoi value with Some z => Ok (TZ z) | None => Err end
    | KFloat => match pf value with Some t => Ok t | None => Err end
    | KBool => match string_to_bool value with Some b => Ok (of_bool b) | None => Err end
    | KUnsupported => Panic "unsupported config field type"
    end.

  Definition config_set (cfg : config) (i : nat) (f : cfield) (value : string) : outcome config :=
    bind (set_value f value) (fun v => Ok (set_nth cfg i v)).

  (* configure(name, value) on the current config *)
  Definition configure (cfg : config) (name value : string) : outcome config :=
    match lookup name with
    | None => Err
    | Some (i, f) =>
        if String.eqb (cf_name f) name then config_set cfg i f value
        else match parse_bool value with
             | Some true => config_set cfg i f name
             | _ => Err
             end
    end.

  Fixpoint assoc (k : string) (l : list (string * string)) : string :=
    match l with
    | [] => ""
    | (k', v) :: r => if String.eqb k k' then v else assoc k r
    end.

  (* cfg.applyURL(params); params.Get = first value or "" *)
  Fixpoint apply_url_from (l : list cfield) (i : nat) (params : list (string * string)) (cfg : config)
    : outcome config :=
    match l with
    | [] => Ok cfg
    | f :: r =>
        let value := if String.eqb (cf_url f) "" then "" else assoc (cf_url f) params in
        if String.eqb value "" then apply_url_from r (S i) params cfg
        else bind (config_set cfg i f value) (fun cfg' => apply_url_from r (S i) params cfg')
    end.
  Definition apply_url (params : list (string * string)) (cfg : config) : outcome config :=
    apply_url_from flds O params cfg.

  (* direct field assignment by Go field (vcopy.NodeCount = ..): found by config name *)
  Fixpoint index_of_name (l : list cfield) (i : nat) (name : string) : option nat :=
    match l with
    | [] => None
    | f :: r => if String.eqb (cf_name f) name then Some i else index_of_name r (S i) name
    end.
  Definition assign (cfg : config) (name : string) (v : term) : config :=
    match index_of_name flds O name with Some i => set_nth cfg i v | None => cfg end.
  Definition field_value (cfg : config) (name : string) : term :=
    match index_of_name flds O name with Some i => nth i cfg (TL []) | None => TL [] end.

  (* ---------------------------------------------------------------- interactive.go *)
  Variable cmds : list (string * bool).   (* pprofCommands: name -> hasParam *)
  Variable helpkeys : list string.        (* keys of configHelp *)
  Variable stypes : list string.          (* p.SampleType[i].Type *)
  Variable default_stype : string.        (* p.DefaultSampleType *)

  Fixpoint find_cmd (l : list (string * bool)) (name : string) : option bool :=
    match l with
    | [] => None
    | (n, hp) :: r => if String.eqb n name then Some hp else find_cmd r name
    end.

  (* tailDigitsRE.FindString(name): the maximal run of digits at the end *)
  Definition tail_digits (name : string) : string :=
    rev_string (fst (span is_digit (rev_string name))).

  Definition cat_regex (a b : string) : string :=
    if negb (String.eqb a "") && negb (String.eqb b "") then a ++ "|" ++ b else a ++ b.

  (* the argument loop of parseCommandLine; None = "unexpected end of line after >" *)
  Fixpoint pcl_args (args : list string) (cfg : config) (focus ignore : string)
    : outcome (config * string * string) :=
    match args with
    | [] => Ok (cfg, focus, ignore)
    | t :: r =>
        match parse_int32 t with
        | Some n => pcl_args r (assign cfg "nodecount" (TZ n)) focus ignore
        | None =>
            match t with
            | EmptyString => Panic "index out of range: t[0] of an empty token"
            | String a rest =>
                if N.eqb (byte_of a) 62 (* '>' *) then
                  match rest with
                  | EmptyString =>
                      match r with
                      | [] => Err
                      | o :: r' => pcl_args r' (assign cfg "output" (TS o)) focus ignore
                      end
                  | _ => pcl_args r (assign cfg "output" (TS rest)) focus ignore
                  end
                else if N.eqb (byte_of a) 45 (* '-' *) then
                  if String.eqb t "--cum" || String.eqb t "-cum"
                  then pcl_args r (assign cfg "sort" (TS "cum")) focus ignore
                  else pcl_args r cfg focus (cat_regex ignore rest)
                else pcl_args r cfg (cat_regex focus t) ignore
            end
        end
    end.

  (* parseCommandLine after the command has been looked up: c = pprofCommands[name] (hasParam) *)
  Definition pcl_body (name : string) (args : list string) (c : option bool) (cfg : config)
    : outcome (list string * config) :=
    match c with
    | None => Err       (* "did you mean" or "unrecognized command" *)
    | Some hp =>
        bind (if hp then match args with [] => Err | a :: r => Ok ([name; a], r) end
              else Ok ([name], args))
             (fun ca =>
        bind (pcl_args (snd ca) cfg "" "") (fun r =>
          let vcopy := fst (fst r) in
          let focus := snd (fst r) in
          let ignore := snd r in
          let vcopy :=
            if String.eqb name "tags" then
              let v := if String.eqb focus "" then vcopy else assign vcopy "tagfocus" (TS focus) in
              if String.eqb ignore "" then v else assign v "tagignore" (TS ignore)
            else
              let v := if String.eqb focus "" then vcopy else assign vcopy "focus" (TS focus) in
              if String.eqb ignore "" then v else assign v "ignore" (TS ignore) in
          let vcopy :=
            if term_eqb (field_value vcopy "nodecount") (TZ (-1)) && (String.eqb name "text" || String.eqb name "top")
            then assign vcopy "nodecount" (TZ 10) else vcopy in
          Ok (fst ca, vcopy)))
    end.

  (* parseCommandLine(input) with currentConfig() = cfg *)
  Definition parse_command_line (input : list string) (cfg : config) : outcome (list string * config) :=
    match input with
    | [] => Panic "slice bounds out of range: input[:1] of no tokens"
    | name0 :: args0 =>
        match find_cmd cmds name0 with
        | Some hp => pcl_body name0 args0 (Some hp) cfg
        | None =>
            (* attempt splitting digits on abbreviated commands (top10) *)
            let d := tail_digits name0 in
            if negb (String.eqb d "") && negb (String.eqb d name0) then
              let name := take (String.length name0 - String.length d) name0 in
              pcl_body name (d :: args0) (find_cmd cmds name) cfg
            else pcl_body name0 args0 None cfg
        end
    end.

  (* profile.SampleIndexByName *)
  Fixpoint index_of_str (l : list string) (i : Z) (p : string -> bool) : option Z :=
    match l with
    | [] => None
    | x :: r => if p x then Some i else index_of_str r (i + 1) p
    end.
  Definition sample_index_by_name (s : string) : option Z :=
    if String.eqb s "" then
      match (if String.eqb default_stype "" then None else index_of_str stypes 0 (String.eqb default_stype)) with
      | Some i => Some i
      | None => Some (Z.of_nat (List.length stypes) - 1)
      end
    else
      match atoi s with
      | Some i => if (i <? 0) || (Z.of_nat (List.length stypes) <=? i) then None else Some i
      | None =>
          let no_inuse := trim_prefix "inuse_" s in
          index_of_str stypes 0 (fun t => String.eqb t s || String.eqb t no_inuse)
      end.

  (* shortcuts: the writes to the map in order; the last write to a key wins *)
  Definition shortcut_writes : list (string * list string) :=
    (":", ["focus="; "ignore="; "hide="; "tagfocus="; "tagignore="]) ::
    flat_map (fun t => let c := "sample_index=" ++ t in
                       [(t, [c]); ("total_" ++ t, ["mean=0"; c]); ("mean_" ++ t, ["mean=1"; c])]) stypes.
  Fixpoint last_write (l : list (string * list string)) (k : string) (acc : option (list string)) : option (list string) :=
    match l with
    | [] => acc
    | (k', v) :: r => last_write r k (if String.eqb k k' then Some v else acc)
    end.
  Definition expand (input : string) : list string :=
    let input := trim_space input in
    match last_write shortcut_writes input None with
    | Some r => r
    | None => [input]
    end.

  Inductive event :=
  | ELine                                       (* UI.ReadLine returned a line *)
  | EErr                                        (* UI.PrintErr *)
  | EReport (cmd : list string) (cfg : config). (* generateReport(copy, cmd, cfg, o) *)

  Inductive step :=
  | SCont (cfg : config) (evs : list event)
  | SQuit (cfg : config) (evs : list event)
  | SPanic (evs : list event) (site : string).

  (* printCurrentOptions evaluates st[len(st)-1] for the sample_index line when its value is "" *)
  Definition options_index_panics (cfg : config) : bool :=
    match stypes with
    | [] => existsb (fun f => String.eqb (cf_name f) "sample_index" &&
                               match cf_choices f with [] => true | _ => false end) flds
            && term_eqb (field_value cfg "sample_index") (TS "")
    | _ => false
    end.

  (* commandHelp(args): does it PrintErr? *)
  Definition help_unknown (args : string) : bool :=
    if String.eqb args "" then false
    else match find_cmd cmds args with
         | Some _ => false
         | None => negb (existsb (String.eqb args) helpkeys)
         end.

  (* the body of the loop "for _, input := range shortcuts.expand(input)" for one input *)
  Definition process_input (cfg : config) (input : string) : step :=
    let '(lhs, rhs) := split_eq input in
    let name := trim_space lhs in
    let value := match rhs with Some v => trim_space (strip_comment v) | None => "" end in
    if is_configurable name then
      if match rhs with None => negb (is_bool_config name) | Some _ => false end
      then SCont cfg [EErr]
      else
        let checked :=
          if String.eqb name "sample_index" then
            match sample_index_by_name value with
            | None => Err
            | Some i =>
                if (i <? 0) || (Z.of_nat (List.length stypes) <=? i) then Err
                else index stypes (Z.to_nat i)
            end
          else Ok value in
        match checked with
        | Err => SCont cfg [EErr]
        | Panic s => SPanic [] s
        | Ok value =>
            match configure cfg name value with
            | Ok cfg' => SCont cfg' []
            | Err => SCont cfg [EErr]
            | Panic s => SPanic [] s
            end
        end
    else
      match fields input with
      | [] => SCont cfg []
      | t0 :: rest =>
          if String.eqb t0 "o" || String.eqb t0 "options" then
            if options_index_panics cfg then SPanic [] "index out of range [-1]" else SCont cfg []
          else if String.eqb t0 "exit" || String.eqb t0 "quit" || String.eqb t0 "q" then SQuit cfg []
          else if String.eqb t0 "help" then
            SCont cfg (if help_unknown (concat_with " " rest) then [EErr] else [])
          else
            match parse_command_line (t0 :: rest) cfg with
            | Ok (cmd, vcopy) => SCont cfg [EReport cmd vcopy]
            | Err => SCont cfg [EErr]
            | Panic s => SPanic [] s
            end
      end.

  Fixpoint process_inputs (cfg : config) (inputs : list string) (acc : list event) : step :=
    match inputs with
    | [] => SCont cfg acc
    | i :: r =>
        match process_input cfg i with
        | SCont cfg' evs => process_inputs cfg' r (acc ++ evs)%list
        | SQuit cfg' evs => SQuit cfg' (acc ++ evs)%list
        | SPanic evs s => SPanic (acc ++ evs)%list s
        end
    end.

  (* the whole loop over the lines the UI delivers; end of input ends the session *)
  Fixpoint session (cfg : config) (lines : list string) (acc : list event) : step :=
    match lines with
    | [] => SCont cfg acc
    | l :: r =>
        match process_inputs cfg (expand l) (acc ++ [ELine])%list with
        | SCont cfg' acc' => session cfg' r acc'
        | other => other
        end
    end.
End Config.

(* ------------------------------------------------------------------ internal/report/source.go
   sourcePrinter.functions (source.go:716) walks the sorted line numbers of a file and merges a line
   into the preceding function when  uint64(l) - uint64(last.end) < mergeLimit  (unsigned distance:
   repaired, the signed subtraction used to wrap for lines 2^63 or more apart -- F25);
   generateFile (source.go:663) then visits EVERY line number from begin to end. *)
Definition wrap64 (z : Z) : Z := (z + 9223372036854775808) mod 18446744073709551616 - 9223372036854775808.
Definition merge_limit : Z := 20.
Definition merges (last_end l : Z) : bool := (l - last_end) mod 18446744073709551616 <? merge_limit.

(* [begin, end) ranges of the lines of one function name, lines ascending *)
Fixpoint merge_lines (cur : option (Z * Z)) (lines : list Z) : list (Z * Z) :=
  match lines with
  | [] => match cur with Some r => [r] | None => [] end
  | l :: r =>
      match cur with
      | None => merge_lines (Some (l, wrap64 (l + 1))) r
      | Some (b, e) =>
          if merges e l then merge_lines (Some (b, wrap64 (l + 1))) r
          else (b, e) :: merge_lines (Some (l, wrap64 (l + 1))) r
      end
  end.

(* iterations of  for l := fn.begin; l < fn.end; l++ *)
Definition visits (r : Z * Z) : Z := Z.max 0 (snd r - fst r).

(* F25: two line numbers 2^63 or more apart (decidable class predicate; lines ascending) *)
Definition in_F25 (lines : list Z) : bool :=
  match lines with
  | [] => false
  | l :: r => 9223372036854775808 <=? (last r l - l - 1)
  end.

(* ------------------------------------------------------------------ internal/symbolizer/symbolizer.go
   Symbolizer.Symbolize parses the ':'-separated, lower-cased mode; demangleFunction then calls
   demanglerModeToOptions, whose final statement is panic("unknown demanglerMode ..."). *)
Fixpoint split_colon_acc (s cur : string) : list string :=
  match s with
  | EmptyString => [rev_string cur]
  | String a r =>
      if N.eqb (byte_of a) 58 then rev_string cur :: split_colon_acc r EmptyString
      else split_colon_acc r (String a cur)
  end.
Definition split_colon (s : string) : list string := split_colon_acc s EmptyString.

Record symstate := {
  ss_remote : bool; ss_local : bool; ss_fast : bool; ss_force : bool;
  ss_demangle : string;     (* demanglerMode *)
  ss_msgs : Z               (* "ignoring unrecognized symbolization option" messages *)
}.
Definition sym_init : symstate :=
  {| ss_remote := true; ss_local := true; ss_fast := false; ss_force := false; ss_demangle := ""; ss_msgs := 0 |}.

(* the option loop; the bool says "returned nil at none/no" *)
Fixpoint sym_opts (opts : list string) (st : symstate) : bool * symstate :=
  match opts with
  | [] => (false, st)
  | o :: r =>
      if String.eqb o "" then sym_opts r st
      else if String.eqb o "none" || String.eqb o "no" then (true, st)
      else if String.eqb o "local" then
        sym_opts r {| ss_remote := false; ss_local := true; ss_fast := ss_fast st; ss_force := ss_force st;
                      ss_demangle := ss_demangle st; ss_msgs := ss_msgs st |}
      else if String.eqb o "fastlocal" then
        sym_opts r {| ss_remote := false; ss_local := true; ss_fast := true; ss_force := ss_force st;
                      ss_demangle := ss_demangle st; ss_msgs := ss_msgs st |}
      else if String.eqb o "remote" then
        sym_opts r {| ss_remote := true; ss_local := false; ss_fast := ss_fast st; ss_force := ss_force st;
                      ss_demangle := ss_demangle st; ss_msgs := ss_msgs st |}
      else if String.eqb o "force" then
        sym_opts r {| ss_remote := ss_remote st; ss_local := ss_local st; ss_fast := ss_fast st; ss_force := true;
                      ss_demangle := ss_demangle st; ss_msgs := ss_msgs st |}
      else
        let d := trim_prefix "demangle=" o in
        if String.eqb d "full" || String.eqb d "none" || String.eqb d "templates" then
          sym_opts r {| ss_remote := ss_remote st; ss_local := ss_local st; ss_fast := ss_fast st; ss_force := true;
                        ss_demangle := d; ss_msgs := ss_msgs st |}
        else if String.eqb d "default" then sym_opts r st
        else
          sym_opts r {| ss_remote := ss_remote st; ss_local := ss_local st; ss_fast := ss_fast st; ss_force := ss_force st;
                        ss_demangle := ss_demangle st; ss_msgs := ss_msgs st + 1 |}
  end.

(* demanglerModeToOptions: the option set, named; anything else is the explicit panic *)
Definition demangler_mode_to_options (m : string) : outcome string :=
  if String.eqb m "" then Ok "default"
  else if String.eqb m "templates" then Ok "templates"
  else if String.eqb m "full" then Ok "full"
  else if String.eqb m "none" then Ok "none"
  else Panic "unknown demanglerMode".

(* Symbolize(mode): (messages, demangling applied to the function names) *)
Definition symbolize_mode (mode : string) : outcome (Z * string) :=
  let '(early, st) := sym_opts (split_colon (to_lower mode)) sym_init in
  if early then Ok (ss_msgs st, "none")      (* returned before any demangling *)
  else bind (demangler_mode_to_options (ss_demangle st)) (fun label => Ok (ss_msgs st, label)).

(* ------------------------------------------------------------------ graph.TrimTree's precondition
   graph.go:469 TrimTree panics ("TrimTree only works on trees") on a node with two in-edges.  Two places
   of internal/report decide independently whether call_tree is honoured for an output format:
   the guard of the g.TrimTree calls in newTrimmedGraph ([sitef]) and the CallTree field of the
   graph.Options newGraph hands to graph.New ([buildf]); both sets are regenerated from the source
   (Gen/Gen_C09CallTree.v).  A graph built as a call tree keys its nodes by path: one in-edge at most. *)
Definition in_formats (fmt : string) (l : list string) : bool := existsb (String.eqb fmt) l.
Definition incl_b (a b : list string) : bool := forallb (fun x => in_formats x b) a.

Definition built_as_tree (buildf : list string) (call_tree : bool) (fmt : string) : bool :=
  call_tree && in_formats fmt buildf.

(* one TrimTree call site: reached when its guard holds and trimming dropped a node *)
Definition trim_site_outcome (buildf sitef : list string) (call_tree : bool) (fmt : string)
           (dropped two_callers : bool) : outcome unit :=
  if call_tree && in_formats fmt sitef && dropped then
    if built_as_tree buildf call_tree fmt then Ok tt
    else if two_callers then Panic "TrimTree only works on trees" else Ok tt
  else Ok tt.

(* ------------------------------------------------------------------ path/filepath on Unix (lexical)
   Clean, Join, Base, Dir as locateBinaries uses them; byte-wise, '/' is the only separator. *)
Definition is_slash (a : ascii) : bool := N.eqb (byte_of a) 47.

Fixpoint split_slash_acc (s cur : string) : list string :=
  match s with
  | EmptyString => [rev_string cur]
  | String a r => if is_slash a then rev_string cur :: split_slash_acc r EmptyString
                  else split_slash_acc r (String a cur)
  end.
Definition split_slash (s : string) : list string := split_slash_acc s EmptyString.

(* the element stack of Clean (top first): "" and "." vanish, ".." removes the element before it --
   except at the root (dropped) and at the start of a relative path (kept) *)
Fixpoint clean_elems (rooted : bool) (els : list string) (stack : list string) : list string :=
  match els with
  | [] => rev stack
  | e :: r =>
      if String.eqb e "" || String.eqb e "." then clean_elems rooted r stack
      else if String.eqb e ".." then
        match stack with
        | [] => if rooted then clean_elems rooted r [] else clean_elems rooted r [".."]
        | top :: rest => if String.eqb top ".." then clean_elems rooted r (".." :: stack)
                         else clean_elems rooted r rest
        end
      else clean_elems rooted r (e :: stack)
  end.

Definition path_clean (p : string) : string :=
  match p with
  | EmptyString => "."
  | String a _ =>
      let rooted := is_slash a in
      let body := concat_with "/" (clean_elems rooted (split_slash p) []) in
      if rooted then "/" ++ body else if String.eqb body "" then "." else body
  end.

(* filepath.Join: empty elements before the first non-empty one are dropped, the rest joined and cleaned *)
Fixpoint path_join (elems : list string) : string :=
  match elems with
  | [] => ""
  | e :: r => if String.eqb e "" then path_join r else path_clean (concat_with "/" elems)
  end.

Definition not_slash (a : ascii) : bool := negb (is_slash a).

Definition path_base (p : string) : string :=
  match p with
  | EmptyString => "."
  | _ =>
      let b := rev_string (fst (span not_slash (drop_while is_slash (rev_string p)))) in
      if String.eqb b "" then "/" else b
  end.

Definition path_dir (p : string) : string :=
  path_clean (rev_string (snd (span not_slash (rev_string p)))).

(* ------------------------------------------------------------------ F38: divide_by whose reciprocal overflows
   driver.reportOptions rejects divide_by = 0 only; report.Options.Ratio = 1/divide_by is +Inf in float64 for a
   positive divisor below 2^-1024 (subnormal), stacks.go:89 multiplies the flame graph's Scale by it and
   json.Marshal refuses +Inf: the /flamegraph handler answers 500 "error serializing stacks".
   Decidable class predicate on the exact value (num # den) of the divisor. *)
Definition reciprocal_overflows (num den : Z) : bool :=
  (0 <? num) && (0 <? den) && (num * 2 ^ 1024 <? den).

(* ------------------------------------------------------------------ the "Active filters" legend (glue)
   driver.reportOptions collects name=value for the non-empty filter options, in this order;
   report.legendActiveFilters (report.go) prints them under "Active filters:", each cut to 80 BYTES
   (s[:80] + "…") when longer. *)
Definition filter_names : list string :=
  ["focus"; "ignore"; "hide"; "show"; "show_from"; "tagfocus"; "tagignore"; "tagshow"; "taghide"].

Definition ellipsis : string := B [226; 128; 166].   (* U+2026 in UTF-8 *)

Definition legend_line (s : string) : outcome string :=
  if (80 <? String.length s)%nat
  then bind (slice_to s 80) (fun p => Ok ("   " ++ p ++ ellipsis))
  else Ok ("   " ++ s).

Fixpoint legend_lines (l : list string) : outcome (list string) :=
  match l with
  | [] => Ok []
  | s :: r => bind (legend_line s) (fun x => bind (legend_lines r) (fun xs => Ok (x :: xs)))
  end.

(* legendActiveFilters: no lines at all when no filter is active (reportLabels checks len > 0) *)
Definition legend_active_filters (active : list string) : outcome (list string) :=
  match active with
  | [] => Ok []
  | _ => bind (legend_lines active) (fun ls => Ok ("Active filters:" :: ls))
  end.

Section Legend.
  Variable flds : list cfield.
  (* reportOptions.addFilter over the configuration of the report *)
  Definition active_filters (cfg : config) : list string :=
    flat_map (fun n => match field_value flds cfg n with
                       | TS "" => []
                       | TS v => [n ++ "=" ++ v]
                       | _ => []
                       end) filter_names.
End Legend.

(* the same for a command line: the last -name=value (or --name=value) of each filter option *)
Fixpoint last_flag (name : string) (args : list string) (acc : string) : string :=
  match args with
  | [] => acc
  | a :: r =>
      let a1 := trim_prefix "-" a in
      let a2 := trim_prefix "-" a1 in
      if has_prefix (name ++ "=") a2 then last_flag name r (drop (String.length name + 1) a2)
      else last_flag name r acc
  end.
Definition cli_active_filters (args : list string) : list string :=
  flat_map (fun n => let v := last_flag n args "" in if String.eqb v "" then [] else [n ++ "=" ++ v]) filter_names.

(* Unicode white space as UTF-8 byte sequences (what strings.TrimSpace / Fields remove beyond ASCII);
   over-approximated: every E2 80 xx counts *)
Fixpoint has_unicode_space (s : string) : bool :=
  match s with
  | EmptyString => false
  | String _ r =>
      has_prefix (B [194; 133]) s || has_prefix (B [194; 160]) s || has_prefix (B [225; 154; 128]) s ||
      has_prefix (B [226; 128]) s || has_prefix (B [226; 129; 159]) s || has_prefix (B [227; 128; 128]) s ||
      has_unicode_space r
  end.

(* ------------------------------------------------------------------ limiting the number of nodes (glue + graph)
   report.newTrimmedGraph:  if nodeCount := o.NodeCount; nodeCount > 0 { ... g.SelectTopNodes(nodeCount, ..) ... }
   graph.selectTopNodes:    if maxNodes > len(g.Nodes) { maxNodes = len(g.Nodes) }; return g.Nodes[:maxNodes]
   (the visual-mode adjustment only ever sets maxNodes to i+1 for an index i of g.Nodes).
   The slice expression panics for a negative bound: only the caller's guard keeps negative counts away. *)
Definition select_top_nodes (len max_nodes : Z) : outcome Z :=
  let m := if len <? max_nodes then len else max_nodes in
  if (0 <=? m) && (m <=? len) then Ok m else Panic "slice bounds out of range [:maxNodes]".

(* [guard] is the caller's test on the node count; the code has [fun n => 0 <? n] *)
Definition limit_nodes (guard : Z -> bool) (node_count len : Z) : outcome Z :=
  if guard node_count then select_top_nodes len node_count else Ok len.

Definition node_count_guard (n : Z) : bool := 0 <? n.
