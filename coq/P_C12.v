(* C12 -- Symbolization only adds names; measurements are untouched.
   Property theorems only: each is closed by [exact] of a lemma from L_Symbolize and followed by
   Print Assumptions.  They hold for ALL modes, ALL profiles, ALL answer scripts of the ObjTool /
   symbolz plug-ins (errors at any call included) and ALL demanglers / URL classifiers ([env]).
   [symbolize mode e script p = Out p' err calls]: Symbolizer.Symbolize(mode, e_srcs e, p) left the
   profile as p' (changed in place, also when it returns an error: err = true) after making
   the plug-in calls [calls]. *)
From PV Require Import M_Symbolize M_SymbolizeFetch S_Symbolize L_Symbolize L_SymbolizeValid L_SymbolizeCheck L_SymbolizeFlags L_SymbolizeFetch L_SymbolizeDrop.
Open Scope Z_scope.

(* the modelled code has no reachable panic (demanglerModeToOptions is only given modes it knows) *)
Theorem symbolize_never_panics : forall mode e script p, symbolize mode e script p <> OPanic.
Proof. exact symbolize_no_panic_lemma. Qed.
Print Assumptions symbolize_never_panics.

(* the frame condition: samples, header, location ids/addresses/mapping refs, mapping
   ids/ranges/files/build ids are untouched; existing functions keep id/system name/file/start line *)
Theorem symbolize_frame : forall mode e script p p' err calls,
  symbolize mode e script p = Out p' err calls -> frame_ok p p'.
Proof. exact symbolize_frame_lemma. Qed.
Print Assumptions symbolize_frame.

Corollary functions_only_appended : forall mode e script p p' err calls,
  symbolize mode e script p = Out p' err calls ->
  extended (fun f f' => fun_key f' = fun_key f) (p_function p) (p_function p').
Proof. intros mode e script p p' err calls H. exact (fo_funs _ _ (symbolize_frame_lemma _ _ _ _ _ _ _ H)). Qed.
Print Assumptions functions_only_appended.

Corollary sample_count_values_stacks_unchanged : forall mode e script p p' err calls,
  symbolize mode e script p = Out p' err calls ->
  p_sample p' = p_sample p /\ map l_addr (p_location p') = map l_addr (p_location p) /\
  map (fun m => (m_start m, m_limit m, m_offset m)) (p_mapping p') = map (fun m => (m_start m, m_limit m, m_offset m)) (p_mapping p).
Proof. exact symbolize_frame_projections. Qed.
Print Assumptions sample_count_values_stacks_unchanged.

(* line information is only attached: a location is returned untouched or with at least one line *)
Theorem lines_only_attached : forall mode e script p p' err calls,
  symbolize mode e script p = Out p' err calls -> lines_attached p p'.
Proof. exact symbolize_lines_attached_lemma. Qed.
Print Assumptions lines_only_attached.

(* the has-symbols flags of a mapping are only ever raised *)
Theorem flags_only_raised : forall mode e script p p' err calls,
  symbolize mode e script p = Out p' err calls -> flags_raised p p'.
Proof. exact symbolize_flags_lemma. Qed.
Print Assumptions flags_only_raised.

(* mappings that already carry function names, and the locations in them, are left alone unless
   force is requested *)
Theorem symbolized_mappings_left_alone_unless_force : forall mode e script p p' err calls,
  force_requested mode = false -> symbolize mode e script p = Out p' err calls -> left_alone p p'.
Proof. exact symbolize_left_alone_lemma. Qed.
Print Assumptions symbolized_mappings_left_alone_unless_force.

(* demangling never replaces a non-empty name by an empty one (for every demangler that itself
   never answers a non-empty name by the empty one) *)
Theorem demangle_keeps_nonempty : forall mode e script p p' err calls,
  filter_nonempty (e_filt e) -> symbolize mode e script p = Out p' err calls -> names_kept p p'.
Proof. exact symbolize_names_lemma. Qed.
Print Assumptions demangle_keeps_nonempty.

(* the result is a valid profile with unique ids, as long as the new function ids fit below 2^64 *)
Theorem symbolize_valid : forall mode e script p p' err calls,
  check_valid p = true -> symbolize mode e script p = Out p' err calls -> id_headroom p p' ->
  check_valid p' = true.
Proof. exact symbolize_valid_lemma. Qed.
Print Assumptions symbolize_valid.

(* symbolz address re-basing: no wrap-around goes unnoticed *)
Theorem adjust_sound : forall a off, in_u64 a = true -> in_i64 off = true ->
  adjust a off = if in_u64 (a + off) then Some (a + off) else None.
Proof. exact adjust_sound_lemma. Qed.
Print Assumptions adjust_sound.

(* -symbolize=none / no: nothing is called, nothing changes *)
Theorem symbolize_none_changes_nothing : forall mode e script p,
  mo_none (parse_mode mode) = true -> symbolize mode e script p = Out p false [].
Proof. exact symbolize_none_lemma. Qed.
Print Assumptions symbolize_none_changes_nothing.

(* -- the decidable checkers that R_C12 evaluates on the implementation's output are sound for
      the relations the theorems above are about -- *)
Theorem frame_checker_sound : forall p p', frame_okb p p' = true -> frame_ok p p'.
Proof. exact frame_okb_sound_lemma. Qed.
Print Assumptions frame_checker_sound.

Theorem left_alone_checker_sound : forall p p', left_aloneb p p' = true -> left_alone p p'.
Proof. exact left_aloneb_sound_lemma. Qed.
Print Assumptions left_alone_checker_sound.

Theorem lines_checker_sound : forall p p', lines_attachedb p p' = true -> lines_attached p p'.
Proof. exact lines_attachedb_sound_lemma. Qed.
Print Assumptions lines_checker_sound.

Theorem flags_checker_sound : forall p p', flags_raisedb p p' = true -> flags_raised p p'.
Proof. exact flags_raisedb_sound_lemma. Qed.
Print Assumptions flags_checker_sound.

Theorem names_checker_sound : forall p p', names_keptb p p' = true -> names_kept p p'.
Proof. exact names_keptb_sound_lemma. Qed.
Print Assumptions names_checker_sound.

Theorem headroom_checker_exact : forall p p', id_headroomb p p' = true <-> id_headroom p p'.
Proof. exact id_headroomb_spec_lemma. Qed.
Print Assumptions headroom_checker_exact.

(* -- the driver's pipeline around Symbolize (fetchProfiles for one fetched profile: fake mapping,
      collectMappingSources, Symbolize, unsourceMappings, CheckValid; M_SymbolizeFetch).
      [fetch_symbolize mode e absurl script src p = FOut p3 calls]: fetchProfiles returned p3.
      [src_ok]: the fetcher reported no URL (local file) or one that url.Parse calls absolute (as
      adjustURL produces).  [in_F34]: some fetched mapping without build id already has a file that
      parses as an absolute URL (known finding F34: unsourceMappings erases that file too). -- *)
Theorem fetch_never_panics : forall mode e absurl script src p, fetch_symbolize mode e absurl script src p <> FPanic.
Proof. exact fetch_no_panic_lemma. Qed.
Print Assumptions fetch_never_panics.

Theorem fetch_frame : forall mode e absurl script src p p3 calls,
  fetch_symbolize mode e absurl script src p = FOut p3 calls ->
  src_ok absurl src -> in_F34 absurl (add_fake p) = false -> frame_ok (add_fake p) p3.
Proof. exact fetch_frame_lemma. Qed.
Print Assumptions fetch_frame.

Theorem fetch_lines_flags_valid_names : forall mode e absurl script src p p3 calls,
  fetch_symbolize mode e absurl script src p = FOut p3 calls ->
  lines_attached (add_fake p) p3 /\ flags_raised (add_fake p) p3 /\ check_valid p3 = true /\
  (filter_nonempty (e_filt e) -> names_kept (add_fake p) p3).
Proof. exact fetch_clauses_lemma. Qed.
Print Assumptions fetch_lines_flags_valid_names.

Theorem fetch_left_alone_unless_force : forall mode e absurl script src p p3 calls,
  fetch_symbolize mode e absurl script src p = FOut p3 calls ->
  force_requested mode = false -> src_ok absurl src -> in_F34 absurl (add_fake p) = false ->
  left_alone (add_fake p) p3.
Proof. exact fetch_left_alone_lemma. Qed.
Print Assumptions fetch_left_alone_unless_force.

(* with symbolization switched off the profile comes back exactly as fetched: the source URL that
   collectMappingSources wrote into file-less mappings is taken out again *)
Theorem fetch_none_returns_fetched_profile : forall mode e absurl script src p p3 calls,
  fetch_symbolize mode e absurl script src p = FOut p3 calls ->
  mo_none (parse_mode mode) = true -> src_ok absurl src -> in_F34 absurl (add_fake p) = false ->
  p3 = add_fake p /\ calls = [].
Proof. exact fetch_none_lemma. Qed.
Print Assumptions fetch_none_returns_fetched_profile.

(* the symbolizer is a plug-in (driver.Options.Sym): WHATEVER it does to the profile -- any function
   of mode, sources and profile, including one that attaches unregistered functions, reuses ids or
   lets the id counter wrap to the reserved 0 -- a profile that fetchProfiles returns passes
   CheckValid, because validity is re-checked after symbolization; and it is only returned when the
   plug-in reported no error and left consistent pointers *)
Theorem fetch_any_plugin_returns_valid : forall plug mode absurl src p p3 calls,
  fetch_generic plug mode absurl src p = FOut p3 calls -> check_valid p3 = true.
Proof. exact fetch_generic_valid_lemma. Qed.
Print Assumptions fetch_any_plugin_returns_valid.

Theorem fetch_any_plugin_returns_only_consistent : forall plug mode absurl src p p3 calls,
  fetch_generic plug mode absurl src p = FOut p3 calls ->
  exists srcs p1 p2, plug mode srcs p1 = Some (p2, false, true, calls).
Proof. exact fetch_generic_ptr_lemma. Qed.
Print Assumptions fetch_any_plugin_returns_only_consistent.

(* the pipeline with the built-in Symbolizer is the instance for that plug-in *)
Theorem fetch_builtin_is_plugin : forall mode e absurl script src p,
  fetch_symbolize mode e absurl script src p = fetch_generic (builtin_plugin e script) mode absurl src p.
Proof. exact fetch_symbolize_generic_lemma. Qed.
Print Assumptions fetch_builtin_is_plugin.

(* -- the command line (driver.PProf; M_SymbolizeFetch.fetch_cli): `pprof [-symbolize=mode] [-buildid=id]
      [-add_comment=text] [executable] source`.  [cli_input c p] = what the command line presents to
      symbolization: the fetched profile with the fake mapping when it has none, the named executable
      as file of the main mapping, the build id override. -- *)

(* naming the executable / a build id changes the file / build id of the main mapping and nothing
   else: every mapping keeps id, range and ALL FOUR has-symbols flags; locations, functions, samples
   are those fetched *)
Theorem cli_named_executable_touches_only_file_and_buildid : forall c p,
  Forall2 (fun m m' => map_key m' = map_key m \/ (m_id m' = m_id m /\ m_start m' = m_start m /\ m_limit m' = m_limit m /\ m_offset m' = m_offset m))
          (p_mapping (add_fake p)) (p_mapping (cli_input c p)) /\
  Forall2 (fun m m' => m_hasfn m' = m_hasfn m /\ m_hasfile m' = m_hasfile m /\ m_hasline m' = m_hasline m /\ m_hasinline m' = m_hasinline m)
          (p_mapping (add_fake p)) (p_mapping (cli_input c p)) /\
  p_location (cli_input c p) = p_location (add_fake p) /\ p_function (cli_input c p) = p_function (add_fake p) /\
  p_sample (cli_input c p) = p_sample (add_fake p).
Proof. exact cli_input_flags. Qed.
Print Assumptions cli_named_executable_touches_only_file_and_buildid.

Theorem cli_frame : forall e script c mode absurl src p p4 calls,
  fetch_cli (builtin_plugin e script) c mode absurl src p = FOut p4 calls ->
  src_ok absurl src -> in_F34 absurl (cli_input c p) = false ->
  frame_ok (add_comment c (cli_input c p)) p4.
Proof. exact fetch_cli_frame_lemma. Qed.
Print Assumptions cli_frame.

(* without force, mappings that carry symbols -- the main binary included, whatever executable is
   named on the command line -- and their locations come out as they went in *)
Theorem cli_left_alone_unless_force : forall e script c mode absurl src p p4 calls,
  fetch_cli (builtin_plugin e script) c mode absurl src p = FOut p4 calls ->
  force_requested mode = false -> src_ok absurl src -> in_F34 absurl (cli_input c p) = false ->
  left_alone (add_comment c (cli_input c p)) p4.
Proof. exact fetch_cli_left_alone_lemma. Qed.
Print Assumptions cli_left_alone_unless_force.

Theorem cli_any_plugin_returns_valid : forall plug c mode absurl src p p4 calls,
  fetch_cli plug c mode absurl src p = FOut p4 calls -> check_valid p4 = true.
Proof. exact fetch_cli_valid_lemma. Qed.
Print Assumptions cli_any_plugin_returns_valid.

(* pprof fails on a valid profile only when the symbol service failed (Symbolize returned an error)
   or the function ids ran out: symbol sources that answer the same function twice, empty frames,
   partial answers ... never make the command fail *)
Theorem cli_fails_only_when : forall e script c mode absurl src p calls,
  fetch_cli (builtin_plugin e script) c mode absurl src p = FErr calls -> check_valid p = true ->
  exists srcs p1 p2, check_valid p1 = true /\
    (symbolize mode (with_srcs e srcs) script p1 = Out p2 true calls \/
     (symbolize mode (with_srcs e srcs) script p1 = Out p2 false calls /\ ~ id_headroom p1 p2)).
Proof. exact fetch_cli_fails_lemma. Qed.
Print Assumptions cli_fails_only_when.

(* -- drop_frames / keep_frames: fetchProfiles calls RemoveUninteresting right after Symbolize; names
      only exist after symbolization, so this is where symbolizing could change stack depths.  With
      bare alternations of literal names (remove_uninteresting_alt = C11's Prune with whole-name
      matching): NOTHING is cut unless the whole simplified name of some function is an alternative
      of drop_frames and not of keep_frames -- a name that merely starts with / contains / ends with
      an alternative never costs a frame -- and then the pipeline is the one of the theorems above. -- *)
Theorem drop_frames_cut_nothing_unless_a_whole_name_matches : forall p,
  droppable p = false -> remove_uninteresting_alt p = p.
Proof. exact remove_uninteresting_alt_identity. Qed.
Print Assumptions drop_frames_cut_nothing_unless_a_whole_name_matches.

Theorem pipeline_with_drop_frames_is_plain_without_matching_names : forall plug c mode absurl src p,
  (forall srcs p1 p2 err ok calls, plug mode srcs p1 = Some (p2, err, ok, calls) -> droppable p2 = false) ->
  fetch_cli_ru plug c mode absurl src p = fetch_cli plug c mode absurl src p /\
  fetch_generic_ru plug mode absurl src p = fetch_generic plug mode absurl src p.
Proof. intros plug c mode absurl src p H. split; [now apply fetch_cli_ru_plain | now apply fetch_generic_ru_plain]. Qed.
Print Assumptions pipeline_with_drop_frames_is_plain_without_matching_names.

Example droppable_example :
  alt_match "malloc|free|operator new" "mallocator_run" = false /\ alt_match "malloc|free|operator new" "list_prefree_all" = false /\
  alt_match "malloc|free|operator new" "my operator new" = false /\ alt_match "malloc|free|operator new" "free" = true.
Proof. vm_compute. repeat split. Qed.

(* F34: inside the class the frame condition fails on the unchanged tree *)
Definition ex_env_f34 : env := {| e_http := fun _ => false; e_symz := fun _ => EmptyString; e_filt := fun _ s => s; e_srcs := [] |}.
Definition f34_absurl (f : string) : bool := String.eqb f "x:y".
Definition f34_profile : profile :=
  with_w empty_profile
    {| w_maps := [{| m_id := 1; m_start := 4096; m_limit := 8192; m_offset := 0; m_file := "x:y"; m_buildid := "";
                     m_hasfn := false; m_hasfile := false; m_hasline := false; m_hasinline := false |}];
       w_locs := [{| l_id := 1; l_mapping := 1; l_addr := 4100; l_lines := []; l_folded := false |}];
       w_funs := []; w_orc := {| o_script := []; o_log := [] |} |}.
Theorem fetch_frame_refuted :
  exists p3, fetch_symbolize "none" ex_env_f34 f34_absurl [] "" f34_profile = FOut p3 [] /\
             in_F34 f34_absurl (add_fake f34_profile) = true /\ ~ frame_ok (add_fake f34_profile) p3.
Proof.
  eexists. split; [vm_compute; reflexivity|]. split; [vm_compute; reflexivity|].
  intros [_ _ _ M _]. vm_compute in M. discriminate M.
Qed.
Print Assumptions fetch_frame_refuted.

(* -- non-vacuity: a concrete run satisfying every hypothesis above -- *)
Definition ex_env : env := {| e_http := fun _ => false; e_symz := fun _ => EmptyString; e_filt := fun _ s => s; e_srcs := [] |}.
Definition ex_profile : profile :=
  with_w empty_profile
    {| w_maps := [{| m_id := 1; m_start := 4096; m_limit := 8192; m_offset := 0; m_file := "/bin/app"; m_buildid := "";
                     m_hasfn := false; m_hasfile := false; m_hasline := false; m_hasinline := false |}];
       w_locs := [{| l_id := 1; l_mapping := 1; l_addr := 4100; l_lines := []; l_folded := true |}];
       w_funs := [{| f_id := 7; f_name := "<unknown>"; f_sysname := "<unknown>"; f_file := ""; f_startline := 0 |}];
       w_orc := {| o_script := []; o_log := [] |} |}.
Definition ex_script : list answer :=
  [ {| a_err := false; a_bid := ""; a_frames := []; a_body := "" |};
    {| a_err := false; a_bid := ""; a_frames := []; a_body := "" |};
    {| a_err := false; a_bid := ""; a_frames := [{| fr_func := "f"; fr_file := "a.c"; fr_line := 3; fr_col := 0; fr_start := 1 |}]; a_body := "" |} ].

Example run_example :
  exists p', symbolize "local" ex_env ex_script ex_profile
             = Out p' false [COpen "/bin/app" 4096 8192 0; CBuildID; CSourceLine 4100] /\
    map f_id (p_function p') = [7; 8] /\ map f_name (p_function p') = ["<unknown>"; "f"]%string /\
    check_valid ex_profile = true /\ check_valid p' = true /\ force_requested "local" = false.
Proof. eexists. vm_compute. repeat split. Qed.
Example fetch_example :
  exists p3, fetch_symbolize "no" ex_env (fun f => String.eqb f "http://h/debug/pprof/profile") [] "http://h/debug/pprof/profile"
               (with_maps_locs ex_profile [fake_mapping] (p_location ex_profile)) = FOut p3 [] /\
             map m_file (p_mapping p3) = [EmptyString] /\
             src_ok (fun f => String.eqb f "http://h/debug/pprof/profile") "http://h/debug/pprof/profile" /\
             in_F34 (fun f => String.eqb f "http://h/debug/pprof/profile") (with_maps_locs ex_profile [fake_mapping] (p_location ex_profile)) = false.
Proof. eexists. vm_compute. repeat split. now right. Qed.
Example filter_nonempty_example : filter_nonempty (e_filt ex_env).
Proof. intros d s H. exact H. Qed.
Example headroom_example : forall p', p_function p' = (p_function ex_profile ++ [mk_function 8 "f" "f" "a.c" 1])%list -> id_headroom ex_profile p'.
Proof. intros p' H. unfold id_headroom. rewrite H. vm_compute. reflexivity. Qed.
