(* C12 -- placeholder, replaced below *)
From PV Require Import M_Symbolize S_Symbolize.
