(* Executable model of the GLUE of the driver around the filter / prune core (C06, C11), as far as
   the two properties are observed through it:
     fetchProfiles      merge of several sources (header of the FIRST source, samples in source
                        order), RemoveUninteresting applied once, its error ignored       (fetch.go)
     generateTagRootsLeaves / addLabelNodes   pseudo frames from string labels            (tagroot.go)
     generateRawReport  tag roots/leaves FIRST, then applyFocus -- before or after report.New
                        (relative_percentages) makes no difference to the profile          (driver.go)
     interactive / web  every command / request starts from a pristine copy of the fetched profile
   and of what the reports print of a profile: proto (everything), traces (value, text labels,
   function names of the samples that have frames), top rows (flat / cum per function name).
   Sources are assumed to have pairwise disjoint ids and no identical functions / locations (then
   profile.Merge only concatenates and renumbers; the observables below carry no ids).
   No proofs here. *)
From PV Require Export M_TagFilter.
Open Scope Z_scope.

(* ---------------------------------------------------------------- fetch *)
Definition merge_sources (srcs : list profile) : profile :=
  match srcs with
  | [] => empty_profile
  | [p] => p
  | p0 :: _ =>
      {| p_sampletype := p_sampletype p0; p_defaultsampletype := p_defaultsampletype p0;
         p_sample := flat_map p_sample srcs; p_mapping := flat_map p_mapping srcs;
         p_location := flat_map p_location srcs; p_function := flat_map p_function srcs;
         p_comments := p_comments p0; p_docurl := p_docurl p0;
         p_dropframes := p_dropframes p0; p_keepframes := p_keepframes p0;   (* combineHeaders: srcs[0] *)
         p_timenanos := p_timenanos p0; p_durationnanos := p_durationnanos p0;
         p_periodtype := p_periodtype p0; p_period := p_period p0 |}
  end.

(* ---------------------------------------------------------------- addLabelNodes *)
Definition max_z {A} (f : A -> Z) (l : list A) : Z := fold_left (fun m x => Z.max m (f x)) l 0.

Record ln_state := {
  ls_tbl : list ((string * string) * Z);      (* (function name, file name) -> location id *)
  ls_fns : list function;                     (* new functions, in creation order *)
  ls_locs : list location;                    (* new locations, in creation order *)
  ls_nextloc : Z;
  ls_nextfn : Z
}.

Definition key_eqb (a b : string * string) : bool := String.eqb (fst a) (fst b) && String.eqb (snd a) (snd b).

Definition intern_loc (st : ln_state) (k : string * string) : ln_state * Z :=
  match find (fun e => key_eqb (fst e) k) (ls_tbl st) with
  | Some e => (st, snd e)
  | None =>
      let f := {| f_id := ls_nextfn st; f_name := fst k; f_sysname := ""; f_file := snd k; f_startline := 0 |} in
      let l := {| l_id := ls_nextloc st; l_mapping := 0; l_addr := 0;
                  l_lines := [ {| ln_fn := ls_nextfn st; ln_line := 0; ln_col := 0 |} ]; l_folded := false |} in
      ({| ls_tbl := (k, ls_nextloc st) :: ls_tbl st; ls_fns := (ls_fns st ++ [f])%list;
          ls_locs := (ls_locs st ++ [l])%list; ls_nextloc := ls_nextloc st + 1; ls_nextfn := ls_nextfn st + 1 |},
       ls_nextloc st)
  end.

(* formatLabelValues restricted to string labels (keys that also carry numeric labels are outside
   the model: the runner skips such cases) *)
Definition label_values (s : sample) (k : string) : list string :=
  match find (fun kv => String.eqb (fst kv) k) (s_label s) with Some kv => snd kv | None => [] end.

(* makeLabelLocs: keys are walked backwards; EVERY key yields a location, also without values *)
Definition make_label_locs (st : ln_state) (s : sample) (keys : list string) : ln_state * list Z :=
  fold_left (fun acc k =>
               let '(st1, ids) := acc in
               let '(st2, id) := intern_loc st1 (concat_with "," (label_values s k), k) in
               (st2, (ids ++ [id])%list))
            (rev keys) (st, []).

Definition add_label_nodes (p : profile) (rootkeys leafkeys : list string) : profile :=
  let st0 := {| ls_tbl := []; ls_fns := []; ls_locs := [];
                ls_nextloc := max_z l_id (p_location p) + 1; ls_nextfn := max_z f_id (p_function p) + 1 |} in
  let '(st, ss) :=
    fold_left (fun acc s =>
                 let '(st1, out) := acc in
                 let '(st2, roots) := make_label_locs st1 s rootkeys in
                 let '(st3, leaves) := make_label_locs st2 s leafkeys in
                 let s' := match (roots ++ leaves)%list with
                           | [] => s
                           | _ => set_sample_locs s (leaves ++ s_loc s ++ roots)%list
                           end in
                 (st3, (out ++ [s'])%list))
              (p_sample p) (st0, []) in
  {| p_sampletype := p_sampletype p; p_defaultsampletype := p_defaultsampletype p; p_sample := ss;
     p_mapping := p_mapping p; p_location := (p_location p ++ ls_locs st)%list;
     p_function := (p_function p ++ ls_fns st)%list; p_comments := p_comments p; p_docurl := p_docurl p;
     p_dropframes := p_dropframes p; p_keepframes := p_keepframes p; p_timenanos := p_timenanos p;
     p_durationnanos := p_durationnanos p; p_periodtype := p_periodtype p; p_period := p_period p |}.

Section Driver.
  Variable M : string -> string -> bool.
  Variable V : string -> bool.
  Variable uts : list unit_type.

  (* fetchProfiles: merge, then RemoveUninteresting exactly once (error ignored) *)
  Definition fetch_model (srcs : list profile) : profile :=
    let m := merge_sources srcs in
    match remove_uninteresting M V m with Some q => q | None => m end.

  (* one report (command line, interactive command, web request) on a pristine copy [p] of the
     fetched profile: (error option name or "", profile the report is made of) *)
  Record report_cfg := { rc_cfg : af_cfg; rc_tagroot : list string; rc_tagleaf : list string }.

  Definition with_label_nodes (p : profile) (rc : report_cfg) : profile :=
    match rc_tagroot rc, rc_tagleaf rc with
    | [], [] => p
    | r, l => add_label_nodes p r l
    end.

  Definition report_model (p : profile) (units : list (string * string)) (rc : report_cfg) : string * profile :=
    let '(err, p', _) := apply_focus M V uts (with_label_nodes p rc) units (rc_cfg rc) in (err, p').
End Driver.

(* ---------------------------------------------------------------- Profile.NumLabelUnits
   (profile/profile.go; feeds identifyNumLabelUnits -> compileTagFilter): the unit of a numeric tag is
   the FIRST non-empty unit met for the key, walking the samples in order (only samples that carry the
   tag, their unit list in order); a key that never carries a unit gets "bytes" (alignment, request) or
   its own name.  Result listed by key (byte order), every key some sample carries. *)
Fixpoint ins_sorted (x : string) (l : list string) : list string :=
  match l with
  | [] => [x]
  | y :: r => if String.eqb x y then l else if str_leb x y then x :: l else y :: ins_sorted x r
  end.

Definition num_label_units (p : profile) : list (string * string) :=
  let keys := fold_left (fun acc k => ins_sorted k acc) (flat_map (fun s => map fst (s_numlabel s)) (p_sample p)) [] in
  map (fun k =>
         let units := flat_map (fun s =>
                         if existsb (fun kv => String.eqb (fst kv) k) (s_numlabel s)
                         then match find (fun ku => String.eqb (fst ku) k) (s_numunit s) with Some ku => snd ku | None => [] end
                         else []) (p_sample p) in
         (k, match find (fun u => negb (String.eqb u "")) units with
             | Some u => u
             | None => if String.eqb k "alignment" || String.eqb k "request" then "bytes"%string else k
             end))
      keys.
