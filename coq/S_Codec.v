(* Specification side of C01/C02: the validity contract, the unit-length contract, and the
   normalisation proto3 forces.  Written from the property text and the package documentation,
   independently of the codec's control flow. *)
From PV Require Import M_Profile.
Open Scope string_scope.
Open Scope list_scope.
Open Scope Z_scope.

Fixpoint nodup_z (l : list Z) : bool :=
  match l with [] => true | a :: r => negb (existsb (Z.eqb a) r) && nodup_z r end.
Definition mem_z (x : Z) (l : list Z) : bool := existsb (Z.eqb x) l.

(* strictly increasing keys (the canonical dump of a Go map): each key is below all later ones *)
Fixpoint keys_sorted {V} (l : list (string * V)) : bool :=
  match l with
  | [] => true
  | (k, _) :: r => forallb (fun e => str_ltb k (fst e)) r && keys_sorted r
  end.

Definition is_u64 (z : Z) : bool := (0 <=? z) && (z <? two64).
Definition is_i64 (z : Z) : bool := (- two63 <=? z) && (z <? two63).

(* --- the validity contract (CheckValid + "every sample location is listed") --- *)
Definition sample_valid (nst : nat) (locids : list Z) (s : sample) : bool :=
  Nat.eqb (List.length (s_val s)) nst &&
  forallb (fun id => negb (id =? 0) && mem_z id locids) (s_loc s) &&
  forallb is_i64 (s_val s) &&
  keys_sorted (s_label s) && keys_sorted (s_numlabel s) && keys_sorted (s_numunit s) &&
  forallb (fun e => forallb is_i64 (snd e)) (s_numlabel s).

Definition location_valid (mapids fnids : list Z) (l : location) : bool :=
  negb (l_id l =? 0) && is_u64 (l_id l) && is_u64 (l_addr l) &&
  ((l_mapping l =? 0) || mem_z (l_mapping l) mapids) &&
  forallb (fun x => negb (ln_fn x =? 0) && mem_z (ln_fn x) fnids && is_i64 (ln_line x) && is_i64 (ln_col x)) (l_lines l).

Definition valid_b (p : profile) : bool :=
  let mapids := map m_id (p_mapping p) in
  let fnids := map f_id (p_function p) in
  let locids := map l_id (p_location p) in
  negb (Nat.eqb (List.length (p_sampletype p)) 0 && negb (Nat.eqb (List.length (p_sample p)) 0)) &&
  forallb (sample_valid (List.length (p_sampletype p)) locids) (p_sample p) &&
  forallb (fun id => negb (id =? 0) && is_u64 id) mapids && nodup_z mapids &&
  forallb (fun m => is_u64 (m_start m) && is_u64 (m_limit m) && is_u64 (m_offset m)) (p_mapping p) &&
  forallb (fun id => negb (id =? 0) && is_u64 id) fnids && nodup_z fnids &&
  forallb (fun f => is_i64 (f_startline f)) (p_function p) &&
  nodup_z locids && forallb (location_valid mapids fnids) (p_location p) &&
  is_i64 (p_timenanos p) && is_i64 (p_durationnanos p) && is_i64 (p_period p).

Definition Valid (p : profile) : Prop := valid_b p = true.

(* --- NumUnit contract of the package documentation: nil or as long as the values --- *)
Definition assoc_s {V} (k : string) (l : list (string * V)) : option V :=
  match find (fun e => String.eqb (fst e) k) l with Some e => Some (snd e) | None => None end.

Definition units_of (s : sample) (k : string) : list string :=
  match assoc_s k (s_numunit s) with Some u => u | None => [] end.

Definition units_wf_b (p : profile) : bool :=
  forallb (fun s => forallb (fun e =>
     let u := units_of s (fst e) in
     Nat.eqb (List.length u) 0 || Nat.eqb (List.length u) (List.length (snd e))) (s_numlabel s)) (p_sample p).

(* --- the normalisation proto3 forces --- *)
Definition norm_strlabels (l : list (string * list string)) : list (string * list string) :=
  filter (fun e => negb (Nat.eqb (List.length (snd e)) 0))
         (map (fun e => (fst e, filter (fun v => negb (String.eqb v "")) (snd e))) l).

(* (value, unit) pairs of one numeric label key; missing units are "" *)
Fixpoint num_pairs (vs : list Z) (us : list string) : list (Z * string) :=
  match vs with
  | [] => []
  | v :: r => (v, match us with u :: _ => u | [] => "" end) :: num_pairs r (List.tl us)
  end.

Definition keep_pair (pr : Z * string) : bool := negb ((fst pr =? 0) && String.eqb (snd pr) "").

Definition norm_numkey (s : sample) (e : string * list Z) : string * list (Z * string) :=
  (fst e, filter keep_pair (num_pairs (snd e) (units_of s (fst e)))).

Definition norm_sample (s : sample) : sample :=
  let nk := filter (fun e => negb (Nat.eqb (List.length (snd e)) 0)) (map (norm_numkey s) (s_numlabel s)) in
  {| s_loc := s_loc s; s_val := s_val s;
     s_label := norm_strlabels (s_label s);
     s_numlabel := map (fun e => (fst e, map fst (snd e))) nk;
     (* a unit list is kept only if some unit is non-empty; (value, "") and "no unit" are the same label *)
     s_numunit := map (fun e => (fst e, map snd (snd e)))
                      (filter (fun e => existsb (fun pr => negb (String.eqb (snd pr) "")) (snd e)) nk) |}.

Definition normalize (p : profile) : profile :=
  {| p_sampletype := p_sampletype p; p_defaultsampletype := p_defaultsampletype p;
     p_sample := map norm_sample (p_sample p);
     p_mapping := p_mapping p; p_location := p_location p; p_function := p_function p;
     p_comments := p_comments p; p_docurl := p_docurl p; p_dropframes := p_dropframes p;
     p_keepframes := p_keepframes p; p_timenanos := p_timenanos p; p_durationnanos := p_durationnanos p;
     p_periodtype := Some (match p_periodtype p with Some v => v | None => {| vt_type := ""; vt_unit := "" |} end);
     p_period := p_period p |}.
