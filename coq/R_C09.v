(* Case runner for C09: decodes harness cases, runs the model, judges the implementation. *)
From PV Require Import M_Crash S_Crash M_Measure Gen.Gen_UnitTable Gen.Gen_C09Tables.
Open Scope string_scope.
Open Scope Z_scope.

(* oracles shipped in / derived from the case *)
Definition pf_of (tbl : term) (s : string) : option term :=
  match find (fun e => String.eqb (gs (gn e 0)) s) (gl tbl) with
  | Some e => Some (gn e 1)
  | None => None
  end.
Definition scale_unit_real (v : Z) (f t : string) : string := snd (scale unit_types v f t).

Definition of_outcome_panic (s : string) : term := TL [TS "panic"; TS s].

Definition params_of (t : term) : list (string * string) := map (fun e => (gs (gn e 0), gs (gn e 1))) (gl t).

(* handlers that go through webInterface.makeReport *)
Definition report_paths : list string := ["/"; "/top"; "/disasm"; "/source"; "/peek"; "/flamegraph"].

Definition dflt : config := default_config config_fields.

(* a configuration is shipped as the (index, value) pairs that differ from the default one *)
Fixpoint cfg_diff (i : Z) (d c : list term) : list term :=
  match d, c with
  | x :: d', y :: c' => if term_eqb x y then cfg_diff (i + 1) d' c' else TL [TZ i; y] :: cfg_diff (i + 1) d' c'
  | [], y :: c' => TL [TZ i; y] :: cfg_diff (i + 1) [] c'
  | _, [] => []
  end.
Definition of_cfg (c : config) : term := TL (cfg_diff 0 dflt c).

Definition of_event (e : event) : term :=
  match e with
  | ELine => TL [TS "line"]
  | EErr => TL [TS "err"]
  | EReport cmd cfg => TL [TS "report"; of_ss cmd; of_cfg cfg]
  end.


(* a candidate name is shipped relative to the search-path entry it lies under: [index; rest] *)
Fixpoint strip_paths (ps : list string) (k : Z) (name : string) : term :=
  match ps with
  | [] => TL [TZ (-1); TS name]
  | p :: r =>
      if String.eqb name p then TL [TZ k; TS ""]
      else if has_prefix (p ++ "/") name then TL [TZ k; TS (drop (String.length p + 1) name)]
      else strip_paths r (k + 1) name
  end.

(* the "Active filters" block a text / top / tree / peek report prints for the configuration cfg *)
Definition legend_cmds : list string := ["text"; "top"; "tree"; "peek"].
Definition legend_block (active : list string) : term :=
  match legend_active_filters active with
  | Ok ls => of_ss ls
  | Err => TS "<err>"
  | Panic s => of_outcome_panic s
  end.
Fixpoint legends_of (evs : list event) (k : Z) : list term :=
  match evs with
  | [] => []
  | EReport (c :: _) cfg :: r =>
      (if existsb (String.eqb c) legend_cmds then [TL [TZ k; legend_block (active_filters config_fields cfg)]] else [])
      ++ legends_of r (k + 1)
  | EReport [] _ :: r => legends_of r (k + 1)
  | _ :: r => legends_of r k
  end.

Definition run_C09 (i : term) : term :=
  let op := gs (gn i 0) in
  if String.eqb op "tagrange" then
    match parse_tag_filter_range scale_unit_real (gs (gn i 1)) with
    | Ok TFNil => TS "nil"
    | Ok _ => TS "fn"
    | Err => TS "err"
    | Panic s => of_outcome_panic s
    end
  else if String.eqb op "locate" then
    (* input: search-path entries, mappings (file, build id); observable: per mapping the names handed to
       ObjTool.Open, in order (every Open fails, so every candidate of every path entry is tried) *)
    let paths := gss (gn i 1) in
    let one (m : term) : outcome (list string) :=
      (fix over (ps : list string) : outcome (list string) :=
         match ps with
         | [] => Ok []
         | p :: r =>
             bind (locate_candidates path_base path_dir p (gs (gn m 0)) (gs (gn m 1)) []) (fun l =>
             bind (over r) (fun rest => Ok (map path_join l ++ rest)%list))
         end) paths in
    (fix go (ms : list term) (acc : list term) : term :=
       match ms with
       | [] => TL [TS "ok"; TL (rev acc)]
       | m :: r => match one m with
                   | Ok names => go r (TL (map (strip_paths paths 0) names) :: acc)
                   | Err => TS "err"
                   | Panic s => of_outcome_panic s
                   end
       end) (gl (gn i 2)) []
  else if String.eqb op "set" then
    match configure config_fields (pf_of (gn i 3)) dflt (gs (gn i 1)) (gs (gn i 2)) with
    | Ok c => TL [TS "ok"; of_cfg c]
    | Err => TL [TS "error"; of_cfg dflt]
    | Panic s => of_outcome_panic s
    end
  else if String.eqb op "url" then
    match apply_url config_fields (pf_of (gn i 3)) (params_of (gn i 2)) dflt with
    | Ok c => TL [TS "ok"; of_cfg c]
    | Err => TL [TS "error"]
    | Panic s => of_outcome_panic s
    end
  else if String.eqb op "session" then
    let pf := pf_of (gn i 5) in
    let start := match configure config_fields pf dflt "compact_labels" "true" with Ok c => c | _ => dflt end in
    match session config_fields pf commands help_keys (gss (gn i 2)) (gs (gn i 3)) start (gss (gn i 4)) [] with
    | SCont c evs => TL [TS "ok"; TL (map of_event evs); of_cfg c; TL []; TL (legends_of evs 0)]
    | SQuit c evs => TL [TS "ok"; TL (map of_event evs); of_cfg c; TL []; TL (legends_of evs 0)]
    | SPanic evs s => TL [of_outcome_panic s; TL (map of_event evs); TL []; TL []]
    end
  else if String.eqb op "web" then
    if gz (gn i 3) =? 0 then TL [TS "error"; TL []]
    else
      TL [TS "any";
          TL (map (fun rq =>
                     if existsb (String.eqb (gs (gn rq 0))) report_paths then
                       match apply_url config_fields (pf_of (gn rq 3)) (params_of (gn rq 2)) dflt with
                       | Err => TS "400"
                       | _ => TS "any"
                       end
                     else TS "any") (gl (gn i 2)))]
  else if String.eqb op "cli" then
    if gz (gn i 3) =? 0 then TL [TS "error"] else TL [TS "any"; legend_block (cli_active_filters (gss (gn i 1)))]
  else if String.eqb op "symmode" then
    match symbolize_mode (gs (gn i 1)) with
    | Ok (n, label) => TL [TS "ok"; TZ n; TS label]
    | Err => TL [TS "error"]
    | Panic s => TL [of_outcome_panic s]
    end
  else TL [TS "unknown-op"].

(* classes >= 900: comparison skipped.  900 = a line or sample type holds Unicode white space (UTF-8 sequences of U+0085, U+00A0, U+1680, U+20xx, U+205F, U+3000; was: any byte >= 0x80) (the model's
   TrimSpace/Fields know ASCII white space only); 901 = a build id that makes filepath.Glob look
   outside the (empty) search directory or is a malformed pattern *)
Definition glob_unsafe (b : string) : bool :=
  str_existsb (fun a => existsb (N.eqb (byte_of a)) [42; 63; 91; 92]%N) b ||
  (fix dd (s : string) : bool :=
     match s with
     | EmptyString => false
     | String _ r => has_prefix ".." s || dd r
     end) b.

Fixpoint contains_sub (sub s : string) : bool :=
  has_prefix sub s || match s with EmptyString => false | String _ r => contains_sub sub r end.

(* class 25 = F25: the profile has line numbers 2^63 or more apart AND the input asks for an annotated
   source listing (web /source, the weblist command or flag) *)
Definition f25 (lines : term) (asks_weblist : bool) : list Z :=
  [].  (* F25 repaired in /repo (b775123): no class; the witness is still replayed and must not hang *)

(* F38 (a -divide_by whose reciprocal overflows float64 made /flamegraph answer 500) is repaired in /repo:
   reportOptions rejects such a divisor, the request is answered 400 like any report error.  No class;
   the witness is still replayed on every run. *)
Definition f38 (i : term) : list Z := [].

Definition cls_C09 (i : term) : list Z :=
  let op := gs (gn i 0) in
  if String.eqb op "session" then
    ((if existsb has_unicode_space (gss (gn i 4) ++ gss (gn i 2)) then [900] else [])
     ++ f25 (gn i 6) (existsb (contains_sub "weblist") (gss (gn i 4))))%list
  else if String.eqb op "locate" then
    if existsb (fun m => glob_unsafe (gs (gn m 1))) (gl (gn i 2)) then [901] else []
  else if String.eqb op "web" then
    (f25 (gn i 4) (existsb (fun rq => String.eqb (gs (gn rq 0)) "/source") (gl (gn i 2))) ++ f38 i)%list
  else if String.eqb op "cli" then
    f25 (gn i 4) (existsb (contains_sub "weblist") (gss (gn i 1) ++ gss (gn i 2))%list)
  else if String.eqb op "symmode" then
    (* strings.ToLower beyond ASCII is not modelled *)
    if str_existsb is_high (gs (gn i 1)) then [900] else []
  else [].

Definition skipped (i : term) : bool := existsb (fun c => 900 <=? c) (cls_C09 i).

Definition is_panic_obs (t : term) : bool :=
  match t with TL (TS tag :: _) => String.eqb tag "panic" | _ => false end.

Definition not_rerr (e : term) : bool := negb (is_event "rerr" e).

Definition eqv_C09 (i m o : term) : bool :=
  let op := gs (gn i 0) in
  if skipped i then true
  else if is_panic_obs m || is_panic_obs (gn m 0) then
    (* the model predicts a panic: the implementation must panic as well (message not compared) *)
    is_panic_obs o || is_panic_obs (gn o 0)
  else if String.eqb op "session" then
    term_eqb (gn m 0) (gn o 0) &&
    term_eqb (gn m 1) (TL (filter not_rerr (gl (gn o 1)))) &&
    term_eqb (gn m 2) (gn o 2) &&
    (* every legend parsed back from a captured report output is the one the model derives from the
       configuration of that report *)
    forallb (fun e => existsb (term_eqb e) (gl (gn m 4))) (gl (gn o 4))
  else if String.eqb op "web" then
    match gn m 0 with
    | TS "error" => term_eqb (gn o 0) (TS "error")
    | _ =>
        match gn o 0 with
        | TS "ok" =>
            (List.length (gl (gn m 1)) =? List.length (gl (gn o 1)))%nat &&
            (fix go (ms os : list term) : bool :=
               match ms, os with
               | TS "400" :: mr, x :: or => term_eqb x (TS "400") && go mr or
               | _ :: mr, _ :: or => go mr or
               | _, _ => true
               end) (gl (gn m 1)) (gl (gn o 1))
        | _ => true
        end
    end
  else if String.eqb op "cli" then
    match gn m 0 with
    | TS "error" => term_eqb (gn o 0) (TS "error")
    | _ => match gl o with
           | [_; legend] => term_eqb legend (gn m 1)
           | _ => true
           end
    end
  else term_eqb m o.

Definition spec_C09 (i o : term) : bool :=
  let op := gs (gn i 0) in
  if String.eqb op "tagrange" then spec_tagrange o
  else if String.eqb op "locate" then spec_locate o
  else if String.eqb op "set" || String.eqb op "url" then spec_setting o
  else if String.eqb op "session" then spec_session (gss (gn i 4)) o
  else if String.eqb op "web" then spec_web (List.length (gl (gn i 2))) o
  else if String.eqb op "cli" then spec_cli o
  else if String.eqb op "symmode" then spec_symmode o
  else false.

Definition judge_C09 := judge_all run_C09 eqv_C09 spec_C09 cls_C09 0%Z.
