(* Lemmas about M_Session: commands never change the option state, their arguments are local,
   the state is the fold of the assignments, every report starts from the pristine profile,
   concurrent web requests get the sequential answers. *)
From Coq Require Import Lia.
From PV Require Import M_Config M_Session S_Session L_Config.
Open Scope string_scope.
Open Scope Z_scope.

Lemma upd_other : forall c k v n, n <> k -> upd c k v n = c n.
Proof. intros c k v n N. unfold upd. destruct (String.eqb n k) eqn:E; [apply String.eqb_eq in E; contradiction|reflexivity]. Qed.

Definition only_args (c0 c : config) : Prop := forall n, ~ In n arg_fields -> c n = c0 n.

Lemma only_args_refl : forall c, only_args c c.
Proof. intros c n _. reflexivity. Qed.

Lemma only_args_upd : forall c0 c k v, In k arg_fields -> only_args c0 c -> only_args c0 (upd c k v).
Proof.
  intros c0 c k v Hk H n Hn. rewrite upd_other; [apply H; exact Hn|]. intro E. subst n. contradiction.
Qed.

Ltac in_args := unfold arg_fields; cbn [In]; tauto.

(* arguments only ever touch nodecount / output / sort *)
Lemma parse_args_only : forall fuel args c0 c focus ignore c' f' i',
  only_args c0 c -> parse_args fuel args c focus ignore = Some (c', f', i') -> only_args c0 c'.
Proof.
  induction fuel as [|fuel IH]; intros args c0 c focus ignore c' f' i' H P.
  - simpl in P. inversion P; subst. exact H.
  - cbn [parse_args] in P. destruct args as [|t r]; [inversion P; subst; exact H|].
    destruct (parse_int32 t) as [n|].
    + apply (IH _ _ _ _ _ _ _ _ (only_args_upd _ _ "nodecount" _ ltac:(in_args) H) P).
    + destruct t as [|a t1]; [apply (IH _ _ _ _ _ _ _ _ H P)|].
      destruct (Ascii.eqb a ">").
      * destruct (String.eqb t1 "").
        -- destruct r as [|f r']; [discriminate|].
           apply (IH _ _ _ _ _ _ _ _ (only_args_upd _ _ "output" _ ltac:(in_args) H) P).
        -- apply (IH _ _ _ _ _ _ _ _ (only_args_upd _ _ "output" _ ltac:(in_args) H) P).
      * destruct (Ascii.eqb a "-").
        -- destruct (String.eqb (String a t1) "--cum" || String.eqb (String a t1) "-cum").
           ++ apply (IH _ _ _ _ _ _ _ _ (only_args_upd _ _ "sort" _ ltac:(in_args) H) P).
           ++ apply (IH _ _ _ _ _ _ _ _ H P).
        -- apply (IH _ _ _ _ _ _ _ _ H P).
Qed.

Lemma parse_command_line_only : forall e cur tokens cmd c,
  parse_command_line e cur tokens = PCmd cmd c -> only_args cur c.
Proof.
  intros e cur tokens cmd c H. unfold parse_command_line in H.
  destruct tokens as [|name0 args0]; [discriminate|].
  destruct (match assoc_b (e_commands e) name0 with
            | Some hp => (name0, args0, Some hp)
            | None => if negb (String.eqb (tail_digits name0) "") && negb (String.eqb (tail_digits name0) name0)
                      then (take (String.length name0 - String.length (tail_digits name0)) name0,
                            tail_digits name0 :: args0,
                            assoc_b (e_commands e) (take (String.length name0 - String.length (tail_digits name0)) name0))
                      else (name0, args0, None)
            end) as [[name args] found].
  destruct found as [has_param|]; [|destruct (existsb (String.eqb name) (e_help e)); discriminate].
  destruct (if has_param then match args with [] => ([name], args, false) | a :: r => ([name; a], r, true) end
            else ([name], args, true)) as [[cmd1 args1] ok].
  destruct ok; cbn [negb] in H; [|discriminate].
  destruct (parse_args (S (List.length args1)) args1 cur "" "") as [[[vc focus] ignore]|] eqn:PA; [|discriminate].
  pose proof (parse_args_only _ _ cur _ _ _ _ _ _ (only_args_refl cur) PA) as Hvc.
  inversion H; subst cmd c; clear H.
  assert (H1 : only_args cur
    (if String.eqb name "tags"
     then if String.eqb ignore "" then (if String.eqb focus "" then vc else upd vc "tagfocus" focus)
          else upd (if String.eqb focus "" then vc else upd vc "tagfocus" focus) "tagignore" ignore
     else if String.eqb ignore "" then (if String.eqb focus "" then vc else upd vc "focus" focus)
          else upd (if String.eqb focus "" then vc else upd vc "focus" focus) "ignore" ignore)).
  { destruct (String.eqb name "tags"), (String.eqb ignore ""), (String.eqb focus "");
      repeat (apply only_args_upd; [in_args|]); exact Hvc. }
  match goal with |- only_args cur (if ?b then _ else _) => destruct b end.
  - apply only_args_upd; [in_args|exact H1].
  - exact H1.
Qed.

(* ---- one input *)
Lemma step_input_command : forall e c input,
  is_assignment e input = false ->
  state_of (step_input e c input) = c /\
  (forall cmd rc, In (EReport cmd rc) (events_of (step_input e c input)) -> only_args c rc) /\
  exited (step_input e c input) = is_exit e input.
Proof.
  intros e c input A. unfold is_exit. rewrite A. cbn [negb andb].
  unfold is_assignment in A. unfold step_input, state_of, events_of, exited.
  destruct (split_eq input "") as [lhs rhs]. cbn [fst] in A. rewrite A.
  destruct (fields input) as [|t0 rest].
  - cbn. repeat split. intros cmd rc [].
  - destruct (String.eqb t0 "o" || String.eqb t0 "options") eqn:E1.
    + cbn. assert (X : String.eqb t0 "exit" || String.eqb t0 "quit" || String.eqb t0 "q" = false).
      { apply orb_true_iff in E1. destruct E1 as [E|E]; apply String.eqb_eq in E; subst t0; reflexivity. }
      rewrite X. repeat split. intros cmd rc [X1|[]]. discriminate.
    + destruct (String.eqb t0 "exit" || String.eqb t0 "quit" || String.eqb t0 "q") eqn:E2.
      * cbn. repeat split. intros cmd rc [].
      * destruct (String.eqb t0 "help").
        -- cbn. repeat split. intros cmd rc [X1|[]]. discriminate.
        -- destruct (parse_command_line e c (t0 :: rest)) as [code|cmd rc] eqn:P; cbn.
           ++ repeat split. intros cmd rc [X1|[]]. discriminate.
           ++ repeat split. intros cmd' rc' [X1|[]]. inversion X1; subst.
              apply (parse_command_line_only _ _ _ _ _ P).
Qed.

Lemma step_input_assignment : forall e c input,
  is_assignment e input = true ->
  no_report (events_of (step_input e c input)) /\ exited (step_input e c input) = false.
Proof.
  intros e c input A. unfold is_assignment in A. unfold step_input, events_of, exited, no_report.
  destruct (split_eq input "") as [lhs rhs]. cbn [fst] in A. rewrite A.
  destruct rhs as [v|].
  - destruct (if String.eqb (trim_space lhs) "sample_index" then sample_index_by_name e (trim_space (cut_comment v))
              else Some (trim_space (cut_comment v))) as [v'|].
    + destruct (configure (e_pf e) (e_fields e) c (trim_space lhs) v'); cbn; split; try reflexivity;
        intros ev H; try contradiction; destruct H as [H|[]]; subst ev; exact I.
    + cbn. split; [|reflexivity]. intros ev [H|[]]. subst ev. exact I.
  - destruct (is_bool_config e (trim_space lhs)).
    + destruct (configure (e_pf e) (e_fields e) c (trim_space lhs) ""); cbn; split; try reflexivity;
        intros ev H; try contradiction; destruct H as [H|[]]; subst ev; exact I.
    + cbn. split; [|reflexivity]. intros ev [H|[]]. subst ev. exact I.
Qed.

(* a command (anything that is not an assignment) never changes the option state *)
Lemma commands_do_not_change_state_lemma : forall e c input,
  is_assignment e input = false -> state_of (step_input e c input) = c.
Proof. intros e c input A. apply (step_input_command e c input A). Qed.

(* arguments are local: the report sees them, the state does not; and they reach only the
   options a command line can spell *)
Lemma args_are_local_lemma : forall e c input cmd rc,
  In (EReport cmd rc) (events_of (step_input e c input)) ->
  state_of (step_input e c input) = c /\ (forall n, ~ In n arg_fields -> rc n = c n).
Proof.
  intros e c input cmd rc H. destruct (is_assignment e input) eqn:A.
  - destruct (step_input_assignment e c input A) as [N _]. exfalso. apply (N _ H).
  - destruct (step_input_command e c input A) as [S1 [S2 _]]. split; [exact S1|]. apply (S2 cmd rc H).
Qed.

(* ---- histories *)
Definition keeps (e : env) (i : string) : bool := is_assignment e i || is_exit e i.

Lemma run_inputs_cons : forall e c i r,
  run_inputs e c (i :: r) =
  (let '(c1, ev1, ex1) := step_input e c i in
   if ex1 then (c1, ev1, true) else let '(c2, ev2, ex2) := run_inputs e c1 r in (c2, (ev1 ++ ev2)%list, ex2)).
Proof. reflexivity. Qed.

(* the option state after a history is the state after its assignments alone (an exit stops both) *)
Lemma state_is_fold_of_assignments_lemma : forall e h c,
  state_of (run_inputs e c h) = state_of (run_inputs e c (filter (keeps e) h)) /\
  exited (run_inputs e c h) = exited (run_inputs e c (filter (keeps e) h)).
Proof.
  intros e. induction h as [|i r IH]; intro c; [split; reflexivity|].
  cbn [filter]. destruct (is_assignment e i) eqn:A.
  - assert (K : keeps e i = true) by (unfold keeps; rewrite A; reflexivity). rewrite K.
    rewrite !run_inputs_cons.
    destruct (step_input_assignment e c i A) as [_ X]. unfold exited in X.
    destruct (step_input e c i) as [[c1 ev1] ex1]. cbn [snd] in X. subst ex1.
    destruct (IH c1) as [I1 I2]. unfold state_of, exited in *.
    destruct (run_inputs e c1 r) as [[c2 ev2] ex2]. destruct (run_inputs e c1 (filter (keeps e) r)) as [[c3 ev3] ex3].
    cbn in *. split; assumption.
  - destruct (step_input_command e c i A) as [S1 [_ S3]].
    destruct (is_exit e i) eqn:X.
    + assert (K : keeps e i = true) by (unfold keeps; rewrite A, X; reflexivity). rewrite K.
      rewrite !run_inputs_cons. unfold state_of, exited in *.
      destruct (step_input e c i) as [[c1 ev1] ex1]. cbn in S1, S3. subst c1 ex1. split; reflexivity.
    + assert (K : keeps e i = false) by (unfold keeps; rewrite A, X; reflexivity). rewrite K.
      rewrite run_inputs_cons. unfold state_of, exited in *.
      destruct (step_input e c i) as [[c1 ev1] ex1]. cbn in S1, S3. subst c1 ex1.
      destruct (IH c) as [I1 I2]. unfold state_of, exited in *.
      destruct (run_inputs e c r) as [[c2 ev2] ex2]. cbn in *. split; assumption.
Qed.

(* two histories with the same assignments (and exits) lead to the same state, hence the next
   input produces the same events (same report command, same configuration) *)
Lemma history_independence_lemma : forall e c h1 h2 input,
  filter (keeps e) h1 = filter (keeps e) h2 ->
  events_of (step_input e (state_of (run_inputs e c h1)) input) =
  events_of (step_input e (state_of (run_inputs e c h2)) input).
Proof.
  intros e c h1 h2 input H.
  destruct (state_is_fold_of_assignments_lemma e h1 c) as [A1 _].
  destruct (state_is_fold_of_assignments_lemma e h2 c) as [A2 _].
  rewrite A1, A2, H. reflexivity.
Qed.

(* ---- every report starts from the pristine profile *)
Section Reports.
  Variables P O : Type.
  Variable parse : string -> P.
  Variable report : P -> list string -> config -> O * P.

  Lemma copy_is_pristine_lemma : forall bytes evs obj,
    run_reports P O parse report true bytes obj evs =
    map (fun ev => fst (report (parse bytes) (fst ev) (snd ev))) evs.
  Proof.
    intros bytes. induction evs as [|[cmd c] r IH]; intro obj; [reflexivity|].
    cbn [run_reports map fst snd]. destruct (report (parse bytes) cmd c) as [o p']. rewrite IH. reflexivity.
  Qed.
End Reports.

(* handing the previous report's object on does leak: a report that truncates what it was given *)
Lemma shared_profile_leaks_lemma :
  exists (report : list nat -> list string -> config -> nat * list nat) evs,
    run_reports (list nat) nat (fun _ => [1; 2; 3]%nat) report false "" [1; 2; 3]%nat evs <>
    map (fun ev => fst (report [1; 2; 3]%nat (fst ev) (snd ev))) evs.
Proof.
  exists (fun p _ _ => (List.length p, tl p)), [([], fun _ => ""); ([], fun _ => "")].
  vm_compute. discriminate.
Qed.

(* ---- concurrent web requests *)
Lemma wset_same : forall A (g : nat -> A) i v, wset g i v i = v.
Proof. intros A g i v. unfold wset. rewrite Nat.eqb_refl. reflexivity. Qed.
Lemma wset_other : forall A (g : nat -> A) i v j, j <> i -> wset g i v j = g j.
Proof. intros A g i v j N. unfold wset. destruct (Nat.eqb_spec j i) as [E|E]; [contradiction|reflexivity]. Qed.

Definition answer (e : env) (cur : config) (reqs : list (endpoint * values)) (i : nat) : option config :=
  match nth_error reqs i with Some (ep, q) => web_request_cfg e cur ep q | None => None end.

Definition winv (e : env) (cur : config) (reqs : list (endpoint * values)) (s : wst) : Prop :=
  w_cur s = cur /\
  (forall i c, w_local s i = Some c -> c = cur) /\
  (forall i r, w_resp s i = Some r -> r = answer e cur reqs i).

Lemma winv_step : forall e cur reqs s i, winv e cur reqs s -> winv e cur reqs (wstep e reqs s i).
Proof.
  intros e cur reqs s i [I1 [I2 I3]]. unfold wstep. destruct (w_local s i) as [c|] eqn:L.
  - split; [exact I1|]. split; [exact I2|]. cbn [w_resp]. intros j r H.
    destruct (Nat.eq_dec j i) as [E|E].
    + subst j. rewrite wset_same in H. inversion H; subst r. rewrite (I2 i c L). reflexivity.
    + rewrite wset_other in H by exact E. apply I3; exact H.
  - split; [exact I1|]. split; [|exact I3]. cbn [w_local]. intros j c H.
    destruct (Nat.eq_dec j i) as [E|E].
    + subst j. rewrite wset_same in H. inversion H; subst c. exact I1.
    + rewrite wset_other in H by exact E. apply (I2 j); exact H.
Qed.

(* any interleaving of request handlers gives every request the answer it gets alone, and
   leaves the option state alone *)
Lemma requests_commute_lemma : forall e cur reqs sched,
  let s := wrun e reqs sched (winit cur) in
  w_cur s = cur /\ forall i r, w_resp s i = Some r -> r = answer e cur reqs i.
Proof.
  intros e cur reqs sched. cbn zeta.
  assert (H : forall s0, winv e cur reqs s0 -> winv e cur reqs (wrun e reqs sched s0)).
  { induction sched as [|i r IH]; intros s0 I; [exact I|]. unfold wrun. cbn [fold_left]. apply IH. apply winv_step. exact I. }
  assert (I0 : winv e cur reqs (winit cur)).
  { unfold winv, winit. cbn. split; [reflexivity|]. split; intros; discriminate. }
  destruct (H _ I0) as [A [_ C]]. split; assumption.
Qed.
