(* C01: postDecode's label regrouping inverts preEncode's label emission (up to the normalisation
   proto3 forces).  String labels first, numeric labels (with unit padding) second. *)
From Coq Require Import Lia ZifyBool.
From PV Require Import M_Codec S_Codec L_Codec_Wire L_Codec_Msg L_Codec_Tab L_Codec_Assoc.
Open Scope string_scope.
Open Scope list_scope.
Open Scope Z_scope.

Definition opt_entry {V} (k : string) (l : list V) : list (string * list V) :=
  match l with [] => [] | _ => [(k, l)] end.

Definition nonempty (v : string) : bool := negb (String.eqb v "").

Definition ix (n i : Z) : Prop := 0 <= i < n.
Definition ix_label (n : Z) (l : rlabel) : Prop := ix n (rl_key l) /\ ix n (rl_str l) /\ ix n (rl_unit l).

Lemma ix_mono n m i : ix n i -> n <= m -> ix m i. Proof. unfold ix. lia. Qed.
Lemma ix_label_mono n m l : ix_label n l -> n <= m -> ix_label m l.
Proof. intros (A & B & C) H. repeat split; eapply ix_mono; eauto. Qed.

Lemma prefix_len a b : prefix a b -> len a <= len b.
Proof. intros [e ->]. rewrite len_app. pose proof (len_nonneg e). lia. Qed.

Lemma add_string_ix tab s tab' i : tab_inv tab -> add_string tab s = (tab', i) -> ix (len tab') i.
Proof. intros I H. destruct (add_string_spec _ _ _ _ I H) as (_ & _ & R & _). exact R. Qed.

Lemma tab_inv_len tab : tab_inv tab -> 0 < len tab.
Proof. intros [[r ->] _]. unfold len. cbn [List.length]. lia. Qed.

(* ---------- string labels of one key ---------- *)
Lemma strlabels_fold k : forall vs tab tab' ls L acc tabF gn gu,
  tab_inv tab -> pre_strlabels tab k vs = (tab', ls) -> prefix tab' tabF -> keys_below k L ->
  fold_res (post_label tabF) ls {| g_label := L ++ opt_entry k acc; g_num := gn; g_unit := gu |}
  = Ok {| g_label := L ++ opt_entry k (acc ++ filter nonempty vs); g_num := gn; g_unit := gu |}
  /\ tab_inv tab' /\ prefix tab tab' /\ Forall (ix_label (len tab')) ls.
Proof.
  induction vs as [|v r IH]; intros tab tab' ls L acc tabF gn gu I H P KB; cbn [pre_strlabels] in H.
  - inversion H; subst. cbn [fold_res filter]. rewrite app_nil_r.
    split; [reflexivity|]. split; [exact I|]. split; [apply prefix_refl|constructor].
  - destruct (add_string tab k) as [t1 kx] eqn:E1.
    destruct (add_string t1 v) as [t2 sx] eqn:E2.
    destruct (pre_strlabels t2 k r) as [t3 rest] eqn:E3.
    inversion H; subst tab' ls. clear H.
    destruct (add_string_spec _ _ _ _ I E1) as (I1 & P1 & R1 & N1 & _).
    destruct (add_string_spec _ _ _ _ I1 E2) as (I2 & P2 & R2 & N2 & Z2).
    assert (P3 : prefix t2 t3).
    { destruct (IH t2 t3 rest [] [] t3 [] [] I2 E3 (prefix_refl _) (Forall_nil _)) as (_ & _ & Q & _). exact Q. }
    assert (PF1 : prefix t1 tabF) by (eapply prefix_trans; [exact P2|]; eapply prefix_trans; [exact P3|exact P]).
    assert (PF2 : prefix t2 tabF) by (eapply prefix_trans; [exact P3|exact P]).
    assert (GK : get_string tabF kx = Ok k) by (eapply get_string_prefix; [exact PF1|lia|exact N1]).
    assert (GV : get_string tabF sx = Ok v) by (eapply get_string_prefix; [exact PF2|lia|exact N2]).
    cbn [fold_res]. unfold post_label at 1. cbn [rl_key rl_str rl_num rl_unit]. rewrite GK. cbn [bind].
    destruct (String.eqb_spec v "") as [EV|NV].
    + (* empty value: str index 0, the label is dropped *)
      assert (sx = 0) by (apply Z2; exact EV). subst sx. subst v.
      cbn [Z.eqb negb orb]. cbn [filter nonempty String.eqb negb].
      destruct (IH t2 t3 rest L acc tabF gn gu I2 E3 P KB) as (F & I3 & _ & X).
      cbn [bind]. rewrite F. split; [reflexivity|]. split; [exact I3|]. split.
      * eapply prefix_trans; [exact P1|]. eapply prefix_trans; [exact P2|exact P3].
      * constructor; [|exact X]. pose proof (prefix_len _ _ P3). pose proof (prefix_len _ _ P2).
        pose proof (tab_inv_len _ I3).
        split; [|split]; cbn [rl_key rl_str rl_unit]; unfold ix in *; lia.
    + assert (NZ : sx <> 0) by (intros Z0; apply NV, Z2, Z0).
      replace (negb (sx =? 0)) with true by lia. rewrite GV. cbn [bind g_label g_num g_unit].
      assert (U : assoc_update k (fun o => odef [] o ++ [v]) (L ++ opt_entry k acc) = L ++ opt_entry k (acc ++ [v])).
      { destruct acc as [|a0 ar]; cbn [opt_entry].
        - rewrite app_nil_r, assoc_update_new by exact KB. reflexivity.
        - rewrite assoc_update_last by exact KB. cbn [odef]. destruct (ar ++ [v]) eqn:EE; reflexivity. }
      rewrite U.
      destruct (IH t2 t3 rest L (acc ++ [v]) tabF gn gu I2 E3 P KB) as (F & I3 & _ & X).
      rewrite F. cbn [filter]. unfold nonempty at 2. replace (String.eqb v "") with false by (symmetry; apply String.eqb_neq; exact NV).
      cbn [negb]. rewrite <- app_assoc. cbn [app]. split; [reflexivity|]. split; [exact I3|]. split.
      * eapply prefix_trans; [exact P1|]. eapply prefix_trans; [exact P2|exact P3].
      * constructor; [|exact X]. pose proof (prefix_len _ _ P3). pose proof (prefix_len _ _ P2).
        pose proof (tab_inv_len _ I3).
        split; [|split]; cbn [rl_key rl_str rl_unit]; unfold ix in *; lia.
Qed.

(* ---------- all string labels of a sample ---------- *)
Lemma norm_strlabels_cons k vs r :
  norm_strlabels ((k, vs) :: r) = opt_entry k (filter nonempty vs) ++ norm_strlabels r.
Proof.
  unfold norm_strlabels. cbn [map filter fst snd].
  change (fun v : string => negb (String.eqb v "")) with nonempty.
  destruct (filter nonempty vs); reflexivity.
Qed.

Lemma keys_below_app {V} k (a b : list (string * V)) : keys_below k a -> keys_below k b -> keys_below k (a ++ b).
Proof. intros. apply Forall_app. split; assumption. Qed.
Lemma keys_below_opt {V} k k' (l : list V) : str_ltb k' k = true -> keys_below k (opt_entry k' l).
Proof. intros H. destruct l; constructor; [exact H|constructor]. Qed.

Lemma strkeys_fold : forall l tab tab' ls L tabF gn gu,
  tab_inv tab -> pre_strkeys tab l = (tab', ls) -> prefix tab' tabF -> keys_sorted l = true ->
  (forall e, In e l -> keys_below (fst e) L) ->
  fold_res (post_label tabF) ls {| g_label := L; g_num := gn; g_unit := gu |}
  = Ok {| g_label := L ++ norm_strlabels l; g_num := gn; g_unit := gu |}
  /\ tab_inv tab' /\ prefix tab tab' /\ Forall (ix_label (len tab')) ls.
Proof.
  induction l as [|[k vs] r IH]; intros tab tab' ls L tabF gn gu I H P KS KB; cbn [pre_strkeys] in H.
  - inversion H; subst. cbn [fold_res]. unfold norm_strlabels. cbn [map filter]. rewrite app_nil_r.
    split; [reflexivity|]. split; [exact I|]. split; [apply prefix_refl|constructor].
  - destruct (pre_strlabels tab k vs) as [t1 a] eqn:E1.
    destruct (pre_strkeys t1 r) as [t2 b] eqn:E2.
    inversion H; subst tab' ls. clear H.
    cbn [keys_sorted] in KS. apply andb_true_iff in KS as [KS1 KS2].
    assert (KBk : keys_below k L) by (apply (KB (k, vs)); now left).
    assert (P12 : prefix t1 t2 /\ tab_inv t1).
    { destruct (strlabels_fold k vs tab t1 a L [] t1 [] [] I E1 (prefix_refl _) KBk) as (_ & I1 & _ & _).
      destruct (IH t1 t2 b [] t2 [] [] I1 E2 (prefix_refl _) KS2 (fun _ _ => Forall_nil _)) as (_ & _ & Q & _).
      split; assumption. }
    destruct P12 as [P12 I1].
    destruct (strlabels_fold k vs tab t1 a L [] tabF gn gu I E1 (prefix_trans _ _ _ P12 P) KBk) as (F1 & _ & P01 & X1).
    cbn [opt_entry app] in F1. rewrite app_nil_r in F1.
    rewrite fold_res_app, F1. cbn [bind].
    destruct (IH t1 t2 b (L ++ opt_entry k (filter nonempty vs)) tabF gn gu I1 E2 P KS2) as (F2 & I2 & _ & X2).
    { intros e He. apply keys_below_app; [apply KB; now right|].
      apply keys_below_opt. rewrite forallb_forall in KS1. apply KS1, He. }
    rewrite F2, norm_strlabels_cons, <- app_assoc.
    split; [reflexivity|]. split; [exact I2|]. split; [eapply prefix_trans; eauto|].
    apply Forall_app. split; [|exact X2].
    eapply Forall_impl; [|exact X1]. intros x Hx. eapply ix_label_mono; [exact Hx|apply prefix_len, P12].
Qed.

(* ---------- numeric labels of one key ---------- *)
Definition ustep (st : list Z * list string) (pr : Z * string) : list Z * list string :=
  (fst st ++ [fst pr],
   if String.eqb (snd pr) "" then snd st else pad_string_array (snd st) (List.length (fst st)) ++ [snd pr]).

Lemma skipn_nth_error {A} (l : list A) i x : nth_error l i = Some x -> skipn i l = x :: skipn (S i) l.
Proof.
  revert i. induction l as [|a r IH]; intros i H; destruct i; cbn in *; try discriminate.
  - inversion H. reflexivity.
  - apply IH, H.
Qed.

Lemma opt_entry_snoc {V} k (l : list V) x : opt_entry k (l ++ [x]) = [(k, l ++ [x])].
Proof. destruct l; reflexivity. Qed.

Lemma assoc_opt_entry {V} k (N : list (string * list V)) l : keys_below k N -> odef [] (assoc k (N ++ opt_entry k l)) = l.
Proof.
  intros KB. destruct l as [|a r]; cbn [opt_entry].
  - rewrite app_nil_r, assoc_new by exact KB. reflexivity.
  - rewrite assoc_last by exact KB. reflexivity.
Qed.

Lemma assoc_update_opt_entry {V} k (f : option (list V) -> list V) (N : list (string * list V)) l :
  keys_below k N ->
  assoc_update k f (N ++ opt_entry k l) = N ++ [(k, f (match l with [] => None | _ => Some l end))].
Proof.
  intros KB. destruct l as [|a r]; cbn [opt_entry].
  - rewrite app_nil_r, assoc_update_new by exact KB. reflexivity.
  - rewrite assoc_update_last by exact KB. reflexivity.
Qed.

(* structure: table invariant, growth, index ranges *)
Lemma pre_numlabels_struct kx : forall vs us i tab tab' ls,
  tab_inv tab -> ix (len tab) kx -> pre_numlabels tab kx vs us i = Ok (tab', ls) ->
  tab_inv tab' /\ prefix tab tab' /\ Forall (ix_label (len tab')) ls.
Proof.
  induction vs as [|v r IH]; intros us i tab tab' ls I KX H; cbn [pre_numlabels] in H.
  - inversion H; subst. split; [exact I|]. split; [apply prefix_refl|constructor].
  - destruct (match us with
              | [] => Ok (tab, 0)
              | _ :: _ => match nth_error us i with Some u => Ok (add_string tab u) | None => Panic 201 end
              end) as [[t1 ux]|c|c] eqn:EH; cbn [bind] in H; try discriminate.
    assert (S1 : tab_inv t1 /\ prefix tab t1 /\ ix (len t1) ux).
    { destruct us as [|u0 ur].
      - inversion EH; subst. split; [exact I|]. split; [apply prefix_refl|].
        pose proof (tab_inv_len _ I). unfold ix. lia.
      - destruct (nth_error (u0 :: ur) i) as [x|]; [|discriminate]. inversion EH as [EA].
        destruct (add_string_spec _ _ _ _ I EA) as (I1 & P1 & R1 & _). auto. }
    destruct S1 as (I1 & P1 & R1).
    destruct (pre_numlabels t1 kx r us (S i)) as [[t2 rest]|c|c] eqn:E2; cbn [bind] in H; try discriminate.
    inversion H; subst tab' ls. clear H.
    assert (KX1 : ix (len t1) kx) by (eapply ix_mono; [exact KX|apply prefix_len, P1]).
    destruct (IH us (S i) t1 t2 rest I1 KX1 E2) as (I2 & P2 & X2).
    split; [exact I2|]. split; [eapply prefix_trans; eauto|].
    constructor; [|exact X2]. pose proof (prefix_len _ _ P2). pose proof (tab_inv_len _ I2).
    split; [|split]; cbn [rl_key rl_str rl_unit]; unfold ix in *; lia.
Qed.

Lemma numlabels_fold k kx : forall vs us i tab tab' ls N U nums ust tabF gl,
  tab_inv tab -> (us = [] \/ List.length us = i + List.length vs)%nat ->
  pre_numlabels tab kx vs us i = Ok (tab', ls) -> get_string tabF kx = Ok k -> ix (len tab) kx ->
  prefix tab' tabF -> keys_below k N -> keys_below k U ->
  fold_res (post_label tabF) ls {| g_label := gl; g_num := N ++ opt_entry k nums; g_unit := U ++ opt_entry k ust |}
  = Ok {| g_label := gl;
          g_num := N ++ opt_entry k (fst (fold_left ustep (filter keep_pair (num_pairs vs (skipn i us))) (nums, ust)));
          g_unit := U ++ opt_entry k (snd (fold_left ustep (filter keep_pair (num_pairs vs (skipn i us))) (nums, ust))) |}.
Proof.
  induction vs as [|v r IH]; intros us i tab tab' ls N U nums ust tabF gl I UW H GK KX P KN KU; cbn [pre_numlabels] in H.
  - inversion H; subst. reflexivity.
  - set (u := match skipn i us with x :: _ => x | [] => "" end).
    assert (HU : exists t1 ux, (match us with
                        | [] => Ok (tab, 0)
                        | _ :: _ => match nth_error us i with Some u0 => Ok (add_string tab u0) | None => Panic 201 end
                        end) = Ok (t1, ux) /\ tab_inv t1 /\ prefix tab t1 /\
                        (ux = 0 <-> u = "") /\
                        (forall tF, prefix t1 tF -> ux <> 0 -> get_string tF ux = Ok u) /\
                        List.tl (skipn i us) = skipn (S i) us).
    { destruct us as [|u0 ur].
      - exists tab, 0. subst u. rewrite skipn_nil. cbn [List.tl].
        split; [reflexivity|]. split; [exact I|]. split; [apply prefix_refl|].
        split; [split; reflexivity|]. split; [intros; congruence|reflexivity].
      - destruct UW as [UW|UW]; [discriminate|].
        remember (u0 :: ur) as usl eqn:EU.
        assert (LI : (i < List.length usl)%nat) by (cbn [List.length] in UW; lia).
        destruct (nth_error usl i) as [x|] eqn:EN; [|apply nth_error_None in EN; lia].
        pose proof (skipn_nth_error _ _ _ EN) as SK. subst u. rewrite SK. cbn [List.tl].
        destruct (add_string tab x) as [t1 ux] eqn:EA.
        destruct (add_string_spec _ _ _ _ I EA) as (I1 & P1 & R1 & N1 & Z1).
        exists t1, ux.
        split; [reflexivity|]. split; [exact I1|]. split; [exact P1|].
        split; [exact Z1|].
        split; [|reflexivity]. intros tF PF _. eapply get_string_prefix; [exact PF|lia|exact N1]. }
    destruct HU as (t1 & ux & EH & I1 & P1 & Z1 & G1 & TL).
    rewrite EH in H. cbn [bind] in H.
    destruct (pre_numlabels t1 kx r us (S i)) as [[t2 rest]|c|c] eqn:E2; cbn [bind] in H; try discriminate.
    inversion H; subst tab' ls. clear H.
    assert (UW' : (us = [] \/ List.length us = S i + List.length r)%nat)
      by (destruct UW as [UW|UW]; [left; exact UW|right; cbn [List.length] in UW; lia]).
    assert (KX1 : ix (len t1) kx) by (eapply ix_mono; [exact KX|apply prefix_len, P1]).
    destruct (pre_numlabels_struct kx r us (S i) t1 t2 rest I1 KX1 E2) as (_ & P12 & _).
    assert (PF1 : prefix t1 tabF) by (eapply prefix_trans; eauto).
    cbn [num_pairs]. fold u. rewrite TL.
    cbn [fold_res]. unfold post_label at 1. cbn [rl_key rl_str rl_num rl_unit]. rewrite GK. cbn [bind Z.eqb negb].
    cbn [filter]. change (keep_pair (v, u)) with (negb ((v =? 0) && String.eqb u "")).
    destruct (Z.eqb_spec v 0) as [V0|V0]; destruct (String.eqb_spec u "") as [U0|U0]; cbn [andb negb orb].
    + (* (0, ""): dropped *)
      assert (ux = 0) by (apply Z1, U0). subst ux. cbn [Z.eqb negb orb bind].
      apply (IH us (S i) t1 t2 rest N U nums ust tabF gl I1 UW' E2 GK KX1 P KN KU).
    + (* value 0 with a unit: kept *)
      assert (NZ : ux <> 0) by (intros Z0; apply U0, Z1, Z0).
      replace (negb (ux =? 0)) with true by lia. cbn [orb].
      rewrite (G1 tabF PF1 NZ). cbn [bind g_num g_unit g_label].
      rewrite !assoc_opt_entry by assumption.
      rewrite !assoc_update_opt_entry by assumption.
      cbn [fold_left]. unfold ustep at 2 4. cbn [fst snd].
      replace (String.eqb u "") with false by (symmetry; apply String.eqb_neq; exact U0).
      assert (EQ1 : odef [] (match nums with [] => None | _ :: _ => Some nums end) = nums) by (destruct nums; reflexivity).
      assert (EQ2 : odef [] (match ust with [] => None | _ :: _ => Some ust end) = ust) by (destruct ust; reflexivity).
      rewrite EQ1, EQ2.
      rewrite <- (opt_entry_snoc k nums v).
      rewrite <- (opt_entry_snoc k (pad_string_array ust (List.length nums)) u).
      apply (IH us (S i) t1 t2 rest N U (nums ++ [v]) (pad_string_array ust (List.length nums) ++ [u]) tabF gl I1 UW' E2 GK KX1 P KN KU).
    + (* non-zero value without unit *)
      assert (ux = 0) by (apply Z1, U0). subst ux. cbn [Z.eqb negb orb bind g_num g_unit g_label].
      rewrite !assoc_update_opt_entry by assumption.
      cbn [fold_left]. unfold ustep at 2 4. cbn [fst snd]. rewrite U0. cbn [String.eqb].
      assert (EQ1 : odef [] (match nums with [] => None | _ :: _ => Some nums end) = nums) by (destruct nums; reflexivity).
      rewrite EQ1. rewrite <- (opt_entry_snoc k nums v).
      apply (IH us (S i) t1 t2 rest N U (nums ++ [v]) ust tabF gl I1 UW' E2 GK KX1 P KN KU).
    + (* non-zero value with a unit *)
      assert (NZ : ux <> 0) by (intros Z0; apply U0, Z1, Z0).
      replace (negb (ux =? 0)) with true by lia. cbn [orb].
      rewrite (G1 tabF PF1 NZ). cbn [bind g_num g_unit g_label].
      rewrite !assoc_opt_entry by assumption.
      rewrite !assoc_update_opt_entry by assumption.
      cbn [fold_left]. unfold ustep at 2 4. cbn [fst snd].
      replace (String.eqb u "") with false by (symmetry; apply String.eqb_neq; exact U0).
      assert (EQ1 : odef [] (match nums with [] => None | _ :: _ => Some nums end) = nums) by (destruct nums; reflexivity).
      assert (EQ2 : odef [] (match ust with [] => None | _ :: _ => Some ust end) = ust) by (destruct ust; reflexivity).
      rewrite EQ1, EQ2.
      rewrite <- (opt_entry_snoc k nums v).
      rewrite <- (opt_entry_snoc k (pad_string_array ust (List.length nums)) u).
      apply (IH us (S i) t1 t2 rest N U (nums ++ [v]) (pad_string_array ust (List.length nums) ++ [u]) tabF gl I1 UW' E2 GK KX1 P KN KU).
Qed.

(* ---------- what the unit bookkeeping computes ---------- *)
Definition all_empty (K : list (Z * string)) : bool := forallb (fun pr => String.eqb (snd pr) "") K.

Lemma pad_length arr n : (List.length arr <= n)%nat -> List.length (pad_string_array arr n) = n.
Proof. intros H. unfold pad_string_array. rewrite app_length, repeat_length. lia. Qed.

Lemma pad_full arr n : (n <= List.length arr)%nat -> pad_string_array arr n = arr.
Proof. intros H. unfold pad_string_array. replace (n - List.length arr)%nat with 0%nat by lia. cbn. apply app_nil_r. Qed.

Lemma pad_succ arr n : (List.length arr <= n)%nat -> pad_string_array arr (S n) = pad_string_array arr n ++ [""].
Proof.
  intros H. unfold pad_string_array. replace (S n - List.length arr)%nat with (S (n - List.length arr)) by lia.
  rewrite <- app_assoc. f_equal. cbn [repeat]. rewrite repeat_cons. reflexivity.
Qed.

Lemma ustep_fold : forall K Kp nums ust,
  nums = map fst Kp -> (List.length ust <= List.length Kp)%nat ->
  pad_string_array ust (List.length Kp) = map snd Kp -> (ust = [] <-> all_empty Kp = true) ->
  let r := fold_left ustep K (nums, ust) in
  fst r = map fst (Kp ++ K) /\ (List.length (snd r) <= List.length (Kp ++ K))%nat /\
  pad_string_array (snd r) (List.length (Kp ++ K)) = map snd (Kp ++ K) /\ (snd r = [] <-> all_empty (Kp ++ K) = true).
Proof.
  induction K as [|[v u] K IH]; intros Kp nums ust H1 H2 H3 H4; cbn [fold_left].
  - rewrite app_nil_r. cbn [fst snd]. auto.
  - assert (LN : List.length nums = List.length Kp) by (rewrite H1, map_length; reflexivity).
    assert (US : ustep (nums, ust) (v, u) =
                 (nums ++ [v], if String.eqb u "" then ust else pad_string_array ust (List.length Kp) ++ [u])).
    { unfold ustep. cbn [fst snd]. rewrite LN. reflexivity. }
    rewrite US. clear US.
    replace (Kp ++ (v, u) :: K) with ((Kp ++ [(v, u)]) ++ K) by (rewrite <- app_assoc; reflexivity).
    apply IH.
    + rewrite map_app, H1. reflexivity.
    + rewrite app_length. cbn [List.length]. destruct (String.eqb u ""); [lia|].
      rewrite app_length, pad_length by exact H2. cbn [List.length]. lia.
    + rewrite app_length. cbn [List.length]. replace (List.length Kp + 1)%nat with (S (List.length Kp)) by lia.
      rewrite map_app. cbn [map snd].
      destruct (String.eqb_spec u "") as [->|NE].
      * rewrite pad_succ by exact H2. rewrite H3. reflexivity.
      * rewrite H3. rewrite pad_full; [reflexivity|].
        rewrite app_length, map_length. cbn [List.length]. lia.
    + unfold all_empty. rewrite forallb_app. cbn [forallb snd]. fold (all_empty Kp).
      destruct (String.eqb_spec u "") as [->|NE].
      * rewrite andb_true_r. exact H4.
      * rewrite andb_false_r. split; [|discriminate].
        intros E. destruct (pad_string_array ust (List.length Kp)); discriminate.
Qed.

Lemma ustep_result K :
  let r := fold_left ustep K ([], []) in
  fst r = map fst K /\
  (snd r = [] <-> all_empty K = true) /\
  (snd r <> [] -> pad_string_array (snd r) (List.length (map fst K)) = map snd K).
Proof.
  destruct (ustep_fold K [] [] [] eq_refl (le_n 0) eq_refl (conj (fun _ => eq_refl) (fun _ => eq_refl))) as (A & B & C & D).
  cbn [app] in *. split; [exact A|]. split; [exact D|]. intros _. rewrite map_length. exact C.
Qed.

(* ---------- all numeric labels of a sample ---------- *)
Section NumKeys.
  Variable units : list (string * list string).
  Definition ulook (k : string) : list string := match assoc k units with Some u => u | None => [] end.
  Definition Kof (e : string * list Z) : list (Z * string) := filter keep_pair (num_pairs (snd e) (ulook (fst e))).
  Definition NK (l : list (string * list Z)) : list (string * list Z) :=
    flat_map (fun e => opt_entry (fst e) (map fst (Kof e))) l.
  Definition UK (l : list (string * list Z)) : list (string * list string) :=
    flat_map (fun e => opt_entry (fst e) (snd (fold_left ustep (Kof e) ([], [])))) l.
  Definition units_wf_key (e : string * list Z) : Prop :=
    ulook (fst e) = [] \/ List.length (ulook (fst e)) = List.length (snd e).

  Lemma pre_numkeys_struct : forall l tab tab' ls,
    tab_inv tab -> pre_numkeys tab l units = Ok (tab', ls) ->
    tab_inv tab' /\ prefix tab tab' /\ Forall (ix_label (len tab')) ls.
  Proof.
    induction l as [|[k vs] r IH]; intros tab tab' ls I H; cbn [pre_numkeys] in H.
    - inversion H; subst. split; [exact I|]. split; [apply prefix_refl|constructor].
    - destruct (add_string tab k) as [t1 kx] eqn:E1.
      destruct (add_string_spec _ _ _ _ I E1) as (I1 & P1 & R1 & _).
      destruct (pre_numlabels t1 kx vs _ 0) as [[t2 a]|c|c] eqn:E2; cbn [bind] in H; try discriminate.
      destruct (pre_numkeys t2 r units) as [[t3 b]|c|c] eqn:E3; cbn [bind] in H; try discriminate.
      inversion H; subst tab' ls. clear H.
      destruct (pre_numlabels_struct kx vs _ 0%nat t1 t2 a I1 R1 E2) as (I2 & P2 & X2).
      destruct (IH t2 t3 b I2 E3) as (I3 & P3 & X3).
      split; [exact I3|]. split; [eapply prefix_trans; [exact P1|]; eapply prefix_trans; eauto|].
      apply Forall_app. split; [|exact X3].
      eapply Forall_impl; [|exact X2]. intros x Hx. eapply ix_label_mono; [exact Hx|apply prefix_len, P3].
  Qed.

  Lemma numkeys_fold : forall l tab tab' ls N U tabF gl,
    tab_inv tab -> pre_numkeys tab l units = Ok (tab', ls) -> prefix tab' tabF -> keys_sorted l = true ->
    Forall units_wf_key l ->
    (forall e, In e l -> keys_below (fst e) N /\ keys_below (fst e) U) ->
    fold_res (post_label tabF) ls {| g_label := gl; g_num := N; g_unit := U |}
    = Ok {| g_label := gl; g_num := N ++ NK l; g_unit := U ++ UK l |}.
  Proof.
    induction l as [|[k vs] r IH]; intros tab tab' ls N U tabF gl I H P KS UW KB; cbn [pre_numkeys] in H.
    - inversion H; subst. cbn [fold_res NK UK flat_map]. rewrite !app_nil_r. reflexivity.
    - destruct (add_string tab k) as [t1 kx] eqn:E1.
      destruct (add_string_spec _ _ _ _ I E1) as (I1 & P1 & R1 & N1 & _).
      destruct (pre_numlabels t1 kx vs _ 0) as [[t2 a]|c|c] eqn:E2; cbn [bind] in H; try discriminate.
      destruct (pre_numkeys t2 r units) as [[t3 b]|c|c] eqn:E3; cbn [bind] in H; try discriminate.
      inversion H; subst tab' ls. clear H.
      destruct (pre_numlabels_struct kx vs _ 0%nat t1 t2 a I1 R1 E2) as (I2 & P2 & _).
      destruct (pre_numkeys_struct r t2 t3 b I2 E3) as (_ & P3 & _).
      cbn [keys_sorted] in KS. apply andb_true_iff in KS as [KS1 KS2].
      inversion UW as [|? ? UW1 UW2]; subst.
      destruct (KB (k, vs) (or_introl eq_refl)) as [KN KU]. cbn [fst] in KN, KU.
      assert (GK : get_string tabF kx = Ok k).
      { eapply get_string_prefix; [|unfold ix in R1; lia|exact N1].
        eapply prefix_trans; [exact P2|]. eapply prefix_trans; [exact P3|exact P]. }
      rewrite fold_res_app.
      assert (UWk : (ulook k = [] \/ List.length (ulook k) = 0 + List.length vs)%nat).
      { destruct UW1 as [W|W]; cbn [fst snd] in W; [left; exact W|right; cbn; exact W]. }
      assert (P2F : prefix t2 tabF) by (eapply prefix_trans; [exact P3|exact P]).
      pose proof (numlabels_fold k kx vs (ulook k) 0%nat t1 t2 a N U [] [] tabF gl I1 UWk E2 GK R1 P2F KN KU) as F1.
      cbn [opt_entry] in F1. rewrite !app_nil_r in F1. cbn [skipn] in F1.
      rewrite F1; clear F1.
      cbn [bind]. change (filter keep_pair (num_pairs vs (ulook k))) with (Kof (k, vs)).
      rewrite (IH t2 t3 b _ _ tabF gl I2 E3 P KS2 UW2).
      + cbn [NK UK flat_map fst]. rewrite !app_assoc.
        destruct (ustep_result (Kof (k, vs))) as (A & _ & _). cbn zeta in A. rewrite A. reflexivity.
      + intros e He. destruct (KB e (or_intror He)) as [K1 K2].
        rewrite forallb_forall in KS1. specialize (KS1 e He).
        split; apply keys_below_app; auto; apply keys_below_opt; exact KS1.
  Qed.

  (* final padding of the unit lists against the final value lists *)
  Definition padF (G : list (string * list Z)) (e : string * list string) : string * list string :=
    (fst e, match snd e with [] => [] | u => pad_string_array u (List.length (odef [] (assoc (fst e) G))) end).

  Definition UKp (l : list (string * list Z)) : list (string * list string) :=
    flat_map (fun e => if all_empty (Kof e) then [] else [(fst e, map snd (Kof e))]) l.

  Lemma assoc_mid {V} k (A R : list (string * V)) v : keys_below k A -> assoc k (A ++ (k, v) :: R) = Some v.
  Proof.
    unfold assoc. induction A as [|[k' v'] A IH]; intros H; cbn [find app fst snd].
    - rewrite String.eqb_refl. reflexivity.
    - inversion H as [|? ? H1 H2]; subst. cbn [fst] in *.
      rewrite String.eqb_sym, (str_ltb_neq _ _ H1). apply IH, H2.
  Qed.

  Lemma final_units : forall l N,
    keys_sorted l = true -> (forall e, In e l -> keys_below (fst e) N) ->
    map (padF (N ++ NK l)) (UK l) = UKp l.
  Proof.
    induction l as [|[k vs] r IH]; intros N KS KB; [reflexivity|].
    cbn [keys_sorted] in KS. apply andb_true_iff in KS as [KS1 KS2].
    cbn [NK UK UKp flat_map fst]. fold (NK r) (UK r) (UKp r).
    destruct (ustep_result (Kof (k, vs))) as (A & B & C). cbn zeta in A, B, C.
    rewrite map_app. f_equal.
    - destruct (snd (fold_left ustep (Kof (k, vs)) ([], []))) as [|u0 ur] eqn:EU.
      + rewrite (proj1 B eq_refl). reflexivity.
      + assert (AE : all_empty (Kof (k, vs)) = false).
        { destruct (all_empty (Kof (k, vs))) eqn:E; [|reflexivity]. exfalso. pose proof (proj2 B eq_refl) as X. discriminate. }
        rewrite AE. cbn [opt_entry map padF fst snd].
        assert (NE : map fst (Kof (k, vs)) <> []).
        { intros E. apply map_eq_nil in E. rewrite E in AE. discriminate. }
        destruct (map fst (Kof (k, vs))) as [|n0 nr] eqn:EN; [congruence|]. cbn [opt_entry app].
        unfold padF; cbn [fst snd]. rewrite assoc_mid by (apply (KB (k, vs)); now left). cbn [odef].
        rewrite C by discriminate. reflexivity.
    - rewrite app_assoc. apply IH; [exact KS2|].
      intros e He. apply keys_below_app; [apply KB; now right|].
      apply keys_below_opt. rewrite forallb_forall in KS1. apply KS1, He.
  Qed.
End NumKeys.

(* ---------- the specification's normalisation, in the shape the proof produces ---------- *)
Lemma existsb_all_empty K : existsb (fun pr : Z * string => negb (String.eqb (snd pr) "")) K = negb (all_empty K).
Proof.
  induction K as [|[v u] K IH]; [reflexivity|]. cbn [existsb all_empty forallb snd]. fold (all_empty K).
  rewrite IH. destruct (String.eqb u ""); reflexivity.
Qed.

Lemma norm_sample_shape s :
  norm_sample s =
  {| s_loc := s_loc s; s_val := s_val s; s_label := norm_strlabels (s_label s);
     s_numlabel := NK (s_numunit s) (s_numlabel s); s_numunit := UKp (s_numunit s) (s_numlabel s) |}.
Proof.
  unfold norm_sample. f_equal.
  - induction (s_numlabel s) as [|e l IH]; [reflexivity|].
    cbn [map NK flat_map]. fold (NK (s_numunit s) l).
    assert (NE : norm_numkey s e = (fst e, Kof (s_numunit s) e)) by reflexivity. rewrite NE.
    cbn [filter snd]. destruct (Kof (s_numunit s) e) as [|p0 pr] eqn:EK; cbn [List.length Nat.eqb negb opt_entry app map].
    + exact IH.
    + cbn [map fst snd]. f_equal. exact IH.
  - induction (s_numlabel s) as [|e l IH]; [reflexivity|].
    cbn [map UKp flat_map]. fold (UKp (s_numunit s) l).
    assert (NE : norm_numkey s e = (fst e, Kof (s_numunit s) e)) by reflexivity. rewrite NE.
    cbn [filter snd]. destruct (Kof (s_numunit s) e) as [|p0 pr] eqn:EK; cbn [List.length Nat.eqb negb].
    + change (all_empty []) with true. cbn [app]. exact IH.
    + cbn [filter snd]. rewrite existsb_all_empty.
      destruct (all_empty (p0 :: pr)); cbn [negb map app fst snd]; [exact IH|]. f_equal. exact IH.
Qed.

Lemma NK_nil_UKp units l : NK units l = [] -> UKp units l = [].
Proof.
  induction l as [|e l IH]; [reflexivity|]. cbn [NK UKp flat_map]. fold (NK units l) (UKp units l).
  intros H. apply app_eq_nil in H as [H1 H2]. rewrite (IH H2), app_nil_r.
  destruct (Kof units e) as [|p0 pr]; [reflexivity|]. discriminate.
Qed.

(* ---------- one sample ---------- *)
Lemma pre_sample_ok s tab tab' rs tabF locids :
  tab_inv tab -> keys_sorted (s_label s) = true -> keys_sorted (s_numlabel s) = true ->
  Forall (units_wf_key (s_numunit s)) (s_numlabel s) ->
  pre_sample tab s = Ok (tab', rs) -> prefix tab' tabF ->
  (forall id, In id (s_loc s) -> existsb (Z.eqb id) locids = true) ->
  post_sample tabF locids rs = Ok (norm_sample s) /\ tab_inv tab' /\ prefix tab tab' /\
  rs_loc rs = s_loc s /\ rs_val rs = s_val s /\ Forall (ix_label (len tab')) (rs_label rs).
Proof.
  intros I KS1 KS2 UW H P LOC. unfold pre_sample in H.
  destruct (pre_strkeys tab (s_label s)) as [t1 a] eqn:E1.
  destruct (pre_numkeys t1 (s_numlabel s) (s_numunit s)) as [[t2 b]|c|c] eqn:E2; cbn [bind] in H; try discriminate.
  destruct (existsb (Z.eqb (-1)) (s_loc s)); [discriminate|]. inversion H; subst tab' rs. clear H.
  destruct (strkeys_fold (s_label s) tab t1 a [] t1 [] [] I E1 (prefix_refl _) KS1 (fun _ _ => Forall_nil _))
    as (_ & I1 & P01 & X1).
  destruct (pre_numkeys_struct (s_numunit s) (s_numlabel s) t1 t2 b I1 E2) as (I2 & P12 & X2).
  assert (P1F : prefix t1 tabF) by (eapply prefix_trans; eauto).
  destruct (strkeys_fold (s_label s) tab t1 a [] tabF [] [] I E1 P1F KS1 (fun _ _ => Forall_nil _)) as (F1 & _).
  cbn [app] in F1.
  pose proof (numkeys_fold (s_numunit s) (s_numlabel s) t1 t2 b [] [] tabF (norm_strlabels (s_label s)) I1 E2 P KS2 UW
                (fun _ _ => conj (Forall_nil _) (Forall_nil _))) as F2.
  cbn [app] in F2.
  split.
  - unfold post_sample. cbn [rs_label rs_loc rs_val]. rewrite fold_res_app, F1. cbn [bind]. rewrite F2. cbn [bind g_label g_num g_unit].
    rewrite norm_sample_shape. f_equal. f_equal.
    + (* locations *)
      induction (s_loc s) as [|id r IH]; [reflexivity|]. cbn [map].
      rewrite (LOC id (or_introl eq_refl)). f_equal. apply IH. intros i Hi. apply LOC. now right.
    + (* units *)
      destruct (NK (s_numunit s) (s_numlabel s)) as [|n0 nr] eqn:EN.
      * rewrite (NK_nil_UKp _ _ EN). reflexivity.
      * rewrite <- EN. rewrite <- (final_units (s_numunit s) (s_numlabel s) [] KS2 (fun _ _ => Forall_nil _)).
        reflexivity.
  - split; [exact I2|]. split; [eapply prefix_trans; eauto|]. split; [reflexivity|]. split; [reflexivity|].
    cbn [rs_label]. apply Forall_app. split; [|exact X2].
    eapply Forall_impl; [|exact X1]. intros x Hx. eapply ix_label_mono; [exact Hx|apply prefix_len, P12].
Qed.
