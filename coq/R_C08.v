(* Case runner for C08: decodes harness cases, runs the model, judges the implementation.
   Streams (harness/cmd/c08.go): cmp, sort, name, det, ser, ent. *)
From PV Require Import M_Order S_Order M_Glue08 Gen.Gen_Comparators.
Open Scope string_scope.
Open Scope Z_scope.

Definition find_chain (name : string) : option (carrier * chain) :=
  match find (fun e => String.eqb (fst (fst e)) name) comparators with
  | Some e => Some (snd (fst e), snd e)
  | None => None
  end.

Definition less_terms (car : carrier) (c : chain) (a b : term) : bool :=
  match car with
  | CNode => less node_kv c (node_of a) (node_of b)
  | CEdge => less edge_kv c (edge_of a) (edge_of b)
  | CTag => less tag_kv c (tag_of a) (tag_of b)
  | CString => str_ltb (gs a) (gs b)
  end.

Definition same_terms (car : carrier) (a b : term) : bool :=
  match car with
  | CNode => node_same (node_of a) (node_of b)
  | CEdge => edge_same (edge_of a) (edge_of b)
  | CTag => tag_same (tag_of a) (tag_of b)
  | CString => String.eqb (gs a) (gs b)
  end.

Definition tied_terms (car : carrier) (c : chain) (a b : term) : bool :=
  negb (less_terms car c a b) && negb (less_terms car c b a).

Definition nth_t (l : list term) (i : nat) : term := nth i l (TL []).

Definition matrix_term (k : nat) (m : nat -> nat -> bool) : term :=
  TL (flat_map (fun i => map (fun j => of_bool (m i j)) (idx k)) (idx k)).

(* the elements of a sort case carry an id: nodes in field 0; edges and tags are numbered by position *)
Definition elem_id (car : carrier) (pos : nat) (t : term) : Z :=
  match car with CNode => gz (gn t 0) | _ => Z.of_nat pos end.

Fixpoint with_pos {A} (n : nat) (l : list A) : list (nat * A) :=
  match l with [] => [] | a :: r => (n, a) :: with_pos (S n) r end.

Definition sort_terms (car : carrier) (c : chain) (els : list term) : list (nat * term) :=
  fold_right (fun x acc =>
     (fix ins (l : list (nat * term)) : list (nat * term) :=
        match l with
        | [] => [x]
        | y :: r => if less_terms car c (snd x) (snd y) then x :: y :: r else y :: ins r
        end) acc) [] (with_pos 0 els).

Fixpoint go_sorted_terms (car : carrier) (c : chain) (l : list term) : bool :=
  match l with
  | x :: ((y :: _) as r) => negb (less_terms car c y x) && go_sorted_terms car c r
  | _ => true
  end.

(* end-to-end layer: for every line / request the index of the first one that issues the same request *)
Definition e2e_classes (i : term) : list (option nat) :=
  if String.eqb (gs (gn i 0)) "e2e-session" then classes req_eqb (session_requests (gss (gn i 1)) [])
  else classes String.eqb (map Some (gss (gn i 1))).

Definition run_C08 (i : term) : term :=
  let op := gs (gn i 0) in
  if String.eqb op "cmp" then
    match find_chain (gs (gn i 1)) with
    | Some (car, c) =>
        let els := gl (gn i 2) in
        matrix_term (List.length els) (fun a b => less_terms car c (nth_t els a) (nth_t els b))
    | None => TL [TS "unknown-comparator"]
    end
  else if String.eqb op "sort" then
    match find_chain (gs (gn i 1)) with
    | Some (car, c) => TL (map (fun e => TZ (elem_id car (fst e) (snd e))) (sort_terms car c (gl (gn i 2))))
    | None => TL [TS "unknown-comparator"]
    end
  else if String.eqb op "name" then
    let inf := info_of (gn i 1) in TL [TS (printable_name inf); TS (sprint_info inf)]
  else if String.eqb op "det" then TL [TZ 1]
  else if String.eqb op "ser" then TL [TZ 1; TZ 1; TZ 1]
  else if String.eqb op "parse" then TL [TZ 1; TZ 1; TZ 1; TZ 1]
  else if String.eqb op "ent" then TL [TZ 1]
  else if String.eqb op "e2e-cli" then
    (* one outcome, whatever the run; accepted iff no multi-choice group and exactly one format flag *)
    TL [TZ 1; TS (if cli_accepts (gss (gn i 1)) then "ok" else "err")]
  else if String.eqb op "e2e-session" || String.eqb op "e2e-web" then
    TL (map (fun c => match c with Some k => TL [TZ (Z.of_nat k)] | None => TL [] end) (e2e_classes i))
  else TL [TS "unknown-op"].

(* ---- known-finding classes (decidable predicates of M_Order; the hypotheses of P_C08) ---- *)
Definition edge_formats : list string := ["dot"; "tree"; "callgrind"].
Definition cls_C08 (i : term) : list Z :=
  let op := gs (gn i 0) in
  if String.eqb op "cmp" || String.eqb op "sort" then
    match find_chain (gs (gn i 1)) with
    | Some (CNode, _) =>
        let ns := map node_of (gl (gn i 2)) in
        (if in_F8 ns then [8] else []) ++ (if in_F19 ns then [19] else [])
    | Some (CEdge, _) => if in_F9 (map edge_of (gl (gn i 2))) then [9] else []
    | _ => []
    end
  else if String.eqb op "det" then
    let ns := map node_of (gl (gn i 3)) in
    (if in_F8 ns then [8] else [])
    ++ (if existsb (String.eqb (gs (gn i 1))) edge_formats && in_F9_nodes ns then [9] else [])
    ++ (if in_F19 ns then [19] else [])
    (* F35 / F36 (weblist: first function name per line in map order; equal-flat files) are repaired in
       /repo (5f2b7e6, 7401752): no class; their witnesses stay as det-src regression cases *)
    (* F25 at the level of bytes: -dot (EntropyOrder) with weights large enough for float64 rounding
       of score*cum to reach the integer part *)
    (* F28 (float accumulation order in edgeEntropyScore) is repaired in /repo (a9c740c): no class *)
  else if String.eqb op "ent" then
    (* F25: three or more edges on one side: the float accumulation order is visible *)
    []
  else [].

Definition in_known_class (i : term) : bool := match cls_C08 i with [] => false | _ => true end.

Definition eqv_C08 (i m o : term) : bool :=
  let op := gs (gn i 0) in
  if String.eqb op "sort" then
    match find_chain (gs (gn i 1)) with
    | Some (car, c) =>
        (* with ties the result depends on the sorting algorithm: only sortedness is judged (spec) *)
        if exists_pair (tied_terms car c) (gl (gn i 2)) then true else term_eqb m o
    | None => false
    end
  else if String.eqb op "det" then
    (* the model says "one output"; inside a recorded class the implementation may differ *)
    in_known_class i || (gz (gn o 0) =? 1)
  else if String.eqb op "ent" then in_known_class i || term_eqb m o
  else if String.eqb op "e2e-cli" then
    (* a command line the glue model rejects must be rejected; one it accepts may still fail later, in
       report generation (peek without a match ...), which is not modelled -- but always the same way *)
    (gz (gn o 0) =? 1) && (String.eqb (gs (gn m 1)) "ok" || String.eqb (gs (gn o 1)) "err")
  else if String.eqb op "e2e-session" || String.eqb op "e2e-web" then
    (* the model predicts which observations must coincide, not their bytes *)
    Nat.eqb (List.length (gl o)) (List.length (gss (gn i 1))) && classes_respected (e2e_classes i) (gl o)
  else term_eqb m o.

Definition matrix_of (k : nat) (o : term) (a b : nat) : bool := gb (gn o (a * k + b)).

Definition spec_C08 (i o : term) : bool :=
  let op := gs (gn i 0) in
  if String.eqb op "cmp" then
    match find_chain (gs (gn i 1)) with
    | Some (car, _) =>
        let els := gl (gn i 2) in
        let k := List.length els in
        Nat.eqb (List.length (gl o)) (k * k)
        && matrix_laws k (fun a b => same_terms car (nth_t els a) (nth_t els b)) (matrix_of k o)
    | None => false
    end
  else if String.eqb op "sort" then
    match find_chain (gs (gn i 1)) with
    | Some (car, c) =>
        let els := gl (gn i 2) in
        let ids := map (fun e => elem_id car (fst e) (snd e)) (with_pos 0 els) in
        let by_id := fun z => match find (fun e => elem_id car (fst e) (snd e) =? z) (with_pos 0 els) with
                              | Some e => snd e | None => TL [] end in
        is_perm_z ids (gzs o) && go_sorted_terms car c (map by_id (gzs o))
    | None => false
    end
  else if String.eqb op "det" then gz (gn o 0) =? 1
  else if String.eqb op "ser" then forallb (fun z => z =? 1) (gzs o) && Nat.eqb (List.length (gl o)) 3
  else if String.eqb op "parse" then forallb (fun z => z =? 1) (gzs o) && Nat.eqb (List.length (gl o)) 4
  else if String.eqb op "ent" then gz (gn o 0) =? 1
  else if String.eqb op "e2e-cli" then gz (gn o 0) =? 1
  else if String.eqb op "e2e-session" || String.eqb op "e2e-web" then
    (* "regardless of how often it has been run": equal requests, equal bytes *)
    Nat.eqb (List.length (gl o)) (List.length (gss (gn i 1))) && classes_respected (e2e_classes i) (gl o)
  else true.

Definition judge_C08 := judge_all run_C08 eqv_C08 spec_C08 cls_C08 0%Z.
