(* Lemmas about M_Config: decimal printing/parsing, url.Values, makeURL/applyURL round trip. *)
From Coq Require Import Lia ZifyBool.
From PV Require Import M_Config S_Config.
Open Scope string_scope.
Open Scope Z_scope.

(* ------------------------------------------------------------------ strings *)
Lemma eqb_refl' : forall s, String.eqb s s = true.
Proof. intro s. apply String.eqb_eq. reflexivity. Qed.

Lemma eqb_false_iff : forall a b, String.eqb a b = false <-> a <> b.
Proof. intros a b. apply String.eqb_neq. Qed.

Lemma eqb_sym' : forall a b, String.eqb a b = String.eqb b a.
Proof.
  intros a b. destruct (String.eqb_spec a b) as [E|E]; destruct (String.eqb_spec b a) as [E'|E']; congruence.
Qed.

(* ------------------------------------------------------------------ decimal *)
Lemma digit_cases : forall d, 0 <= d <= 9 ->
  d = 0 \/ d = 1 \/ d = 2 \/ d = 3 \/ d = 4 \/ d = 5 \/ d = 6 \/ d = 7 \/ d = 8 \/ d = 9.
Proof. intros d H. lia. Qed.

Lemma digit_char_ok : forall d, 0 <= d <= 9 ->
  is_digit (digit_char d) = true /\ digit_val (digit_char d) = d.
Proof.
  intros d H. destruct (digit_cases d H) as [E|[E|[E|[E|[E|[E|[E|[E|[E|E]]]]]]]]]; subst d; split; vm_compute; reflexivity.
Qed.

Lemma is_digit_not_sign : forall a, is_digit a = true -> Ascii.eqb a "-" = false /\ Ascii.eqb a "+" = false.
Proof.
  intros a H. split.
  - destruct (Ascii.eqb_spec a "-"%char) as [E|E]; [subst a; vm_compute in H; discriminate | reflexivity].
  - destruct (Ascii.eqb_spec a "+"%char) as [E|E]; [subst a; vm_compute in H; discriminate | reflexivity].
Qed.

Lemma all_digits_app : forall a b, all_digits (a ++ b) = all_digits a && all_digits b.
Proof.
  induction a as [|x a IH]; intro b; simpl; [reflexivity|].
  rewrite IH. rewrite andb_assoc. reflexivity.
Qed.

Lemma digits_val_app : forall a b acc, digits_val (a ++ b) acc = digits_val b (digits_val a acc).
Proof.
  induction a as [|x a IH]; intros b acc; simpl; [reflexivity|]. apply IH.
Qed.

Lemma pow10_S : forall f : nat, 10 ^ Z.of_nat (S f) = 10 * 10 ^ Z.of_nat f.
Proof. intro f. rewrite Nat2Z.inj_succ. rewrite Z.pow_succ_r by lia. reflexivity. Qed.

(* print_digits gives a non-empty digit string denoting n *)
Lemma print_digits_ok : forall f n, 0 <= n < 10 ^ Z.of_nat (S f) ->
  all_digits (print_digits (S f) n) = true /\
  digits_val (print_digits (S f) n) 0 = n /\
  exists a r, print_digits (S f) n = String a r /\ is_digit a = true.
Proof.
  induction f as [|f IH]; intros n Hn.
  - change (10 ^ Z.of_nat 1) with 10 in Hn.
    cbn [print_digits]. assert (E : n <? 10 = true) by lia. rewrite E.
    assert (Hd : 0 <= n <= 9) by lia. destruct (digit_char_ok n Hd) as [D1 D2].
    simpl. rewrite D1, D2. repeat split; try reflexivity.
    exists (digit_char n), "". split; [reflexivity|exact D1].
  - remember (S f) as f1 eqn:Ef1. cbn [print_digits]. destruct (n <? 10) eqn:E.
    + assert (Hd : 0 <= n <= 9) by lia. destruct (digit_char_ok n Hd) as [D1 D2].
      simpl. rewrite D1, D2. repeat split; try reflexivity.
      exists (digit_char n), "". split; [reflexivity|exact D1].
    + assert (Hq : 0 <= n / 10 < 10 ^ Z.of_nat f1).
      { rewrite pow10_S in Hn. split.
        - apply Z.div_pos; lia.
        - apply Z.div_lt_upper_bound; lia. }
      subst f1.
      destruct (IH (n / 10) Hq) as [A [V [a [r [P Da]]]]].
      assert (Hm : 0 <= n mod 10 <= 9) by (pose proof (Z.mod_pos_bound n 10); lia).
      destruct (digit_char_ok (n mod 10) Hm) as [D1 D2].
      rewrite all_digits_app, digits_val_app, A, V. cbn [all_digits digits_val]. rewrite D1, D2.
      split; [reflexivity|]. split.
      * pose proof (Z.div_mod n 10). lia.
      * exists a, (r ++ String (digit_char (n mod 10)) ""). rewrite P. split; [reflexivity|exact Da].
Qed.

Lemma pow10_20 : 10 ^ Z.of_nat 20 = 100000000000000000000.
Proof. vm_compute. reflexivity. Qed.

(* strconv.Atoi inverts fmt.Sprint on every int *)
Lemma atoi_print_int : forall z, min_int <= z <= max_int -> atoi (print_int z) = Some z.
Proof.
  intros z Hz. unfold min_int, max_int in Hz. unfold print_int.
  destruct (z <? 0) eqn:E.
  - assert (Hn : 0 <= - z < 10 ^ Z.of_nat 20) by (rewrite pow10_20; lia).
    destruct (print_digits_ok 19 (- z) Hn) as [A [V [a [r [P Da]]]]].
    unfold atoi. cbn [split_sign]. change (Ascii.eqb "-" "-") with true. cbn iota.
    rewrite P in *. rewrite A, V.
    replace (- - z) with z by lia.
    unfold min_int, max_int.
    destruct ((z <? -9223372036854775808) || (9223372036854775807 <? z)) eqn:R; [lia|reflexivity].
  - assert (Hn : 0 <= z < 10 ^ Z.of_nat 20) by (rewrite pow10_20; lia).
    destruct (print_digits_ok 19 z Hn) as [A [V [a [r [P Da]]]]].
    unfold atoi. rewrite P in *. cbn [split_sign].
    destruct (is_digit_not_sign a Da) as [N1 N2]. rewrite N1, N2.
    rewrite A, V. unfold min_int, max_int.
    destruct ((z <? -9223372036854775808) || (9223372036854775807 <? z)) eqn:R; [lia|reflexivity].
Qed.

Lemma bool_url_roundtrip : forall b, string_to_bool (take 1 (print_bool b)) = Some b.
Proof. destruct b; vm_compute; reflexivity. Qed.

(* ------------------------------------------------------------------ url.Values *)
Lemma vget_vdel_same : forall q k, vget (vdel q k) k = "".
Proof.
  induction q as [|[k' vs] q IH]; intro k; simpl; [reflexivity|].
  destruct (String.eqb k' k) eqn:E; simpl; [apply IH|]. rewrite E. apply IH.
Qed.

Lemma vget_vdel_other : forall q k k', k <> k' -> vget (vdel q k) k' = vget q k'.
Proof.
  induction q as [|[k0 vs] q IH]; intros k k' N; simpl; [reflexivity|].
  destruct (String.eqb k0 k) eqn:E; simpl.
  - apply String.eqb_eq in E. subst k0.
    destruct (String.eqb k k') eqn:E2; [apply String.eqb_eq in E2; contradiction|]. apply IH; exact N.
  - destruct (String.eqb k0 k'); [reflexivity|]. apply IH; exact N.
Qed.

Lemma vget_vset_same : forall q k v, vget (vset q k v) k = v.
Proof. intros q k v. unfold vset. simpl. rewrite eqb_refl'. reflexivity. Qed.

Lemma vget_vset_other : forall q k v k', k <> k' -> vget (vset q k v) k' = vget q k'.
Proof.
  intros q k v k' N. unfold vset. simpl.
  destruct (String.eqb k k') eqn:E; [apply String.eqb_eq in E; contradiction|].
  apply vget_vdel_other; exact N.
Qed.

(* ------------------------------------------------------------------ table facts *)
Lemma nodup_str_cons : forall a l, nodup_str (a :: l) = true -> ~ In a l /\ nodup_str l = true.
Proof.
  intros a l H. simpl in H. apply andb_true_iff in H. destruct H as [H1 H2]. split; [|exact H2].
  intro Hin. apply negb_true_iff in H1.
  assert (existsb (String.eqb a) l = true) by (apply existsb_exists; exists a; split; [exact Hin|apply eqb_refl']).
  congruence.
Qed.

Lemma find_field_in : forall fs f, nodup_str (map f_name fs) = true -> In f fs -> find_field fs (f_name f) = Some f.
Proof.
  induction fs as [|g fs IH]; intros f N Hin; [contradiction|].
  simpl in N. apply nodup_str_cons in N. destruct N as [N1 N2].
  unfold find_field. simpl. destruct Hin as [E|Hin].
  - subst g. rewrite eqb_refl'. reflexivity.
  - destruct (String.eqb (f_name g) (f_name f)) eqn:E.
    + apply String.eqb_eq in E. exfalso. apply N1. rewrite E. apply in_map. exact Hin.
    + apply IH; assumption.
Qed.

(* ------------------------------------------------------------------ set_field *)
Section Oracle.
  Variable pf : string -> option string.

  (* the string a successful set stores, independent of the config *)
  Definition set_value (f : field) (v : string) : option string :=
    match f_kind f with
    | KStr => match f_choices f with
              | [] => Some v
              | ch => if existsb (String.eqb v) ch then Some v else None
              end
    | KInt => match atoi v with Some z => Some (print_int z) | None => None end
    | KFloat => pf v
    | KBool => match string_to_bool v with Some b => Some (print_bool b) | None => None end
    end.

  Lemma set_field_eq : forall c f v,
    set_field pf c f v = match set_value f v with Some w => Some (upd c (f_name f) w) | None => None end.
  Proof.
    intros c f v. unfold set_field, set_value. destruct (f_kind f).
    - destruct (f_choices f) as [|x l]; [reflexivity|]. destruct (existsb (String.eqb v) (x :: l)); reflexivity.
    - destruct (atoi v); reflexivity.
    - destruct (pf v); reflexivity.
    - destruct (string_to_bool v); reflexivity.
  Qed.

  (* the value of the URL parameter of f in q ("" when f has none) *)
  Definition urlval (q : values) (f : field) : string :=
    if String.eqb (f_url f) "" then "" else vget q (f_url f).

  (* what applyURL leaves in field f, starting from old *)
  Definition applied (q : values) (f : field) (old : string) : string :=
    if String.eqb (urlval q f) "" then old
    else match set_value f (urlval q f) with Some w => w | None => old end.

  Lemma apply_url_go_spec : forall fs c0 q,
    nodup_str (map f_name fs) = true ->
    (forall f, In f fs -> urlval q f <> "" -> set_value f (urlval q f) <> None) ->
    exists c', apply_url_go pf fs c0 q = Ok c' /\
      (forall f, In f fs -> c' (f_name f) = applied q f (c0 (f_name f))) /\
      (forall n, ~ In n (map f_name fs) -> c' n = c0 n).
  Proof.
    induction fs as [|f fs IH]; intros c0 q N Hok.
    - exists c0. simpl. split; [reflexivity|]. split; [intros f []|intros n Hn; reflexivity].
    - simpl in N. apply nodup_str_cons in N. destruct N as [N1 N2].
      cbn [apply_url_go]. fold (urlval q f).
      destruct (String.eqb (urlval q f) "") eqn:E.
      + destruct (IH c0 q N2) as [c' [A [B C]]].
        { intros g Hg. apply Hok. right. exact Hg. }
        exists c'. split; [exact A|]. split.
        * intros g [Eg|Hg].
          -- subst g. unfold applied. rewrite E. apply C. exact N1.
          -- apply B. exact Hg.
        * intros n Hn. apply C. intro Hin. apply Hn. right. exact Hin.
      + assert (Hne : urlval q f <> "") by (apply String.eqb_neq; exact E).
        rewrite set_field_eq.
        destruct (set_value f (urlval q f)) as [w|] eqn:SV.
        2:{ exfalso. apply (Hok f (or_introl eq_refl) Hne). exact SV. }
        destruct (IH (upd c0 (f_name f) w) q N2) as [c' [A [B C]]].
        { intros g Hg. apply Hok. right. exact Hg. }
        exists c'. split; [exact A|]. split.
        * intros g [Eg|Hg].
          -- subst g. unfold applied. rewrite E, SV. rewrite (C _ N1). unfold upd. rewrite eqb_refl'. reflexivity.
          -- rewrite (B g Hg). unfold upd.
             destruct (String.eqb (f_name g) (f_name f)) eqn:E2; [|reflexivity].
             apply String.eqb_eq in E2. exfalso. apply N1. rewrite <- E2. apply in_map. exact Hg.
        * intros n Hn. rewrite C by (intro Hin; apply Hn; right; exact Hin).
          unfold upd. destruct (String.eqb n (f_name f)) eqn:E2; [|reflexivity].
          apply String.eqb_eq in E2. exfalso. apply Hn. left. symmetry. exact E2.
  Qed.

  (* a failing field aborts applyURL with that field's name; earlier fields do not matter *)
  Lemma apply_url_go_err : forall fs c0 q e, apply_url_go pf fs c0 q = Err e ->
    exists f, In f fs /\ f_name f = e /\ urlval q f <> "" /\ set_value f (urlval q f) = None.
  Proof.
    induction fs as [|f fs IH]; intros c0 q e H; [discriminate|].
    cbn [apply_url_go] in H. fold (urlval q f) in H.
    destruct (String.eqb (urlval q f) "") eqn:E.
    - destruct (IH _ _ _ H) as [g [G1 G2]]. exists g. split; [right; exact G1|exact G2].
    - rewrite set_field_eq in H. destruct (set_value f (urlval q f)) as [w|] eqn:SV.
      + destruct (IH _ _ _ H) as [g [G1 G2]]. exists g. split; [right; exact G1|exact G2].
      + inversion H; subst e. exists f. split; [left; reflexivity|]. split; [reflexivity|].
        split; [apply String.eqb_neq; exact E|exact SV].
  Qed.
End Oracle.

(* ------------------------------------------------------------------ makeURL *)
Definition url_params_of (fs : list field) : list string := url_params fs.

Lemma in_url_params : forall fs f, In f fs -> f_url f <> "" -> In (f_url f) (url_params fs).
Proof.
  intros fs f Hin Hne. unfold url_params. apply filter_In. split; [apply in_map; exact Hin|].
  apply negb_true_iff. apply String.eqb_neq. exact Hne.
Qed.

Lemma url_params_cons : forall f fs,
  url_params (f :: fs) = if String.eqb (f_url f) "" then url_params fs else f_url f :: url_params fs.
Proof. intros f fs. unfold url_params. simpl. destruct (String.eqb (f_url f) ""); reflexivity. Qed.

(* after makeURL: the parameter of every saved URL field holds that field's URL value; every other
   key is untouched *)
Lemma make_url_go_spec : forall c fs q ch,
  nodup_str (url_params fs) = true ->
  let q' := fst (make_url_go fs c q ch) in
  (forall f, In f fs -> url_field f = true -> vget q' (f_url f) = url_value f c) /\
  (forall k, (forall f, In f fs -> url_field f = true -> f_url f <> k) -> vget q' k = vget q k).
Proof.
  intros c. induction fs as [|f fs IH]; intros q ch N.
  - simpl. split; [intros f []|reflexivity].
  - cbn [make_url_go]. rewrite url_params_cons in N.
    assert (Hskip : String.eqb (f_url f) "" || negb (f_saved f) = negb (url_field f)).
    { unfold url_field. destruct (String.eqb (f_url f) ""), (f_saved f); reflexivity. }
    rewrite Hskip. destruct (url_field f) eqn:UF; cbn [negb].
    + assert (Hne : f_url f <> "").
      { unfold url_field in UF. apply andb_true_iff in UF. destruct UF as [_ U]. apply negb_true_iff in U.
        apply String.eqb_neq. exact U. }
      assert (E0 : String.eqb (f_url f) "" = false) by (apply String.eqb_neq; exact Hne).
      rewrite E0 in N. apply nodup_str_cons in N. destruct N as [N1 N2].
      (* the query after f's own step *)
      set (q1 := if String.eqb (vget q (f_url f)) (url_value f c) then q
                 else if String.eqb (url_value f c) "" then vdel q (f_url f) else vset q (f_url f) (url_value f c)).
      assert (G1 : vget q1 (f_url f) = url_value f c).
      { unfold q1. destruct (String.eqb (vget q (f_url f)) (url_value f c)) eqn:E1.
        - apply String.eqb_eq. exact E1.
        - destruct (String.eqb (url_value f c) "") eqn:E2.
          + apply String.eqb_eq in E2. rewrite E2. apply vget_vdel_same.
          + apply vget_vset_same. }
      assert (G2 : forall k, f_url f <> k -> vget q1 k = vget q k).
      { intros k Hk. unfold q1. destruct (String.eqb (vget q (f_url f)) (url_value f c)); [reflexivity|].
        destruct (String.eqb (url_value f c) ""); [apply vget_vdel_other|apply vget_vset_other]; exact Hk. }
      assert (Hstep : exists ch1, (if String.eqb (vget q (f_url f)) (url_value f c)
                then make_url_go fs c q ch
                else make_url_go fs c (if String.eqb (url_value f c) "" then vdel q (f_url f) else vset q (f_url f) (url_value f c)) true)
               = make_url_go fs c q1 ch1).
      { unfold q1. destruct (String.eqb (vget q (f_url f)) (url_value f c)); [exists ch|exists true]; reflexivity. }
      destruct Hstep as [ch1 Hstep]. rewrite Hstep.
      destruct (IH q1 ch1 N2) as [A B]. split.
      * intros g [Eg|Hg] UG.
        -- subst g. rewrite B; [exact G1|].
           intros h Hh UH Eh. apply N1. rewrite <- Eh. apply in_url_params; [exact Hh|].
           rewrite Eh. exact Hne.
        -- apply A; assumption.
      * intros k Hk. rewrite B.
        -- apply G2. apply (Hk f); [left; reflexivity|exact UF].
        -- intros h Hh UH. apply Hk; [right; exact Hh|exact UH].
    + assert (N2 : nodup_str (url_params fs) = true).
      { destruct (String.eqb (f_url f) ""); [exact N|]. apply nodup_str_cons in N. destruct N as [_ N]. exact N. }
      destruct (IH q ch N2) as [A B]. split.
      * intros g [Eg|Hg] UG; [subst g; congruence|]. apply A; assumption.
      * intros k Hk. apply B. intros h Hh UH. apply Hk; [right; exact Hh|exact UH].
Qed.

(* ------------------------------------------------------------------ the round trip *)
Lemma table_ok_split : forall fs, table_ok fs = true ->
  nodup_str (map f_name fs) = true /\ nodup_str (url_params fs) = true.
Proof. intros fs H. unfold table_ok in H. apply andb_true_iff in H. exact H. Qed.

Lemma wf_cfgb_in : forall pf fs c f, wf_cfgb pf fs c = true -> In f fs -> wf_value pf f (c (f_name f)) = true.
Proof. intros pf fs c f H Hin. unfold wf_cfgb in H. rewrite forallb_forall in H. apply H. exact Hin. Qed.

Lemma take1_empty : forall v, take 1 v = "" -> v = "".
Proof. intros v H. destruct v as [|a r]; [reflexivity|]. simpl in H. discriminate. Qed.

(* one field: what the URL value restores is the (canonical) value it was made from *)
Lemma field_roundtrip : forall pf f v, wf_value pf f v = true ->
  let u := if String.eqb v (f_default f) then "" else match f_kind f with KBool => take 1 v | _ => v end in
  (u = "" -> canon f v = f_default f) /\
  (u <> "" -> set_value pf f u = Some v /\ canon f v = v).
Proof.
  intros pf f v W. cbn zeta.
  destruct (String.eqb v (f_default f)) eqn:ED.
  - apply String.eqb_eq in ED. split; [|intro H; contradiction H; reflexivity].
    intros _. unfold canon. destruct (String.eqb v ""); [reflexivity|exact ED].
  - unfold wf_value in W. unfold set_value. unfold canon.
    destruct (f_kind f) eqn:K.
    + (* string *)
      split.
      * intro E. subst v. rewrite eqb_refl'. reflexivity.
      * intro Hne. assert (Ev : String.eqb v "" = false) by (apply String.eqb_neq; exact Hne). rewrite Ev.
        split; [|reflexivity].
        destruct (f_choices f) as [|x l]; [reflexivity|].
        rewrite Ev in W. cbn [orb] in W. rewrite W. reflexivity.
    + (* int *)
      destruct (atoi v) as [z|] eqn:A; [|discriminate]. apply String.eqb_eq in W.
      split.
      * intro E. rewrite E in A. cbv in A. discriminate.
      * intro Hne. assert (Ev : String.eqb v "" = false) by (apply String.eqb_neq; exact Hne). rewrite Ev.
        rewrite W. split; reflexivity.
    + (* float *)
      destruct (pf v) as [s|] eqn:P; [|discriminate]. apply String.eqb_eq in W. subst s.
      split.
      * intro E. subst v. rewrite eqb_refl'. reflexivity.
      * intro Hne. assert (Ev : String.eqb v "" = false) by (apply String.eqb_neq; exact Hne). rewrite Ev.
        split; reflexivity.
    + (* bool *)
      apply orb_true_iff in W. destruct W as [W|W]; apply String.eqb_eq in W; subst v; split;
        try (intro H; vm_compute in H; discriminate); intros _; split; vm_compute; reflexivity.
Qed.

Lemma url_value_unfold : forall f c,
  url_value f c = if String.eqb (c (f_name f)) (f_default f) then ""
                  else match f_kind f with KBool => take 1 (c (f_name f)) | _ => c (f_name f) end.
Proof. reflexivity. Qed.

Lemma default_cfg_at : forall fs f, nodup_str (map f_name fs) = true -> In f fs -> default_cfg fs (f_name f) = f_default f.
Proof. intros fs f N Hin. unfold default_cfg. rewrite (find_field_in fs f N Hin). reflexivity. Qed.

Lemma vget_nil : forall k, vget [] k = "".
Proof. reflexivity. Qed.

(* MAIN: URL made from c (on an empty base query), applied to the default configuration, gives
   back every saved option that has a URL parameter (empty string = unset = default) *)
Lemma url_roundtrip_lemma : forall pf fs c,
  table_ok fs = true -> wf_cfgb pf fs c = true ->
  exists c', apply_url_go pf fs (default_cfg fs) (fst (make_url fs c [])) = Ok c' /\
    forall f, In f fs -> url_field f = true -> c' (f_name f) = canon f (c (f_name f)).
Proof.
  intros pf fs c T W. destruct (table_ok_split fs T) as [N1 N2].
  unfold make_url. destruct (make_url_go_spec c fs [] false N2) as [A B].
  set (q' := fst (make_url_go fs c [] false)) in *.
  (* value of each field's parameter in q' *)
  assert (UV : forall f, In f fs -> urlval q' f = if url_field f then url_value f c else "").
  { intros f Hin. unfold urlval. destruct (String.eqb (f_url f) "") eqn:E0.
    - unfold url_field. rewrite E0. destruct (f_saved f); reflexivity.
    - destruct (url_field f) eqn:UF; [apply A; assumption|].
      rewrite B; [apply vget_nil|].
      intros g Hg UG Eg.
      (* g and f share a URL parameter: impossible unless g = f, but f is not a url field *)
      assert (g = f).
      { clear - N2 Hg Hin Eg E0. revert N2. induction fs as [|h fs IH]; intros N2; [contradiction|].
        rewrite url_params_cons in N2.
        destruct Hg as [Eh|Hg]; destruct Hin as [Eh'|Hin].
        - congruence.
        - subst h. rewrite Eg, E0 in N2. apply nodup_str_cons in N2. destruct N2 as [N _].
          exfalso. apply N. apply in_url_params; [exact Hin|apply String.eqb_neq; exact E0].
        - subst h. rewrite E0 in N2. apply nodup_str_cons in N2. destruct N2 as [N _].
          exfalso. apply N. rewrite <- Eg. apply in_url_params; [exact Hg|rewrite Eg; apply String.eqb_neq; exact E0].
        - apply IH; try assumption. destruct (String.eqb (f_url h) ""); [exact N2|].
          apply nodup_str_cons in N2. destruct N2 as [_ N]. exact N. }
      subst g. congruence. }
  destruct (apply_url_go_spec pf fs (default_cfg fs) q' N1) as [c' [R1 [R2 R3]]].
  { intros f Hin Hne. rewrite (UV f Hin) in *. destruct (url_field f) eqn:UF; [|contradiction Hne; reflexivity].
    rewrite url_value_unfold in *.
    destruct (field_roundtrip pf f (c (f_name f)) (wf_cfgb_in pf fs c f W Hin)) as [_ F2].
    destruct (F2 Hne) as [F _]. rewrite F. discriminate. }
  exists c'. split; [exact R1|]. intros f Hin UF.
  rewrite (R2 f Hin). unfold applied. rewrite (UV f Hin), UF. rewrite (default_cfg_at fs f N1 Hin).
  rewrite url_value_unfold.
  destruct (field_roundtrip pf f (c (f_name f)) (wf_cfgb_in pf fs c f W Hin)) as [F1 F2].
  cbn zeta in F1, F2.
  destruct (String.eqb (if String.eqb (c (f_name f)) (f_default f) then ""
                        else match f_kind f with KBool => take 1 (c (f_name f)) | _ => c (f_name f) end) "") eqn:E.
  - apply String.eqb_eq in E. symmetry. apply F1. exact E.
  - apply String.eqb_neq in E. destruct (F2 E) as [S1 S2]. rewrite S1. symmetry. exact S2.
Qed.

(* the same on any base query, whenever applyURL succeeds *)
Lemma url_roundtrip_any_base_lemma : forall pf fs c q0 c',
  table_ok fs = true -> wf_cfgb pf fs c = true ->
  apply_url_go pf fs (default_cfg fs) (fst (make_url fs c q0)) = Ok c' ->
  forall f, In f fs -> url_field f = true -> c' (f_name f) = canon f (c (f_name f)).
Proof.
  intros pf fs c q0 c' T W R f Hin UF. destruct (table_ok_split fs T) as [N1 N2].
  unfold make_url in R. destruct (make_url_go_spec c fs q0 false N2) as [A _].
  set (q' := fst (make_url_go fs c q0 false)) in *.
  assert (Hne0 : String.eqb (f_url f) "" = false).
  { unfold url_field in UF. apply andb_true_iff in UF. destruct UF as [_ U]. apply negb_true_iff in U. exact U. }
  assert (UVf : urlval q' f = url_value f c).
  { unfold urlval. rewrite Hne0. apply A; assumption. }
  (* run applyURL: either every field is fine (then use the spec) or it failed (contradiction) *)
  destruct (field_roundtrip pf f (c (f_name f)) (wf_cfgb_in pf fs c f W Hin)) as [F1 F2]. cbn zeta in F1, F2.
  rewrite <- url_value_unfold in F1, F2.
  (* generic extraction of f's value from a successful run *)
  assert (G : forall fs0 c0, nodup_str (map f_name fs0) = true -> In f fs0 ->
              apply_url_go pf fs0 c0 q' = Ok c' -> c' (f_name f) = applied pf q' f (c0 (f_name f))).
  { induction fs0 as [|g fs0 IH]; intros c0 N Hin0 R0; [contradiction|].
    simpl in N. apply nodup_str_cons in N. destruct N as [Na Nb].
    cbn [apply_url_go] in R0. fold (urlval q' g) in R0.
    assert (Keep : forall c1, apply_url_go pf fs0 c1 q' = Ok c' -> ~ In (f_name f) (map f_name fs0) -> c' (f_name f) = c1 (f_name f)).
    { clear. intros c1. revert c1. induction fs0 as [|h fs0 IH]; intros c1 R1 Hn.
      - simpl in R1. inversion R1. reflexivity.
      - cbn [apply_url_go] in R1. fold (urlval q' h) in R1.
        assert (Hn' : ~ In (f_name f) (map f_name fs0)) by (intro X; apply Hn; right; exact X).
        destruct (String.eqb (urlval q' h) ""); [apply IH; assumption|].
        rewrite set_field_eq in R1. destruct (set_value pf h (urlval q' h)) as [w|]; [|discriminate].
        rewrite (IH _ R1 Hn'). unfold upd.
        destruct (String.eqb (f_name f) (f_name h)) eqn:E; [|reflexivity].
        apply String.eqb_eq in E. exfalso. apply Hn. left. symmetry. exact E. }
    destruct Hin0 as [Eg|Hin0].
    - subst g. unfold applied.
      destruct (String.eqb (urlval q' f) ""); [apply Keep; assumption|].
      rewrite set_field_eq in R0. destruct (set_value pf f (urlval q' f)) as [w|]; [|discriminate].
      rewrite (Keep _ R0 Na). unfold upd. rewrite eqb_refl'. reflexivity.
    - assert (Nfg : String.eqb (f_name f) (f_name g) = false).
      { apply String.eqb_neq. intro E. apply Na. rewrite <- E. apply in_map. exact Hin0. }
      destruct (String.eqb (urlval q' g) ""); [apply IH; assumption|].
      rewrite set_field_eq in R0. destruct (set_value pf g (urlval q' g)) as [w|]; [|discriminate].
      rewrite (IH _ Nb Hin0 R0). unfold upd. rewrite Nfg. reflexivity. }
  rewrite (G fs (default_cfg fs) N1 Hin R). unfold applied. rewrite UVf.
  rewrite (default_cfg_at fs f N1 Hin).
  destruct (String.eqb (url_value f c) "") eqn:E.
  - apply String.eqb_eq in E. symmetry. apply F1. exact E.
  - apply String.eqb_neq in E. destruct (F2 E) as [S1 S2]. rewrite S1. symmetry. exact S2.
Qed.

(* defaults are not spelled out *)
Lemma make_url_elides_defaults_lemma : forall fs c q f,
  table_ok fs = true -> In f fs -> url_field f = true -> c (f_name f) = f_default f ->
  vget (fst (make_url fs c q)) (f_url f) = "".
Proof.
  intros fs c q f T Hin UF E. destruct (table_ok_split fs T) as [_ N2].
  destruct (make_url_go_spec c fs q false N2) as [A _]. unfold make_url. rewrite (A f Hin UF).
  rewrite url_value_unfold. rewrite E, eqb_refl'. reflexivity.
Qed.

(* applyURL touches nothing the URL does not mention *)
Lemma apply_url_untouched_lemma : forall pf fs c0 q c' f,
  nodup_str (map f_name fs) = true -> apply_url_go pf fs c0 q = Ok c' -> In f fs ->
  (f_url f = "" \/ vget q (f_url f) = "") -> c' (f_name f) = c0 (f_name f).
Proof.
  intros pf fs c0 q c' f N R Hin Hu.
  assert (U : urlval q f = "").
  { unfold urlval. destruct (String.eqb (f_url f) "") eqn:E; [reflexivity|].
    destruct Hu as [Hu|Hu]; [apply String.eqb_neq in E; contradiction|exact Hu]. }
  revert c0 N R Hin. induction fs as [|g fs IH]; intros c0 N R Hin; [contradiction|].
  simpl in N. apply nodup_str_cons in N. destruct N as [Na Nb].
  cbn [apply_url_go] in R. fold (urlval q g) in R.
  assert (Keep : forall fs1 c1, apply_url_go pf fs1 c1 q = Ok c' -> ~ In (f_name f) (map f_name fs1) -> c' (f_name f) = c1 (f_name f)).
  { clear. induction fs1 as [|h fs1 IH]; intros c1 R1 Hn.
    - simpl in R1. inversion R1. reflexivity.
    - cbn [apply_url_go] in R1. fold (urlval q h) in R1.
      assert (Hn' : ~ In (f_name f) (map f_name fs1)) by (intro X; apply Hn; right; exact X).
      destruct (String.eqb (urlval q h) ""); [apply IH; assumption|].
      rewrite set_field_eq in R1. destruct (set_value pf h (urlval q h)) as [w|]; [|discriminate].
      rewrite (IH _ R1 Hn'). unfold upd.
      destruct (String.eqb (f_name f) (f_name h)) eqn:E; [|reflexivity].
      apply String.eqb_eq in E. exfalso. apply Hn. left. symmetry. exact E. }
  destruct Hin as [Eg|Hin].
  - subst g. rewrite U in R. rewrite eqb_refl' in R. apply Keep with (fs1 := fs); assumption.
  - assert (Nfg : String.eqb (f_name f) (f_name g) = false).
    { apply String.eqb_neq. intro E. apply Na. rewrite <- E. apply in_map. exact Hin. }
    destruct (String.eqb (urlval q g) ""); [apply IH; assumption|].
    rewrite set_field_eq in R. destruct (set_value pf g (urlval q g)) as [w|]; [|discriminate].
    rewrite (IH _ Nb R Hin). unfold upd. rewrite Nfg. reflexivity.
Qed.

(* F26: a saved option WITHOUT URL parameter does not survive the URL *)
Lemma url_drops_saved_without_param : forall pf fs c c' f,
  nodup_str (map f_name fs) = true -> In f fs -> f_saved f = true -> f_url f = "" ->
  apply_url_go pf fs (default_cfg fs) (fst (make_url fs c [])) = Ok c' ->
  c' (f_name f) = f_default f.
Proof.
  intros pf fs c c' f N Hin S U R.
  rewrite (apply_url_untouched_lemma pf fs _ _ c' f N R Hin (or_introl U)).
  apply default_cfg_at; assumption.
Qed.

(* every value config.set can store is well formed: ints are printed ints etc. *)
Lemma set_value_wf : forall pf f v w,
  (forall s c, pf s = Some c -> pf c = Some c) ->
  set_value pf f v = Some w -> wf_value pf f w = true.
Proof.
  intros pf f v w Hpf H. unfold set_value in H. unfold wf_value. destruct (f_kind f).
  - destruct (f_choices f) as [|x l]; [reflexivity|].
    destruct (existsb (String.eqb v) (x :: l)) eqn:E; [|discriminate]. inversion H; subst w.
    rewrite E. apply orb_true_r.
  - destruct (atoi v) as [z|] eqn:A; [|discriminate]. inversion H; subst w.
    assert (R : min_int <= z <= max_int).
    { unfold atoi in A. destruct (split_sign v) as [neg body]. destruct body as [|a r]; [discriminate|].
      destruct (all_digits (String a r)); [|discriminate].
      set (zz := if neg then - digits_val (String a r) 0 else digits_val (String a r) 0) in *.
      destruct ((zz <? min_int) || (max_int <? zz)) eqn:Rg; [discriminate|].
      assert (Ez : z = zz) by congruence. rewrite Ez. clearbody zz. unfold min_int, max_int in *. lia. }
    rewrite (atoi_print_int z R). apply eqb_refl'.
  - rewrite (Hpf v w H). apply eqb_refl'.
  - destruct (string_to_bool v) as [b|]; [|discriminate]. inversion H; subst w. destruct b; reflexivity.
Qed.

(* a query that already carries the configuration is left alone: changed = false (this is how the
   Config menu recognises the current configuration) *)
Lemma make_url_go_stable : forall c fs q ch,
  (forall f, In f fs -> url_field f = true -> vget q (f_url f) = url_value f c) ->
  make_url_go fs c q ch = (q, ch).
Proof.
  intros c. induction fs as [|f fs IH]; intros q ch H; [reflexivity|].
  cbn [make_url_go].
  assert (Hskip : String.eqb (f_url f) "" || negb (f_saved f) = negb (url_field f)).
  { unfold url_field. destruct (String.eqb (f_url f) ""), (f_saved f); reflexivity. }
  rewrite Hskip. destruct (url_field f) eqn:UF; cbn [negb].
  - rewrite (H f (or_introl eq_refl) UF). rewrite eqb_refl'. apply IH. intros g Hg. apply H. right. exact Hg.
  - apply IH. intros g Hg. apply H. right. exact Hg.
Qed.

Lemma make_url_idempotent_lemma : forall fs c q,
  table_ok fs = true -> make_url fs c (fst (make_url fs c q)) = (fst (make_url fs c q), false).
Proof.
  intros fs c q T. destruct (table_ok_split fs T) as [_ N2]. unfold make_url.
  destruct (make_url_go_spec c fs q false N2) as [A _].
  apply make_url_go_stable. exact A.
Qed.
