(* Lemmas and proofs for C04 / C05: the graph built by the model's per-sample walk (seen-node and
   seen-edge de-duplication, parent/residual state) carries exactly the definition sums of
   S_Graph, for every sample list, every entry key type and every kept set. *)
From Coq Require Import Lia.
From PV Require Import M_Graph S_Graph.
Open Scope list_scope.
Open Scope Z_scope.

(* ---------------- int64 wrap-around ---------------- *)
Lemma wrap_wrap_add_l : forall a b, wrap_i64 (wrap_i64 a + b) = wrap_i64 (a + b).
Proof.
  intros a b. unfold wrap_i64.
  replace ((a + two63) mod two64 - two63 + b + two63) with ((a + two63) mod two64 + b) by lia.
  rewrite Zplus_mod_idemp_l. f_equal. f_equal. lia.
Qed.

Lemma wadd_wrap : forall a b, wadd (wrap_i64 a) b = wrap_i64 (a + b).
Proof. intros. unfold wadd. apply wrap_wrap_add_l. Qed.

Lemma wrap_0 : wrap_i64 0 = 0.
Proof. reflexivity. Qed.

Lemma wadd_0_l : forall w, wadd 0 w = wrap_i64 w.
Proof. intros. unfold wadd. f_equal. Qed.

Section Proofs.
  Variable K : Type.
  Variable keqb : K -> K -> bool.
  Hypothesis keqb_spec : forall a b, keqb a b = true <-> a = b.

  Notation memK := (memK K keqb).
  Notation nget := (nget K keqb).
  Notation nupd := (nupd K keqb).
  Notation eget := (eget K keqb).
  Notation eadd := (eadd K keqb).
  Notation graph := (graph K).
  Notation edge := (edge K).

  Lemma keqb_refl : forall a, keqb a a = true.
  Proof. intros. apply keqb_spec. reflexivity. Qed.

  Lemma keqb_sym : forall a b, keqb a b = keqb b a.
  Proof.
    intros a b. destruct (keqb a b) eqn:E1, (keqb b a) eqn:E2; auto.
    - apply keqb_spec in E1. subst. rewrite keqb_refl in E2. discriminate.
    - apply keqb_spec in E2. subst. rewrite keqb_refl in E1. discriminate.
  Qed.

  Lemma keqb_false : forall a b, keqb a b = false <-> a <> b.
  Proof.
    intros a b. split.
    - intros E H. subst. rewrite keqb_refl in E. discriminate.
    - intros H. destruct (keqb a b) eqn:E; auto. apply keqb_spec in E. contradiction.
  Qed.

  Lemma keqb_dec : forall a b : K, {a = b} + {a <> b}.
  Proof.
    intros a b. destruct (keqb a b) eqn:E.
    - left. apply keqb_spec. exact E.
    - right. apply keqb_false. exact E.
  Qed.

  (* ---------------- node table ---------------- *)
  Lemma nget_nupd_same : forall f k l, nget k (nupd f k l) = f (nget k l).
  Proof.
    intros f k l. induction l as [|e r IH]; simpl.
    - rewrite keqb_refl. reflexivity.
    - destruct (keqb (fst e) k) eqn:E; simpl; rewrite E; auto.
  Qed.

  Lemma nget_nupd_other : forall f k k' l, k <> k' -> nget k (nupd f k' l) = nget k l.
  Proof.
    intros f k k' l Hne. induction l as [|e r IH]; simpl.
    - assert (keqb k' k = false) as E by (apply keqb_false; auto). rewrite E. reflexivity.
    - destruct (keqb (fst e) k') eqn:E; simpl.
      + apply keqb_spec in E. rewrite E.
        assert (keqb k' k = false) as E2 by (apply keqb_false; auto). rewrite E2. reflexivity.
      + destruct (keqb (fst e) k) eqn:E2; auto.
  Qed.

  Lemma nget_nupd : forall f k k' l,
    nget k (nupd f k' l) = if keqb k' k then f (nget k l) else nget k l.
  Proof.
    intros. destruct (keqb k' k) eqn:E.
    - apply keqb_spec in E. subst. apply nget_nupd_same.
    - apply nget_nupd_other. apply keqb_false in E. auto.
  Qed.

  (* keys of the table stay duplicate-free *)
  Definition tkeys (l : list (K * nval)) : list K := map fst l.

  Lemma nupd_keys_in : forall f k l x, In x (tkeys (nupd f k l)) -> In x (tkeys l) \/ x = k.
  Proof.
    intros f k l x. induction l as [|e r IH]; simpl.
    - intros [H|[]]. right. auto.
    - destruct (keqb (fst e) k) eqn:E; simpl.
      + intros [H|H]; auto.
      + intros [H|H]; auto. destruct (IH H); auto.
  Qed.

  Lemma nupd_nodup : forall f k l, NoDup (tkeys l) -> NoDup (tkeys (nupd f k l)).
  Proof.
    intros f k l. induction l as [|e r IH]; simpl; intros H.
    - constructor; [intros []|constructor].
    - inversion H as [|x xs Hnin Hnd]; subst.
      destruct (keqb (fst e) k) eqn:E; simpl.
      + constructor; auto.
      + constructor; auto. intros Hin. apply nupd_keys_in in Hin. destruct Hin as [Hin|Hin]; auto.
        subst. rewrite keqb_refl in E. discriminate.
  Qed.

  Lemma nget_in : forall l k v, NoDup (tkeys l) -> In (k, v) l -> nget k l = v.
  Proof.
    induction l as [|e r IH]; simpl; intros k v Hnd Hin; [contradiction|].
    inversion Hnd as [|x xs Hnin Hnd']; subst.
    destruct Hin as [H|H].
    - subst e. simpl. rewrite keqb_refl. reflexivity.
    - destruct (keqb (fst e) k) eqn:E.
      + apply keqb_spec in E. subst k. exfalso. apply Hnin. unfold tkeys. apply in_map_iff. exists (fst e, v). auto.
      + apply IH; auto.
  Qed.

  (* ---------------- edge table ---------------- *)
  Definition ew (a b : K) (l : list edge) : Z * Z :=
    match eget a b l with Some e => (e_w e, e_wdiv e) | None => (0, 0) end.
  Definition eres (a b : K) (l : list edge) : bool :=
    match eget a b l with Some e => e_res e | None => false end.

  Definition bump2 (w dw : Z) (v : Z * Z) : Z * Z := (wadd (fst v) w, wadd (snd v) dw).

  Lemma eget_eadd_same : forall p n w dw res inl l,
    exists e, eget p n (eadd p n w dw res inl l) = Some e /\
              (e_w e, e_wdiv e) = bump2 w dw (ew p n l) /\
              e_res e = (eres p n l || res)%bool /\ e_src e = p /\ e_dst e = n.
  Proof.
    intros p n w dw res inl l. unfold ew, eres. induction l as [|e r IH]; simpl.
    - rewrite !keqb_refl. simpl. eexists. split; [reflexivity|]. simpl. auto.
    - destruct (keqb (e_src e) p && keqb (e_dst e) n)%bool eqn:E; simpl.
      + rewrite E. eexists. split; [reflexivity|]. simpl.
        apply andb_prop in E. destruct E as [E1 E2]. apply keqb_spec in E1. apply keqb_spec in E2. auto.
      + rewrite E. exact IH.
  Qed.

  Lemma eget_eadd_other : forall a b p n w dw res inl l,
    (a <> p \/ b <> n) -> eget a b (eadd p n w dw res inl l) = eget a b l.
  Proof.
    intros a b p n w dw res inl l Hne.
    assert (Hf : (keqb p a && keqb n b)%bool = false).
    { destruct Hne as [H|H].
      - assert (keqb p a = false) as E by (apply keqb_false; auto). rewrite E. reflexivity.
      - assert (keqb n b = false) as E by (apply keqb_false; auto). rewrite E. apply andb_false_r. }
    induction l as [|e r IH]; simpl.
    - rewrite Hf. reflexivity.
    - destruct (keqb (e_src e) p && keqb (e_dst e) n)%bool eqn:E; simpl.
      + apply andb_prop in E. destruct E as [E1 E2]. apply keqb_spec in E1. apply keqb_spec in E2.
        rewrite E1, E2, Hf. reflexivity.
      + destruct (keqb (e_src e) a && keqb (e_dst e) b)%bool; auto.
  Qed.

  Lemma ew_eadd : forall a b p n w dw res inl l,
    ew a b (eadd p n w dw res inl l) =
    if (keqb p a && keqb n b)%bool then bump2 w dw (ew a b l) else ew a b l.
  Proof.
    intros. destruct (keqb p a && keqb n b)%bool eqn:E.
    - apply andb_prop in E. destruct E as [E1 E2]. apply keqb_spec in E1. apply keqb_spec in E2. subst.
      destruct (eget_eadd_same a b w dw res inl l) as [e [H1 [H2 _]]].
      unfold ew at 1. rewrite H1. exact H2.
    - unfold ew. rewrite eget_eadd_other; auto.
      apply andb_false_iff in E. destruct E as [E|E]; apply keqb_false in E; auto.
  Qed.

  Lemma eres_eadd : forall a b p n w dw res inl l,
    eres a b (eadd p n w dw res inl l) =
    if (keqb p a && keqb n b)%bool then (eres a b l || res)%bool else eres a b l.
  Proof.
    intros. destruct (keqb p a && keqb n b)%bool eqn:E.
    - apply andb_prop in E. destruct E as [E1 E2]. apply keqb_spec in E1. apply keqb_spec in E2. subst.
      destruct (eget_eadd_same a b w dw res inl l) as [e [H1 [_ [H3 _]]]].
      unfold eres at 1. rewrite H1. exact H3.
    - unfold eres. rewrite eget_eadd_other; auto.
      apply andb_false_iff in E. destruct E as [E|E]; apply keqb_false in E; auto.
  Qed.

  (* every edge in the table was put there by eadd: endpoints *)
  Lemma eadd_in : forall p n w dw res inl l e,
    In e (eadd p n w dw res inl l) -> (e_src e = p /\ e_dst e = n) \/ In e l.
  Proof.
    intros p n w dw res inl l e. induction l as [|x r IH]; simpl.
    - intros [H|[]]. subst e. simpl. auto.
    - destruct (keqb (e_src x) p && keqb (e_dst x) n)%bool eqn:E; simpl.
      + intros [H|H]; auto. subst e. simpl.
        apply andb_prop in E. destruct E as [E1 E2]. apply keqb_spec in E1. apply keqb_spec in E2. auto.
      + intros [H|H]; auto. destruct (IH H); auto.
  Qed.

  (* ---------------- list facts ---------------- *)
  Lemma memK_app : forall n l1 l2, memK n (l1 ++ l2) = (memK n l1 || memK n l2)%bool.
  Proof. intros. unfold M_Graph.memK. apply existsb_app. Qed.

  Lemma memK_In : forall n l, memK n l = true <-> In n l.
  Proof.
    intros n l. unfold M_Graph.memK. rewrite existsb_exists. split.
    - intros [x [H1 H2]]. apply keqb_spec in H2. subst. auto.
    - intros H. exists n. split; auto. apply keqb_refl.
  Qed.

  Definition last_opt (l : list K) : option K :=
    match rev l with x :: _ => Some x | [] => None end.

  Lemma last_opt_snoc : forall l x, last_opt (l ++ [x]) = Some x.
  Proof. intros. unfold last_opt. rewrite rev_app_distr. reflexivity. Qed.

  Lemma adjb_snoc : forall a b l n,
    adjb K keqb a b (l ++ [n]) =
    (adjb K keqb a b l || match last_opt l with Some p => keqb p a && keqb n b | None => false end)%bool.
  Proof.
    intros a b l n. induction l as [|x r IH]; [reflexivity|].
    destruct r as [|y r'].
    - simpl. unfold last_opt. simpl. rewrite orb_false_r. reflexivity.
    - change ((x :: y :: r') ++ [n]) with (x :: (y :: r') ++ [n]).
      change (adjb K keqb a b (x :: (y :: r') ++ [n]))
        with ((keqb x a && keqb y b) || adjb K keqb a b ((y :: r') ++ [n]))%bool.
      rewrite IH.
      change (adjb K keqb a b (x :: y :: r')) with ((keqb x a && keqb y b) || adjb K keqb a b (y :: r'))%bool.
      assert (Hl : last_opt (x :: y :: r') = last_opt (y :: r')).
      { unfold last_opt. simpl. destruct (rev r' ++ [y]) eqn:E.
        - destruct (rev r'); discriminate.
        - reflexivity. }
      rewrite Hl. rewrite orb_assoc. reflexivity.
  Qed.

  (* ---------------- the per-sample walk ---------------- *)
  Notation frame := (frame K).
  Notation wst := (wst K).
  Notation step := (step K keqb).
  Notation memE := (memE K keqb).

  Definition somes (fs : list frame) : list K :=
    flat_map (fun f : frame => match fst f with Some n => [n] | None => [] end) fs.
  Definition ends_none (fs : list frame) : bool :=
    match rev fs with
    | f :: _ => match fst f with None => true | Some _ => false end
    | [] => false
    end.

  Lemma somes_snoc : forall pre f,
    somes (pre ++ [f]) = somes pre ++ match fst f with Some n => [n] | None => [] end.
  Proof. intros. unfold somes. rewrite flat_map_app. simpl. rewrite app_nil_r. reflexivity. Qed.

  Lemma ends_none_snoc : forall pre f,
    ends_none (pre ++ [f]) = match fst f with None => true | Some _ => false end.
  Proof. intros. unfold ends_none. rewrite rev_app_distr. reflexivity. Qed.

  Record Inv (w dw : Z) (g0 : graph) (pre : list frame) (st : wst) : Prop := mk_Inv {
    inv_seenN : forall n, memK n (w_seenN K st) = memK n (somes pre);
    inv_seenE : forall a b, memE (b, a) (w_seenE K st) = (negb (keqb a b) && adjb K keqb a b (somes pre))%bool;
    inv_parent : w_parent K st = last_opt (somes pre);
    inv_res : w_res K st = ends_none pre;
    inv_nodes : forall n, nget n (g_nodes (w_g K st)) =
                          if memK n (somes pre) then bump_cum w dw (nget n (g_nodes g0)) else nget n (g_nodes g0);
    inv_ew : forall a b, ew a b (g_edges (w_g K st)) =
                         if (negb (keqb a b) && adjb K keqb a b (somes pre))%bool
                         then bump2 w dw (ew a b (g_edges g0)) else ew a b (g_edges g0)
  }.

  Lemma Inv_init : forall w dw g0, Inv w dw g0 [] (mk_wst K g0 None false [] []).
  Proof. intros. constructor; simpl; intros; rewrite ?andb_false_r; reflexivity. Qed.

  Lemma memK_snoc : forall m l n, memK m (l ++ [n]) = (memK m l || keqb m n)%bool.
  Proof. intros. rewrite memK_app. simpl. rewrite orb_false_r. reflexivity. Qed.

  Lemma memE_cons : forall x y l,
    memE x (y :: l) = ((keqb (fst x) (fst y) && keqb (snd x) (snd y)) || memE x l)%bool.
  Proof. reflexivity. Qed.

  Ltac sn l := rewrite somes_snoc; cbn [fst]; fold l.

  Lemma Inv_step : forall w dw g0 pre st f,
    Inv w dw g0 pre st -> Inv w dw g0 (pre ++ [f]) (step w dw st f).
  Proof.
    intros w dw g0 pre st f I. destruct I as [IN IE IP IR INO IW].
    destruct f as [[n|] inl]; unfold M_Graph.step; simpl fst; simpl snd.
    2:{ (* a frame that is not kept *)
      constructor; simpl; rewrite ?somes_snoc, ?ends_none_snoc; simpl; rewrite ?app_nil_r; auto. }
    set (l := somes pre) in *.
    assert (Hsn : somes (pre ++ [(Some n, inl)]) = l ++ [n]) by (rewrite somes_snoc; reflexivity).
    (* the node part, shared by all sub-cases *)
    assert (HN : forall m, memK m (if memK n (w_seenN K st) then w_seenN K st else n :: w_seenN K st) = memK m (l ++ [n])).
    { intros m. rewrite memK_snoc. destruct (memK n (w_seenN K st)) eqn:Es.
      - rewrite IN. destruct (keqb m n) eqn:Em; [|rewrite orb_false_r; reflexivity].
        apply keqb_spec in Em. subst m. rewrite <- IN, Es. reflexivity.
      - simpl. rewrite IN. apply orb_comm. }
    assert (HNO : forall m, nget m (g_nodes (if memK n (w_seenN K st) then w_g K st else add_cum K keqb (w_g K st) n w dw)) =
                            if memK m (l ++ [n]) then bump_cum w dw (nget m (g_nodes g0)) else nget m (g_nodes g0)).
    { intros m. rewrite memK_snoc. destruct (memK n (w_seenN K st)) eqn:Es.
      - rewrite INO. destruct (keqb m n) eqn:Em; [|rewrite orb_false_r; reflexivity].
        apply keqb_spec in Em. subst m. rewrite <- IN, Es. reflexivity.
      - simpl. rewrite nget_nupd. rewrite (keqb_sym n m). destruct (keqb m n) eqn:Em.
        + apply keqb_spec in Em. subst m. rewrite INO. rewrite <- IN, Es. simpl. reflexivity.
        + rewrite orb_false_r. apply INO. }
    assert (HA : forall a b, adjb K keqb a b (l ++ [n]) =
                 (adjb K keqb a b l || match w_parent K st with Some p => keqb p a && keqb n b | None => false end)%bool).
    { intros. rewrite adjb_snoc. rewrite IP. reflexivity. }
    assert (HG : g_edges (if memK n (w_seenN K st) then w_g K st else add_cum K keqb (w_g K st) n w dw) = g_edges (w_g K st)).
    { destruct (memK n (w_seenN K st)); reflexivity. }
    destruct (w_parent K st) as [p|] eqn:EP.
    2:{ constructor; cbn [w_seenN w_seenE w_parent w_res w_g add_edge g_nodes g_edges].
        - intros m. sn l. apply HN.
        - intros a b. sn l; rewrite HA, orb_false_r. apply IE.
        - sn l. symmetry. apply last_opt_snoc.
        - rewrite ends_none_snoc. reflexivity.
        - intros m. sn l. apply HNO.
        - intros a b. sn l; rewrite HA, orb_false_r, HG. apply IW. }
    destruct (negb (memE (n, p) (w_seenE K st)) && negb (keqb n p))%bool eqn:EC.
    - (* a new edge p -> n *)
      apply andb_prop in EC. destruct EC as [EC1 EC2].
      apply negb_true_iff in EC1. apply negb_true_iff in EC2.
      assert (Hpn : keqb p n = false) by (rewrite keqb_sym; exact EC2).
      assert (Hadj : adjb K keqb p n l = false).
      { rewrite IE in EC1. rewrite Hpn in EC1. simpl in EC1. exact EC1. }
      constructor; cbn [w_seenN w_seenE w_parent w_res w_g add_edge g_nodes g_edges].
      + intros m. sn l. apply HN.
      + intros a b. sn l; rewrite HA. rewrite memE_cons. cbn [fst snd].
        destruct (keqb p a && keqb n b)%bool eqn:Eab.
        * apply andb_prop in Eab. destruct Eab as [E1 E2]. apply keqb_spec in E1. apply keqb_spec in E2. subst a b.
          rewrite !keqb_refl, Hpn, orb_true_r. reflexivity.
        * rewrite orb_false_r. rewrite <- IE.
          assert (Hx : (keqb b n && keqb a p)%bool = false).
          { rewrite (keqb_sym b n), (keqb_sym a p), andb_comm. exact Eab. }
          rewrite Hx. reflexivity.
      + sn l. symmetry. apply last_opt_snoc.
      + rewrite ends_none_snoc. reflexivity.
      + intros m. sn l. apply HNO.
      + intros a b. rewrite ew_eadd. sn l; rewrite HA, HG.
        destruct (keqb p a && keqb n b)%bool eqn:Eab.
        * apply andb_prop in Eab. destruct Eab as [E1 E2]. apply keqb_spec in E1. apply keqb_spec in E2. subst a b.
          rewrite IW, Hpn, Hadj. simpl. reflexivity.
        * rewrite orb_false_r. apply IW.
    - (* the edge was already counted for this sample, or n = parent *)
      assert (HX : forall a b, (keqb p a && keqb n b)%bool = true ->
                   (negb (keqb a b) && adjb K keqb a b l)%bool = negb (keqb a b)).
      { intros a b Eab. apply andb_prop in Eab. destruct Eab as [E1 E2]. apply keqb_spec in E1. apply keqb_spec in E2. subst a b.
        apply andb_false_iff in EC. destruct EC as [EC|EC].
        - apply negb_false_iff in EC. rewrite IE in EC.
          apply andb_prop in EC. destruct EC as [EC1 EC2]. rewrite EC1, EC2. reflexivity.
        - apply negb_false_iff in EC. rewrite keqb_sym in EC. rewrite EC. reflexivity. }
      constructor; cbn [w_seenN w_seenE w_parent w_res w_g add_edge g_nodes g_edges].
      + intros m. sn l. apply HN.
      + intros a b. sn l; rewrite HA. rewrite IE.
        destruct (keqb p a && keqb n b)%bool eqn:Eab; [|rewrite orb_false_r; reflexivity].
        rewrite orb_true_r, andb_true_r. apply HX. exact Eab.
      + sn l. symmetry. apply last_opt_snoc.
      + rewrite ends_none_snoc. reflexivity.
      + intros m. sn l. apply HNO.
      + intros a b. sn l; rewrite HA, HG. rewrite IW.
        destruct (keqb p a && keqb n b)%bool eqn:Eab; [|rewrite orb_false_r; reflexivity].
        rewrite orb_true_r, andb_true_r. rewrite (HX a b Eab). reflexivity.
  Qed.

  Lemma Inv_fold : forall w dw g0 fs pre st,
    Inv w dw g0 pre st -> Inv w dw g0 (pre ++ fs) (fold_left (step w dw) fs st).
  Proof.
    intros w dw g0 fs. induction fs as [|f r IH]; intros pre st I; simpl.
    - rewrite app_nil_r. exact I.
    - replace (pre ++ f :: r) with ((pre ++ [f]) ++ r) by (rewrite <- app_assoc; reflexivity).
      apply IH. apply Inv_step. exact I.
  Qed.

  (* ---------------- one sample ---------------- *)
  Notation gsample := (gsample K).
  Notation add_sample := (add_sample K keqb).
  Notation keptb := (keptb K keqb).
  Notation vis := (vis K keqb).
  Notation keys := (keys K).

  Lemma somes_keep : forall kept (l : list (K * bool)),
    somes (map (keep_frame K keqb kept) l) = filter (keptb kept) (map fst l).
  Proof.
    intros kept l. induction l as [|f r IH]; [reflexivity|].
    simpl. unfold keep_frame at 1, S_Graph.keptb at 1.
    destruct kept as [ks|].
    - destruct (memK (fst f) ks); simpl; rewrite IH; reflexivity.
    - simpl. rewrite IH. reflexivity.
  Qed.

  Lemma keep_frame_fst : forall kept f,
    fst (keep_frame K keqb kept f) = if keptb kept (fst f) then Some (fst f) else None.
  Proof.
    intros kept f. unfold keep_frame, S_Graph.keptb. destruct kept as [ks|]; [|reflexivity].
    destruct (memK (fst f) ks); reflexivity.
  Qed.

  (* where the flat value goes: the state at the end of the walk *)
  Lemma walk_end : forall kept (l : list (K * bool)),
    let fs := map (keep_frame K keqb kept) l in
    match rev l with
    | [] => last_opt (somes fs) = None
    | f :: _ => if keptb kept (fst f)
                then last_opt (somes fs) = Some (fst f) /\ ends_none fs = false
                else ends_none fs = true
    end.
  Proof.
    intros kept l fs. destruct (rev l) as [|f r] eqn:E.
    - assert (l = []) by (rewrite <- (rev_involutive l), E; reflexivity). subst l. reflexivity.
    - assert (Hl : l = rev r ++ [f]) by (rewrite <- (rev_involutive l), E; reflexivity).
      subst fs. rewrite Hl, map_app. simpl map.
      rewrite somes_snoc, ends_none_snoc, keep_frame_fst.
      destruct (keptb kept (fst f)).
      + split; [apply last_opt_snoc|reflexivity].
      + reflexivity.
  Qed.

  Definition counted_b (s : gsample) : bool := counted K s.

  Lemma lastb_rev : forall n (l : list (K * bool)),
    lastb K keqb n (map fst l) = match rev l with f :: _ => keqb (fst f) n | [] => false end.
  Proof.
    intros n l. unfold lastb. rewrite <- map_rev. destruct (rev l); reflexivity.
  Qed.

  Lemma add_sample_skip : forall kept g s, counted_b s = false -> add_sample kept g s = g.
  Proof.
    intros kept g s H. unfold counted_b, counted in H. apply negb_false_iff in H.
    unfold M_Graph.add_sample. rewrite H. reflexivity.
  Qed.

  Lemma add_sample_nodes : forall kept g s n, counted_b s = true ->
    nget n (g_nodes (add_sample kept g s)) =
    let v := nget n (g_nodes g) in
    let v1 := if memK n (vis kept s) then bump_cum (gs_w s) (gs_dw s) v else v in
    if (keptb kept n && lastb K keqb n (keys s))%bool then bump_flat (gs_w s) (gs_dw s) v1 else v1.
  Proof.
    intros kept g s n Hc. unfold counted_b, counted in Hc. apply negb_true_iff in Hc.
    unfold M_Graph.add_sample. rewrite Hc.
    set (w := gs_w s). set (dw := gs_dw s).
    set (fs := map (keep_frame K keqb kept) (gs_frames s)).
    pose proof (Inv_fold w dw g fs [] _ (Inv_init w dw g)) as I. simpl app in I.
    destruct I as [_ _ IP IR INO _].
    set (st := fold_left (step w dw) fs (mk_wst K g None false [] [])) in *.
    assert (Hs : somes fs = vis kept s) by (apply somes_keep).
    pose proof (walk_end kept (gs_frames s)) as HE. cbv zeta in HE. fold fs in HE.
    unfold S_Graph.keys. rewrite lastb_rev.
    cbv zeta. rewrite <- Hs.
    destruct (rev (gs_frames s)) as [|f r] eqn:ER.
    - rewrite IP, HE. rewrite andb_false_r. apply INO.
    - destruct (keptb kept (fst f)) eqn:EK.
      + destruct HE as [H1 H2]. rewrite IP, H1, IR, H2. simpl negb. cbn iota.
        unfold add_flat. cbn [g_nodes]. rewrite nget_nupd. rewrite INO.
        destruct (keqb (fst f) n) eqn:En.
        * apply keqb_spec in En. subst n. rewrite EK. reflexivity.
        * rewrite andb_false_r. reflexivity.
      + assert (Hx : (keptb kept n && keqb (fst f) n)%bool = false).
        { destruct (keqb (fst f) n) eqn:En; [|apply andb_false_r].
          apply keqb_spec in En. subst n. rewrite EK. reflexivity. }
        rewrite Hx. rewrite IR, HE.
        destruct (w_parent K st); apply INO.
  Qed.

  Lemma add_sample_ew : forall kept g s a b, counted_b s = true ->
    ew a b (g_edges (add_sample kept g s)) =
    if (negb (keqb a b) && adjb K keqb a b (vis kept s))%bool
    then bump2 (gs_w s) (gs_dw s) (ew a b (g_edges g)) else ew a b (g_edges g).
  Proof.
    intros kept g s a b Hc. unfold counted_b, counted in Hc. apply negb_true_iff in Hc.
    unfold M_Graph.add_sample. rewrite Hc.
    set (w := gs_w s). set (dw := gs_dw s).
    set (fs := map (keep_frame K keqb kept) (gs_frames s)).
    pose proof (Inv_fold w dw g fs [] _ (Inv_init w dw g)) as I. simpl app in I.
    destruct I as [_ _ _ _ _ IW].
    set (st := fold_left (step w dw) fs (mk_wst K g None false [] [])) in *.
    assert (Hs : somes fs = vis kept s) by (apply somes_keep).
    rewrite <- Hs.
    assert (HG : g_edges (match w_parent K st with
                          | Some p => if negb (w_res K st) then add_flat K keqb (w_g K st) p w dw else w_g K st
                          | None => w_g K st end) = g_edges (w_g K st)).
    { destruct (w_parent K st); [destruct (negb (w_res K st))|]; reflexivity. }
    rewrite HG. apply IW.
  Qed.

  (* ---------------- all samples: accumulation of one number ---------------- *)
  Notation build_graph := (build_graph K keqb).

  Lemma uncounted_zero : forall s : gsample, counted_b s = false -> gs_w s = 0 /\ gs_dw s = 0.
  Proof.
    intros s H. unfold counted_b, counted in H. apply negb_false_iff in H.
    apply andb_prop in H. destruct H as [H1 H2]. apply Z.eqb_eq in H1. apply Z.eqb_eq in H2. auto.
  Qed.

  Section Acc.
    Variable kept : option (list K).
    Variable proj : graph -> Z.
    Variable cond : gsample -> bool.
    Variable div : bool.
    Hypothesis proj_skip : forall g s, counted_b s = false -> proj (add_sample kept g s) = proj g.
    Hypothesis proj_step : forall g s, counted_b s = true ->
      proj (add_sample kept g s) = if cond s then wadd (proj g) (pick K div s) else proj g.

    Lemma acc_fold : forall ss g c, proj g = wrap_i64 c ->
      proj (fold_left (add_sample kept) ss g) =
      wrap_i64 (c + sumf K (fun s => if cond s then pick K div s else 0) ss).
    Proof.
      induction ss as [|s r IH]; intros g c Hg; simpl.
      - rewrite Z.add_0_r. exact Hg.
      - destruct (counted_b s) eqn:Ec.
        + rewrite (IH _ (c + (if cond s then pick K div s else 0))).
          * f_equal. lia.
          * rewrite proj_step by exact Ec. destruct (cond s).
            -- rewrite Hg. apply wadd_wrap.
            -- rewrite Z.add_0_r. exact Hg.
        + rewrite (IH _ c).
          * f_equal. destruct (uncounted_zero s Ec) as [H1 H2].
            assert (pick K div s = 0) as Hp by (unfold pick; destruct div; auto).
            rewrite Hp. destruct (cond s); lia.
          * rewrite proj_skip by exact Ec. exact Hg.
    Qed.
  End Acc.

  (* ---------------- C04: the graph carries the definition sums ---------------- *)
  Lemma nget_empty : forall n, nget n (g_nodes (@empty_graph K)) = nval0.
  Proof. reflexivity. Qed.

  Lemma nodes_skip : forall kept g s n, counted_b s = false ->
    nget n (g_nodes (add_sample kept g s)) = nget n (g_nodes g).
  Proof. intros. rewrite add_sample_skip; auto. Qed.

  Lemma build_cum : forall (div : bool) kept ss n,
    (if div then nv_cumdiv else nv_cum) (nget n (g_nodes (build_graph kept ss))) =
    wrap_i64 (cum_spec K keqb div kept ss n).
  Proof.
    intros div kept ss n. unfold M_Graph.build_graph, cum_spec.
    rewrite (acc_fold kept (fun g => (if div then nv_cumdiv else nv_cum) (nget n (g_nodes g)))
                      (fun s => memK n (vis kept s)) div) with (c := 0).
    - reflexivity.
    - intros g s H. rewrite nodes_skip; auto.
    - intros g s H. rewrite add_sample_nodes by exact H. cbv zeta.
      destruct (keptb kept n && lastb K keqb n (keys s))%bool, (memK n (vis kept s)), div; reflexivity.
    - destruct div; reflexivity.
  Qed.

  Lemma build_flat : forall (div : bool) kept ss n,
    (if div then nv_flatdiv else nv_flat) (nget n (g_nodes (build_graph kept ss))) =
    wrap_i64 (flat_spec K keqb div kept ss n).
  Proof.
    intros div kept ss n. unfold M_Graph.build_graph, flat_spec.
    rewrite (acc_fold kept (fun g => (if div then nv_flatdiv else nv_flat) (nget n (g_nodes g)))
                      (fun s => (keptb kept n && lastb K keqb n (keys s))%bool) div) with (c := 0).
    - reflexivity.
    - intros g s H. rewrite nodes_skip; auto.
    - intros g s H. rewrite add_sample_nodes by exact H. cbv zeta.
      destruct (keptb kept n && lastb K keqb n (keys s))%bool, (memK n (vis kept s)), div; reflexivity.
    - destruct div; reflexivity.
  Qed.

  Lemma build_edge : forall (div : bool) kept ss a b,
    (if div then @snd Z Z else @fst Z Z) (ew a b (g_edges (build_graph kept ss))) =
    wrap_i64 (edge_spec K keqb div kept ss a b).
  Proof.
    intros div kept ss a b. unfold M_Graph.build_graph, edge_spec.
    rewrite (acc_fold kept (fun g => (if div then @snd Z Z else @fst Z Z) (ew a b (g_edges g)))
                      (fun s => (negb (keqb a b) && adjb K keqb a b (vis kept s))%bool) div) with (c := 0).
    - reflexivity.
    - intros g s H. rewrite add_sample_skip; auto.
    - intros g s H. rewrite add_sample_ew by exact H.
      destruct (negb (keqb a b) && adjb K keqb a b (vis kept s))%bool, div; reflexivity.
    - destruct div; reflexivity.
  Qed.

  Lemma build_nval : forall kept ss n,
    nget n (g_nodes (build_graph kept ss)) = spec_nval K keqb kept ss n.
  Proof.
    intros kept ss n. unfold spec_nval.
    rewrite <- (build_flat false), <- (build_flat true), <- (build_cum false), <- (build_cum true).
    destruct (nget n (g_nodes (build_graph kept ss))). reflexivity.
  Qed.

  (* ---------------- C05: a kept entry has the numbers of the untrimmed graph ---------------- *)
  Lemma memK_filter : forall f n l, memK n (filter f l) = (f n && memK n l)%bool.
  Proof.
    intros f n l. induction l as [|x r IH]; simpl.
    - rewrite andb_false_r. reflexivity.
    - destruct (f x) eqn:Ef; simpl; rewrite IH.
      + destruct (keqb n x) eqn:E; simpl.
        * apply keqb_spec in E. subst x. rewrite Ef. reflexivity.
        * reflexivity.
      + destruct (keqb n x) eqn:E; simpl; [|reflexivity].
        apply keqb_spec in E. subst x. rewrite Ef. reflexivity.
  Qed.

  Lemma vis_none : forall s, vis None s = keys s.
  Proof.
    intros s. unfold S_Graph.vis. induction (keys s) as [|x r IH]; simpl; [reflexivity|]. rewrite IH. reflexivity.
  Qed.

  Lemma sumf_ext : forall (f g : gsample -> Z) ss, (forall s, f s = g s) -> sumf K f ss = sumf K g ss.
  Proof. intros f g ss H. induction ss as [|s r IH]; simpl; [reflexivity|]. rewrite H, IH. reflexivity. Qed.

  Lemma spec_nval_kept : forall kept ss n, keptb kept n = true ->
    spec_nval K keqb kept ss n = spec_nval K keqb None ss n.
  Proof.
    intros kept ss n Hk. unfold spec_nval, flat_spec, cum_spec.
    assert (Hf : forall div, sumf K (fun s => if (keptb kept n && lastb K keqb n (keys s))%bool then pick K div s else 0) ss =
                             sumf K (fun s => if (keptb None n && lastb K keqb n (keys s))%bool then pick K div s else 0) ss).
    { intros div. apply sumf_ext. intros s. rewrite Hk. reflexivity. }
    assert (Hc : forall div, sumf K (fun s => if memK n (vis kept s) then pick K div s else 0) ss =
                             sumf K (fun s => if memK n (vis None s) then pick K div s else 0) ss).
    { intros div. apply sumf_ext. intros s. rewrite vis_none. unfold S_Graph.vis. rewrite memK_filter, Hk. reflexivity. }
    rewrite !Hf, !Hc. reflexivity.
  Qed.

  Theorem kept_nodes_unchanged_lemma : forall kept ss n, keptb kept n = true ->
    nget n (g_nodes (build_graph kept ss)) = nget n (g_nodes (build_graph None ss)).
  Proof. intros. rewrite !build_nval. apply spec_nval_kept. assumption. Qed.

  (* ---------------- the graph that is reported (after selectNodesForGraph) ---------------- *)
  Notation new_graph := (new_graph K keqb).

  Lemma step_nodup : forall w dw st f,
    NoDup (tkeys (g_nodes (w_g K st))) -> NoDup (tkeys (g_nodes (w_g K (step w dw st f)))).
  Proof.
    intros w dw st f H. unfold M_Graph.step. destruct f as [[n|] i]; simpl; [|exact H].
    assert (H1 : NoDup (tkeys (g_nodes (if memK n (w_seenN K st) then w_g K st else add_cum K keqb (w_g K st) n w dw)))).
    { destruct (memK n (w_seenN K st)); [exact H|]. simpl. apply nupd_nodup. exact H. }
    destruct (w_parent K st) as [p|]; [|exact H1].
    destruct (negb (memE (n, p) (w_seenE K st)) && negb (keqb n p))%bool; exact H1.
  Qed.

  Lemma fold_step_nodup : forall w dw fs st,
    NoDup (tkeys (g_nodes (w_g K st))) -> NoDup (tkeys (g_nodes (w_g K (fold_left (step w dw) fs st)))).
  Proof.
    intros w dw fs. induction fs as [|f r IH]; intros st H; simpl; [exact H|].
    apply IH. apply step_nodup. exact H.
  Qed.

  Lemma add_sample_nodup : forall kept g s,
    NoDup (tkeys (g_nodes g)) -> NoDup (tkeys (g_nodes (add_sample kept g s))).
  Proof.
    intros kept g s H. unfold M_Graph.add_sample.
    destruct ((gs_dw s =? 0) && (gs_w s =? 0))%bool; [exact H|].
    set (st := fold_left _ _ _).
    assert (H1 : NoDup (tkeys (g_nodes (w_g K st)))) by (apply fold_step_nodup; exact H).
    destruct (w_parent K st) as [p|]; [|exact H1].
    destruct (negb (w_res K st)); [|exact H1]. simpl. apply nupd_nodup. exact H1.
  Qed.

  Lemma build_nodup : forall kept ss, NoDup (tkeys (g_nodes (build_graph kept ss))).
  Proof.
    intros kept ss. unfold M_Graph.build_graph.
    assert (H : forall g, NoDup (tkeys (g_nodes g)) -> NoDup (tkeys (g_nodes (fold_left (add_sample kept) ss g)))).
    { induction ss as [|s r IH]; intros g Hg; simpl; [exact Hg|]. apply IH. apply add_sample_nodup. exact Hg. }
    apply H. constructor.
  Qed.

  (* every entry shown carries the definition sums, and is one the report does not drop *)
  Theorem graph_nodes_eq_spec_lemma : forall kept dn ss n v,
    In (n, v) (g_nodes (new_graph kept dn ss)) ->
    v = spec_nval K keqb kept ss n /\ node_dropped dn v = false.
  Proof.
    intros kept dn ss n v Hin. unfold M_Graph.new_graph, select_nodes in Hin. cbn [g_nodes] in Hin.
    apply filter_In in Hin. destruct Hin as [Hin Hd]. simpl in Hd. apply negb_true_iff in Hd.
    split; [|exact Hd].
    rewrite <- build_nval. symmetry. apply nget_in; [apply build_nodup|exact Hin].
  Qed.

  (* ... and every edge joins two shown entries *)
  Theorem graph_edges_closed_lemma : forall kept dn ss e,
    In e (g_edges (new_graph kept dn ss)) ->
    (exists v, In (e_src e, v) (g_nodes (new_graph kept dn ss))) /\
    (exists v, In (e_dst e, v) (g_nodes (new_graph kept dn ss))).
  Proof.
    intros kept dn ss e Hin. unfold M_Graph.new_graph, select_nodes in *. cbn [g_nodes g_edges] in *.
    apply filter_In in Hin. destruct Hin as [_ Ha]. apply andb_prop in Ha. destruct Ha as [H1 H2].
    apply existsb_exists in H1. apply existsb_exists in H2.
    destruct H1 as [[k1 v1] [I1 E1]]. destruct H2 as [[k2 v2] [I2 E2]]. simpl in E1, E2.
    apply keqb_spec in E1. apply keqb_spec in E2. subst k1 k2. split; eexists; eassumption.
  Qed.

  (* edge table: one entry per (src, dst) *)
  Definition ekeys (l : list edge) : list (K * K) := map (fun e => (e_src e, e_dst e)) l.

  Lemma eadd_keys_in : forall p n w dw res inl l x,
    In x (ekeys (eadd p n w dw res inl l)) -> In x (ekeys l) \/ x = (p, n).
  Proof.
    intros p n w dw res inl l x. induction l as [|e r IH]; simpl.
    - intros [H|[]]. right. auto.
    - destruct (keqb (e_src e) p && keqb (e_dst e) n)%bool eqn:E; simpl.
      + intros [H|H]; auto.
      + intros [H|H]; auto. destruct (IH H); auto.
  Qed.

  Lemma eadd_nodup : forall p n w dw res inl l, NoDup (ekeys l) -> NoDup (ekeys (eadd p n w dw res inl l)).
  Proof.
    intros p n w dw res inl l. induction l as [|e r IH]; simpl; intros H.
    - constructor; [intros []|constructor].
    - inversion H as [|x xs Hnin Hnd]; subst.
      destruct (keqb (e_src e) p && keqb (e_dst e) n)%bool eqn:E; simpl.
      + constructor; auto.
      + constructor; auto. intros Hin. apply eadd_keys_in in Hin. destruct Hin as [Hin|Hin]; auto.
        inversion Hin as [[H1 H2]]. rewrite H1, H2, !keqb_refl in E. discriminate.
  Qed.

  Lemma eget_in : forall l e, NoDup (ekeys l) -> In e l -> eget (e_src e) (e_dst e) l = Some e.
  Proof.
    induction l as [|x r IH]; simpl; intros e Hnd Hin; [contradiction|].
    inversion Hnd as [|y ys Hnin Hnd']; subst.
    destruct Hin as [H|H].
    - subst x. rewrite !keqb_refl. reflexivity.
    - destruct (keqb (e_src x) (e_src e) && keqb (e_dst x) (e_dst e))%bool eqn:E.
      + apply andb_prop in E. destruct E as [E1 E2]. apply keqb_spec in E1. apply keqb_spec in E2.
        exfalso. apply Hnin. unfold ekeys. apply in_map_iff. exists e. rewrite E1, E2. auto.
      + apply IH; auto.
  Qed.

  Lemma step_enodup : forall w dw st f,
    NoDup (ekeys (g_edges (w_g K st))) -> NoDup (ekeys (g_edges (w_g K (step w dw st f)))).
  Proof.
    intros w dw st f H. unfold M_Graph.step. destruct f as [[n|] i]; simpl; [|exact H].
    assert (H1 : NoDup (ekeys (g_edges (if memK n (w_seenN K st) then w_g K st else add_cum K keqb (w_g K st) n w dw)))).
    { destruct (memK n (w_seenN K st)); exact H. }
    destruct (w_parent K st) as [p|]; [|exact H1].
    destruct (negb (memE (n, p) (w_seenE K st)) && negb (keqb n p))%bool; [|exact H1].
    simpl. apply eadd_nodup. exact H1.
  Qed.

  Lemma build_enodup : forall kept ss, NoDup (ekeys (g_edges (build_graph kept ss))).
  Proof.
    intros kept ss. unfold M_Graph.build_graph.
    assert (HS : forall w dw fs st, NoDup (ekeys (g_edges (w_g K st))) ->
                 NoDup (ekeys (g_edges (w_g K (fold_left (step w dw) fs st))))).
    { intros w dw fs. induction fs as [|f r IH]; intros st H; simpl; [exact H|]. apply IH. apply step_enodup. exact H. }
    assert (HA : forall g s, NoDup (ekeys (g_edges g)) -> NoDup (ekeys (g_edges (add_sample kept g s)))).
    { intros g s H. unfold M_Graph.add_sample. destruct ((gs_dw s =? 0) && (gs_w s =? 0))%bool; [exact H|].
      set (st := fold_left _ _ _).
      assert (H1 : NoDup (ekeys (g_edges (w_g K st)))) by (apply HS; exact H).
      destruct (w_parent K st) as [p|]; [|exact H1]. destruct (negb (w_res K st)); exact H1. }
    assert (H : forall g, NoDup (ekeys (g_edges g)) -> NoDup (ekeys (g_edges (fold_left (add_sample kept) ss g)))).
    { induction ss as [|s r IH]; intros g Hg; simpl; [exact Hg|]. apply IH. apply HA. exact Hg. }
    apply H. constructor.
  Qed.

  Theorem graph_edges_eq_spec_lemma : forall kept dn ss e,
    In e (g_edges (new_graph kept dn ss)) ->
    e_w e = wrap_i64 (edge_spec K keqb false kept ss (e_src e) (e_dst e)) /\
    e_wdiv e = wrap_i64 (edge_spec K keqb true kept ss (e_src e) (e_dst e)).
  Proof.
    intros kept dn ss e Hin. unfold M_Graph.new_graph, select_nodes in Hin. cbn [g_edges] in Hin.
    apply filter_In in Hin. destruct Hin as [Hin _].
    pose proof (eget_in _ e (build_enodup kept ss) Hin) as HG.
    rewrite <- (build_edge false), <- (build_edge true). unfold ew. rewrite HG. split; reflexivity.
  Qed.

  (* ---------------- C05 on the reported graph ---------------- *)
  Lemma nget_found : forall l k v, nget k l = v -> v <> nval0 -> In (k, v) l.
  Proof.
    induction l as [|e r IH]; simpl; intros k v H Hne.
    - congruence.
    - destruct (keqb (fst e) k) eqn:E.
      + apply keqb_spec in E. left. destruct e as [k0 v0]. simpl in *. subst. reflexivity.
      + right. apply IH; assumption.
  Qed.

  Lemma dropped_nval0 : forall dn, node_dropped dn nval0 = true.
  Proof. intros. reflexivity. Qed.

  Lemma sumf_zero : forall (f : gsample -> Z) ss, (forall s, f s = 0) -> sumf K f ss = 0.
  Proof. intros f ss H. induction ss as [|s r IH]; simpl; [reflexivity|]. rewrite H, IH. reflexivity. Qed.

  (* an entry that is not kept gets no numbers at all *)
  Lemma spec_nval_not_kept : forall kept ss n, keptb kept n = false -> spec_nval K keqb kept ss n = nval0.
  Proof.
    intros kept ss n Hk. unfold spec_nval, flat_spec, cum_spec.
    assert (Hf : forall div, sumf K (fun s => if (keptb kept n && lastb K keqb n (keys s))%bool then pick K div s else 0) ss = 0).
    { intros div. apply sumf_zero. intros s. rewrite Hk. reflexivity. }
    assert (Hc : forall div, sumf K (fun s => if memK n (vis kept s) then pick K div s else 0) ss = 0).
    { intros div. apply sumf_zero. intros s. unfold S_Graph.vis. rewrite memK_filter, Hk. reflexivity. }
    rewrite !Hf, !Hc. reflexivity.
  Qed.

  Theorem shown_is_kept_lemma : forall kept dn ss n v,
    In (n, v) (g_nodes (new_graph kept dn ss)) -> keptb kept n = true.
  Proof.
    intros kept dn ss n v Hin. destruct (graph_nodes_eq_spec_lemma kept dn ss n v Hin) as [Hv Hd].
    destruct (keptb kept n) eqn:Ek; [reflexivity|].
    rewrite spec_nval_not_kept in Hv by exact Ek. subst v. rewrite dropped_nval0 in Hd. discriminate.
  Qed.

  (* every entry of a trimmed graph is an entry of the untrimmed graph, with the same numbers *)
  Theorem kept_nodes_unchanged_graph_lemma : forall kept dn ss n v,
    In (n, v) (g_nodes (new_graph kept dn ss)) -> In (n, v) (g_nodes (new_graph None dn ss)).
  Proof.
    intros kept dn ss n v Hin.
    pose proof (shown_is_kept_lemma kept dn ss n v Hin) as Hk.
    destruct (graph_nodes_eq_spec_lemma kept dn ss n v Hin) as [Hv Hd].
    unfold M_Graph.new_graph, select_nodes. cbn [g_nodes]. apply filter_In. split.
    - apply nget_found.
      + rewrite build_nval. rewrite <- spec_nval_kept with (kept := kept) by exact Hk. symmetry. exact Hv.
      + intros H0. rewrite H0 in Hd. rewrite dropped_nval0 in Hd. discriminate.
    - simpl. rewrite Hd. reflexivity.
  Qed.

  (* no edge of a trimmed graph refers to a removed entry *)
  Theorem no_edge_to_removed_lemma : forall kept dn ss e,
    In e (g_edges (new_graph kept dn ss)) ->
    keptb kept (e_src e) = true /\ keptb kept (e_dst e) = true /\
    (exists v, In (e_src e, v) (g_nodes (new_graph kept dn ss))) /\
    (exists v, In (e_dst e, v) (g_nodes (new_graph kept dn ss))).
  Proof.
    intros kept dn ss e Hin. destruct (graph_edges_closed_lemma kept dn ss e Hin) as [[v1 H1] [v2 H2]].
    split; [eapply shown_is_kept_lemma; exact H1|].
    split; [eapply shown_is_kept_lemma; exact H2|].
    split; eexists; eassumption.
  Qed.

  (* ---------------- residual marking ---------------- *)
  Lemma eres_step_mono : forall w dw st f a b,
    eres a b (g_edges (w_g K st)) = true -> eres a b (g_edges (w_g K (step w dw st f))) = true.
  Proof.
    intros w dw st f a b H. unfold M_Graph.step. destruct f as [[n|] i]; cbn [fst snd]; [|exact H].
    set (g1 := if memK n (w_seenN K st) then w_g K st else add_cum K keqb (w_g K st) n w dw).
    assert (HG : g_edges g1 = g_edges (w_g K st)).
    { unfold g1. destruct (memK n (w_seenN K st)); reflexivity. }
    destruct (w_parent K st) as [p|]; [|cbn [w_g]; rewrite HG; exact H].
    destruct (negb (memE (n, p) (w_seenE K st)) && negb (keqb n p))%bool; cbn [w_g add_edge g_edges].
    - rewrite eres_eadd, HG, H. destruct (keqb p a && keqb n b)%bool; reflexivity.
    - rewrite HG. exact H.
  Qed.

  Lemma adjb_snoc_mono : forall a b l x, adjb K keqb a b l = true -> adjb K keqb a b (l ++ [x]) = true.
  Proof. intros a b l x H. rewrite adjb_snoc, H. reflexivity. Qed.

  Definition visk (kept : option (list K)) (lp : list (K * bool)) : list K := filter (keptb kept) (map fst lp).

  Lemma visk_snoc : forall kept lp f,
    visk kept (lp ++ [f]) = visk kept lp ++ (if keptb kept (fst f) then [fst f] else []).
  Proof.
    intros. unfold visk. rewrite map_app, filter_app. simpl. destruct (keptb kept (fst f)); reflexivity.
  Qed.

  Lemma last_full : forall kept (lp : list (K * bool)) p,
    ends_none (map (keep_frame K keqb kept) lp) = false ->
    last_opt (somes (map (keep_frame K keqb kept) lp)) = Some p ->
    last_opt (map fst lp) = Some p.
  Proof.
    intros kept lp p He Hl. pose proof (walk_end kept lp) as HW. cbv zeta in HW.
    unfold last_opt at 1. rewrite <- map_rev.
    destruct (rev lp) as [|f r] eqn:ER.
    - rewrite HW in Hl. discriminate.
    - simpl. destruct (keptb kept (fst f)).
      + destruct HW as [H1 _]. rewrite H1 in Hl. exact Hl.
      + rewrite HW in He. discriminate.
  Qed.

  Definition Rinv (kept : option (list K)) (lp : list (K * bool)) (st : wst) : Prop :=
    forall a b, keqb a b = false -> adjb K keqb a b (visk kept lp) = true ->
                eres a b (g_edges (w_g K st)) = true \/ adjb K keqb a b (map fst lp) = true.

  Lemma Rinv_step : forall kept w dw g0 lp st f,
    Inv w dw g0 (map (keep_frame K keqb kept) lp) st -> Rinv kept lp st ->
    Rinv kept (lp ++ [f]) (step w dw st (keep_frame K keqb kept f)).
  Proof.
    intros kept w dw g0 lp st f I R a b Hab Hadj.
    rewrite visk_snoc in Hadj. rewrite map_app. simpl map.
    pose proof (keep_frame_fst kept f) as HF.
    destruct (keptb kept (fst f)) eqn:EK.
    2:{ (* the frame is removed: nothing changes but the flag *)
      rewrite app_nil_r in Hadj. destruct (R a b Hab Hadj) as [H|H].
      - left. apply eres_step_mono. exact H.
      - right. apply adjb_snoc_mono. exact H. }
    set (n := fst f) in *.
    rewrite adjb_snoc in Hadj. apply orb_prop in Hadj. destruct Hadj as [Hold|Hnew].
    { destruct (R a b Hab Hold) as [H|H].
      - left. apply eres_step_mono. exact H.
      - right. apply adjb_snoc_mono. exact H. }
    (* a is the parent, b = n *)
    destruct I as [IN IE IP IR INO IW].
    assert (Hs : somes (map (keep_frame K keqb kept) lp) = visk kept lp) by (apply somes_keep).
    rewrite Hs in *.
    destruct (last_opt (visk kept lp)) as [p|] eqn:EL; [|discriminate].
    apply andb_prop in Hnew. destruct Hnew as [E1 E2]. apply keqb_spec in E1. apply keqb_spec in E2. subst p b.
    destruct (adjb K keqb a n (visk kept lp)) eqn:Eseen.
    { destruct (R a n Hab Eseen) as [H|H].
      - left. apply eres_step_mono. exact H.
      - right. apply adjb_snoc_mono. exact H. }
    (* first time this sample sees a -> n: an edge is added with the current residual flag *)
    destruct (w_res K st) eqn:ER.
    - left. unfold M_Graph.step. destruct (keep_frame K keqb kept f) as [fo fi] eqn:EF. simpl in HF. subst fo.
      cbn [fst snd]. rewrite IP.
      assert (Hc : (negb (memE (n, a) (w_seenE K st)) && negb (keqb n a))%bool = true).
      { rewrite IE, Hab, Eseen. simpl. rewrite keqb_sym, Hab. reflexivity. }
      rewrite Hc. cbn [w_g add_edge g_edges]. rewrite eres_eadd, !keqb_refl, ER. simpl. apply orb_true_r.
    - right. rewrite adjb_snoc.
      rewrite (last_full kept lp a); [rewrite !keqb_refl; apply orb_true_r| |].
      + symmetry. exact IR.
      + rewrite Hs. exact EL.
  Qed.

  Lemma Rinv_fold : forall kept w dw g0 fs lp st,
    Inv w dw g0 (map (keep_frame K keqb kept) lp) st -> Rinv kept lp st ->
    Rinv kept (lp ++ fs) (fold_left (step w dw) (map (keep_frame K keqb kept) fs) st).
  Proof.
    intros kept w dw g0 fs. induction fs as [|f r IH]; intros lp st I R; simpl.
    - rewrite app_nil_r. exact R.
    - replace (lp ++ f :: r) with ((lp ++ [f]) ++ r) by (rewrite <- app_assoc; reflexivity).
      apply IH.
      + rewrite map_app. simpl map. apply Inv_step. exact I.
      + eapply Rinv_step; eassumption.
  Qed.

  Lemma add_sample_eres_mono : forall kept g s a b,
    eres a b (g_edges g) = true -> eres a b (g_edges (add_sample kept g s)) = true.
  Proof.
    intros kept g s a b H. unfold M_Graph.add_sample.
    destruct ((gs_dw s =? 0) && (gs_w s =? 0))%bool; [exact H|].
    set (fs := map (keep_frame K keqb kept) (gs_frames s)).
    assert (HS : forall fs st, eres a b (g_edges (w_g K st)) = true ->
                 eres a b (g_edges (w_g K (fold_left (step (gs_w s) (gs_dw s)) fs st))) = true).
    { intros fs0. induction fs0 as [|f r IH]; intros st Hs; simpl; [exact Hs|]. apply IH. apply eres_step_mono. exact Hs. }
    specialize (HS fs (mk_wst K g None false [] []) H).
    set (st := fold_left _ fs _) in *.
    destruct (w_parent K st); [destruct (negb (w_res K st))|]; exact HS.
  Qed.

  Lemma add_sample_res : forall kept g s a b, counted_b s = true -> keqb a b = false ->
    adjb K keqb a b (vis kept s) = true ->
    eres a b (g_edges (add_sample kept g s)) = true \/ adjb K keqb a b (keys s) = true.
  Proof.
    intros kept g s a b Hc Hab Hadj. unfold counted_b, counted in Hc. apply negb_true_iff in Hc.
    unfold M_Graph.add_sample. rewrite Hc.
    pose proof (Rinv_fold kept (gs_w s) (gs_dw s) g (gs_frames s) [] (mk_wst K g None false [] [])
                          (Inv_init _ _ g)) as R.
    simpl app in R.
    assert (R0 : Rinv kept [] (mk_wst K g None false [] [])).
    { intros x y _ H. simpl in H. discriminate. }
    specialize (R R0 a b Hab Hadj).
    set (st := fold_left _ _ _) in *.
    destruct R as [R|R]; [left|right; exact R].
    destruct (w_parent K st); [destruct (negb (w_res K st))|]; exact R.
  Qed.

  Lemma build_res : forall kept ss g a b,
    eres a b (g_edges (fold_left (add_sample kept) ss g)) = false ->
    eres a b (g_edges g) = false /\
    forall s, In s ss -> counted_b s = true -> keqb a b = false ->
              adjb K keqb a b (vis kept s) = true -> adjb K keqb a b (keys s) = true.
  Proof.
    intros kept ss. induction ss as [|s r IH]; intros g a b H; simpl in H.
    - split; [exact H|]. intros s [].
    - destruct (IH _ a b H) as [H1 H2]. split.
      + destruct (eres a b (g_edges g)) eqn:E; [|reflexivity].
        rewrite (add_sample_eres_mono kept g s a b E) in H1. discriminate.
      + intros s' [Hs|Hs] Hc Hab Hadj.
        * subst s'. destruct (add_sample_res kept g s a b Hc Hab Hadj) as [R|R]; [|exact R].
          rewrite R in H1. discriminate.
        * apply H2; assumption.
  Qed.

  Lemma adjb_cons_mono : forall a b x l, adjb K keqb a b l = true -> adjb K keqb a b (x :: l) = true.
  Proof.
    intros a b x l H. destruct l as [|y r]; [discriminate|].
    change (adjb K keqb a b (x :: y :: r)) with ((keqb x a && keqb y b) || adjb K keqb a b (y :: r))%bool.
    rewrite H. apply orb_true_r.
  Qed.

  Lemma adjb_filter : forall f a b l, f a = true -> f b = true ->
    adjb K keqb a b l = true -> adjb K keqb a b (filter f l) = true.
  Proof.
    intros f a b l Ha Hb. induction l as [|x r IH]; intros H; [discriminate|].
    destruct r as [|y r']; [discriminate|].
    change (adjb K keqb a b (x :: y :: r')) with ((keqb x a && keqb y b) || adjb K keqb a b (y :: r'))%bool in H.
    apply orb_prop in H. destruct H as [H|H].
    - apply andb_prop in H. destruct H as [E1 E2]. apply keqb_spec in E1. apply keqb_spec in E2. subst x y.
      simpl. rewrite Ha, Hb. simpl. rewrite !keqb_refl. reflexivity.
    - specialize (IH H). simpl filter at 1. destruct (f x); [apply adjb_cons_mono|]; exact IH.
  Qed.

  Lemma sumf_ext_in : forall (f g : gsample -> Z) ss,
    (forall s, In s ss -> f s = g s) -> sumf K f ss = sumf K g ss.
  Proof.
    intros f g ss H. induction ss as [|s r IH]; simpl; [reflexivity|].
    rewrite H by (left; reflexivity). rewrite IH; [reflexivity|]. intros s' Hs. apply H. right. exact Hs.
  Qed.

  (* an edge between kept entries that is NOT marked residual has exactly its untrimmed weight *)
  Theorem nonresidual_edge_unchanged_lemma : forall kept ss a b,
    keptb kept a = true -> keptb kept b = true ->
    eres a b (g_edges (build_graph kept ss)) = false ->
    ew a b (g_edges (build_graph kept ss)) = ew a b (g_edges (build_graph None ss)).
  Proof.
    intros kept ss a b Ka Kb Hres.
    destruct (build_res kept ss empty_graph a b Hres) as [_ HR].
    assert (HE : forall div, edge_spec K keqb div kept ss a b = edge_spec K keqb div None ss a b).
    { intros div. unfold edge_spec. apply sumf_ext_in. intros s Hs.
      destruct (keqb a b) eqn:Eab; [reflexivity|]. simpl negb. simpl andb.
      rewrite vis_none.
      destruct (counted_b s) eqn:Ec.
      - destruct (adjb K keqb a b (vis kept s)) eqn:E1.
        + rewrite (HR s Hs Ec eq_refl E1). reflexivity.
        + destruct (adjb K keqb a b (keys s)) eqn:E2; [|reflexivity].
          unfold S_Graph.vis in E1. rewrite (adjb_filter (keptb kept) a b (keys s) Ka Kb E2) in E1. discriminate.
      - destruct (uncounted_zero s Ec) as [H1 H2].
        assert (pick K div s = 0) as Hp by (unfold pick; destruct div; auto).
        rewrite Hp. destruct (adjb K keqb a b (vis kept s)), (adjb K keqb a b (keys s)); reflexivity. }
    rewrite (surjective_pairing (ew a b (g_edges (build_graph kept ss)))).
    rewrite (surjective_pairing (ew a b (g_edges (build_graph None ss)))).
    pose proof (build_edge false kept ss a b) as F1. pose proof (build_edge true kept ss a b) as F2.
    pose proof (build_edge false None ss a b) as G1. pose proof (build_edge true None ss a b) as G2.
    cbv beta iota in F1, F2, G1, G2. rewrite F1, F2, G1, G2, !HE. reflexivity.
  Qed.

  (* an edge that exists only because removed entries were skipped is marked residual *)
  Theorem residual_when_bypass_lemma : forall kept ss a b s,
    In s ss -> counted K s = true -> keqb a b = false -> bypasses K keqb kept s a b = true ->
    eres a b (g_edges (build_graph kept ss)) = true.
  Proof.
    intros kept ss a b s Hs Hc Hab Hb. unfold bypasses in Hb. apply andb_prop in Hb. destruct Hb as [B1 B2].
    destruct (eres a b (g_edges (build_graph kept ss))) eqn:E; [reflexivity|].
    destruct (build_res kept ss empty_graph a b E) as [_ HR].
    rewrite (HR s Hs Hc Hab B1) in B2. discriminate.
  Qed.
End Proofs.
