(* Lemmas about M_Symbolize (C12): frame condition, left-alone rule, names kept. *)
From Coq Require Import Lia ZifyBool.
From PV Require Import M_Symbolize S_Symbolize.
Open Scope Z_scope.

(* ------------------------------------------------------------------ generic *)
Lemma Forall2_refl {A} (R : A -> A -> Prop) : (forall a, R a a) -> forall l, Forall2 R l l.
Proof. intros H l. induction l as [|a r IH]; constructor; auto. Qed.

Lemma Forall2_trans {A} (R : A -> A -> Prop) :
  (forall a b c, R a b -> R b c -> R a c) ->
  forall x y z, Forall2 R x y -> Forall2 R y z -> Forall2 R x z.
Proof.
  intros T x y z H. revert z. induction H as [|a b x y Hab Hxy IH]; intros z Hz.
  - inversion Hz. constructor.
  - inversion Hz as [|b' c y' z' Hbc Hyz]; subst. constructor; [eapply T; eauto | apply IH; exact Hyz].
Qed.

Lemma Forall2_map_eq {A B K} (ka : A -> K) (kb : B -> K) l l' :
  Forall2 (fun a b => kb b = ka a) l l' -> map kb l' = map ka l.
Proof. induction 1 as [|a b l l' H _ IH]; simpl; [reflexivity | now rewrite H, IH]. Qed.

Lemma Forall2_impl {A B} (R R' : A -> B -> Prop) l l' :
  (forall a b, R a b -> R' a b) -> Forall2 R l l' -> Forall2 R' l l'.
Proof. intros H. induction 1; constructor; auto. Qed.

Lemma Forall2_impl_in {A B} (R R' : A -> B -> Prop) l l' :
  (forall a b, In a l -> R a b -> R' a b) -> Forall2 R l l' -> Forall2 R' l l'.
Proof.
  intros H F. induction F as [|a b l l' Hab F IH]; constructor.
  - apply H; [now left | exact Hab].
  - apply IH. intros x y Hx. apply H. now right.
Qed.

Lemma Forall2_in_r {A B} (R : A -> B -> Prop) l l' b :
  Forall2 R l l' -> In b l' -> exists a, In a l /\ R a b.
Proof.
  induction 1 as [|a0 b0 l l' H F IH]; simpl; [tauto|].
  intros [->|Hin]; [exists a0; auto|].
  destruct (IH Hin) as [a [Ha Hr]]. exists a; auto.
Qed.

Lemma Forall2_map_r {A B} (R : A -> B -> Prop) (g : A -> B) l :
  (forall a, R a (g a)) -> Forall2 R l (map g l).
Proof. intros H. induction l; simpl; constructor; auto. Qed.

Section MapAccLemmas.
  Context {St A B : Type} (f : St -> A -> St * B).

  Lemma mapacc_inv (I : St -> Prop) (T : St -> St -> Prop) (R : A -> B -> Prop) (l : list A) :
    (forall s, T s s) -> (forall a b c, T a b -> T b c -> T a c) ->
    (forall s a, In a l -> I s -> I (fst (f s a)) /\ T s (fst (f s a)) /\ R a (snd (f s a))) ->
    forall s, I s -> I (fst (mapacc f s l)) /\ T s (fst (mapacc f s l)) /\ Forall2 R l (snd (mapacc f s l)).
  Proof.
    intros Trefl Ttrans. induction l as [|a r IH]; intros Hstep s Hs.
    - simpl. repeat split; auto.
    - destruct (Hstep s a (or_introl eq_refl) Hs) as [I1 [T1 R1]].
      assert (Hr : forall s a, In a r -> I s -> I (fst (f s a)) /\ T s (fst (f s a)) /\ R a (snd (f s a))).
      { intros s0 a0 Hin. apply Hstep. now right. }
      destruct (IH Hr (fst (f s a)) I1) as [I2 [T2 R2]].
      cbn [mapacc fst snd]. repeat split; [exact I2 | eapply Ttrans; eauto | constructor; assumption].
  Qed.
End MapAccLemmas.

(* ------------------------------------------------------------------ relations used by the frame proofs *)
(* a location may have been rewritten only if its mapping id satisfies P; its key never changes *)
Definition loc_rel (P : Z -> Prop) (l l' : location) : Prop :=
  loc_key l' = loc_key l /\ (l' = l \/ (P (l_mapping l) /\ l_lines l' <> [])).
(* a mapping may have been rewritten only under force or when it had no function names *)
Definition map_rel (force : bool) (m m' : mapping) : Prop :=
  map_key m' = map_key m /\ (m' = m \/ force = true \/ m_hasfn m = false).
(* the locations of mapping id [mid] may be rewritten *)
Definition touchable (force : bool) (maps : list mapping) (mid : Z) : Prop :=
  force = true \/ exists m, In m maps /\ m_id m = mid /\ m_hasfn m = false.
(* functions are only appended *)
Definition grows {A} (a b : list A) : Prop := exists ext, b = (a ++ ext)%list.

Lemma loc_rel_refl P l : loc_rel P l l.
Proof. split; auto. Qed.
Lemma loc_rel_trans P a b c : loc_rel P a b -> loc_rel P b c -> loc_rel P a c.
Proof.
  intros [K1 H1] [K2 H2]. split; [congruence|].
  destruct H1 as [E1|[P1 N1]]; [subst b; exact H2|].
  right. split; [exact P1|]. destruct H2 as [->|[_ N2]]; assumption.
Qed.
Lemma locs_rel_refl P l : Forall2 (loc_rel P) l l.
Proof. apply Forall2_refl. apply loc_rel_refl. Qed.
Lemma locs_rel_trans P x y z : Forall2 (loc_rel P) x y -> Forall2 (loc_rel P) y z -> Forall2 (loc_rel P) x z.
Proof. apply Forall2_trans. apply loc_rel_trans. Qed.

Lemma map_rel_refl force m : map_rel force m m.
Proof. split; auto. Qed.
Lemma map_rel_trans force a b c : map_rel force a b -> map_rel force b c -> map_rel force a c.
Proof.
  intros [K1 H1] [K2 H2]. split; [congruence|].
  destruct H1 as [E1|P1]; [|right; exact P1]. subst b.
  destruct H2 as [E2|P2]; [left; exact E2 | right; exact P2].
Qed.

Lemma grows_refl {A} (a : list A) : grows a a.
Proof. exists []. now rewrite app_nil_r. Qed.
Lemma grows_trans {A} (a b c : list A) : grows a b -> grows b c -> grows a c.
Proof. intros [x ->] [y ->]. exists (x ++ y)%list. now rewrite app_assoc. Qed.
Lemma grows_app {A} (a x : list A) : grows a (a ++ x).
Proof. now exists x. Qed.

(* ------------------------------------------------------------------ local symbolization *)
Lemma add_function_grows new maxid f : grows new (fst (fst (add_function new maxid f))).
Proof.
  unfold add_function. destruct (find (fn_same f) new); cbn [fst snd]; [apply grows_refl | apply grows_app].
Qed.

Lemma sym_frame_facts s fr :
  map_key (q_m (fst (sym_frame s fr))) = map_key (q_m s) /\
  q_orc (fst (sym_frame s fr)) = q_orc s /\ grows (q_new s) (q_new (fst (sym_frame s fr))).
Proof.
  unfold sym_frame. cbn [fst snd q_m q_orc q_new]. repeat split. apply add_function_grows.
Qed.

Lemma sym_frames_facts frs : forall s,
  map_key (q_m (fst (mapacc sym_frame s frs))) = map_key (q_m s) /\
  grows (q_new s) (q_new (fst (mapacc sym_frame s frs))).
Proof.
  induction frs as [|fr r IH]; intros s; [split; [reflexivity | apply grows_refl]|].
  cbn [mapacc fst snd].
  destruct (sym_frame_facts s fr) as [K [_ G]]. destruct (IH (fst (sym_frame s fr))) as [K2 G2].
  split; [congruence | eapply grows_trans; eauto].
Qed.

Lemma mapacc_nonnil {St A B} (f : St -> A -> St * B) s l : is_nil l = false -> snd (mapacc f s l) <> [].
Proof. destruct l; simpl; [discriminate | intros _; discriminate]. Qed.

Lemma sym_loc_facts s l :
  map_key (q_m (fst (sym_loc s l))) = map_key (q_m s) /\
  grows (q_new s) (q_new (fst (sym_loc s l))) /\
  loc_key (snd (sym_loc s l)) = loc_key l /\
  (snd (sym_loc s l) = l \/ (l_mapping l = m_id (q_m s) /\ l_lines (snd (sym_loc s l)) <> [])).
Proof.
  unfold sym_loc. destruct (l_mapping l =? m_id (q_m s)) eqn:E; cbn [negb].
  2:{ cbn [fst snd]. repeat split; auto. apply grows_refl. }
  apply Z.eqb_eq in E.
  destruct (a_err (fst (ask (q_orc s) (CSourceLine (l_addr l)))) || is_nil (a_frames (fst (ask (q_orc s) (CSourceLine (l_addr l)))))) eqn:EN.
  - cbn [fst snd q_m q_new]. repeat split; auto. apply grows_refl.
  - cbn [fst snd q_m q_new]. apply orb_false_iff in EN. destruct EN as [_ EN].
    match goal with |- context [mapacc sym_frame ?s0 ?frs] => destruct (sym_frames_facts frs s0) as [K G] end.
    cbn [q_m q_new] in K, G. repeat split; auto.
    right. split; [exact E|]. cbn [set_lines l_lines]. apply mapacc_nonnil. exact EN.
Qed.

(* the loop of symbolizeOneMapping over all locations *)
Lemma sym_locs_facts locs : forall s,
  let r := mapacc sym_loc s locs in
  map_key (q_m (fst r)) = map_key (q_m s) /\ grows (q_new s) (q_new (fst r)) /\
  Forall2 (fun l l' => loc_key l' = loc_key l /\ (l' = l \/ (l_mapping l = m_id (q_m s) /\ l_lines l' <> []))) locs (snd r).
Proof.
  intros s.
  pose (I := fun s' : lst => map_key (q_m s') = map_key (q_m s)).
  pose (T := fun a b : lst => grows (q_new a) (q_new b)).
  destruct (mapacc_inv sym_loc I T
             (fun l l' => loc_key l' = loc_key l /\ (l' = l \/ (l_mapping l = m_id (q_m s) /\ l_lines l' <> []))) locs) with (s := s)
    as [HI [HT HR]]; subst I T; cbn beta.
  - intros. apply grows_refl.
  - intros a b c. apply grows_trans.
  - intros s' l _ Hs'. destruct (sym_loc_facts s' l) as [K [G [LK LE]]].
    repeat split; try congruence; auto.
    destruct LE as [LE|[LE N]]; [now left | right]. split; [|exact N].
    rewrite LE. unfold map_key in Hs'. congruence.
  - reflexivity.
  - cbn zeta. auto.
Qed.

Lemma local_mapping_facts force http g m :
  let r := local_mapping force http g m in
  map_rel force m (snd r) /\ grows (g_new g) (g_new (fst r)) /\
  Forall2 (loc_rel (fun mid => mid = m_id m /\ (force = true \/ m_hasfn m = false))) (g_locs g) (g_locs (fst r)).
Proof.
  cbn zeta. unfold local_mapping.
  set (P := fun mid => mid = m_id m /\ (force = true \/ m_hasfn m = false)).
  assert (Skip : map_rel force m m /\ grows (g_new g) (g_new g) /\ Forall2 (loc_rel P) (g_locs g) (g_locs g)).
  { split; [apply map_rel_refl | split; [apply grows_refl | apply locs_rel_refl]]. }
  destruct (negb (existsb _ (g_locs g))); [exact Skip|].
  destruct (negb force && (m_hasfn m || m_hasfile m || m_hasline m)) eqn:Eforce; [exact Skip|].
  destruct (str_empty (m_file m)); [exact Skip|].
  destruct (unsymbolizable m); [exact Skip|].
  destruct (str_empty (m_buildid m) && http (m_file m)); [exact Skip|].
  destruct (a_err (fst (ask (g_orc g) _))); [exact Skip|].
  match goal with |- context [if ?c then _ else _] => destruct c end; [exact Skip|].
  cbn [fst snd g_locs g_new].
  match goal with |- context [mapacc sym_loc ?s0 ?locs] => destruct (sym_locs_facts locs s0) as [K [G F]] end.
  cbn [q_m q_new] in K, G, F.
  assert (Hforce : force = true \/ m_hasfn m = false).
  { destruct force; [now left | right]. cbn in Eforce. destruct (m_hasfn m); [discriminate | reflexivity]. }
  split; [split; [exact K | right; exact Hforce] | split; [exact G|]].
  eapply Forall2_impl; [|exact F]. intros l l' [LK LE]. split; [exact LK|].
  destruct LE as [LE|[LE N]]; [now left | right; split; [split; assumption | exact N]].
Qed.

(* ------------------------------------------------------------------ whole local phase *)
Lemma touchable_of_step force maps m mid :
  In m maps -> mid = m_id m /\ (force = true \/ m_hasfn m = false) -> touchable force maps mid.
Proof. intros Hin [-> [F|H]]; [now left | right; exists m; auto]. Qed.

Lemma local_symbolize_facts force http w :
  let w' := local_symbolize force http w in
  Forall2 (map_rel force) (w_maps w) (w_maps w') /\ grows (w_funs w) (w_funs w') /\
  Forall2 (loc_rel (touchable force (w_maps w))) (w_locs w) (w_locs w').
Proof.
  cbn zeta. unfold local_symbolize. cbn [w_maps w_locs w_funs].
  pose (T := fun a b : gst => Forall2 (loc_rel (touchable force (w_maps w))) (g_locs a) (g_locs b)).
  match goal with |- context [mapacc ?f ?s0 ?l] =>
    destruct (mapacc_inv f (fun _ => True) T (map_rel force) l) with (s := s0) as [_ [HT HR]] end; subst T; cbn beta.
  - intros. apply locs_rel_refl.
  - intros a b c. apply locs_rel_trans.
  - intros s m Hin _. destruct (local_mapping_facts force http s m) as [M [_ F]].
    split; [exact I | split; [|exact M]].
    eapply Forall2_impl; [|exact F]. intros l l' [LK LE]. split; [exact LK|].
    destruct LE as [LE|[LE N]]; [now left | right]. split; [eapply touchable_of_step; eauto | exact N].
  - exact I.
  - cbn [g_locs] in HT. split; [exact HR | split; [apply grows_app | exact HT]].
Qed.

(* ------------------------------------------------------------------ symbolz *)
Lemma apply_line_rel mid lines l :
  loc_key (apply_line mid lines l) = loc_key l /\
  (apply_line mid lines l = l \/ (l_mapping l = mid /\ l_lines (apply_line mid lines l) <> [])).
Proof.
  unfold apply_line. destruct (l_mapping l =? mid) eqn:E; [|auto].
  apply Z.eqb_eq in E. destruct (find _ lines); [|auto].
  split; [reflexivity | right]. split; [exact E | cbn [set_lines l_lines]; discriminate].
Qed.

Lemma parse_line_grows off s l s' : parse_line off s l = Some s' -> grows (ps_funs s) (ps_funs s').
Proof.
  unfold parse_line. destruct (match_symbolz l) as [[digs name]|]; [|intros H; inversion H; apply grows_refl].
  destruct (two64 <=? hex_val digs 0); [discriminate|].
  destruct (adjust _ _); [|discriminate].
  destruct (find _ (ps_names s)); intros H; inversion H; cbn [ps_funs]; [apply grows_refl | apply grows_app].
Qed.

Lemma parse_lines_grows off ls : forall s, grows (ps_funs s) (ps_funs (fst (parse_lines off s ls))).
Proof.
  induction ls as [|l r IH]; intros s; cbn [parse_lines]; [apply grows_refl|].
  destruct (parse_line off s l) as [s'|] eqn:E; cbn [fst]; [|apply grows_refl].
  eapply grows_trans; [eapply parse_line_grows; eauto | apply IH].
Qed.

Lemma symbolize_mapping_facts source off m s :
  let s' := symbolize_mapping source off m s in
  grows (r_funs s) (r_funs s') /\
  Forall2 (fun l l' => loc_key l' = loc_key l /\ (l' = l \/ (l_mapping l = m_id m /\ l_lines l' <> []))) (r_locs s) (r_locs s').
Proof.
  cbn zeta. unfold symbolize_mapping.
  assert (Same : forall locs : list location,
             Forall2 (fun l l' => loc_key l' = loc_key l /\ (l' = l \/ (l_mapping l = m_id m /\ l_lines l' <> []))) locs locs).
  { intros locs. apply Forall2_refl. auto. }
  destruct (query_addrs (m_id m) off (r_locs s)) as [[|q0 q]|]; cbn [r_funs r_locs];
    try (split; [apply grows_refl | apply Same]).
  destruct (a_err _); cbn [r_funs r_locs]; [split; [apply grows_refl | apply Same]|].
  match goal with |- context [parse_lines off ?s0 ?ls] => pose proof (parse_lines_grows off ls s0) as G; cbn [ps_funs] in G end.
  destruct (snd (parse_lines _ _ _)); cbn [r_funs r_locs]; (split; [exact G|]); [apply Same|].
  apply Forall2_map_r. intros l. apply apply_line_rel.
Qed.

Lemma remote_mapping_facts force srcs symz s m :
  let r := remote_mapping force srcs symz s m in
  map_rel force m (snd r) /\ grows (r_funs s) (r_funs (fst r)) /\
  Forall2 (loc_rel (fun mid => mid = m_id m /\ (force = true \/ m_hasfn m = false))) (r_locs s) (r_locs (fst r)).
Proof.
  cbn zeta. unfold remote_mapping.
  set (P := fun mid => mid = m_id m /\ (force = true \/ m_hasfn m = false)).
  assert (Skip : map_rel force m m /\ grows (r_funs s) (r_funs s) /\ Forall2 (loc_rel P) (r_locs s) (r_locs s)).
  { split; [apply map_rel_refl | split; [apply grows_refl | apply locs_rel_refl]]. }
  destruct (r_err s); [exact Skip|].
  destruct (negb force && m_hasfn m) eqn:Eforce; [exact Skip|].
  destruct (find _ _) as [e|]; [|exact Skip].
  assert (Hforce : force = true \/ m_hasfn m = false).
  { destruct force; [now left | right]. cbn in Eforce. exact Eforce. }
  match goal with |- context [symbolize_mapping ?a ?b ?c ?d] => destruct (symbolize_mapping_facts a b c d) as [G F] end.
  assert (F' : Forall2 (loc_rel P) (r_locs s) (r_locs (symbolize_mapping (symz (fst e))
                 (wrap_i64 (wrap_i64 (snd e) - wrap_i64 (m_start m))) m s))).
  { eapply Forall2_impl; [|exact F]. intros l l' [LK LE]. split; [exact LK|].
    destruct LE as [LE|[LE N]]; [now left | right; split; [split; assumption | exact N]]. }
  destruct (r_err (symbolize_mapping _ _ _ _)); cbn [fst snd].
  - split; [apply map_rel_refl | split; assumption].
  - split; [split; [reflexivity | right; exact Hforce] | split; assumption].
Qed.

Lemma remote_symbolize_facts force srcs symz w :
  let w' := fst (remote_symbolize force srcs symz w) in
  Forall2 (map_rel force) (w_maps w) (w_maps w') /\ grows (w_funs w) (w_funs w') /\
  Forall2 (loc_rel (touchable force (w_maps w))) (w_locs w) (w_locs w').
Proof.
  cbn zeta. unfold remote_symbolize. cbn [fst w_maps w_locs w_funs].
  pose (T := fun a b : rst => grows (r_funs a) (r_funs b) /\
                              Forall2 (loc_rel (touchable force (w_maps w))) (r_locs a) (r_locs b)).
  match goal with |- context [mapacc ?f ?s0 ?l] =>
    destruct (mapacc_inv f (fun _ => True) T (map_rel force) l) with (s := s0) as [_ [HT HR]] end; subst T; cbn beta.
  - intros. split; [apply grows_refl | apply locs_rel_refl].
  - intros a b c [G1 L1] [G2 L2]. split; [eapply grows_trans; eauto | eapply locs_rel_trans; eauto].
  - intros s m Hin _. destruct (remote_mapping_facts force srcs symz s m) as [M [G F]].
    split; [exact I | split; [split; [exact G|] | exact M]].
    eapply Forall2_impl; [|exact F]. intros l l' [LK LE]. split; [exact LK|].
    destruct LE as [LE|[LE N]]; [now left | right]. split; [eapply touchable_of_step; eauto | exact N].
  - exact I.
  - cbn [r_locs r_funs] in HT. destruct HT as [G L]. auto.
Qed.

(* ------------------------------------------------------------------ demangling *)
Lemma str_empty_true s : str_empty s = true <-> s = EmptyString.
Proof. destruct s; simpl; split; intros H; try reflexivity; discriminate. Qed.
Lemma str_empty_false s : str_empty s = false <-> s <> EmptyString.
Proof. destruct s; simpl; split; intros H; try discriminate; try reflexivity; congruence. Qed.

(* what a rewriting of function names must respect *)
Definition name_map_ok (filt : string -> string -> string) (g : function -> function) : Prop :=
  (forall f, fun_key (g f) = fun_key f) /\
  (filter_nonempty filt -> forall f, f_name f <> EmptyString -> f_name (g f) <> EmptyString).

Lemma name_map_id filt : name_map_ok filt (fun f => f).
Proof. split; auto. Qed.

Lemma name_map_comp filt g h : name_map_ok filt g -> name_map_ok filt h -> name_map_ok filt (fun f => h (g f)).
Proof.
  intros [K1 N1] [K2 N2]. split.
  - intros f. rewrite K2. apply K1.
  - intros HF f Hf. apply N2; [exact HF|]. apply N1; assumption.
Qed.

Lemma force_reset_ok filt : name_map_ok filt force_reset.
Proof.
  split; intros; unfold force_reset.
  - destruct (negb (str_empty (f_name f)) && negb (str_empty (f_sysname f))); reflexivity.
  - destruct (negb (str_empty (f_name f))) eqn:E1; cbn [andb]; [|assumption].
    destruct (negb (str_empty (f_sysname f))) eqn:E2; [|assumption].
    cbn [set_name f_name]. apply str_empty_false. now apply negb_true_iff in E2.
Qed.

Lemma heuristic_name_nonempty sys opts : sys <> EmptyString -> heuristic_name sys opts <> EmptyString.
Proof.
  intros H. unfold heuristic_name. destruct (looks_like_demangled sys); [|exact H].
  destruct (str_empty (fold_left apply_opt opts sys)) eqn:E; [exact H | now apply str_empty_false].
Qed.

Lemma demangle_single_ok filt d opts : name_map_ok filt (demangle_single (filt d) opts).
Proof.
  split.
  - intros f. unfold demangle_single.
    destruct (negb (str_empty (f_name f)) && negb (String.eqb (f_sysname f) (f_name f))); [reflexivity|].
    destruct (negb (String.eqb (filt d (f_sysname f)) (f_sysname f))); [reflexivity|].
    destruct (has_prefix "_" (f_sysname f) && _); reflexivity.
  - intros HF f Hf. unfold demangle_single.
    destruct (negb (str_empty (f_name f)) && negb (String.eqb (f_sysname f) (f_name f))) eqn:E1; [exact Hf|].
    assert (Hsys : f_sysname f <> EmptyString).
    { apply str_empty_false in Hf. rewrite Hf in E1. cbn in E1. apply negb_false_iff in E1.
      apply String.eqb_eq in E1. rewrite E1. now apply str_empty_false. }
    destruct (negb (String.eqb (filt d (f_sysname f)) (f_sysname f))); cbn [set_name f_name]; [apply HF; exact Hsys|].
    destruct (has_prefix "_" (f_sysname f) && negb (String.eqb (filt d (drop 1 (f_sysname f))) (drop 1 (f_sysname f)))) eqn:E3;
      cbn [set_name f_name].
    + apply andb_true_iff in E3. destruct E3 as [_ E3]. apply negb_true_iff in E3. apply String.eqb_neq in E3.
      destruct (drop 1 (f_sysname f)) eqn:ED; [exact E3 | apply HF; discriminate].
    + apply heuristic_name_nonempty. exact Hsys.
Qed.

Lemma demangle_shape filt force dmode fs fs' :
  demangle filt force dmode fs = Some fs' -> exists g, fs' = map g fs /\ name_map_ok filt g.
Proof.
  unfold demangle.
  assert (H1 : exists g1, (if force then map force_reset fs else fs) = map g1 fs /\ name_map_ok filt g1).
  { destruct force; [exists force_reset; split; [reflexivity | apply force_reset_ok]|].
    exists (fun f => f). split; [now rewrite map_id | apply name_map_id]. }
  destruct H1 as [g1 [-> G1]].
  destruct (options_of_mode dmode) as [[|o opts]|]; [| |discriminate]; intros H; inversion H.
  - exists g1. auto.
  - exists (fun f => demangle_single (filt dmode) (o :: opts) (g1 f)). split; [now rewrite map_map|].
    apply name_map_comp; [exact G1 | apply demangle_single_ok].
Qed.

(* ------------------------------------------------------------------ Symbolize *)
Lemma touchable_back force maps0 maps1 mid :
  Forall2 (map_rel force) maps0 maps1 -> touchable force maps1 mid -> touchable force maps0 mid.
Proof.
  intros F [H|[m1 [Hin [Hid Hfn]]]]; [now left|].
  destruct (Forall2_in_r _ _ _ _ F Hin) as [m0 [Hin0 [K R]]].
  assert (m_id m0 = mid) by (unfold map_key in K; congruence).
  destruct R as [->|[R|R]]; [right; exists m0; auto | now left | right; exists m0; auto].
Qed.

Definition shape (filt : string -> string -> string) (force : bool) (w w' : wst) : Prop :=
  Forall2 (map_rel force) (w_maps w) (w_maps w') /\
  Forall2 (loc_rel (touchable force (w_maps w))) (w_locs w) (w_locs w') /\
  exists g ext, w_funs w' = map g (w_funs w ++ ext) /\ name_map_ok filt g.

Lemma shape_refl filt force w : shape filt force w w.
Proof.
  split; [apply Forall2_refl; apply map_rel_refl | split; [apply locs_rel_refl|]].
  exists (fun f => f), []. rewrite app_nil_r, map_id. split; [reflexivity | apply name_map_id].
Qed.

Lemma symbolize_w_shape mode e w w' err :
  symbolize_w mode e w = Res w' err -> shape (e_filt e) (mo_force (parse_mode mode)) w w'.
Proof.
  unfold symbolize_w. set (mo := parse_mode mode). set (force := mo_force mo).
  destruct (mo_none mo); [intros H; inversion H; subst; apply shape_refl|].
  (* local, then remote *)
  set (w1 := if mo_local mo then local_symbolize force (e_http e) w else w).
  assert (S1 : Forall2 (map_rel force) (w_maps w) (w_maps w1) /\ grows (w_funs w) (w_funs w1) /\
                Forall2 (loc_rel (touchable force (w_maps w))) (w_locs w) (w_locs w1)).
  { subst w1. destruct (mo_local mo); [apply local_symbolize_facts|].
    split; [apply Forall2_refl; apply map_rel_refl | split; [apply grows_refl | apply locs_rel_refl]]. }
  set (re := if mo_remote mo then remote_symbolize force (e_srcs e) (e_symz e) w1 else (w1, false)).
  assert (S2 : Forall2 (map_rel force) (w_maps w) (w_maps (fst re)) /\ grows (w_funs w) (w_funs (fst re)) /\
                Forall2 (loc_rel (touchable force (w_maps w))) (w_locs w) (w_locs (fst re))).
  { subst re. destruct (mo_remote mo); [|exact S1].
    destruct S1 as [M1 [G1 L1]].
    destruct (remote_symbolize_facts force (e_srcs e) (e_symz e) w1) as [M2 [G2 L2]].
    split; [eapply Forall2_trans; [apply map_rel_trans | exact M1 | exact M2]|].
    split; [eapply grows_trans; eauto|].
    eapply locs_rel_trans; [exact L1|].
    eapply Forall2_impl; [|exact L2]. intros l l' [LK LE]. split; [exact LK|].
    destruct LE as [LE|[LE N]]; [now left | right]. split; [eapply touchable_back; eauto | exact N]. }
  clearbody re. clear S1. destruct S2 as [M2 [[ext G2] L2]].
  destruct (snd re).
  - intros H; inversion H; subst. split; [exact M2 | split; [exact L2|]].
    exists (fun f => f), ext. rewrite map_id. split; [exact G2 | apply name_map_id].
  - destruct (demangle (e_filt e) force (mo_dmode mo) (w_funs (fst re))) as [fs|] eqn:ED; [|discriminate].
    intros H; inversion H; subst. cbn [w_maps w_locs w_funs].
    split; [exact M2 | split; [exact L2|]].
    destruct (demangle_shape _ _ _ _ _ ED) as [g [-> G]].
    exists g, ext. rewrite G2. split; [reflexivity | exact G].
Qed.

(* ---- frame *)
Lemma frame_of_shape filt force p w w' :
  w_maps w = p_mapping p -> w_locs w = p_location p -> w_funs w = p_function p ->
  shape filt force w w' -> frame_ok p (with_w p w').
Proof.
  intros Em El Ef [M [L [g [ext [F [K _]]]]]].
  constructor; cbn [with_w p_sample p_location p_mapping p_function]; try reflexivity.
  - rewrite <- El. apply Forall2_map_eq. eapply Forall2_impl; [|exact L]. intros a b [H _]; exact H.
  - rewrite <- Em. apply Forall2_map_eq. eapply Forall2_impl; [|exact M]. intros a b [H _]; exact H.
  - rewrite <- Ef, F, map_app. exists (map g (w_funs w)), (map g ext). split; [reflexivity|].
    apply Forall2_map_r. exact K.
Qed.

Lemma symbolize_frame_lemma mode e script p p' err calls :
  symbolize mode e script p = Out p' err calls -> frame_ok p p'.
Proof.
  unfold symbolize. destruct (symbolize_w mode e (w_of p script)) as [w' err'|] eqn:E; [|discriminate].
  intros H; inversion H; subst.
  eapply frame_of_shape; [| | |eapply symbolize_w_shape; exact E]; reflexivity.
Qed.

(* ---- names kept *)
Lemma symbolize_names_lemma mode e script p p' err calls :
  filter_nonempty (e_filt e) -> symbolize mode e script p = Out p' err calls -> names_kept p p'.
Proof.
  intros HF. unfold symbolize. destruct (symbolize_w mode e (w_of p script)) as [w' err'|] eqn:E; [|discriminate].
  intros H; inversion H; subst.
  destruct (symbolize_w_shape _ _ _ _ _ E) as [_ [_ [g [ext [F [_ N]]]]]].
  unfold names_kept. cbn [with_w p_function]. rewrite F, map_app. cbn [w_of w_funs].
  exists (map g (p_function p)), (map g ext). split; [reflexivity|].
  apply Forall2_map_r. intros f. apply N. exact HF.
Qed.

(* ---- left alone *)
Lemma parse_opts_force os : forall m,
  mo_force (parse_opts os m) = true -> mo_force m = true \/ existsb force_word os = true.
Proof.
  induction os as [|o r IH]; intros m; cbn [parse_opts existsb]; [auto|].
  destruct (String.eqb o "") eqn:E0.
  { intros H. destruct (IH _ H) as [H1|H1]; [now left | right; rewrite H1; apply orb_true_r]. }
  destruct (String.eqb o "none" || String.eqb o "no"); [cbn [mo_force]; auto|].
  destruct (String.eqb o "local").
  { intros H. destruct (IH _ H) as [H1|H1]; [now left | right; rewrite H1; apply orb_true_r]. }
  destruct (String.eqb o "fastlocal").
  { intros H. destruct (IH _ H) as [H1|H1]; [now left | right; rewrite H1; apply orb_true_r]. }
  destruct (String.eqb o "remote").
  { intros H. destruct (IH _ H) as [H1|H1]; [now left | right; rewrite H1; apply orb_true_r]. }
  destruct (String.eqb o "force") eqn:EF.
  { intros _. right. unfold force_word. rewrite EF. reflexivity. }
  destruct (String.eqb (trim_prefix "demangle=" o) "full" || String.eqb (trim_prefix "demangle=" o) "none"
            || String.eqb (trim_prefix "demangle=" o) "templates") eqn:ED.
  { intros _. right. unfold force_word. rewrite EF, ED. reflexivity. }
  intros H. destruct (IH _ H) as [H1|H1]; [now left | right; rewrite H1; apply orb_true_r].
Qed.

Lemma not_requested_no_force mode : force_requested mode = false -> mo_force (parse_mode mode) = false.
Proof.
  intros H. unfold parse_mode. destruct (mo_force (parse_opts _ mode_default)) eqn:E; [|reflexivity].
  apply parse_opts_force in E. destruct E as [E|E]; [discriminate|].
  unfold force_requested in H. congruence.
Qed.

Lemma symbolize_left_alone_lemma mode e script p p' err calls :
  force_requested mode = false -> symbolize mode e script p = Out p' err calls -> left_alone p p'.
Proof.
  intros HF. unfold symbolize. destruct (symbolize_w mode e (w_of p script)) as [w' err'|] eqn:E; [|discriminate].
  intros H; inversion H; subst.
  destruct (symbolize_w_shape _ _ _ _ _ E) as [M [L _]].
  rewrite (not_requested_no_force _ HF) in M, L. cbn [w_of w_maps w_locs] in M, L.
  split; cbn [with_w p_mapping p_location].
  - eapply Forall2_impl; [|exact M]. intros m m' [_ [R|[R|R]]] Hfn; [exact R | discriminate | congruence].
  - eapply Forall2_impl; [|exact L]. intros l l' [_ [R|[R _]]] Hp; [exact R|].
    destruct R as [R|[m [Hin [Hid Hfn]]]]; [discriminate|].
    specialize (Hp m Hin Hid). congruence.
Qed.

(* ------------------------------------------------------------------ no panic *)
Definition dmode_ok (d : string) : Prop := options_of_mode d <> None.

Lemma parse_opts_dmode os : forall m, dmode_ok (mo_dmode m) -> dmode_ok (mo_dmode (parse_opts os m)).
Proof.
  induction os as [|o r IH]; intros m Hm; cbn [parse_opts]; [exact Hm|].
  destruct (String.eqb o ""); [apply IH; exact Hm|].
  destruct (String.eqb o "none" || String.eqb o "no"); [exact Hm|].
  destruct (String.eqb o "local"); [apply IH; exact Hm|].
  destruct (String.eqb o "fastlocal"); [apply IH; exact Hm|].
  destruct (String.eqb o "remote"); [apply IH; exact Hm|].
  destruct (String.eqb o "force"); [apply IH; exact Hm|].
  destruct (String.eqb (trim_prefix "demangle=" o) "full") eqn:E1.
  { apply IH. cbn [mo_dmode]. apply String.eqb_eq in E1. rewrite E1. discriminate. }
  destruct (String.eqb (trim_prefix "demangle=" o) "none") eqn:E2.
  { apply IH. cbn [mo_dmode orb]. apply String.eqb_eq in E2. rewrite E2. discriminate. }
  destruct (String.eqb (trim_prefix "demangle=" o) "templates") eqn:E3.
  { apply IH. cbn [mo_dmode orb]. apply String.eqb_eq in E3. rewrite E3. discriminate. }
  cbn [orb]. apply IH. exact Hm.
Qed.

Lemma symbolize_no_panic_lemma mode e script p : symbolize mode e script p <> OPanic.
Proof.
  unfold symbolize, symbolize_w.
  destruct (mo_none (parse_mode mode)); [discriminate|].
  match goal with |- context [if snd ?re then _ else _] => destruct (snd re) end; [discriminate|].
  unfold demangle.
  assert (H : dmode_ok (mo_dmode (parse_mode mode))).
  { unfold parse_mode. apply parse_opts_dmode. cbn. discriminate. }
  unfold dmode_ok in H. destruct (options_of_mode (mo_dmode (parse_mode mode))) as [[|o opts]|]; [discriminate | discriminate | congruence].
Qed.

(* ------------------------------------------------------------------ adjust *)
Lemma adjust_sound_lemma a off :
  in_u64 a = true -> in_i64 off = true ->
  adjust a off = if in_u64 (a + off) then Some (a + off) else None.
Proof.
  unfold adjust, in_u64, in_i64, wrap_u64, wrap_i64, two64, two63. intros Ha Ho.
  assert (E2 : (((a + 9223372036854775808) mod 18446744073709551616 - 9223372036854775808 + off + 9223372036854775808)
                mod 18446744073709551616 - 9223372036854775808) mod 18446744073709551616
               = (a + off) mod 18446744073709551616).
  { rewrite Zminus_mod_idemp_l.
    replace ((a + 9223372036854775808) mod 18446744073709551616 - 9223372036854775808 + off + 9223372036854775808 - 9223372036854775808)
      with ((a + 9223372036854775808) mod 18446744073709551616 + (off - 9223372036854775808)) by lia.
    rewrite Zplus_mod_idemp_l. f_equal. lia. }
  rewrite E2. clear E2.
  assert (Hr : 0 <= a < 18446744073709551616 /\ - 9223372036854775808 <= off < 9223372036854775808) by lia.
  destruct Hr as [Hra Hro].
  destruct (off <? 0) eqn:Eo.
  - assert (Hneg : off < 0) by lia.
    destruct (Z_lt_dec (a + off) 0) as [Hlt|Hge].
    + assert ((a + off) mod 18446744073709551616 = a + off + 18446744073709551616).
      { symmetry. apply Z.mod_unique with (q := -1); lia. }
      rewrite H. replace (a <=? a + off + 18446744073709551616) with true by lia.
      replace ((0 <=? a + off) && (a + off <? 18446744073709551616)) with false by lia. reflexivity.
    + rewrite Z.mod_small by lia. replace (a <=? a + off) with false by lia.
      replace ((0 <=? a + off) && (a + off <? 18446744073709551616)) with true by lia. reflexivity.
  - assert (Hpos : 0 <= off) by lia.
    destruct (Z_lt_dec (a + off) 18446744073709551616) as [Hlt|Hge].
    + rewrite Z.mod_small by lia. replace (a + off <? a) with false by lia.
      replace ((0 <=? a + off) && (a + off <? 18446744073709551616)) with true by lia. reflexivity.
    + assert ((a + off) mod 18446744073709551616 = a + off - 18446744073709551616).
      { symmetry. apply Z.mod_unique with (q := 1); lia. }
      rewrite H. replace (a + off - 18446744073709551616 <? a) with true by lia.
      replace ((0 <=? a + off) && (a + off <? 18446744073709551616)) with false by lia. reflexivity.
Qed.

(* ---- lines are attached, never removed *)
Lemma symbolize_lines_attached_lemma mode e script p p' err calls :
  symbolize mode e script p = Out p' err calls ->
  Forall2 (fun l l' => l' = l \/ l_lines l' <> []) (p_location p) (p_location p').
Proof.
  unfold symbolize. destruct (symbolize_w mode e (w_of p script)) as [w' err'|] eqn:E; [|discriminate].
  intros H; inversion H; subst.
  destruct (symbolize_w_shape _ _ _ _ _ E) as [_ [L _]]. cbn [w_of w_locs] in L. cbn [with_w p_location].
  eapply Forall2_impl; [|exact L]. intros l l' [_ [R|[_ R]]]; [now left | now right].
Qed.
