(* C18 model of internal/graph/dotgraph.go (ComposeDot and its emitters), transcribed in the
   order of the Fprintf calls.  Inputs that come from code outside this file are oracles shipped
   with the case: ShortenFunctionName (regexps), FormatValue (the caller's callback, a table),
   measurement.Percentage (a table), tag selection (SortTags / collapsedTags results) and the
   edge order (EdgeMap.Sort).  Float-derived attributes (fontsize of nodes, colours) are printed
   as the constants 0 / #000000 and masked on both sides by the case runner.
   No proofs in this file. *)
From PV Require Export Base.Term Base.Str M_Profile.
Open Scope string_scope.
Open Scope Z_scope.

(* ---------------- strings ---------------- *)
Definition s_quote : string := String (ascii_of_N 34) "".
Definition s_bslash : string := String (ascii_of_N 92) "".
Definition s_nl : string := String (ascii_of_N 10) "".
Definition s_bs_n : string := String (ascii_of_N 92) "n".      (* the two bytes backslash n *)
Definition s_bs_l : string := String (ascii_of_N 92) "l".
Definition s_bs_bs : string := String (ascii_of_N 92) (String (ascii_of_N 92) "").
Definition s_bs_q : string := String (ascii_of_N 92) (String (ascii_of_N 34) "").

(* strings.ReplaceAll(s, old, new) for a one-byte old *)
Fixpoint replace1 (old : ascii) (new : string) (s : string) : string :=
  match s with
  | EmptyString => EmptyString
  | String c r => if Ascii.eqb c old then new ++ replace1 old new r else String c (replace1 old new r)
  end.

(* strings.ReplaceAll for a non-empty old (left to right, non-overlapping); fuel = length s *)
Fixpoint replace_go (fuel : nat) (old new s : string) : string :=
  match fuel with
  | O => s
  | S f =>
      match s with
      | EmptyString => EmptyString
      | String c r =>
          if has_prefix old s then new ++ replace_go f old new (drop (String.length old) s)
          else String c (replace_go f old new r)
      end
  end.
Definition replace_all (old new s : string) : string :=
  match old with EmptyString => s | _ => replace_go (String.length s) old new s end.

(* strings.Split(s, sep) for the two-byte separator a b *)
Fixpoint split2 (a b : ascii) (s : string) (rcur : string) : list string :=
  match s with
  | EmptyString => [rev_string rcur]
  | String c r =>
      match r with
      | String d r' =>
          if Ascii.eqb c a && Ascii.eqb d b then rev_string rcur :: split2 a b r' ""
          else split2 a b r (String c rcur)
      | EmptyString => [rev_string (String c rcur)]
      end
  end.

(* dotgraph.go escapeForDot: three ReplaceAll passes, in this order *)
Definition escape_for_dot (s : string) : string :=
  replace1 (ascii_of_N 10) s_bs_l (replace1 (ascii_of_N 34) s_bs_q (replace1 (ascii_of_N 92) s_bs_bs s)).

(* dotgraph.go escapeTagForDot *)
Definition escape_tag_for_dot (name : string) : string :=
  concat_with s_bs_n (map escape_for_dot (split2 (ascii_of_N 92) "n"%char name "")).

(* ---------------- numbers ---------------- *)
Definition hex_nibble (z : Z) : ascii :=
  ascii_of_N (Z.to_N (if z <? 10 then 48 + z else 87 + z)).
Fixpoint hex_fixed (n : nat) (z : Z) (acc : string) : string :=
  match n with
  | O => acc
  | S k => hex_fixed k (z / 16) (String (hex_nibble (z mod 16)) acc)
  end.
Definition hex16 (z : Z) : string := hex_fixed 16 z "".          (* %016x of a uint64 *)
Fixpoint strip_zeros (s : string) : string :=
  match s with
  | String c r =>
      match r with
      | EmptyString => s
      | _ => if Ascii.eqb c "0" then strip_zeros r else s
      end
  | EmptyString => s
  end.
Definition hex_min (z : Z) : string := strip_zeros (hex16 z).     (* %x of a uint64 *)

(* path/filepath.Base on a slash-separated path *)
Fixpoint strip_trailing_slashes_rev (r : string) : string :=
  match r with
  | String c r' => if Ascii.eqb c "/" then strip_trailing_slashes_rev r' else r
  | EmptyString => EmptyString
  end.
Fixpoint take_until_slash (r : string) (acc : string) : string :=
  match r with
  | String c r' => if Ascii.eqb c "/" then acc else take_until_slash r' (String c acc)
  | EmptyString => acc
  end.
Definition path_base (p : string) : string :=
  match p with
  | EmptyString => "."
  | _ => match strip_trailing_slashes_rev (rev_string p) with
         | EmptyString => "/"
         | r => take_until_slash r ""
         end
  end.

(* ---------------- graph as ComposeDot sees it ---------------- *)
Record ninfo := {
  ni_name : string; ni_short : string (* oracle: ShortenFunctionName(ni_name) *);
  ni_addr : Z; ni_file : string; ni_line : Z; ni_col : Z; ni_obj : string }.

Record nattrs := {
  na_fmt : option string (* result of DotNodeAttributes.Formatter, if one is set *);
  na_shape : string; na_bold : bool; na_periph : Z; na_url : string }.

Record ntag := { nt_name : string; nt_flat : Z; nt_cum : Z }.
Record ltag := { lt_name : string; lt_flat : Z; lt_cum : Z; lt_num : option (list ntag) }.

Record dnode := {
  dn_info : ninfo; dn_flat : Z; dn_cum : Z; dn_attrs : option nattrs;
  dn_tags : list ltag          (* oracle: SortTags(LabelTags)[:maxNodelets] *);
  dn_rootnum : option (list ntag) (* oracle: collapsedTags of the numeric tags without labels *);
  dn_hasout : bool             (* len(node.Out) > 0 *) }.

Record dedge := {
  de_from : Z; de_to : Z       (* nodeIDMap[e.Src], nodeIDMap[e.Dest]; 0 = not in g.Nodes *);
  de_src : ninfo; de_dst : ninfo; de_w : Z (* WeightValue() *);
  de_inline : bool; de_residual : bool }.

Record dgraph := {
  dg_title : string; dg_url : string; dg_labels : list string; dg_total : Z;
  dg_fv : list (Z * string)    (* oracle: FormatValue *);
  dg_pct : list (Z * string)   (* oracle: TrimSpace(Percentage(v, Total)) *);
  dg_nodes : list dnode; dg_edges : list dedge (* oracle: EdgeMap.Sort order *) }.

Fixpoint zlookup (t : list (Z * string)) (v : Z) : string :=
  match t with
  | [] => ""
  | (k, s) :: r => if k =? v then s else zlookup r v
  end.

(* builder.formatValue: the caller's FormatValue result, escaped (repair of F29) *)
Definition fmt_value (t : list (Z * string)) (v : Z) : string := escape_for_dot (zlookup t v).

(* graph.go NodeInfo.NameComponents *)
Definition name_tail (name file obj : string) (line col : Z) : list string :=
  if negb (line =? 0) then
     [file ++ ":" ++ string_of_Z line ++ (if col =? 0 then "" else ":" ++ string_of_Z col)]
  else if negb (String.eqb file "") then [file]
  else if negb (String.eqb name "") then []
  else if negb (String.eqb obj "") then ["[" ++ path_base obj ++ "]"]
  else ["<unknown>"].
Definition name_components (name file obj : string) (addr line col : Z) : list string :=
  app (if addr =? 0 then [] else [hex16 addr])
      (app (if String.eqb name "" then [] else [name]) (name_tail name file obj line col)).

Definition printable_name (i : ninfo) : string :=
  concat_with " " (name_components (ni_name i) (ni_file i) (ni_obj i) (ni_addr i) (ni_line i) (ni_col i)).

Definition s_ellipsis : string := B [226; 128; 166].

(* the function name as multilinePrintableName rewrites it *)
Definition ml_name (short : string) : string :=
  replace_all "." s_bs_n (replace_all "[...]" ("[" ++ s_ellipsis ++ "]") (replace_all "::" s_bs_n (escape_for_dot short))).
(* the file base name and the binary base name are escaped as well (repair of F30);
   NameComponents applies filepath.Base to the binary name once more *)
Definition ml_file (file : string) : string := if String.eqb file "" then "" else escape_for_dot (path_base file).
Definition ml_obj (obj : string) : string := if String.eqb obj "" then "" else escape_for_dot (path_base obj).

Definition multiline_printable_name (i : ninfo) : string :=
  concat_with s_bs_n (name_components (ml_name (ni_short i)) (ml_file (ni_file i)) (ml_obj (ni_obj i))
                                      (ni_addr i) (ni_line i) (ni_col i)) ++ s_bs_n.

(* ---------------- emitters ---------------- *)
Definition q (s : string) : string := s_quote ++ s ++ s_quote.
Definition zs (z : Z) : string := string_of_Z z.

Definition emit_start (g : dgraph) : string :=
  "digraph " ++ q (escape_for_dot (if String.eqb (dg_title g) "" then "unnamed" else dg_title g)) ++ " {" ++ s_nl ++
  "node [style=filled fillcolor=" ++ q "#f8f8f8" ++ "]" ++ s_nl.

Definition emit_legend (g : dgraph) : string :=
  match dg_labels g with
  | [] => ""
  | title :: _ =>
      "subgraph cluster_L { " ++ q (escape_for_dot title) ++ " [shape=box fontsize=16 label=" ++
      q (concat_with s_bs_l (map escape_for_dot (dg_labels g)) ++ s_bs_l) ++
      (if String.eqb (dg_url g) "" then "" else " URL=" ++ q (escape_for_dot (dg_url g)) ++ " target=" ++ q "_blank") ++
      (if String.eqb (dg_title g) "" then "" else " tooltip=" ++ q (escape_for_dot (dg_title g))) ++
      "] }" ++ s_nl
  end.

Definition node_label (g : dgraph) (n : dnode) : string * string (* label, cumValue *) :=
  let flat := dn_flat n in let cum := dn_cum n in
  let l0 := match dn_attrs n with
            | Some a => match na_fmt a with Some f => f | None => multiline_printable_name (dn_info n) end
            | None => multiline_printable_name (dn_info n)
            end in
  let fvs := fmt_value (dg_fv g) flat in
  let l1 := if flat =? 0 then l0 ++ "0" else l0 ++ fvs ++ " (" ++ zlookup (dg_pct g) flat ++ ")" in
  if cum =? flat then (l1, fvs)
  else
    let cvs := fmt_value (dg_fv g) cum in
    (l1 ++ (if flat =? 0 then " " else s_bs_n) ++ "of " ++ cvs ++ " (" ++ zlookup (dg_pct g) cum ++ ")", cvs).

Definition node_extras (n : dnode) : string :=
  match dn_attrs n with
  | None => ""
  | Some a =>
      (if na_bold a then " style=" ++ q "bold,filled" else "") ++
      (if na_periph a =? 0 then "" else " peripheries=" ++ zs (na_periph a)) ++
      (if String.eqb (na_url a) "" then "" else " URL=" ++ q (na_url a) ++ " target=" ++ q "_blank")
  end.

Definition node_shape (n : dnode) : string :=
  match dn_attrs n with
  | Some a => if String.eqb (na_shape a) "" then "box" else na_shape a
  | None => "box"
  end.

Definition emit_node (g : dgraph) (n : dnode) (id : Z) : string :=
  let '(label, cumv) := node_label g n in
  "N" ++ zs id ++ " [label=" ++ q label ++ " id=" ++ q ("node" ++ zs id) ++ " fontsize=0 shape=" ++ node_shape n ++
  " tooltip=" ++ q (escape_for_dot (printable_name (dn_info n)) ++ " (" ++ cumv ++ ")") ++
  " color=" ++ q "#000000" ++ " fillcolor=" ++ q "#000000" ++ node_extras n ++ "]" ++ s_nl.

(* one nodelet box and the edge to it; [src] is the id text of the parent, [nm] of the box *)
Definition emit_nodelet (src nm tagname weight attr : string) : string :=
  nm ++ " [label = " ++ q (escape_tag_for_dot tagname) ++ " id=" ++ q nm ++ " fontsize=8 shape=box3d tooltip=" ++ q weight ++ "]" ++ s_nl ++
  src ++ " -> " ++ nm ++ " [label=" ++ q (" " ++ weight) ++ " weight=100 tooltip=" ++ q weight ++ " labeltooltip=" ++ q weight ++ attr ++ "]" ++ s_nl.

Fixpoint emit_numeric (g : dgraph) (flat_tags : bool) (source : string) (nts : list ntag) (j : Z) : string :=
  match nts with
  | [] => ""
  | t :: r =>
      let '(w, attr) := if flat_tags || (nt_flat t =? nt_cum t) then (nt_flat t, "")
                        else (nt_cum t, " style=" ++ q "dotted") in
      (if w =? 0 then ""
       else emit_nodelet source ("N" ++ source ++ "_" ++ zs j) (nt_name t) (fmt_value (dg_fv g) w) attr)
      ++ emit_numeric g flat_tags source r (j + 1)
  end.

Fixpoint emit_tags (g : dgraph) (flat_tags : bool) (id : Z) (ts : list ltag) (i : Z) : string :=
  match ts with
  | [] => ""
  | t :: r =>
      let w := if flat_tags then lt_flat t else lt_cum t in
      (if w =? 0 then ""
       else
         let nm := "N" ++ zs id ++ "_" ++ zs i in
         emit_nodelet ("N" ++ zs id) nm (lt_name t) (fmt_value (dg_fv g) w) ""
         ++ match lt_num t with Some nts => emit_numeric g flat_tags nm nts 0 | None => "" end)
      ++ emit_tags g flat_tags id r (i + 1)
  end.

Definition emit_nodelets (g : dgraph) (n : dnode) (id : Z) : string :=
  emit_tags g (dn_hasout n) id (dn_tags n) 0 ++
  match dn_rootnum n with Some nts => emit_numeric g (dn_hasout n) ("N" ++ zs id) nts 0 | None => "" end.

(* abs64 / min64 of dotgraph.go on int64 *)
Definition abs64 (z : Z) : Z := if z <? 0 then wrap_i64 (- z) else z.
Definition min64 (a b : Z) : Z := if a <? b then a else b.
Definition edge_scaled (w total k cap : Z) : Z :=
  1 + min64 (abs64 (wrap_i64 (Z.quot (wrap_i64 (w * k)) total))) cap.

(* the weight / penwidth / color attributes of an edge (none when Total is 0) *)
Definition edge_mid (g : dgraph) (e : dedge) : string :=
  let total := dg_total g in
  if total =? 0 then ""
  else
    let weight := edge_scaled (de_w e) total 100 100 in
    let width := edge_scaled (de_w e) total 5 5 in
    (if 1 <? weight then " weight=" ++ zs weight else "") ++
    (if 1 <? width then " penwidth=" ++ zs width else "") ++ " color=" ++ q "#000000".

Definition edge_tooltip (g : dgraph) (e : dedge) : string :=
  escape_for_dot (printable_name (de_src e)) ++ " " ++ (if de_residual e then "..." else "->") ++ " " ++
  escape_for_dot (printable_name (de_dst e)) ++ " (" ++ fmt_value (dg_fv g) (de_w e) ++ ")".

Definition emit_edge (g : dgraph) (e : dedge) (has_nodelets : bool) : string :=
  let w := fmt_value (dg_fv g) (de_w e) in
  "N" ++ zs (de_from e) ++ " -> N" ++ zs (de_to e) ++
  " [label=" ++ q (" " ++ w ++ (if de_inline e then s_bs_n ++ " (inline)" else "")) ++
  edge_mid g e ++
  " tooltip=" ++ q (edge_tooltip g e) ++ " labeltooltip=" ++ q (edge_tooltip g e) ++
  (if de_residual e then " style=" ++ q "dotted" else "") ++
  (if has_nodelets then " minlen=2" else "") ++ "]" ++ s_nl.

Fixpoint emit_nodes (g : dgraph) (ns : list dnode) (id : Z) : string :=
  match ns with
  | [] => ""
  | n :: r => emit_node g n id ++ emit_nodelets g n id ++ emit_nodes g r (id + 1)
  end.

(* hasNodelets[e.Src]: false for a source that is not in g.Nodes *)
Definition has_nodelets (g : dgraph) (from : Z) : bool :=
  if from <=? 0 then false
  else match nth_error (dg_nodes g) (Z.to_nat (from - 1)) with
       | Some n => negb (String.eqb (emit_nodelets g n from) "")
       | None => false
       end.

Definition emit_edges (g : dgraph) : string :=
  String.concat "" (map (fun e => emit_edge g e (has_nodelets g (de_from e))) (dg_edges g)).

Definition compose_dot (g : dgraph) : string :=
  emit_start g ++ emit_legend g ++
  match dg_nodes g with
  | [] => ""
  | _ => emit_nodes g (dg_nodes g) 1 ++ emit_edges g
  end ++ "}" ++ s_nl.
