(* C02 -- Parsing is total: an error or a valid profile for any bytes.
   Property theorems only.  Model: M_Codec (protobuf path) + M_Valid (CheckValid, ParseData
   dispatch with the gzip reader and the legacy parsers as arbitrary oracles). *)
From PV Require Import M_Codec S_Codec M_Valid S_Valid L_Codec_Total L_Valid L_Codec_Parsed L_Codec_Main L_Codec_Range.
Open Scope list_scope.
Open Scope Z_scope.

(* for EVERY byte string the protobuf parser returns a profile or a Go error: none of its index /
   slice expressions can go out of range and its decoding loops never run out of fuel
   (out-of-fuel is a [Panic] outcome of the model) *)
Theorem parse_total_proto : forall data, no_panic (parse_uncompressed data).
Proof. exact parse_uncompressed_total. Qed.
Print Assumptions parse_total_proto.

Theorem decode_field_consumes_input : forall data,
  no_panic (decode_field data) /\
  forall fd rest, decode_field data = Ok (fd, rest) -> (List.length rest < List.length data)%nat.
Proof. exact decode_field_spec. Qed.
Print Assumptions decode_field_consumes_input.

(* whatever the gzip reader and the legacy parsers do (any functions of the bytes that do not panic) *)
Theorem parse_data_total : forall gunzip legacy data,
  (forall d, no_panic (legacy d)) -> no_panic (parse_data gunzip legacy data).
Proof. exact parse_data_total. Qed.
Print Assumptions parse_data_total.

(* the validity gate is on every path *)
Theorem parse_data_gated : forall gunzip legacy data p,
  parse_data gunzip legacy data = Ok p -> check_valid p = true.
Proof. exact parse_data_gated. Qed.
Print Assumptions parse_data_gated.

(* CheckValid does not test that sample locations are listed; postDecode guarantees it *)
Theorem post_decode_resolves_references : forall r p, post_decode r = Ok p -> refs_listed p.
Proof. exact post_decode_refs_listed. Qed.
Print Assumptions post_decode_resolves_references.

Theorem check_valid_sound : forall p, check_valid p = true -> refs_listed p -> contract p.
Proof. exact check_valid_contract. Qed.
Print Assumptions check_valid_sound.

(* the property: anything ParseData returns satisfies the validity contract, provided the legacy
   parsers resolve references through their own tables (proved for the protobuf path) *)
Theorem parse_returns_valid : forall gunzip legacy data p,
  (forall d q, legacy d = Ok q -> refs_listed q) ->
  parse_data gunzip legacy data = Ok p -> contract p.
Proof. exact parse_data_contract. Qed.
Print Assumptions parse_returns_valid.

(* "a profile returned by the parser can always be written": serialization has two panic sites
   (units[i] with a short unit list, a nil sample location); postDecode's padding invariant and
   CheckValid exclude both, for every byte string *)
Theorem parsed_profile_can_be_written_partial : forall data q,
  parse_uncompressed data = Ok q -> check_valid q = true -> exists b, serialize q = Ok b.
Proof. exact parsed_serializes. Qed.
Print Assumptions parsed_profile_can_be_written_partial.

(* what the protobuf parser returns and CheckValid accepts is a valid profile in the full sense of
   the codec's specification (S_Codec.valid_b: every decoded number in its Go type's range -- decodeVarint
   yields < 2^64 --, regrouped labels sorted, every reference listed) with well-formed unit lists: the
   bridge from C02 to the round-trip theorems of C01 *)
Theorem parsed_profile_is_valid : forall data q,
  parse_uncompressed data = Ok q -> check_valid q = true -> valid_b q = true /\ units_wf_b q = true.
Proof. intros data q H C. split; [exact (parsed_valid_lemma data q H C)|exact (parsed_units_wf data q H)]. Qed.
Print Assumptions parsed_profile_is_valid.

(* "... and copied without a crash": Copy (= parse (serialize q)) of such a profile succeeds and is its
   normal form ([size_ok r]: lengths fit Go's int, see C01) *)
Theorem parsed_profile_can_be_copied : forall data q r,
  parse_uncompressed data = Ok q -> check_valid q = true -> pre_encode q = Ok r -> size_ok r ->
  copy q = Ok (normalize q).
Proof. exact parsed_copy_lemma. Qed.
Print Assumptions parsed_profile_can_be_copied.

(* the rest of that clause (Compact, every text report never crash; the legacy parsers' results) is
   explored by the harness on every accepted input; the models of those operations belong to
   C03/C04/C05/C17/C18 *)
Definition full_statement_valid_closed_under_ops : Prop :=
  forall gunzip legacy data p, parse_data gunzip legacy data = Ok p ->
    no_panic (serialize p) /\ no_panic (copy p).

Example contract_nonvacuous :
  exists data p, parse_data (fun d => Ok d) (fun _ => Err 1) data = Ok p /\ p_sample p <> [].
Proof.
  exists [10; 4; 8; 1; 16; 1; 18; 6; 10; 1; 5; 18; 1; 7; 34; 2; 8; 5; 50; 0; 50; 1; 97].
  eexists. split; [vm_compute; reflexivity|discriminate].
Qed.
