(* Lemmas about the report-level model: NodeInfo equality is decidable by ni_eqb, the report total
   is the sum of absolute values, the printers' numbers are the graph's value accessors. *)
From Coq Require Import Lia.
From PV Require Import M_Report S_Graph L_Graph.
Open Scope list_scope.
Open Scope Z_scope.

Lemma ni_eqb_spec : forall a b, ni_eqb a b = true <-> a = b.
Proof.
  intros a b. split.
  - unfold ni_eqb. intros H.
    repeat (apply andb_prop in H; destruct H as [H ?]).
    destruct a, b; simpl in *.
    repeat match goal with
           | h : String.eqb _ _ = true |- _ => apply String.eqb_eq in h
           | h : Z.eqb _ _ = true |- _ => apply Z.eqb_eq in h
           end.
    subst. reflexivity.
  - intros H. subst b. unfold ni_eqb. rewrite !String.eqb_refl, !Z.eqb_refl. reflexivity.
Qed.

(* ---------------- computeTotal ---------------- *)
Definition tot_inputs (ix : Z) (mean : bool) (ss : list sample) : list (Z * Z * bool) :=
  map (fun s => (sample_w ix s, sample_dw mean s, diff_base_sample s)) ss.

Definition sumv (f : Z * Z * bool -> bool) (ws : list (Z * Z * bool)) : Z :=
  fold_right (fun x acc => if f x then zabs_wrap (fst (fst x)) + acc else acc) 0 ws.
Definition sumd (f : Z * Z * bool -> bool) (ws : list (Z * Z * bool)) : Z :=
  fold_right (fun x acc => if f x then snd (fst x) + acc else acc) 0 ws.

Definition tot_step (ix : Z) (mean : bool) (acc : Z * Z * Z * Z) (s : sample) : Z * Z * Z * Z :=
  let '(div, total, ddiv, dtotal) := acc in
  let v := sample_w ix s in
  let d := sample_dw mean s in
  let v := zabs_wrap v in
  if diff_base_sample s
  then (wadd div d, wadd total v, wadd ddiv d, wadd dtotal v)
  else (wadd div d, wadd total v, ddiv, dtotal).

Lemma tot_fold : forall ix mean ss cd ct cdd cdt,
  fold_left (tot_step ix mean) ss (wrap_i64 cd, wrap_i64 ct, wrap_i64 cdd, wrap_i64 cdt) =
  (wrap_i64 (cd + sumd (fun _ => true) (tot_inputs ix mean ss)),
   wrap_i64 (ct + sumv (fun _ => true) (tot_inputs ix mean ss)),
   wrap_i64 (cdd + sumd snd (tot_inputs ix mean ss)),
   wrap_i64 (cdt + sumv snd (tot_inputs ix mean ss))).
Proof.
  intros ix mean ss. unfold sumd, sumv. induction ss as [|s r IH]; intros cd ct cdd cdt.
  - simpl. rewrite !Z.add_0_r. reflexivity.
  - cbn [fold_left tot_inputs map fold_right fst snd].
    unfold tot_step at 2.
    destruct (diff_base_sample s) eqn:Eb; cbn iota beta; rewrite !wadd_wrap; unfold tot_inputs in IH; rewrite IH;
      repeat (match goal with |- (_, _) = (_, _) => apply (f_equal2 pair) end); f_equal; lia.
Qed.

Theorem total_eq_spec_lemma : forall ix mean ss,
  compute_total ix mean ss = total_spec (tot_inputs ix mean ss).
Proof.
  intros ix mean ss. unfold compute_total.
  match goal with
  | |- context [fold_left ?f ss ?i] =>
      change (fold_left f ss i) with (fold_left (tot_step ix mean) ss (wrap_i64 0, wrap_i64 0, wrap_i64 0, wrap_i64 0))
  end.
  rewrite tot_fold. reflexivity.
Qed.

(* ---------------- printers read the graph's value accessors ---------------- *)
Lemma text_items_project_lemma : forall g,
  map (fun it => (ti_name it, ti_flat it, ti_cum it)) (text_items g) =
  map (fun e => (printable_name (fst e), flat_value (snd e), cum_value (snd e))) (g_nodes g).
Proof. intros g. unfold text_items. rewrite map_map. reflexivity. Qed.

(* ---------------- C05 at the report level ---------------- *)
Lemma graph_total_is_sum_flat : forall g : igraph,
  graph_total g = fold_left (fun a it => wadd a (ti_flat it)) (text_items g) 0.
Proof.
  intros g. unfold graph_total, text_items.
  generalize 0. induction (g_nodes g) as [|e r IH]; intros z; simpl; [reflexivity|]. apply IH.
Qed.

Lemma insert_by_in : forall (A : Type) (less : A -> A -> bool) x y l,
  In y (insert_by less x l) <-> y = x \/ In y l.
Proof.
  intros A less x y l. induction l as [|z r IH]; simpl.
  - split; intros [H|H]; auto.
  - destruct (less z x); simpl.
    + rewrite IH. split; intros H; repeat destruct H as [H|H]; auto.
    + split; intros H; repeat destruct H as [H|H]; auto.
Qed.

Lemma sort_by_in : forall (A : Type) (less : A -> A -> bool) y l, In y (sort_by less l) <-> In y l.
Proof.
  intros A less y l. unfold sort_by. induction l as [|x r IH]; simpl; [tauto|].
  rewrite insert_by_in, IH. split; intros [H|H]; auto.
Qed.

(* every entry a text (top / tree) report shows, for any nodecount, node cutoff, edge cutoff and sort
   order, is an entry of the untrimmed graph of the same report, with the same numbers *)
Theorem text_report_nodes_unchanged_lemma : forall o pr n v,
  In (n, v) (g_nodes (t_g (new_trimmed_text o pr))) -> In (n, v) (g_nodes (report_graph o (rebuild o pr) None)).
Proof.
  intros o pr n v. unfold new_trimmed_text. cbv zeta. set (pr1 := rebuild o pr).
  assert (H1 : forall x, In x (g_nodes (fst (trim_pass1 o pr1))) -> In x (g_nodes (report_graph o pr1 None))).
  { intros [k w]. unfold trim_pass1. destruct (0 <? o_nodecutoff o); [|auto].
    match goal with |- context [if ?c then _ else _] => destruct c end; [|auto].
    simpl fst. unfold report_graph. apply kept_nodes_unchanged_graph_lemma. exact ni_eqb_spec. }
  destruct (trim_pass1 o pr1) as [g1 dropped]. simpl fst in H1.
  cbn [t_g]. unfold trim_edges. cbn [g_nodes].
  destruct (0 <? o_nodecount o).
  - match goal with |- context [if ?c then _ else _] => destruct c end.
    + unfold sort_nodes. cbn [g_nodes]. intros H. apply sort_by_in in H.
      unfold report_graph in *. eapply kept_nodes_unchanged_graph_lemma; [exact ni_eqb_spec|exact H].
    + cbn [g_nodes]. unfold sort_nodes. cbn [g_nodes]. intros H. apply sort_by_in in H. apply H1. exact H.
  - unfold sort_nodes. cbn [g_nodes]. intros H. apply sort_by_in in H. apply H1. exact H.
Qed.

(* ---------------- glue: options as the driver hands them to the report ---------------- *)
Lemma explicit_nodecount_kept_lemma : forall format n,
  String.eqb format "callgrind" = false -> n <> -1 -> override_nodecount format false n = n.
Proof.
  intros format n Hf Hn. unfold override_nodecount. rewrite Hf. simpl.
  destruct (n =? -1) eqn:E; [apply Z.eqb_eq in E; contradiction|reflexivity].
Qed.

Lemma notrim_switches_off_lemma : forall format n c,
  override_nodecount format true n = 0 /\ override_cutoff format true c = 0.
Proof. intros. unfold override_nodecount, override_cutoff. simpl. split; reflexivity. Qed.

Lemma legacy_keeps_explicit_lemma : forall flags si, si <> ""%string -> legacy_si flags si = si.
Proof.
  intros flags si H. unfold legacy_si.
  assert (E : String.eqb si "" = false) by (apply String.eqb_neq; exact H).
  generalize legacy_table. intros l. induction l as [|fe r IH]; simpl; [reflexivity|].
  rewrite E, andb_false_r. exact IH.
Qed.

(* a report that asks for no limit at all shows every node of the untrimmed graph *)
Lemma untrimmed_request_lemma : forall o pr,
  o_nodecount o = 0 -> o_nodecutoff o = 0 ->
  g_nodes (t_g (new_trimmed_text o pr)) =
  sort_by (if o_cumsort o then cum_name_less else flat_name_less) (g_nodes (report_graph o (rebuild o pr) None)).
Proof.
  intros o pr H1 H2. unfold new_trimmed_text, trim_pass1. rewrite H1, H2. reflexivity.
Qed.

(* ---------------- label pseudo frames (formatLabelValues) ---------------- *)
(* the values of a key are ALL its string values followed by ALL its numeric values (formatted),
   whenever the units are absent or there is one per value: nothing is dropped because the key
   also carries values of the other kind *)
Lemma label_values_complete_lemma : forall (f : Z -> string -> string) s k,
  let vals := or_nil (assoc_s k (s_label s)) in
  let nums := or_nil (assoc_s k (s_numlabel s)) in
  let units := or_nil (assoc_s k (s_numunit s)) in
  (units = [] \/ List.length units = List.length nums) ->
  List.length (format_label_values f s k) = (List.length vals + List.length nums)%nat /\
  firstn (List.length vals) (format_label_values f s k) = vals.
Proof.
  intros f s k vals nums units H. unfold format_label_values. fold vals nums units.
  assert (E : (negb (Nat.eqb (List.length nums) (List.length units)) && negb (Nat.eqb (List.length units) 0))%bool = false).
  { destruct H as [H|H].
    - rewrite H. simpl. apply andb_false_r.
    - rewrite H, Nat.eqb_refl. reflexivity. }
  rewrite E. split.
  - rewrite app_length. f_equal. destruct units as [|u us]; [apply map_length|].
    rewrite map_length, combine_length. destruct H as [H|H]; [discriminate|]. rewrite H. apply Nat.min_id.
  - rewrite firstn_app, Nat.sub_diag, firstn_all. simpl. apply app_nil_r.
Qed.
