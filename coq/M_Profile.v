(* Shared data model of profile.Profile (profile/profile.go:34-170) and its case-format codec.
   Pointers of a VALID profile are represented by ids (0 = nil); Go maps are association lists
   in the harness's canonical (sorted-by-key) dump order.  No proofs here. *)
From PV Require Export Base.Term Base.Str.
Open Scope Z_scope.

Record valuetype := { vt_type : string; vt_unit : string }.

Record sample := {
  s_loc : list Z;                              (* location ids, leaf first (Go order); -1 = nil pointer *)
  s_val : list Z;                              (* int64 values *)
  s_label : list (string * list string);       (* Label, sorted by key *)
  s_numlabel : list (string * list Z);         (* NumLabel, sorted by key *)
  s_numunit : list (string * list string)      (* NumUnit, sorted by key *)
}.

Record mapping := {
  m_id : Z; m_start : Z; m_limit : Z; m_offset : Z; m_file : string; m_buildid : string;
  m_hasfn : bool; m_hasfile : bool; m_hasline : bool; m_hasinline : bool
}.

Record function := { f_id : Z; f_name : string; f_sysname : string; f_file : string; f_startline : Z }.

Record line := { ln_fn : Z (* function id, 0 = nil *); ln_line : Z; ln_col : Z }.

Record location := {
  l_id : Z; l_mapping : Z (* mapping id, 0 = nil *); l_addr : Z; l_lines : list line; l_folded : bool
}.

Record profile := {
  p_sampletype : list valuetype;
  p_defaultsampletype : string;
  p_sample : list sample;
  p_mapping : list mapping;
  p_location : list location;
  p_function : list function;
  p_comments : list string;
  p_docurl : string;
  p_dropframes : string;
  p_keepframes : string;
  p_timenanos : Z;
  p_durationnanos : Z;
  p_periodtype : option valuetype;
  p_period : Z
}.

Definition empty_profile : profile :=
  {| p_sampletype := []; p_defaultsampletype := ""; p_sample := []; p_mapping := []; p_location := [];
     p_function := []; p_comments := []; p_docurl := ""; p_dropframes := ""; p_keepframes := "";
     p_timenanos := 0; p_durationnanos := 0; p_periodtype := None; p_period := 0 |}.

(* lookups by id: first match (ids are unique in a valid profile) *)
Definition find_location (p : profile) (id : Z) : option location :=
  find (fun l => l_id l =? id) (p_location p).
Definition find_function (p : profile) (id : Z) : option function :=
  find (fun f => f_id f =? id) (p_function p).
Definition find_mapping (p : profile) (id : Z) : option mapping :=
  find (fun m => m_id m =? id) (p_mapping p).

(* ---------------- case-format codec (must match harness/cmd/profterm.go) ---------------- *)
Definition vt_of (t : term) : valuetype := {| vt_type := gs (gn t 0); vt_unit := gs (gn t 1) |}.
Definition of_vt (v : valuetype) : term := TL [TS (vt_type v); TS (vt_unit v)].

Definition kss_of (t : term) : list (string * list string) := map (fun e => (gs (gn e 0), gss (gn e 1))) (gl t).
Definition kzs_of (t : term) : list (string * list Z) := map (fun e => (gs (gn e 0), gzs (gn e 1))) (gl t).
Definition of_kss (l : list (string * list string)) : term := TL (map (fun e => TL [TS (fst e); of_ss (snd e)]) l).
Definition of_kzs (l : list (string * list Z)) : term := TL (map (fun e => TL [TS (fst e); of_zs (snd e)]) l).

Definition sample_of (t : term) : sample :=
  {| s_loc := gzs (gn t 0); s_val := gzs (gn t 1); s_label := kss_of (gn t 2);
     s_numlabel := kzs_of (gn t 3); s_numunit := kss_of (gn t 4) |}.
Definition of_sample (s : sample) : term :=
  TL [of_zs (s_loc s); of_zs (s_val s); of_kss (s_label s); of_kzs (s_numlabel s); of_kss (s_numunit s)].

Definition mapping_of (t : term) : mapping :=
  {| m_id := gz (gn t 0); m_start := gz (gn t 1); m_limit := gz (gn t 2); m_offset := gz (gn t 3);
     m_file := gs (gn t 4); m_buildid := gs (gn t 5);
     m_hasfn := gb (gn t 6); m_hasfile := gb (gn t 7); m_hasline := gb (gn t 8); m_hasinline := gb (gn t 9) |}.
Definition of_mapping (m : mapping) : term :=
  TL [TZ (m_id m); TZ (m_start m); TZ (m_limit m); TZ (m_offset m); TS (m_file m); TS (m_buildid m);
      of_bool (m_hasfn m); of_bool (m_hasfile m); of_bool (m_hasline m); of_bool (m_hasinline m)].

Definition function_of (t : term) : function :=
  {| f_id := gz (gn t 0); f_name := gs (gn t 1); f_sysname := gs (gn t 2); f_file := gs (gn t 3);
     f_startline := gz (gn t 4) |}.
Definition of_function (f : function) : term :=
  TL [TZ (f_id f); TS (f_name f); TS (f_sysname f); TS (f_file f); TZ (f_startline f)].

Definition line_of (t : term) : line := {| ln_fn := gz (gn t 0); ln_line := gz (gn t 1); ln_col := gz (gn t 2) |}.
Definition of_line (l : line) : term := TL [TZ (ln_fn l); TZ (ln_line l); TZ (ln_col l)].

Definition location_of (t : term) : location :=
  {| l_id := gz (gn t 0); l_mapping := gz (gn t 1); l_addr := gz (gn t 2);
     l_lines := map line_of (gl (gn t 3)); l_folded := gb (gn t 4) |}.
Definition of_location (l : location) : term :=
  TL [TZ (l_id l); TZ (l_mapping l); TZ (l_addr l); TL (map of_line (l_lines l)); of_bool (l_folded l)].

Definition profile_of (t : term) : profile :=
  {| p_sampletype := map vt_of (gl (gn t 0));
     p_defaultsampletype := gs (gn t 1);
     p_sample := map sample_of (gl (gn t 2));
     p_mapping := map mapping_of (gl (gn t 3));
     p_location := map location_of (gl (gn t 4));
     p_function := map function_of (gl (gn t 5));
     p_comments := gss (gn t 6);
     p_docurl := gs (gn t 7);
     p_dropframes := gs (gn t 8);
     p_keepframes := gs (gn t 9);
     p_timenanos := gz (gn t 10);
     p_durationnanos := gz (gn t 11);
     p_periodtype := match gl (gn t 12) with [v] => Some (vt_of v) | _ => None end;
     p_period := gz (gn t 13) |}.

Definition of_profile (p : profile) : term :=
  TL [TL (map of_vt (p_sampletype p)); TS (p_defaultsampletype p); TL (map of_sample (p_sample p));
      TL (map of_mapping (p_mapping p)); TL (map of_location (p_location p)); TL (map of_function (p_function p));
      of_ss (p_comments p); TS (p_docurl p); TS (p_dropframes p); TS (p_keepframes p);
      TZ (p_timenanos p); TZ (p_durationnanos p); of_opt of_vt (p_periodtype p); TZ (p_period p)].

(* 64-bit wrap-around, written explicitly wherever the Go code adds/multiplies int64/uint64 *)
Definition two64 : Z := 18446744073709551616.
Definition two63 : Z := 9223372036854775808.
Definition wrap_u64 (z : Z) : Z := z mod two64.
Definition wrap_i64 (z : Z) : Z := (z + two63) mod two64 - two63.
Definition in_i64 (z : Z) : bool := (- two63 <=? z) && (z <? two63).
Definition in_u64 (z : Z) : bool := (0 <=? z) && (z <? two64).
