(* What the client receives: the script text as the browser's HTML tokenizer delimits it.
   [script_data_end s] is where the script element whose content starts at [s] ends, following the
   HTML standard's script-data states (13.2.5.4 and 13.2.5.15-31, simplified to what matters for
   delimiting):
     state 0  script data                "</script" + delimiter ends the element; "<!--" -> state 1
     state 1  script data escaped        "</script" + delimiter ends the element;
                                         "<script" + delimiter -> state 2;  "-->" -> state 0
     state 2  script data double escaped "</script" + delimiter -> state 1 (does NOT end the element);
                                         "-->" -> state 0
   Tag names are matched ASCII case-insensitively; a delimiter is TAB, LF, FF, SPACE, "/" or ">".
   None = the element is never closed: the parser reaches EOF inside it and the script does not run.
   This is the specification of the environment, written independently of pprof. *)
From PV Require Import Base.Term Base.Str.
Open Scope string_scope.
Open Scope Z_scope.

Definition is_lt (a : ascii) : bool := (N_of_ascii a =? 60)%N.

Definition is_delim (a : ascii) : bool :=
  let n := N_of_ascii a in ((n =? 9) || (n =? 10) || (n =? 12) || (n =? 32) || (n =? 47) || (n =? 62))%N.

(* [s] starts with [name] (given in lower case) in any letter case, followed by a delimiter *)
Fixpoint tag_at (name s : string) : bool :=
  match name, s with
  | EmptyString, String d _ => is_delim d
  | EmptyString, EmptyString => false
  | String a n', String b s' => Ascii.eqb a (lower_ascii b) && tag_at n' s'
  | String _ _, EmptyString => false
  end.

Fixpoint sd_scan (st : nat) (s : string) (off : nat) : option nat :=
  match s with
  | EmptyString => None
  | String c r =>
      if is_lt c then
        match st with
        | O => if tag_at "/script" r then Some off
               else if has_prefix "!--" r then sd_scan 1 r (S off) else sd_scan 0 r (S off)
        | S O => if tag_at "/script" r then Some off
                 else if tag_at "script" r then sd_scan 2 r (S off) else sd_scan 1 r (S off)
        | _ => if tag_at "/script" r then sd_scan 1 r (S off) else sd_scan 2 r (S off)
        end
      else if (match st with O => false | _ => true end) && Ascii.eqb c "-" && has_prefix "->" r
      then sd_scan 0 r (S off)
      else sd_scan st r (S off)
  end.

Definition script_data_end (s : string) : option nat := sd_scan 0 s 0.

(* the same for a content that begins with [skipped] bytes not containing "<" (not shipped by the
   harness), followed by [rest]; justified by L_Handoff.script_end_skip_lemma *)
Definition script_data_end_from (skipped : nat) (rest : string) : option nat := sd_scan 0 rest skipped.

(* a text without "<" *)
Fixpoint no_lt (s : string) : bool :=
  match s with
  | EmptyString => true
  | String a r => negb (is_lt a) && no_lt r
  end.

(* the client gets the whole call: the element is closed, and not before offset [call_end] *)
Definition script_delivers_from (skipped : nat) (rest : string) (call_end : nat) : bool :=
  match script_data_end_from skipped rest with
  | Some e => Nat.leb call_end e
  | None => false
  end.

Definition script_delivers (tail : string) (call_end : nat) : bool :=
  match script_data_end tail with
  | Some e => Nat.leb call_end e
  | None => false
  end.
