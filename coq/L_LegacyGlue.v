(* Lemmas about the glue model (M_LegacyGlue): column selection by name and the interactive shortcuts. *)
From Coq Require Import Lia.
From PV Require Import M_LegacyGlue.
Open Scope Z_scope.

Lemma find_type_spec (p : string -> bool) : forall types k i,
  find_type p types k = Some i ->
  k <= i /\ (exists t, nth_error types (Z.to_nat (i - k)) = Some t /\ p t = true) /\
  (forall j t, (j < Z.to_nat (i - k))%nat -> nth_error types j = Some t -> p t = false).
Proof.
  induction types as [|t r IH]; intros k i H; cbn [find_type] in H; [discriminate|].
  destruct (p t) eqn:E.
  - inversion H; subst. replace (i - i) with 0 by lia. split; [lia|]. split.
    + exists t. split; [reflexivity|exact E].
    + intros j t' Hj. cbn in Hj. lia.
  - destruct (IH (k + 1) i H) as [Hle [[t' [Hn Hp]] Hbefore]].
    assert (Hk : Z.to_nat (i - k) = S (Z.to_nat (i - (k + 1)))) by lia.
    split; [lia|]. split.
    + exists t'. rewrite Hk. cbn [nth_error]. split; assumption.
    + intros j t'' Hj Hnth. rewrite Hk in Hj. destruct j as [|j]; cbn [nth_error] in Hnth.
      * inversion Hnth; subst. exact E.
      * apply (Hbefore j t''); [lia|exact Hnth].
Qed.

(* a non-empty, non-numeric sample_index selects the FIRST column whose type is the name itself
   or the name without its "inuse_" prefix -- never a column that merely ends with it *)
Lemma sample_index_named_lemma : forall types dflt si i,
  nonempty si = true -> atoi si = None -> sample_index_by_name types dflt si = Some i ->
  0 <= i /\
  (exists t, nth_error types (Z.to_nat i) = Some t /\ (t = si \/ t = trim_prefix "inuse_" si)) /\
  (forall j t, (j < Z.to_nat i)%nat -> nth_error types j = Some t -> t <> si /\ t <> trim_prefix "inuse_" si).
Proof.
  intros types dflt si i Hn Ha H. unfold sample_index_by_name in H. rewrite Hn, Ha in H. cbn [negb] in H.
  destruct (find_type_spec _ _ _ _ H) as [Hle [[t [Hnth Hp]] Hbefore]].
  replace (i - 0) with i in * by lia. split; [exact Hle|]. split.
  - exists t. split; [exact Hnth|]. apply Bool.orb_true_iff in Hp. destruct Hp as [Hp|Hp]; apply String.eqb_eq in Hp; auto.
  - intros j t' Hj Hn'. specialize (Hbefore j t' Hj Hn'). apply Bool.orb_false_iff in Hbefore. destruct Hbefore as [H1 H2].
    apply String.eqb_neq in H1. apply String.eqb_neq in H2. split; assumption.
Qed.

Lemma in_existsb_eqb t types : In t types -> existsb (String.eqb t) types = true.
Proof. intros H. apply existsb_exists. exists t. split; [exact H|apply String.eqb_refl]. Qed.

Lemma set_si_mean types dflt v st : g_mean (set_si types dflt v st) = g_mean st.
Proof. unfold set_si. destruct (sample_index_by_name types dflt v); reflexivity. Qed.

(* total_<type> leaves mean mode whatever came before; mean_<type> enters it; the plain <type>
   shortcut and sample_index= assignments leave it as it was *)
Lemma shortcuts_mean_lemma : forall types dflt st t, In t types ->
  g_mean (int_step types dflt st ("total", t)%string) = false /\
  g_mean (int_step types dflt st ("meanof", t)%string) = true /\
  g_mean (int_step types dflt st ("type", t)%string) = g_mean st /\
  g_mean (int_step types dflt st ("si", t)%string) = g_mean st.
Proof.
  intros types dflt st t Hin. unfold int_step. cbn. rewrite (in_existsb_eqb t types Hin).
  rewrite !set_si_mean. cbn. repeat split; reflexivity.
Qed.

(* a report in total mode shows the selected column as it is; in mean mode divided by column 0 *)
Lemma shown_value_lemma : forall idx vals,
  shown_value idx false vals = nth (Z.to_nat idx) vals 0 /\
  (nth 0 vals 0 <> 0 -> shown_value idx true vals = Z.quot (nth (Z.to_nat idx) vals 0) (nth 0 vals 0)).
Proof.
  intros idx vals. unfold shown_value. split; [reflexivity|]. intros H.
  replace (nth 0 vals 0 =? 0) with false by (symmetry; apply Z.eqb_neq; exact H). reflexivity.
Qed.

(* ---- Prune on Java legacy stacks: a stack made only of drop-table frames keeps every frame ---- *)
Lemma prune_root_first_all_droppable (droppable : string -> bool) : forall rl acc,
  forallb droppable rl = true -> prune_root_first droppable rl false acc = (rev acc ++ rl)%list.
Proof.
  induction rl as [|x r IH]; intros acc H; cbn [prune_root_first].
  - rewrite app_nil_r. reflexivity.
  - cbn [forallb] in H. apply andb_prop in H. destruct H as [Hx Hr]. rewrite Hx.
    rewrite (IH (x :: acc) Hr). cbn [rev]. rewrite <- app_assoc. reflexivity.
Qed.

Lemma prune_stack_all_droppable_lemma : forall droppable names,
  forallb droppable names = true -> prune_stack droppable names = names.
Proof.
  intros droppable names H. unfold prune_stack.
  assert (Hr : forallb droppable (rev names) = true).
  { apply forallb_forall. intros x Hx. apply in_rev in Hx. rewrite forallb_forall in H. exact (H x Hx). }
  rewrite (prune_root_first_all_droppable droppable (rev names) [] Hr). cbn [rev app]. apply rev_involutive.
Qed.

(* frames are only ever removed from the leaf side: what is shown is a root-side part of the stack *)
Lemma prune_root_first_prefix (droppable : string -> bool) : forall rl found acc,
  exists tail, (rev acc ++ rl)%list = (prune_root_first droppable rl found acc ++ tail)%list.
Proof.
  induction rl as [|x r IH]; intros found acc; cbn [prune_root_first].
  - exists []. reflexivity.
  - destruct (droppable x); [destruct found|].
    + exists (x :: r). reflexivity.
    + destruct (IH false (x :: acc)) as [t Ht]. exists t. rewrite <- Ht. cbn [rev]. rewrite <- app_assoc. reflexivity.
    + destruct (IH true (x :: acc)) as [t Ht]. exists t. rewrite <- Ht. cbn [rev]. rewrite <- app_assoc. reflexivity.
Qed.
