(* C04 -- placeholder until the lemmas are in. *)
From PV Require Import M_Graph.
Theorem c04_placeholder : wadd 0 0 = 0%Z.
Proof. reflexivity. Qed.
Print Assumptions c04_placeholder.
