(* C04 -- Report flat, cum and edge values equal their definition over samples.
   Property theorems only: each is closed by [exact] of a lemma of L_Graph / L_Report and followed by
   Print Assumptions.  K is the entry key (graph.NodeInfo for graphs), keqb its decidable equality;
   [build_graph K keqb None ss] is the model of newGraph (graph.go:326) before nodes with zero
   numbers are hidden, [new_graph] the graph that is reported; the specification sums are in S_Graph. *)
From PV Require Import M_Graph S_Graph M_Report L_Graph L_Report L_Tree L_Bounds L_Conserve.
Open Scope Z_scope.

Definition key_eq (K : Type) (keqb : K -> K -> bool) : Prop := forall a b, keqb a b = true <-> a = b.

(* flat = sum over the samples whose leaf frame maps to the entry (div: the mean divisor's sum) *)
Theorem graph_flat_eq_spec : forall K keqb, key_eq K keqb -> forall (div : bool) ss n,
  (if div then nv_flatdiv else nv_flat) (nget K keqb n (g_nodes (build_graph K keqb None ss))) =
  wrap_i64 (flat_spec K keqb div None ss n).
Proof. exact (fun K keqb H div ss n => build_flat K keqb H div None ss n). Qed.
Print Assumptions graph_flat_eq_spec.

(* cum = sum over the samples in which the entry occurs anywhere, once per sample *)
Theorem graph_cum_eq_spec : forall K keqb, key_eq K keqb -> forall (div : bool) ss n,
  (if div then nv_cumdiv else nv_cum) (nget K keqb n (g_nodes (build_graph K keqb None ss))) =
  wrap_i64 (cum_spec K keqb div None ss n).
Proof. exact (fun K keqb H div ss n => build_cum K keqb H div None ss n). Qed.
Print Assumptions graph_cum_eq_spec.

(* edge weight = sum over the samples in which callee directly follows caller (a <> b), once per sample *)
Theorem graph_edge_eq_spec : forall K keqb, key_eq K keqb -> forall (div : bool) ss a b,
  (if div then @snd Z Z else @fst Z Z) (ew K keqb a b (g_edges (build_graph K keqb None ss))) =
  wrap_i64 (edge_spec K keqb div None ss a b).
Proof. exact (fun K keqb H div ss a b => build_edge K keqb H div None ss a b). Qed.
Print Assumptions graph_edge_eq_spec.

(* the graph that is reported: every entry shown has exactly the definition's numbers and is not
   one the report hides; every edge shown has the definition's weight and joins shown entries *)
Theorem reported_nodes_eq_spec : forall K keqb, key_eq K keqb -> forall kept dn ss n v,
  In (n, v) (g_nodes (new_graph K keqb kept dn ss)) ->
  v = spec_nval K keqb kept ss n /\ node_dropped dn v = false.
Proof. exact graph_nodes_eq_spec_lemma. Qed.
Print Assumptions reported_nodes_eq_spec.

Theorem reported_edges_eq_spec : forall K keqb, key_eq K keqb -> forall kept dn ss e,
  In e (g_edges (new_graph K keqb kept dn ss)) ->
  e_w e = wrap_i64 (edge_spec K keqb false kept ss (e_src e) (e_dst e)) /\
  e_wdiv e = wrap_i64 (edge_spec K keqb true kept ss (e_src e) (e_dst e)).
Proof. exact graph_edges_eq_spec_lemma. Qed.
Print Assumptions reported_edges_eq_spec.


(* call trees (call_tree with dot / callgrind): a node is a path from the root; its cum sums the
   samples whose stack starts with the path, its flat those whose stack IS the path, and the edge
   into a node sums the samples that pass through it (p, q both prefixes, q one frame longer) *)
Theorem tree_cum_eq_spec : forall K keqb, key_eq K keqb -> forall (div : bool) ss path, path <> [] ->
  (if div then nv_cumdiv else nv_cum) (nget (list K) (list_eqb K keqb) path (g_nodes (build_tree K keqb ss))) =
  wrap_i64 (tree_cum_spec K keqb div ss path).
Proof. exact tree_cum_eq_spec_lemma. Qed.
Print Assumptions tree_cum_eq_spec.

Theorem tree_flat_eq_spec : forall K keqb, key_eq K keqb -> forall (div : bool) ss path, path <> [] ->
  (if div then nv_flatdiv else nv_flat) (nget (list K) (list_eqb K keqb) path (g_nodes (build_tree K keqb ss))) =
  wrap_i64 (tree_flat_spec K keqb div ss path).
Proof. exact tree_flat_eq_spec_lemma. Qed.
Print Assumptions tree_flat_eq_spec.

Theorem tree_edge_eq_spec : forall K keqb, key_eq K keqb -> forall (div : bool) ss p q,
  (if div then @snd Z Z else @fst Z Z) (ew (list K) (list_eqb K keqb) p q (g_edges (build_tree K keqb ss))) =
  wrap_i64 (tree_edge_spec K keqb div ss p q).
Proof. exact tree_edge_eq_spec_lemma. Qed.
Print Assumptions tree_edge_eq_spec.

(* the instance the report uses: NodeInfo with field-wise equality *)
Theorem node_info_key_eq : key_eq node_info ni_eqb.
Proof. exact ni_eqb_spec. Qed.
Print Assumptions node_info_key_eq.

Theorem report_graph_meets_spec : forall o pr n v,
  In (n, v) (g_nodes (report_graph o pr None)) ->
  v = spec_nval node_info ni_eqb None (report_samples o pr) n.
Proof.
  exact (fun o pr n v H => proj1 (graph_nodes_eq_spec_lemma node_info ni_eqb ni_eqb_spec None (o_drop_negative o)
                                    (report_samples o pr) n v H)).
Qed.
Print Assumptions report_graph_meets_spec.

(* total = sum of absolute sample values; only the base samples when a diff base with positive
   magnitude is present; with mean, divided by the matching sum of sample counts *)
Theorem total_eq_spec : forall ix mean ss,
  compute_total ix mean ss = total_spec (tot_inputs ix mean ss).
Proof. exact total_eq_spec_lemma. Qed.
Print Assumptions total_eq_spec.

(* the text printer shows FlatValue / CumValue of the graph's nodes, in node order *)
Theorem text_items_project_graph : forall g,
  map (fun it => (ti_name it, ti_flat it, ti_cum it)) (text_items g) =
  map (fun e => (printable_name (fst e), flat_value (snd e), cum_value (snd e))) (g_nodes g).
Proof. exact text_items_project_lemma. Qed.
Print Assumptions text_items_project_graph.

(* the hypotheses are satisfiable / the sums are not vacuous: a recursive stack a -> b -> a -> b
   counts a and b once for cum, the edge a -> b once, and flat goes to the leaf b *)
Example recursion_counted_once :
  let s := mk_gsample [(1, false); (2, false); (1, false); (2, false)] 5 0 in
  let g := build_graph Z Z.eqb None [s] in
  nv_cum (nget Z Z.eqb 1 (g_nodes g)) = 5 /\ nv_cum (nget Z Z.eqb 2 (g_nodes g)) = 5 /\
  nv_flat (nget Z Z.eqb 2 (g_nodes g)) = 5 /\ nv_flat (nget Z Z.eqb 1 (g_nodes g)) = 0 /\
  fst (ew Z Z.eqb 1 2 (g_edges g)) = 5 /\ fst (ew Z Z.eqb 2 1 (g_edges g)) = 5.
Proof. vm_compute. repeat split; reflexivity. Qed.

(* ---- glue (end-to-end layer): what the driver does to the options before the report sees them ---- *)
(* a node count that was given -- 0 included -- reaches the report unchanged, for every command but
   callgrind: "nodecount=0" is the request for an untrimmed report *)
Theorem explicit_nodecount_kept : forall format n,
  String.eqb format "callgrind" = false -> n <> -1 -> override_nodecount format false n = n.
Proof. exact explicit_nodecount_kept_lemma. Qed.
Print Assumptions explicit_nodecount_kept.

(* trim=false switches the node count and both cutoffs off, whatever was given *)
Theorem notrim_switches_limits_off : forall format n c,
  override_nodecount format true n = 0 /\ override_cutoff format true c = 0.
Proof. exact notrim_switches_off_lemma. Qed.
Print Assumptions notrim_switches_limits_off.

(* the legacy flags (-inuse_space, -mean_delay ...) never replace an explicit -sample_index *)
Theorem legacy_keeps_explicit_index : forall flags si, si <> ""%string -> legacy_si flags si = si.
Proof. exact legacy_keeps_explicit_lemma. Qed.
Print Assumptions legacy_keeps_explicit_index.

(* label pseudo frames: the frame of a key is made of ALL its string values followed by ALL its
   numeric values, whenever the units are absent or one per value -- a key carrying values of both
   kinds on one sample loses neither *)
Theorem label_values_complete : forall (f : Z -> string -> string) s k,
  let vals := or_nil (assoc_s k (s_label s)) in
  let nums := or_nil (assoc_s k (s_numlabel s)) in
  let units := or_nil (assoc_s k (s_numunit s)) in
  (units = [] \/ List.length units = List.length nums) ->
  List.length (format_label_values f s k) = (List.length vals + List.length nums)%nat /\
  firstn (List.length vals) (format_label_values f s k) = vals.
Proof. exact label_values_complete_lemma. Qed.
Print Assumptions label_values_complete.

(* the defaults the code has now: no limit for top/text, 80 for graph-style commands; the web /top
   page asks for 500; an interactive command's own count wins over the session's for that command *)
Example nodecount_defaults :
  override_nodecount "text" false (-1) = 0 /\ override_nodecount "tree" false (-1) = 80 /\
  override_nodecount "dot" false (-1) = 80 /\ override_nodecount "tree" false 0 = 0 /\
  entry_nodecount "web" "text" false 0 7 = 500 /\ entry_nodecount "session" "tree" true 3 7 = 3 /\
  entry_nodecount "session" "tree" false 3 7 = 7 /\ entry_nodecount "session" "text" false 0 (-1) = 10 /\
  entry_nodecount "cli" "text" false 0 (-1) = -1.
Proof. vm_compute. repeat split; reflexivity. Qed.

(* ---- order relations between the definition sums (what "flat <= cum" and "an edge is part of
   both its ends" mean to a reader), for every kept set, whenever no summed value is negative ---- *)
Theorem flat_le_cum : forall K keqb, key_eq K keqb -> forall div kept ss n,
  (forall s, In s ss -> 0 <= pick K div s) ->
  flat_spec K keqb div kept ss n <= cum_spec K keqb div kept ss n.
Proof. exact flat_le_cum_lemma. Qed.
Print Assumptions flat_le_cum.

Theorem edge_le_cum_of_both_ends : forall K keqb, key_eq K keqb -> forall div kept ss a b,
  (forall s, In s ss -> 0 <= pick K div s) ->
  edge_spec K keqb div kept ss a b <= cum_spec K keqb div kept ss a /\
  edge_spec K keqb div kept ss a b <= cum_spec K keqb div kept ss b.
Proof. exact edge_le_cum_lemma. Qed.
Print Assumptions edge_le_cum_of_both_ends.

(* the hypothesis is needed (a diff profile has negative values: flat 5 > cum 5 - 7), and it is
   satisfiable with a non-trivial graph: recursion 1 -> 2 -> 1 counts cum once, flat at the leaf *)
Example flat_le_cum_needs_nonneg :
  let ss := [mk_gsample [(1, false)] 5 0; mk_gsample [(1, false); (2, false)] (-7) 0] in
  flat_spec Z Z.eqb false None ss 1 = 5 /\ cum_spec Z Z.eqb false None ss 1 = -2.
Proof. vm_compute. split; reflexivity. Qed.
Example flat_le_cum_somewhere :
  let ss := [mk_gsample [(1, false); (2, false); (1, false)] 5 0; mk_gsample [(1, false); (2, false)] 3 0] in
  flat_spec Z Z.eqb false None ss 1 = 5 /\ cum_spec Z Z.eqb false None ss 1 = 8 /\
  edge_spec Z Z.eqb false None ss 1 2 = 8 /\ edge_spec Z Z.eqb false None ss 2 1 = 5 /\
  cum_spec Z Z.eqb false None ss 2 = 8.
Proof. vm_compute. repeat split; reflexivity. Qed.

(* ---- conservation: every sample with a non-empty stack is counted in the flat value of exactly
   one entry (its leaf), so over any duplicate-free list of entries that contains every leaf the
   flat values add up to the sum of the sample values -- the reason the flat percentages of a
   complete listing add up to 100% of the total (for non-negative values, where total = that sum) *)
Theorem flat_values_add_up : forall K keqb, key_eq K keqb -> forall div ss ks, NoDup ks ->
  (forall s x, In s ss -> leaf K s = Some x -> In x ks) ->
  sumk K (flat_spec K keqb div None ss) ks =
  sumf K (fun s => match leaf K s with Some _ => pick K div s | None => 0 end) ss.
Proof. exact flat_conservation_lemma. Qed.
Print Assumptions flat_values_add_up.

Example flat_values_add_up_somewhere :
  let ss := [mk_gsample [(1, false); (2, false); (1, false)] 5 0; mk_gsample [(1, false); (2, false)] 3 0;
             mk_gsample [] 100 0] in
  NoDup [1; 2] /\ sumk Z (flat_spec Z Z.eqb false None ss) [1; 2] = 8.
Proof. split; [repeat constructor; simpl; intuition discriminate|vm_compute; reflexivity]. Qed.

(* cum never exceeds the sum of all sample values (non-negative values): no cum percentage above 100% *)
Theorem cum_le_sum_of_values : forall K keqb div kept ss n,
  (forall s, In s ss -> 0 <= pick K div s) ->
  cum_spec K keqb div kept ss n <= sumf K (pick K div) ss.
Proof. exact cum_le_sum_lemma. Qed.
Print Assumptions cum_le_sum_of_values.

(* an entry that occurs in every sample -- the common root of a profile -- has cum equal to the sum
   of all sample values (cum 100% for non-negative values), whatever else the stacks contain *)
Theorem cum_of_common_entry_is_sum : forall K keqb div ss r,
  (forall s, In s ss -> memK K keqb r (keys K s) = true) ->
  cum_spec K keqb div None ss r = sumf K (pick K div) ss.
Proof. exact cum_of_common_entry_lemma. Qed.
Print Assumptions cum_of_common_entry_is_sum.
