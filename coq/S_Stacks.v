(* Specification of C17, written from the property text:
   "one stack per sample, rooted at a synthetic root, whose frames are the sample's frames from
    caller to callee with inlined frames expanded and flagged; stack values sum to the signed total
    of the selected sample value, each source's self value is the sum of the stacks it terminates,
    each source's place index lists every stack containing it exactly once, at its outermost
    occurrence.  All arrays are non-null and every index is in range."
   It does not follow the control flow of M_Stacks: frames are described per location
   ("outermost line first, the others inlined"), sources by what they must say about a frame,
   places by [first_index].  It shares with the model only the formatting functions
   ([full_name], [trim_path]) and the records.  The decidable checker [check_stackset] is
   evaluated on the implementation's output. *)
From PV Require Import M_Stacks.
Open Scope string_scope.
Open Scope Z_scope.

(* ------------------------------------------------------------------ frames of a sample *)
(* Location.Line lists the innermost (most inlined) function first and the outermost caller last:
   caller-to-callee order is the reverse, and every line but the outermost one is inlined. *)
Definition loc_frames (l : location) : list (line * bool) :=
  match rev (l_lines l) with
  | [] => []
  | outer :: inner => (outer, false) :: map (fun x => (x, true)) inner
  end.

(* Sample.Location lists the leaf first: caller-to-callee order is the reverse. *)
Definition sample_frames (p : profile) (s : sample) : list (line * bool) :=
  flat_map (fun id => match find_location p id with Some l => loc_frames l | None => [] end) (rev (s_loc s)).

(* what identifies a frame: function name and file, line, column, inlined flag.  A line without
   function is shown under the name "?n?", n counting such frames in the order they are met
   (samples in profile order, frames caller to callee).  Also returns the function id. *)
Definition frame_key (p : profile) (unk : Z) (f : line * bool) : skey * Z * Z :=
  let ln := fst f in
  match (if ln_fn ln =? 0 then None else find_function p (ln_fn ln)) with
  | Some fn => ({| k_fn := f_name fn; k_file := f_file fn; k_line := ln_line ln; k_col := ln_col ln; k_inl := snd f |}, f_id fn, unk)
  | None => ({| k_fn := "?" ++ string_of_Z unk ++ "?"; k_file := ""; k_line := ln_line ln; k_col := ln_col ln; k_inl := snd f |}, 0, unk + 1)
  end.

Fixpoint label_frames (p : profile) (unk : Z) (fs : list (line * bool)) : list skey * Z :=
  match fs with
  | [] => ([], unk)
  | f :: r => let '(k, _, unk') := frame_key p unk f in
              let '(ks, unk'') := label_frames p unk' r in (k :: ks, unk'')
  end.

Fixpoint label_samples (p : profile) (unk : Z) (ss : list sample) : list (list skey) :=
  match ss with
  | [] => []
  | s :: r => let '(ks, unk') := label_frames p unk (sample_frames p s) in ks :: label_samples p unk' r
  end.

(* the frames every stack must show, one list per sample, in sample order *)
Definition expected_keys (p : profile) : list (list skey) := label_samples p 1 (p_sample p).

(* ------------------------------------------------------------------ places *)
Fixpoint first_index (x : nat) (l : list nat) : option nat :=
  match l with
  | [] => None
  | y :: r => if Nat.eqb x y then Some O else option_map S (first_index x r)
  end.

(* sum of the values of the stacks whose last source is x *)
Definition self_sum (x : nat) (stacks : list stack) : Z :=
  fold_right (fun k acc => (if Nat.eqb (last (sk_sources k) O) x then sk_value k else 0) + acc) 0 stacks.

Definition sum_values (stacks : list stack) : Z := fold_right (fun k acc => sk_value k + acc) 0 stacks.

Section Spec.
  Variable o : opts.

  (* a source describes a frame *)
  Definition describes (k : skey) (s : source) : Prop :=
    so_full s = full_name o k /\ so_file s = trim_path (o_trim o) (k_file k) /\ so_inl s = k_inl k.

  Definition describes_b (k : skey) (s : source) : bool :=
    String.eqb (so_full s) (full_name o k) && String.eqb (so_file s) (trim_path (o_trim o) (k_file k))
    && Bool.eqb (so_inl s) (k_inl k).

  (* stack [k] shows sample [s] whose frames are [keys] *)
  Definition stack_matches (srcs : list source) (k : stack) (s : sample) (keys : list skey) : Prop :=
    sk_value k = value_at (o_index o) (s_val s) /\
    exists idxs, sk_sources k = O :: idxs /\
      Forall2 (fun i key => i <> O /\ exists src, nth_error srcs i = Some src /\ describes key src) idxs keys.

  (* ---------------------------------------------------------------- checker *)
  Fixpoint forall2b {A B} (f : A -> B -> bool) (a : list A) (b : list B) : bool :=
    match a, b with
    | [], [] => true
    | x :: a', y :: b' => f x y && forall2b f a' b'
    | _, _ => false
    end.

  Definition stack_matches_b (srcs : list source) (k : stack) (s : sample) (keys : list skey) : bool :=
    (sk_value k =? value_at (o_index o) (s_val s)) &&
    match sk_sources k with
    | O :: idxs =>
        forall2b (fun i key => negb (Nat.eqb i O) &&
                    match nth_error srcs i with Some src => describes_b key src | None => false end) idxs keys
    | _ => false
    end.

  (* interning: over all stacks, two frame slots hold the same source index iff they show the
     same frame key (so equal names in different files are kept apart, and one frame is one source) *)
  Definition slots (stacks : list stack) (keys : list (list skey)) : list (nat * skey) :=
    flat_map (fun sk => combine (tl (sk_sources (fst sk))) (snd sk)) (combine stacks keys).
  Definition interned_b (sl : list (nat * skey)) : bool :=
    forallb (fun a => forallb (fun b => Bool.eqb (Nat.eqb (fst a) (fst b)) (skey_eqb (snd a) (snd b))) sl) sl.

  Fixpoint nodupn (l : list nat) : bool :=
    match l with [] => true | a :: r => negb (memn a r) && nodupn r end.

  Definition places_b (stacks : list stack) (x : nat) (s : source) : bool :=
    nodupn (map fst (so_places s)) &&
    forallb (fun pl => match nth_error stacks (fst pl) with
                       | Some k => match first_index x (sk_sources k) with
                                   | Some j => Nat.eqb j (snd pl)
                                   | None => false
                                   end
                       | None => false
                       end) (so_places s) &&
    Nat.eqb (List.length (so_places s)) (List.length (filter (fun k => memn x (sk_sources k)) stacks)).

  (* Total: "the signed total of the selected sample value", as the flame graph uses it: the sum of
     the MAGNITUDES of the selected value over ALL samples (a sample with an empty stack is a stack
     too: the root alone); over the difference-base samples only when their magnitudes sum to more
     than 0; divided (truncating) by the summed mean divisor when that is not 0.  The statement is
     exact integers; Go computes in int64, so it is only demanded where nothing can overflow
     (None = not demanded). *)
  Definition sum_abs (f : sample -> Z) (ss : list sample) : Z := fold_right (fun s acc => Z.abs (f s) + acc) 0 ss.
  Definition sum_of (f : sample -> Z) (ss : list sample) : Z := fold_right (fun s acc => f s + acc) 0 ss.

  Definition total_spec (p : profile) : option Z :=
    let v := fun s => value_at (o_index o) (s_val s) in
    let d := fun s => match o_meandiv o with Some k => value_at k (s_val s) | None => 0 end in
    let all := p_sample p in
    let base := filter diff_base all in
    if (two63 <=? sum_abs v all) || (two63 <=? sum_abs d all) then None
    else
      let '(t, dv) := if 0 <? sum_abs v base then (sum_abs v base, sum_of d base) else (sum_abs v all, sum_of d all) in
      Some (if dv =? 0 then t else Z.quot t dv).

  Definition total_ok (p : profile) (total : Z) : bool :=
    match total_spec p with Some t => total =? t | None => true end.

  Definition check_stackset (p : profile) (nulls : Z) (R : stackset) : bool :=
    let stacks := ss_stacks R in
    let srcs := ss_sources R in
    let keys := expected_keys p in
    (nulls =? 0)
    && total_ok p (ss_total R)
    && Nat.eqb (List.length stacks) (List.length (p_sample p))
    && forall2b (fun k sk => stack_matches_b srcs k (fst sk) (snd sk)) stacks (combine (p_sample p) keys)
    && interned_b (slots stacks keys)
    && match srcs with r :: _ => String.eqb (so_full r) "root" | [] => false end
    && (sum_values stacks =? fold_right (fun s acc => value_at (o_index o) (s_val s) + acc) 0 (p_sample p))
    && forall2b (fun x s => (so_self s =? wrap_i64 (self_sum x stacks)) && places_b stacks x s
                            && match so_display s with [] => false | _ => true end)
                (seq 0 (List.length srcs)) srcs.
End Spec.

(* ------------------------------------------------------------------ repeated / interleaved calls
   The statement is about "the stack set served to the flame-graph view", for all valid profiles: it
   holds for EVERY stack set a report serves, not only for the first one built from a fresh profile.
   A sequence of Stacks() calls on reports that share one profile (call k made on the report with
   options [nth k os]) is correct when every returned stack set is correct for the ORIGINAL profile
   under that call's options, and the profile the reports hold is afterwards what it was before
   (so that whatever is served next is again judged against the same samples). *)
Definition check_calls (p : profile) (os : list opts) (obs : list (Z * stackset)) : bool :=
  (fix go (os : list opts) (obs : list (Z * stackset)) : bool :=
     match os, obs with
     | [], [] => true
     | o :: os', (nulls, R) :: obs' => check_stackset o p nulls R && go os' obs'
     | _, _ => false
     end) os obs.
