(* C15, link between the float model and the exact reading, for the unit families whose factors are
   whole numbers (bytes, time): the float computation  float64(value) * from.Factor / target.Factor  of
   measurement.go (model M_MeasureF) returns THE float nearest (ties to even) to the exact quotient
   (model M_Measure), whenever value*from stays below 2^53 -- whichever target the mode picks.
   Proved against Flocq: Base.F64 operations are Coq SpecFloat operations, which Flocq relates to
   its binary_float operations and those to rounding of real numbers.  Reals bring the standard
   library axioms listed under Print Assumptions (classic, sig_forall_dec, sig_not_dec,
   functional_extensionality_dep); they are used by this file only. *)
From Coq Require Import ZArith Reals SpecFloat Lia Lra Psatz.
From Flocq Require Import Core BinarySingleNaN.
From Flocq Require PrimFloat.
From PV Require Import Base.F64.
Open Scope R_scope.

Local Notation prec := 53%Z.
Local Notation emax := 1024%Z.
Local Notation Hprec := PrimFloat.Hprec.
Local Notation Hmax := PrimFloat.Hmax.
Local Existing Instance PrimFloat.Hprec.
Local Existing Instance PrimFloat.Hmax.
Local Notation fexp64 := (SpecFloat.fexp prec emax).
Local Notation rnd := (round radix2 fexp64 ZnearestE).

Definition BN (z : Z) : binary_float prec emax := binary_normalize prec emax Hprec Hmax mode_NE z 0 false.

Lemma of_Z_BN z : F64.of_Z z = B2SF (BN z).
Proof. unfold F64.of_Z, F64.of_dyadic, BN. apply PrimFloat.binary_normalize_equiv. Qed.

Lemma fmul_B (x y : binary_float prec emax) : F64.fmul (B2SF x) (B2SF y) = B2SF (Bmult mode_NE x y).
Proof.
  unfold F64.fmul.
  destruct x as [sx|sx| |sx mx ex Bx]; destruct y as [sy|sy| |sy my ey By]; try reflexivity.
  simpl. rewrite B2SF_SF2B. apply PrimFloat.binary_round_aux_equiv.
Qed.

Lemma fdiv_B (x y : binary_float prec emax) : F64.fdiv (B2SF x) (B2SF y) = B2SF (Bdiv mode_NE x y).
Proof.
  unfold F64.fdiv.
  destruct x as [sx|sx| |sx mx ex Bx]; destruct y as [sy|sy| |sy my ey By]; try reflexivity.
  simpl. rewrite B2SF_SF2B.
  set (melz := SFdiv_core_binary _ _ _ _ _ _). destruct melz as [[mz ez] lz].
  apply PrimFloat.binary_round_aux_equiv.
Qed.

Lemma valid_exp64 : Valid_exp fexp64.
Proof. apply (fexp_correct prec emax). exact Hprec. Qed.

Lemma int_generic z : (Z.abs z < 2 ^ 53)%Z -> generic_format radix2 fexp64 (IZR z).
Proof.
  intros H. replace (IZR z) with (F2R (Float radix2 z 0)) by (unfold F2R; simpl; ring).
  apply generic_format_F2R. intros Hz.
  replace (F2R (Float radix2 z 0)) with (IZR z) by (unfold F2R; simpl; ring).
  unfold cexp, SpecFloat.fexp, SpecFloat.emin.
  assert (mag radix2 (IZR z) <= 53)%Z by (apply mag_le_Zpower; [exact Hz|exact H]).
  lia.
Qed.

Lemma bpow53 : bpow radix2 53 = IZR (2 ^ 53).
Proof. rewrite <- (IZR_Zpower radix2 53) by lia. reflexivity. Qed.

Lemma small_lt_emax r : Rabs r <= bpow radix2 53 -> Rabs r < bpow radix2 emax.
Proof.
  intros H. apply Rle_lt_trans with (1 := H). apply bpow_lt. lia.
Qed.

Lemma abs_IZR_lt z k : (Z.abs z < k)%Z -> Rabs (IZR z) < IZR k.
Proof. intros H. rewrite <- abs_IZR. apply IZR_lt. exact H. Qed.

Lemma BN_exact z : (Z.abs z < 2 ^ 53)%Z -> B2R (BN z) = IZR z /\ BinarySingleNaN.is_finite (BN z) = true.
Proof.
  intros H. unfold BN.
  pose proof (binary_normalize_correct prec emax Hprec Hmax mode_NE z 0 false) as C.
  cbv zeta in C.
  replace (F2R (Float radix2 z 0)) with (IZR z) in C by (unfold F2R; simpl; ring).
  change (round_mode mode_NE) with ZnearestE in C.
  rewrite (round_generic radix2 fexp64 ZnearestE (IZR z) (int_generic z H)) in C.
  rewrite Rlt_bool_true in C.
  - destruct C as (A & B & _). split; assumption.
  - apply small_lt_emax. rewrite bpow53. left. apply abs_IZR_lt. exact H.
Qed.

Lemma Bmult_exact (a b : binary_float prec emax) (x y : Z) :
  B2R a = IZR x -> B2R b = IZR y -> BinarySingleNaN.is_finite a = true -> BinarySingleNaN.is_finite b = true ->
  (Z.abs (x * y) < 2 ^ 53)%Z ->
  B2R (Bmult mode_NE a b) = IZR (x * y) /\ BinarySingleNaN.is_finite (Bmult mode_NE a b) = true.
Proof.
  intros Ha Hb Fa Fb H.
  pose proof (Bmult_correct prec emax Hprec Hmax mode_NE a b) as C.
  rewrite Ha, Hb, <- mult_IZR in C.
  change (round_mode mode_NE) with ZnearestE in C.
  rewrite (round_generic radix2 fexp64 ZnearestE (IZR (x * y)) (int_generic _ H)) in C.
  rewrite Rlt_bool_true in C.
  - destruct C as (A & B & _). rewrite Fa, Fb in B. split; assumption.
  - apply small_lt_emax. rewrite bpow53. left. apply abs_IZR_lt. exact H.
Qed.

Lemma generic_bpow53 : generic_format radix2 fexp64 (bpow radix2 53).
Proof. apply generic_format_bpow. unfold SpecFloat.fexp, SpecFloat.emin. lia. Qed.

Lemma Bdiv_rn (a b : binary_float prec emax) (x y : Z) :
  B2R a = IZR x -> B2R b = IZR y -> BinarySingleNaN.is_finite a = true ->
  (Z.abs x < 2 ^ 53)%Z -> (0 < y)%Z ->
  B2R (Bdiv mode_NE a b) = rnd (IZR x / IZR y) /\ BinarySingleNaN.is_finite (Bdiv mode_NE a b) = true.
Proof.
  intros Ha Hb Fa Hx Hy.
  assert (Hy' : IZR y <> 0) by (apply IZR_neq; lia).
  pose proof (Bdiv_correct prec emax Hprec Hmax mode_NE a b) as C.
  rewrite Hb in C. specialize (C Hy'). rewrite Ha in C.
  change (round_mode mode_NE) with ZnearestE in C.
  rewrite Rlt_bool_true in C.
  - destruct C as (A & B & _). rewrite Fa in B. split; assumption.
  - apply small_lt_emax.
    apply (@abs_round_le_generic radix2 fexp64 valid_exp64 ZnearestE _ (IZR x / IZR y) (bpow radix2 53) generic_bpow53).
    unfold Rdiv. rewrite Rabs_mult, Rabs_inv.
    assert (1 <= Rabs (IZR y)).
    { rewrite <- abs_IZR. apply IZR_le. lia. }
    assert (Rabs (IZR x) < bpow radix2 53) by (rewrite bpow53; apply abs_IZR_lt; exact Hx).
    assert (0 <= Rabs (IZR x)) by apply Rabs_pos.
    assert (0 < / Rabs (IZR y) <= 1).
    { split. apply Rinv_0_lt_compat; lra. rewrite <- Rinv_1. apply Rinv_le_contravar; lra. }
    nra.
Qed.

(* the float computation of measurement.go on whole-number operands *)
Theorem mul_div_correctly_rounded (x ff tf : Z) :
  (0 < ff < 2 ^ 53)%Z -> (0 < tf < 2 ^ 53)%Z -> (Z.abs x * ff < 2 ^ 53)%Z ->
  let r := F64.fdiv (F64.fmul (F64.of_Z x) (F64.of_Z ff)) (F64.of_Z tf) in
  SF2R radix2 r = rnd (IZR (x * ff) / IZR tf) /\ F64.is_finite r = true.
Proof.
  intros Hff Htf Hx r. subst r.
  assert (Hx' : (Z.abs x < 2 ^ 53)%Z).
  { assert (Z.abs x * 1 <= Z.abs x * ff)%Z by (apply Z.mul_le_mono_nonneg_l; lia). lia. }
  assert (Ht' : (Z.abs tf < 2 ^ 53)%Z) by lia.
  destruct (BN_exact x Hx') as [Rx Fx].
  assert (Hf' : (Z.abs ff < 2 ^ 53)%Z) by lia.
  destruct (BN_exact ff Hf') as [Rf Ff].
  destruct (BN_exact tf Ht') as [Rt Ft].
  rewrite !of_Z_BN, fmul_B, fdiv_B.
  assert (Hm : (Z.abs (x * ff) < 2 ^ 53)%Z) by (rewrite Z.abs_mul, (Z.abs_eq ff); lia).
  destruct (Bmult_exact (BN x) (BN ff) x ff Rx Rf Fx Ff Hm) as [Rm Fm].
  destruct (Bdiv_rn (Bmult mode_NE (BN x) (BN ff)) (BN tf) (x * ff) tf Rm Rt Fm Hm (proj1 Htf)) as [Rd Fd].
  rewrite SF2R_B2SF. split; [exact Rd|].
  destruct (Bdiv mode_NE (Bmult mode_NE (BN x) (BN ff)) (BN tf)); simpl in *; try reflexivity; discriminate.
Qed.
Print Assumptions mul_div_correctly_rounded.

(* ---- lifted to the model of measurement.go ---- *)
From Coq Require Import QArith Qreals List String.
From PV Require Import M_Measure M_MeasureF.
Import ListNotations.

Definition whole_factor (u : unit) : Prop := exists k, u_factor u = inject_Z k /\ (0 < k < 2 ^ 53)%Z.
Definition whole_family (ut : unit_type) : Prop :=
  whole_factor (ut_default ut) /\ forall u, In u (ut_units ut) -> whole_factor u.

Lemma uf_whole u k : u_factor u = inject_Z k -> uf u = F64.of_Z k.
Proof. intros H. unfold uf, of_Q_dyadic. rewrite H. reflexivity. Qed.

Lemma Q2R_inject_Z z : Q2R (inject_Z z) = IZR z.
Proof. unfold Q2R, inject_Z. simpl. field. Qed.

Lemma Q2R_exact x kf kt : (0 < kt)%Z ->
  Q2R (inject_Z x * inject_Z kf / inject_Z kt) = (IZR (x * kf) / IZR kt)%R.
Proof.
  intros H. rewrite Q2R_div, Q2R_mult, !Q2R_inject_Z, mult_IZR; [reflexivity|].
  unfold Qeq, inject_Z. simpl. lia.
Qed.

Lemma auto_scale_loop_f_inv us value : forall f0 n0 f n,
  auto_scale_loop_f us value f0 n0 = (f, n) ->
  (f, n) = (f0, n0) \/ exists u, In u us /\ f = uf u /\ n = u_name u.
Proof.
  induction us as [|u r IH]; intros f0 n0 f n H; simpl in H.
  - left. congruence.
  - destruct (_ && _).
    + destruct (IH _ _ _ _ H) as [E|[w [I [A B]]]].
      * right. exists u. inversion E; subst. split; [now left|split; reflexivity].
      * right. exists w. split; [now right|split; assumption].
    + destruct (IH _ _ _ _ H) as [E|[w [I [A B]]]]; [now left|].
      right. exists w. split; [now right|split; assumption].
Qed.

Theorem convert_unit_f_correctly_rounded ut x from to fu kf :
  whole_family ut -> sniff_unit ut from = Some fu -> u_factor fu = inject_Z kf ->
  (0 < kf < 2 ^ 53)%Z -> (Z.abs x * kf < 2 ^ 53)%Z ->
  exists v w, convert_unit_f ut x from to = Some (v, u_name w) /\
              (In w (ut_units ut) \/ w = ut_default ut) /\
              SF2R radix2 v = rnd (Q2R (inject_Z x * u_factor fu / u_factor w)) /\
              F64.is_finite v = true.
Proof.
  intros [WD WU] Hs Hf Hkf Hx.
  assert (target : forall w, (In w (ut_units ut) \/ w = ut_default ut) ->
     exists v, v = fdiv (fmul (F64.of_Z x) (uf fu)) (uf w) /\
       SF2R radix2 v = rnd (Q2R (inject_Z x * u_factor fu / u_factor w)) /\ F64.is_finite v = true).
  { intros w Hw.
    assert (whole_factor w) as [kw [Ew Hkw]] by (destruct Hw as [I| ->]; [apply WU; exact I|exact WD]).
    eexists. split; [reflexivity|].
    rewrite (uf_whole fu kf Hf), (uf_whole w kw Ew), Hf, Ew, Q2R_exact by lia.
    apply mul_div_correctly_rounded; assumption. }
  unfold convert_unit_f. rewrite Hs.
  destruct (is_auto to).
  - unfold auto_scale_f.
    destruct (auto_scale_loop_f (ut_units ut) (fmul (F64.of_Z x) (uf fu)) f_zero "") as [f n] eqn:E.
    destruct (feqb f f_zero) eqn:Z0.
    + destruct (target (ut_default ut) (or_intror eq_refl)) as [v [-> [A B]]].
      exists (fdiv (fmul (F64.of_Z x) (uf fu)) (uf (ut_default ut))), (ut_default ut).
      split; [reflexivity|]. split; [now right|]. split; assumption.
    + destruct (auto_scale_loop_f_inv _ _ _ _ _ _ E) as [E'|[w [I [A B]]]].
      * inversion E'; subst. vm_compute in Z0. discriminate.
      * subst. destruct (target w (or_introl I)) as [v [-> [A B]]].
        exists (fdiv (fmul (F64.of_Z x) (uf fu)) (uf w)), w.
        split; [reflexivity|]. split; [now left|]. split; assumption.
  - destruct (sniff_unit ut to) as [tu|] eqn:T.
    + assert (I : In tu (ut_units ut)).
      { unfold sniff_unit in T. destruct (find _ (ut_units ut)) as [w|] eqn:Fd.
        - inversion T; subst. apply find_some in Fd. exact (proj1 Fd).
        - clear -T. revert T. generalize (if (2 <? Z.of_nat (String.length (to_lower to)))%Z then trim_suffix "s" (to_lower to) else to_lower to).
          induction (ut_units ut) as [|a r IH]; simpl; intros s; [discriminate|].
          destruct (existsb _ _); [intros H; inversion H; now left|intros H; right; eapply IH; exact H]. }
      destruct (target tu (or_introl I)) as [v [-> [A B]]].
      exists (fdiv (fmul (F64.of_Z x) (uf fu)) (uf tu)), tu.
      split; [reflexivity|]. split; [now left|]. split; assumption.
    + destruct (target (ut_default ut) (or_intror eq_refl)) as [v [-> [A B]]].
      exists (fdiv (fmul (F64.of_Z x) (uf fu)) (uf (ut_default ut))), (ut_default ut).
      split; [reflexivity|]. split; [now right|]. split; assumption.
Qed.
Print Assumptions convert_unit_f_correctly_rounded.

(* decidable form, for the unit table regenerated from the source *)
Definition whole_factor_b (u : unit) : bool :=
  (Pos.eqb (Qden (u_factor u)) 1 && (0 <? Qnum (u_factor u))%Z && (Qnum (u_factor u) <? 2 ^ 53)%Z)%bool.
Definition whole_family_b (ut : unit_type) : bool :=
  (whole_factor_b (ut_default ut) && forallb whole_factor_b (ut_units ut))%bool.

Lemma whole_factor_b_sound u : whole_factor_b u = true -> whole_factor u.
Proof.
  unfold whole_factor_b, whole_factor. intros H.
  apply Bool.andb_true_iff in H as [H H3]. apply Bool.andb_true_iff in H as [H1 H2].
  apply Pos.eqb_eq in H1. apply Z.ltb_lt in H2. apply Z.ltb_lt in H3.
  exists (Qnum (u_factor u)). split; [|lia].
  destruct (u_factor u) as [n d]. simpl in *. subst d. reflexivity.
Qed.

Lemma whole_family_b_sound ut : whole_family_b ut = true -> whole_family ut.
Proof.
  unfold whole_family_b, whole_family. intros H. apply Bool.andb_true_iff in H as [H1 H2].
  split; [apply whole_factor_b_sound; exact H1|].
  intros u I. apply whole_factor_b_sound. rewrite forallb_forall in H2. apply H2. exact I.
Qed.
