From PV Require Import M_Elf S_Elf.
